// cv/include/replay.h -- reads the flat counterexample text written by cv/core.py (cex_text)
// key=int | key=i0,i1,... (array / dynamic object bytes) | key=@symbolic
#ifndef CV_REPLAY_H
#define CV_REPLAY_H
#include <cstdio>
#include <cstdlib>
#include <cstring>
#include <map>
#include <string>
#include <vector>
#include <fstream>
#include <sstream>
struct Cex {
    std::map<std::string, std::string> kv;
    bool load(const char *path) {
        std::ifstream f(path);
        if (!f) return false;
        std::string line;
        while (std::getline(f, line)) {
            auto p = line.find('=');
            if (p == std::string::npos) continue;
            kv[line.substr(0, p)] = line.substr(p + 1);
        }
        return true;
    }
    bool has(const std::string &k) const { return kv.count(k) != 0; }
    long long num(const std::string &k, long long dflt = 0) const {
        auto it = kv.find(k);
        if (it == kv.end() || it->second.empty() || it->second[0] == '@') return dflt;
        return strtoll(it->second.c_str(), nullptr, 10);
    }
    unsigned long long unum(const std::string &k, unsigned long long dflt = 0) const {
        auto it = kv.find(k);
        if (it == kv.end() || it->second.empty() || it->second[0] == '@') return dflt;
        return strtoull(it->second.c_str(), nullptr, 10);
    }
    std::vector<long long> arr(const std::string &k) const {
        std::vector<long long> v;
        auto it = kv.find(k);
        if (it == kv.end() || (it->second.size() && it->second[0] == '@')) return v;
        std::stringstream ss(it->second);
        std::string tok;
        while (std::getline(ss, tok, ',')) v.push_back(strtoll(tok.c_str(), nullptr, 10));
        return v;
    }
    // the dynamic object a pointer argument refers to: value looks like @dynamic_object$9 or @&dynamic_object$9[0]...
    std::vector<long long> pointee(const std::string &argkey) const {
        auto it = kv.find(argkey);
        if (it == kv.end()) return {};
        std::string v = it->second;
        auto p = v.find("dynamic_object");
        if (p == std::string::npos) return arr(argkey);
        std::string name = "dynamic_object";
        p += name.size();
        if (p < v.size() && v[p] == '$') ++p;
        while (p < v.size() && isdigit((unsigned char)v[p])) name += v[p++];
        return arr(name);
    }
    std::string bytes(const std::string &argkey) const {
        std::string s;
        for (auto x : pointee(argkey)) s.push_back((char)x);
        return s;
    }
};
#define RP_FAIL(...) do { printf("REPLAY-FAIL: " __VA_ARGS__); printf("\n"); return 1; } while (0)
#define RP_OK(...) do { printf("replay-ok: " __VA_ARGS__); printf("\n"); return 0; } while (0)
#endif
