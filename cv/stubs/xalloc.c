/* cv/stubs/xalloc.c -- assumed contracts for compat/xalloc.cc (trusted; listed in evidence).
 * Real xcalloc/xmalloc abort the process on allocation failure, so they never return NULL. */
#include <stdlib.h>
void *xcalloc(size_t n, size_t sz) { void *p = calloc(n, sz); __CPROVER_assume(p != 0); return p; }
void *xmalloc(size_t sz) { void *p = malloc(sz); __CPROVER_assume(p != 0); return p; }
void free_const(const void *p) { free((void *)p); }
