#!/usr/bin/env python3
"""
cv/core.py -- contract-verification driver for squid (CBMC 6.11 code contracts).

Every run:  extract real text from the repo  ->  goto-cc  ->  safety-check
instrumentation of the user code  ->  link with the sidecar contract file  ->
goto-instrument --dfcc (enforce / replace / loop contracts)  ->  cbmc.
See /verif/DESIGN.md section 3.  Python stdlib only.

Exit codes of a check: 0 held, 1 violation (VIOLATION line printed), 2 undecided.
"""
import concurrent.futures
import hashlib
import json
import os
import re
import resource
import shutil
import subprocess
import sys
import time

VERIF = os.path.dirname(os.path.dirname(os.path.abspath(__file__)))
REPO = os.environ.get("VERIF_REPO", "/repo")
UNITS = os.path.join(VERIF, "units")
BUILD = os.environ.get("VERIF_BUILD", os.path.join(VERIF, "build"))
REPLAYS = os.path.join(VERIF, "replays")
EVIDENCE = os.path.join(VERIF, "evidence")
KNOWN = os.path.join(VERIF, "known_findings.txt")

# --conversion-check is off by default: it also flags explicit, well-defined casts such as (unsigned char)*src
SAFETY_FLAGS = ["--pointer-check", "--bounds-check", "--signed-overflow-check",
                "--pointer-overflow-check", "--div-by-zero-check", "--undefined-shift-check"]
MEM_LIMIT = 32 * 1024 ** 3


class Undecided(Exception):
    """timeout / tool crash / extraction break: never a violation"""


# --------------------------------------------------------------------------
# text extraction
# --------------------------------------------------------------------------

def _skip_noncode(text, i):
    """if text[i] starts a comment / string / char literal, return index after it, else None"""
    c = text[i]
    n = len(text)
    if c == '/' and i + 1 < n:
        if text[i + 1] == '/':
            j = text.find('\n', i)
            return n if j < 0 else j
        if text[i + 1] == '*':
            j = text.find('*/', i + 2)
            return n if j < 0 else j + 2
    if c == '"' or c == "'":
        j = i + 1
        while j < n and text[j] != c:
            if text[j] == '\\':
                j += 1
            j += 1
        return j + 1
    return None


def match_brace(text, open_idx):
    """index just past the brace matching text[open_idx] == '{'"""
    assert text[open_idx] == '{'
    depth = 0
    i = open_idx
    n = len(text)
    while i < n:
        j = _skip_noncode(text, i)
        if j is not None:
            i = j
            continue
        if text[i] == '{':
            depth += 1
        elif text[i] == '}':
            depth -= 1
            if depth == 0:
                return i + 1
        i += 1
    raise Undecided("unbalanced braces in slice")


def func_regex(name):
    # squid style: return type on the previous line(s), name at column 0
    return r'^(?:(?:template\s*<[^\n]*>\s*\n)?[A-Za-z_][^\n;{}()#]*\n)' + re.escape(name) + r'\s*\('


def cut_slice(text, spec, where):
    """spec: {"func": name} | {"begin": regex, ["end": regex], ["body_only": bool], ["occurrence": k]}"""
    if "func" in spec:
        rx = func_regex(spec["func"])
    else:
        rx = spec["begin"]
    ms = list(re.finditer(rx, text, re.M))
    want = spec.get("matches", 1)
    if len(ms) != want:
        raise Undecided("extraction broke: %s: slice start /%s/ matched %d times, expected %d"
                        % (where, rx, len(ms), want))
    m = ms[spec.get("occurrence", 0)]
    if "end" in spec:
        me = re.compile(spec["end"], re.M).search(text, m.end())
        if not me:
            raise Undecided("extraction broke: %s: slice end /%s/ not found" % (where, spec["end"]))
        return text[m.start():me.end() if spec.get("end_inclusive", True) else me.start()]
    # find opening brace of the body: first '{' after the match, skipping non-code
    i = m.end()
    n = len(text)
    while i < n:
        j = _skip_noncode(text, i)
        if j is not None:
            i = j
            continue
        if text[i] == '{':
            break
        if text[i] == ';':
            raise Undecided("extraction broke: %s: declaration, not definition" % where)
        i += 1
    end = match_brace(text, i)
    if spec.get("body_only"):
        return text[i + 1:end - 1]
    return text[m.start():end]


def apply_rewrites(text, rules, where, drops):
    for r in rules:
        rx = re.compile(r["re"], re.M | (re.S if r.get("dotall") else 0))
        text, n = rx.subn(r["sub"], text)
        allowed = r["count"] if isinstance(r["count"], list) else [r["count"]]   # a list = any of these counts is fine
        if n not in allowed:
            raise Undecided("extraction broke: %s: rewrite /%s/ fired %d times, expected %s"
                            % (where, r["re"], n, r["count"]))
        drops.append("%s: /%s/ -> '%s' x%d%s" % (where, r["re"], r["sub"], n,
                                                  (" (" + r["why"] + ")") if r.get("why") else ""))
    return text


# --------------------------------------------------------------------------
# subprocess helpers
# --------------------------------------------------------------------------

def _limits():
    try:
        resource.setrlimit(resource.RLIMIT_AS, (MEM_LIMIT, MEM_LIMIT))
    except Exception:
        pass


def run(cmd, timeout=600, cwd=None, limit=True):
    t0 = time.time()
    try:
        p = subprocess.run(cmd, stdout=subprocess.PIPE, stderr=subprocess.PIPE, cwd=cwd,
                           timeout=timeout, preexec_fn=_limits if limit else None)
    except subprocess.TimeoutExpired:
        raise Undecided("timeout after %ds: %s" % (timeout, " ".join(cmd[:6])))
    return p.returncode, p.stdout.decode("utf-8", "replace"), p.stderr.decode("utf-8", "replace"), time.time() - t0


def must(cmd, what, timeout=600, cwd=None):
    rc, out, err, dt = run(cmd, timeout, cwd)
    txt = out + err
    if rc != 0 or "CONVERSION ERROR" in txt or "PARSING ERROR" in txt or "Invariant check failed" in txt:
        raise Undecided("%s failed (rc=%d): %s\n%s" % (what, rc, " ".join(cmd), txt[-3000:]))
    return txt, dt


# --------------------------------------------------------------------------
# unit
# --------------------------------------------------------------------------

class Unit:
    def __init__(self, name, repo=None):
        self.name = name
        self.dir = os.path.join(UNITS, name)
        self.repo = repo or REPO
        with open(os.path.join(self.dir, "unit.json")) as f:
            self.cfg = json.load(f)
        self.props = self.cfg["property"] if isinstance(self.cfg["property"], list) else [self.cfg["property"]]
        self.bdir = os.path.join(BUILD, name)
        self.drops = []
        self.src_hash = {}
        self._wrap_cache = {}
        self.mutation = None   # selftest: {"file":..., "re":..., "sub":...}

    def subst(self, s):
        return (s.replace("{repo}", self.repo).replace("{unit}", self.dir)
                 .replace("{build}", self.bdir).replace("{verif}", VERIF))

    def read_repo(self, rel):
        p = os.path.join(self.repo, rel)
        try:
            with open(p, encoding="utf-8", errors="surrogateescape") as f:
                text = f.read()
        except OSError as e:
            raise Undecided("extraction broke: cannot read %s: %s" % (p, e))
        self.src_hash[rel] = hashlib.sha256(text.encode("utf-8", "surrogateescape")).hexdigest()[:16]
        m = self.mutation
        if m and m["file"] == rel:
            text, n = re.subn(m["re"], m["sub"], text, flags=re.M | (re.S if m.get("dotall") else 0))
            if n != m.get("count", 1):
                raise Undecided("selftest mutation /%s/ fired %d times" % (m["re"], n))
        return text

    def extract(self):
        """write the extracted + rewritten real text into the build dir"""
        if os.path.isdir(self.bdir):
            shutil.rmtree(self.bdir)
        os.makedirs(self.bdir)
        self.drops = []
        gen = os.path.join(self.dir, "gen.py")
        for ex in self.cfg.get("extract", []):
            text = self.read_repo(ex["src"])
            where = ex["src"]
            pieces = []
            if "slices" in ex:
                for sp in ex["slices"]:
                    w = where + ":" + (sp.get("func") or sp.get("name") or sp["begin"])
                    piece = cut_slice(text, sp, w)
                    piece = apply_rewrites(piece, sp.get("rewrites", []), w, self.drops)
                    pieces.append(sp.get("prefix", "") + piece + sp.get("suffix", "\n"))
                    self.drops.append("%s: slice only (rest of the file is not compiled)" % w)
                text = "\n".join(pieces)
            text = apply_rewrites(text, ex.get("rewrites", []), where, self.drops)
            out = os.path.join(self.bdir, ex["out"])
            os.makedirs(os.path.dirname(out), exist_ok=True)
            with open(out, "w", encoding="utf-8", errors="surrogateescape") as f:
                f.write(text)
        if os.path.exists(gen):
            # unit-specific generator (e.g. template instantiation); same rules: reads the repo, writes build dir
            env = dict(os.environ, VERIF_REPO=self.repo, VERIF_BUILD_DIR=self.bdir, VERIF_UNIT_DIR=self.dir,
                       VERIF_TIER=getattr(self, "tier", "quick"))
            rc, out, err, _ = _run_env([sys.executable, gen], env, self.dir)
            if rc != 0:
                raise Undecided("extraction broke: gen.py: " + (out + err)[-2000:])
            for line in out.splitlines():
                if line.startswith("DROP: "):
                    self.drops.append(line[6:])

    # -- compilation -------------------------------------------------------
    def include_flags(self):
        fl = ["-I", self.bdir, "-I", self.dir]
        sd = os.path.join(self.dir, "stubs")
        if os.path.isdir(sd):
            fl += ["-I", sd]
        for inc in self.cfg.get("includes", []):
            fl += ["-I", self.subst(inc)]
        fl += ["-I", os.path.join(VERIF, "cv", "include")]
        return fl

    def build_wrap(self, defines):
        key = tuple(sorted(defines))
        if key in self._wrap_cache:
            return self._wrap_cache[key]
        idx = len(self._wrap_cache)
        objs = []
        for w in self.cfg.get("wrap", []):
            w = self.subst(w)
            src = os.path.join(self.dir, w)
            if not os.path.exists(src):
                src = os.path.join(self.bdir, w)
            out = os.path.join(self.bdir, "wrap%d_%s.gb" % (idx, os.path.basename(w)))
            cmd = ["goto-cc", "-c", src, "-o", out] + self.include_flags()
            if not self.cfg.get("system_headers", False):
                cmd.append("-nostdinc")
            if w.endswith((".cc", ".cpp")):
                cmd += ["-std=c++17"]
            cmd += [self.subst(x) for x in self.cfg.get("wrap_flags", [])]
            cmd += ["-D" + d for d in defines]
            must(cmd, "goto-cc " + w)
            objs.append(out)
        linked = os.path.join(self.bdir, "wrap%d.gb" % idx)
        if len(objs) == 1:
            shutil.copy(objs[0], linked)
        else:
            must(["goto-cc"] + objs + ["-o", linked], "goto-cc link wrap")
        inst = os.path.join(self.bdir, "wrap%d_i.gb" % idx)
        flags = self.cfg.get("safety_flags", SAFETY_FLAGS)
        if flags:
            must(["goto-instrument"] + flags + [linked, inst], "goto-instrument safety checks")
        else:
            shutil.copy(linked, inst)
        self._wrap_cache[key] = inst
        return inst


def _run_env(cmd, env, cwd):
    p = subprocess.run(cmd, stdout=subprocess.PIPE, stderr=subprocess.PIPE, cwd=cwd, env=env, timeout=600)
    return p.returncode, p.stdout.decode(), p.stderr.decode(), 0.0


# --------------------------------------------------------------------------
# one target = one cbmc problem
# --------------------------------------------------------------------------

class Result:
    def __init__(self, unit, target, variant):
        self.unit = unit.name
        self.target = target["id"]
        self.variant = variant          # "main" | "reach" | "twin:<define>"
        self.obligations = []           # (name, status, description)
        self.failed = []                # dicts with trace
        self.undecided = None           # reason string
        self.cbmc_s = 0.0
        self.wall_s = 0.0
        self.cmd = ""
        self.bounded = (bool(target.get("unwind")) or bool(target.get("bounded"))) and not target.get("complete_unwind", False)
        self.warnings = []
        self.reach = []                 # (desc, reached)
        self.loop_step_obligations = 0


def tier_val(v, tier):
    if isinstance(v, dict) and ("quick" in v or "thorough" in v):
        return v.get(tier, v.get("quick"))
    return v


def run_target(unit, target, tier, variant="main", extra_defines=()):
    res = Result(unit, target, variant)
    t0 = time.time()
    try:
        defines = []
        for k, v in {**unit.cfg.get("defines", {}), **target.get("defines", {})}.items():
            v = tier_val(v, tier)
            defines.append(k if v is None or v is True else "%s=%s" % (k, v))
        defines += list(extra_defines)
        wdefs = [d for d in defines if d.split("=")[0] in unit.cfg.get("wrap_defines", [])] \
            if "wrap_defines" in unit.cfg else list(defines)
        if variant == "reach" or variant.startswith("twin:"):
            # reach / twin defines only affect the contract file
            wdefs = [d for d in wdefs if d not in extra_defines]
        wrap = unit.build_wrap(wdefs)
        tag = re.sub(r'[^A-Za-z0-9_]', '_', target["id"] + "_" + variant)
        cgb = os.path.join(unit.bdir, "c_%s.gb" % tag)
        csrcs = target.get("contract", unit.cfg.get("contract", ["contract.c"]))
        if isinstance(csrcs, str):
            csrcs = [csrcs]
        cobjs = []
        for k, cs in enumerate(csrcs):
            src = os.path.join(unit.dir, cs)
            if not os.path.exists(src):
                src = os.path.join(unit.bdir, cs)
            o = os.path.join(unit.bdir, "c_%s_%d.gb" % (tag, k))
            cmd = ["goto-cc", "-c", src, "-o", o] + unit.include_flags() + ["-D" + d for d in defines]
            if not unit.cfg.get("contract_system_headers", True):
                cmd.append("-nostdinc")
            must(cmd, "goto-cc " + cs)
            cobjs.append(o)
        harness = target["harness"]
        lgb = os.path.join(unit.bdir, "l_%s.gb" % tag)
        must(["goto-cc", wrap] + cobjs + ["--function", harness, "-o", lgb], "goto-cc link")
        igb = os.path.join(unit.bdir, "i_%s.gb" % tag)
        if target.get("pre_unwindset"):
            # constant-bounded inner loops are unwound completely (with unwinding assertions) before loop contracts apply
            pgb = os.path.join(unit.bdir, "p_%s.gb" % tag)
            pc = ["goto-instrument", "--unwinding-assertions"]
            for k, v in target["pre_unwindset"].items():
                pc += ["--unwindset", "%s:%s" % (k, tier_val(v, tier))]
            must(pc + [lgb, pgb], "goto-instrument pre-unwind")
            lgb = pgb
        mode = target.get("mode", unit.cfg.get("mode", "dfcc"))
        enforce = target.get("enforce")
        if mode == "dfcc":
            cmd = ["goto-instrument", "--dfcc", harness]
            if enforce:
                cmd += ["--enforce-contract-rec" if target.get("recursive") else "--enforce-contract", enforce]
            for g in target.get("replace", []):
                cmd += ["--replace-call-with-contract", g]
        else:
            # "harness" mode: the pre/postcondition of the function named in "enforce" is encoded in the harness
            # (assume requires; call the real function; assert ensures); loop contracts are applied by
            # goto-instrument's non-dfcc instrumentation.  No frame (assigns) check in this mode.
            # ghost globals (unit.json "ghosts", default ["g"]) are arbitrary by convention: without a havocking pass they would be
            # zero-initialised and a "ghost index" would only ever look at element 0
            ghosts = target.get("ghosts", unit.cfg.get("ghosts", ["g"]))
            cmd = ["goto-instrument", "--add-library"]
            if ghosts:
                cmd += ["--nondet-static-matching", r".*:(%s)$" % "|".join(re.escape(x) for x in ghosts)]
        nloops = 0
        if target.get("loops"):
            lf0 = os.path.join(unit.dir, target["loops"])
            with open(lf0) as f:
                ltxt = f.read()
            for d in defines:           # {NAME} placeholders take the value of the tier's -D defines
                if "=" in d:
                    ltxt = ltxt.replace("{" + d.split("=")[0] + "}", d.split("=", 1)[1])
            lf = os.path.join(unit.bdir, "loops_%s.json" % tag)
            with open(lf, "w") as f:
                f.write(ltxt)
            lj = json.loads(ltxt)
            if target.get("loops_select"):
                for fn in lj["functions"]:
                    for k in list(fn):
                        if k not in target["loops_select"]:
                            del fn[k]
                lj["functions"] = [fn for fn in lj["functions"] if fn]
                with open(lf, "w") as f:
                    json.dump(lj, f)
            for fn in lj["functions"]:
                for k, v in fn.items():
                    nloops += len(v)
            cmd += ["--loop-contracts-file", lf, "--apply-loop-contracts"]
            if target.get("loops_no_unwind_transform"):
                cmd += ["--loop-contracts-no-unwind"]
        cmd += target.get("instrument_flags", [])
        cmd += [lgb, igb]
        txt, _ = must(cmd, "goto-instrument --dfcc", timeout=900)
        ccmd = ["cbmc", "--no-standard-checks", "--json-ui"]
        if variant == "main":
            ccmd += ["--trace"]
        uw = tier_val(target.get("unwind"), tier)
        if uw:
            ccmd += ["--unwind", str(uw), "--unwinding-assertions"]
        for k, v in (target.get("unwindset") or {}).items():
            ccmd += ["--unwindset", "%s:%s" % (k, tier_val(v, tier))]
        ccmd += [str(tier_val(x, tier)) for x in target.get("cbmc_flags", unit.cfg.get("cbmc_flags", []))]
        ccmd += [igb]
        res.cmd = " ".join(cmd[:-2]) + " && " + " ".join(ccmd[:-1])
        to = tier_val(target.get("timeout", 600), tier)
        rc, out, err, dt = run(ccmd, timeout=to)
        res.cbmc_s = dt
        try:
            data = json.loads(out)
        except Exception:
            raise Undecided("cbmc produced no JSON (rc=%d): %s" % (rc, (out[-1500:] + err[-1500:])))
        results = None
        for el in data:
            if "messageText" in el:
                mt = el["messageText"]
                if "ignoring" in mt or el.get("messageType") == "ERROR":
                    res.warnings.append(mt)
            if "result" in el:
                results = el["result"]
        if results is None:
            raise Undecided("cbmc gave no result section (rc=%d): %s" %
                            (rc, "; ".join(res.warnings)[-1500:] or out[-1500:]))
        for r in results:
            name, st, desc = r["property"], r["status"], r.get("description", "")
            if desc.startswith("reach:"):
                if variant == "reach":
                    res.reach.append((desc, st == "FAILURE"))
                continue
            if variant == "reach":
                continue
            res.obligations.append((name, st, desc))
            if "loop_invariant_step" in name or "loop invariant is preserved" in desc:
                res.loop_step_obligations += 1
            if st == "FAILURE":
                res.failed.append({"name": name, "description": desc,
                                   "location": r.get("sourceLocation", {}),
                                   "trace": r.get("trace", [])})
            elif st != "SUCCESS":
                res.undecided = "obligation %s has status %s" % (name, st)
        if any("ignoring" in w for w in res.warnings):
            res.undecided = "cbmc ignored a quantifier: " + res.warnings[0]
        if variant == "main":
            if not res.obligations:
                res.undecided = "zero obligations generated (vacuous)"
            if nloops and res.loop_step_obligations < nloops:
                res.undecided = ("loop contracts declared for %d loops but only %d loop_invariant_step "
                                 "obligations were generated" % (nloops, res.loop_step_obligations))
            for pat in target.get("expect_obligations", []):
                if not any(re.search(pat, n + ": " + d) for n, _, d in res.obligations):
                    res.undecided = "expected obligation /%s/ was not generated" % pat
    except Undecided as e:
        res.undecided = str(e)
    res.wall_s = time.time() - t0
    return res


# --------------------------------------------------------------------------
# counterexample extraction
# --------------------------------------------------------------------------

def _val(v):
    if not isinstance(v, dict):
        return None
    if "data" in v:
        return v["data"]
    if "elements" in v:
        return [_val(e.get("value")) for e in v["elements"]]
    if "members" in v:
        return {m["name"]: _val(m.get("value")) for m in v["members"]}
    return v.get("name")


def extract_cex(failed, harness, enforce, contract_files=()):
    """harness-local variables, actual parameters of the checked call, dynamic objects (latest values before the call)"""
    trace = failed.get("trace", [])
    cex = {"harness_vars": {}, "args": {}, "objects": {}}
    in_call = False
    seen_call = False
    for s in trace:
        st = s.get("stepType")
        if st == "function-call":
            fn = s.get("function", {}).get("displayName", "")
            if enforce and fn == enforce and not seen_call:
                in_call = True
                seen_call = True
            elif in_call:
                in_call = False
            continue
        if st != "assignment":
            continue
        lhs = s.get("lhs", "")
        val = _val(s.get("value"))
        if s.get("assignmentType") == "actual-parameter":
            if in_call and not lhs.startswith("__"):
                cex["args"][lhs] = val
            continue
        in_call = False
        fn = s.get("sourceLocation", {}).get("function")
        if lhs.startswith("dynamic_object"):
            m = re.match(r'(dynamic_object\$?\d*)(?:\[(\d+)l?\])?(.*)$', lhs)
            if m and m.group(2) is not None and not m.group(3):
                cex["objects"].setdefault(m.group(1), {})[int(m.group(2))] = val
            else:
                cex["objects"].setdefault(lhs, {})["_"] = val
        elif (fn == harness or os.path.basename(s.get("sourceLocation", {}).get("file", "")) in contract_files) \
                and not lhs.startswith("__") and not s.get("hidden"):
            cex["harness_vars"][lhs] = val
    objs = {}
    for k, d in cex["objects"].items():
        if "_" in d and len(d) == 1:
            objs[k] = d["_"]
        else:
            idx = [i for i in d if i != "_"]
            if idx:
                objs[k] = [d.get(i) for i in range(max(idx) + 1)]
    cex["objects"] = objs
    return cex


def _to_int(v):
    if v is None:
        return None
    if isinstance(v, str):
        m = re.match(r"^-?\d+", v)
        if m:
            return int(m.group(0))
        if v.upper() in ("TRUE", "FALSE"):
            return 1 if v.upper() == "TRUE" else 0
        m = re.match(r"^'(.)'$", v)
        if m:
            return ord(m.group(1))
        m = re.match(r"^'\\(.+)'$", v)          # cbmc prints '\r', '\n', '\0', '\x7f', '\177'
        if m:
            e = m.group(1)
            simple = {"n": 10, "r": 13, "t": 9, "0": 0, "a": 7, "b": 8, "f": 12, "v": 11, "\\": 92, "'": 39, '"': 34}
            if e in simple:
                return simple[e]
            try:
                if e[0] == "x":
                    return int(e[1:], 16)
                return int(e, 8)
            except ValueError:
                return None
    if isinstance(v, (int, float)):
        return int(v)
    return None


def cex_text(cex):
    """flat key=value text consumed by cv/include/replay.h"""
    lines = []
    for group in ("harness_vars", "args"):
        for k, v in cex[group].items():
            k = ("arg." if group == "args" else "") + re.sub(r'[^A-Za-z0-9_\[\].]', '_', k)
            if isinstance(v, list):
                ints = [_to_int(x) for x in v]
                if all(x is not None for x in ints):
                    lines.append("%s=%s" % (k, ",".join(str(x) for x in ints)))
            elif isinstance(v, dict):
                for mk, mv in v.items():
                    iv = _to_int(mv)
                    if iv is not None:
                        lines.append("%s.%s=%d" % (k, mk, iv))
            else:
                iv = _to_int(v)
                if iv is not None:
                    lines.append("%s=%d" % (k, iv))
                elif isinstance(v, str):
                    lines.append("%s=@%s" % (k, re.sub(r'\s+', '', v)))
    for k, v in cex["objects"].items():
        if isinstance(v, list):
            ints = [_to_int(x) for x in v]
            if all(x is not None for x in ints):
                lines.append("%s=%s" % (k.replace("$", ""), ",".join(str(x) for x in ints)))
    return "\n".join(lines) + "\n"


# --------------------------------------------------------------------------
# native replay
# --------------------------------------------------------------------------

def native_replay(unit, target, cex_path, mode=None):
    """returns (status, output): status in reproduced / not-reproduced / no-replay / replay-broken"""
    rp = unit.cfg.get("replay")
    if not rp or target.get("replay") is None:
        return "no-replay", ""
    exe = os.path.join(unit.bdir, "replay_" + re.sub(r'\W', '_', rp["src"]))
    if not os.path.exists(exe):
        cmd = [rp.get("cxx", "g++"), "-std=c++17", "-g", "-O0", "-fsanitize=address,undefined",
               "-fno-sanitize-recover=undefined",
               "-I", os.path.join(VERIF, "cv", "include"), "-I", unit.bdir, "-I", unit.dir]
        cmd += [unit.subst(x) for x in rp.get("flags", [])]
        cmd += [os.path.join(unit.dir, rp["src"])]
        cmd += [unit.subst(x) for x in rp.get("link", [])]
        cmd += ["-o", exe]
        rc, out, err, _ = run(cmd, timeout=600, limit=False)
        if rc != 0:
            return "replay-broken", "compile failed: " + (out + err)[-3000:]
    rc, out, err, _ = run([exe, target["replay"], cex_path], timeout=120, limit=False)
    txt = (out + err)[-4000:]
    if rc == 0:
        return "not-reproduced", txt
    return "reproduced", txt


# --------------------------------------------------------------------------
# known findings
# --------------------------------------------------------------------------

def load_known():
    found = []
    if os.path.exists(KNOWN):
        for line in open(KNOWN):
            line = line.strip()
            if not line.startswith("finding:"):
                continue
            kv = dict(re.findall(r'(\w+)=("[^"]*"|\S+)', line))
            kv = {k: v.strip('"') for k, v in kv.items()}
            kv["_line"] = line
            found.append(kv)
    return found


def known_match(known, prop, unit, target, failed):
    for k in known:
        if k.get("property") != prop or k.get("target") != "%s/%s" % (unit, target):
            continue
        if re.search(k.get("obligation", "$^"), failed["name"] + ": " + failed["description"]):
            return k
    return None


# --------------------------------------------------------------------------
# property-level check
# --------------------------------------------------------------------------

def units_for(prop, repo=None):
    out = []
    for name in sorted(os.listdir(UNITS)):
        if os.path.exists(os.path.join(UNITS, name, "unit.json")):
            u = Unit(name, repo)
            if prop in u.props:
                out.append(u)
    return out


def target_serves(t, unit, prop):
    ps = t.get("property")
    if ps is None:
        return True
    return prop in (ps if isinstance(ps, list) else [ps])


def plan(units, prop, tier, only_target=None):
    jobs = []
    for u in units:
        for t in u.cfg["targets"]:
            if not target_serves(t, u, prop):
                continue
            if only_target and t["id"] != only_target:
                continue
            tiers = t.get("tiers", ["quick", "thorough"])
            if tier not in tiers:
                continue
            jobs.append((u, t, "main", ()))
            if t.get("reach", True) and tier in t.get("reach_tiers", ["quick", "thorough"]):
                jobs.append((u, t, "reach", ("REACH",)))
            for tw in t.get("twins", []):
                if tier in tw.get("tiers", ["thorough"]):
                    jobs.append((u, t, "twin:" + tw["define"], (tw["define"],)))
    return jobs


def check_property(prop, tier="quick", repo=None, only_unit=None, only_target=None, jobs_n=None,
                   write_evidence=True, quiet=False):
    t0 = time.time()
    seed = int(os.environ.get("VERIF_SEED", "0") or 0)
    units = [u for u in units_for(prop, repo) if not only_unit or u.name == only_unit]
    for u in units:
        u.bdir = os.path.join(BUILD, prop + "-" + tier, u.name)   # private per property: checks may run concurrently
        u.tier = tier
    if not units:
        print("no unit serves property %s" % prop)
        return 2
    undecided = []
    for u in units:
        try:
            u.extract()
        except Undecided as e:
            undecided.append("%s: %s" % (u.name, e))
    jobs = plan([u for u in units if not any(x.startswith(u.name + ":") for x in undecided)],
                prop, tier, only_target)
    # wraps are built lazily inside run_target; pre-build sequentially per unit to avoid races
    results = []
    workers = jobs_n or int(os.environ.get("VERIF_JOBS", "14"))
    prebuilt = set()
    with concurrent.futures.ThreadPoolExecutor(max_workers=workers) as ex:
        futs = []
        for (u, t, variant, xd) in jobs:
            futs.append(ex.submit(_locked_run, u, t, tier, variant, xd))
        for f in futs:
            results.append(f.result())
    known = load_known()
    pinned_notes = []
    violations = []
    known_hits = []
    n_obl = n_ok = 0
    samples = []
    bounded_units = []
    reach_total = reach_ok = 0
    per_target = []
    umap = {u.name: u for u in units}
    for r in results:
        u = umap[r.unit]
        t = next(x for x in u.cfg["targets"] if x["id"] == r.target)
        label = "%s/%s[%s]" % (r.unit, r.target, r.variant)
        if r.undecided and not (r.variant == "main" and r.failed) and not r.variant.startswith("twin:"):
            undecided.append("%s: %s" % (label, r.undecided))
            continue
        if r.variant == "reach":
            for desc, reached in r.reach:
                reach_total += 1
                if reached:
                    reach_ok += 1
                else:
                    undecided.append("%s: vacuity: '%s' is unreachable under the contract's preconditions"
                                     % (label, desc))
            if not r.reach and t.get("reach_required", True):
                undecided.append("%s: no reach assertions present" % label)
            continue
        if r.variant.startswith("twin:"):
            tw = next(x for x in t["twins"] if x["define"] == r.variant[5:])
            hit = [f for f in r.failed if re.search(tw["expect"], f["name"] + ": " + f["description"])]
            if r.undecided and not hit:
                undecided.append("%s: %s" % (label, r.undecided))
            elif not hit:
                undecided.append("%s: must-fail twin did not fail at /%s/ (the check cannot see what it claims to see)"
                                 % (label, tw["expect"]))
            per_target.append({"target": label, "must_fail_obligation": hit[0]["name"] if hit else None,
                               "cbmc_s": round(r.cbmc_s, 2)})
            continue
        # main
        n_obl += len(r.obligations)
        n_ok += sum(1 for _, st, _ in r.obligations if st == "SUCCESS")
        if len(samples) < 40:
            pc = [o for o in r.obligations if "postcondition" in o[0] or "loop_invariant" in o[0]]
            for o in (pc[:3] + r.obligations[:2]):
                samples.append({"target": label, "obligation": o[0], "status": o[1], "description": o[2]})
        if r.bounded:
            bounded_units.append({"target": label, "unwind": tier_val(t.get("unwind"), tier),
                                  "note": t.get("bound_note", "")})
        per_target.append({"target": label, "obligations": len(r.obligations),
                           "discharged": sum(1 for _, st, _ in r.obligations if st == "SUCCESS"),
                           "cbmc_s": round(r.cbmc_s, 2), "wall_s": round(r.wall_s, 2),
                           "enforced": t.get("enforce"), "replaced": t.get("replace", []),
                           "loop_contracts": t.get("loops"), "bounded": r.bounded,
                           "backend": "cbmc 6.11 SAT (" + _backend(t, u) + ")", "cmd": r.cmd})
        for f in r.failed:
            k = known_match(known, prop, r.unit, r.target, f)
            csrcs = t.get("contract", u.cfg.get("contract", ["contract.c"]))
            cex = extract_cex(f, t["harness"], t.get("enforce"),
                              [os.path.basename(x) for x in ([csrcs] if isinstance(csrcs, str) else csrcs)])
            os.makedirs(REPLAYS, exist_ok=True)
            base = os.path.join(REPLAYS, "%s-%s-%s-%s" % (prop, r.unit, r.target,
                                                         re.sub(r'\W', '_', f["name"])))
            with open(base + ".cex", "w") as fh:
                fh.write(cex_text(cex))
            status, rout = native_replay(u, t, base + ".cex")
            doc = {"property": prop, "unit": r.unit, "target": r.target, "obligation": f["name"],
                   "description": f["description"], "location": f["location"], "counterexample": cex,
                   "cex_text_file": base + ".cex", "native_replay": status, "native_replay_output": rout,
                   "verifier_cmd": r.cmd,
                   "all_failed_obligations_of_target": [x["name"] + ": " + x["description"] for x in r.failed]}
            with open(base + ".json", "w") as fh:
                json.dump(doc, fh, indent=1)
            if k:
                known_hits.append((k, f))
                n_obl -= 1        # reported separately: an obligation explained by a listed finding is neither discharged nor open
                continue
            if ".unwind." in f["name"] or f["description"].startswith("unwinding assertion"):
                # the unwinding bound was too small for this code: a limit of the bounded stand-in, not a violation
                undecided.append("%s: %s: unwinding bound exceeded (%s)" % (label, f["name"], f["description"]))
                continue
            if f["description"].startswith(("stub:", "model:")):
                # a stub met a use it does not model: tool limit, not a property violation
                undecided.append("%s: %s: %s (the assumed model does not cover this use)" % (label, f["name"], f["description"]))
                continue
            if f["description"].startswith("pinned:") and status != "reproduced":
                # code-derived exact-behaviour pin: only a change notice unless the property-level oracle
                # of the native replay fails on the counterexample
                pinned_notes.append("%s: %s: %s (native replay of the property-level oracle: %s)"
                                    % (label, f["name"], f["description"], status))
                continue
            violations.append((base + ".json", status, f, label))
    # ---- report
    printed = set()
    for k, f in known_hits:
        if k["_line"] not in printed:           # one line per listed finding, however many obligations it explains
            printed.add(k["_line"])
            rest = re.sub(r"^finding:\s*property=\S+\s*", "", k["_line"])
            print("KNOWN-FINDING: property=%s %s" % (prop, rest))
    seen = set()
    for path, status, f, label in violations:
        key = label
        if key in seen and len(violations) > 6:
            continue
        seen.add(key)
        tail = "" if status == "reproduced" else " no-failing-input-found"
        print("VIOLATION property=%s replay=%s%s" % (prop, path, tail))
        if not quiet:
            print("  failed obligation: %s [%s] %s (native replay: %s)" % (label, f["name"], f["description"], status))
    for x in undecided:
        print("UNDECIDED %s" % x)
    for x in pinned_notes:
        print("PINNED-BEHAVIOUR-CHANGED (not a violation of the property) %s" % x)
    if not quiet and os.environ.get("VERIF_VERBOSE", "1") != "0":
        for r in results:
            print("  [%s/%s %s] obligations=%d failed=%d cbmc=%.1fs wall=%.1fs%s" %
                  (r.unit, r.target, r.variant, len(r.obligations), len(r.failed), r.cbmc_s, r.wall_s,
                   " bounded" if r.bounded else ""))
    wall = time.time() - t0
    if write_evidence:
        write_evidence_file(prop, tier, seed, units, per_target, n_obl, n_ok, samples, bounded_units,
                            reach_total, reach_ok, undecided + ["pinned-behaviour-changed: " + x for x in pinned_notes],
                            violations, known_hits, wall)
    if violations:
        return 1
    if undecided:
        return 2
    if not quiet:
        print("OK property=%s tier=%s obligations=%d discharged=%d targets=%d reach=%d/%d wall=%.1fs"
              % (prop, tier, n_obl, n_ok, len(per_target), reach_ok, reach_total, wall))
    return 0


_unit_locks = {}


def _locked_run(u, t, tier, variant, xd):
    import threading
    lock = _unit_locks.setdefault(u.name, threading.Lock())
    # wrap build is cached per define-set; serialise the first build per unit
    with lock:
        try:
            defines = []
            for k, v in {**u.cfg.get("defines", {}), **t.get("defines", {})}.items():
                v = tier_val(v, tier)
                defines.append(k if v is None or v is True else "%s=%s" % (k, v))
            wdefs = [d for d in defines if d.split("=")[0] in u.cfg.get("wrap_defines", [])] \
                if "wrap_defines" in u.cfg else list(defines)
            u.build_wrap(wdefs)
        except Undecided:
            pass
    return run_target(u, t, tier, variant, xd)


def _backend(t, u):
    fl = t.get("cbmc_flags", u.cfg.get("cbmc_flags", []))
    for i, x in enumerate(fl):
        if x == "--sat-solver" and i + 1 < len(fl):
            return str(fl[i + 1])
        if x == "--external-sat-solver" and i + 1 < len(fl):
            return str(fl[i + 1])
    return "minisat2"


def scan_assumes(units):
    found = []
    for u in units:
        for root, _, files in os.walk(u.dir):
            for fn in files:
                if fn.endswith((".c", ".cc", ".h", ".inc")):
                    p = os.path.join(root, fn)
                    try:
                        for i, line in enumerate(open(p, errors="replace"), 1):
                            if "__CPROVER_assume" in line and not line.lstrip().startswith("//"):
                                found.append("%s:%d: %s" % (os.path.relpath(p, VERIF), i, line.strip()[:140]))
                    except OSError:
                        pass
    return found


def write_evidence_file(prop, tier, seed, units, per_target, n_obl, n_ok, samples, bounded_units,
                        reach_total, reach_ok, undecided, violations, known_hits, wall):
    os.makedirs(EVIDENCE, exist_ok=True)
    trusted, assumptions, functions, drops, unclaimed = [], [], [], [], []
    for u in units:
        trusted += ["%s: %s" % (u.name, x) for x in u.cfg.get("trusted", [])]
        assumptions += ["%s: %s" % (u.name, x) for x in u.cfg.get("assumptions", [])]
        functions += ["%s (%s)" % (x, u.name) for x in u.cfg.get("functions", [])]
        drops += u.drops
        unclaimed += u.cfg.get("not_covered", [])
    assumes = scan_assumes(units)
    assumptions += [
        "sequential execution; one call at a time (contracts are per call)",
        "machine integers are bit-precise as on this target (LP64, two's complement), not mathematical",
        "cbmc 6.11 / goto-instrument --dfcc are trusted; SAT back end as named per target",
        "termination is proved only where a loop carries a decreases clause or is fully unwound",
    ]
    assumptions += ["__CPROVER_assume in machinery (stub contract or harness domain): " + a for a in assumes]
    assumptions += ["NOT COVERED: " + x for x in unclaimed]
    level = "proof"
    try:       # a property whose every target is a bounded stand-in is registered with category "other" in its claim file
        with open(os.path.join(VERIF, "tools", "claims.d", prop + ".json")) as f:
            level = json.load(f).get("category", "proof")
    except (OSError, ValueError):
        pass
    ev = {
        "property_id": prop, "tier": tier, "seed": seed, "level": level,
        "coverage": {
            "obligations": n_obl, "discharged": n_ok,
            "checker_cmd": "cd /verif && ./check %s --tier %s   # per target: %s" %
                           (prop, tier, (per_target[0].get("cmd", "") if per_target else "")),
            "trusted_base": trusted,
            "samples": samples[:40],
            "functions_under_contract": functions,
            "targets": per_target,
            "bounded_units": bounded_units,
            "extraction_drops": drops,
            "reachability_checks": {"total": reach_total, "reached": reach_ok},
            "source_hashes": {u.name: u.src_hash for u in units},
            "undecided": undecided,
            "known_findings_hit": sorted(set(k["_line"] for k, _ in known_hits)),
            "obligations_failed_by_known_findings": [f["name"] + ": " + f["description"] for _, f in known_hits],
            "solver_time_s": round(sum(t.get("cbmc_s", 0) for t in per_target), 2),
            "explanation": "obligations = safety checks + contract pre/postconditions + loop-invariant "
                           "base/step/decreases + assigns-clause checks generated by goto-instrument on the "
                           "text extracted from /repo on this run; bounded_units lists targets that rely on "
                           "--unwind (bounded, not counted as proved).",
        },
        "assumptions": assumptions,
        "wall_s": round(wall, 2),
        "violations": len(violations),
    }
    with open(os.path.join(EVIDENCE, prop + ".json"), "w") as f:
        json.dump(ev, f, indent=1)


# --------------------------------------------------------------------------
# self-test (mutants of the real text, applied to the scratch copy only)
# --------------------------------------------------------------------------

def selftest(unit_name, repo=None, only=None):
    u0 = Unit(unit_name, repo)
    bad = 0
    for m in u0.cfg.get("selftest", []):
        if only and m["name"] != only:
            continue
        u = Unit(unit_name, repo)
        u.bdir = os.path.join(BUILD, unit_name + "__selftest")
        u.mutation = m
        try:
            u.extract()
            t = next(x for x in u.cfg["targets"] if x["id"] == m["target"])
            r = run_target(u, t, m.get("tier", "quick"), "main", ())
            hit = [f for f in r.failed if re.search(m["expect"], f["name"] + ": " + f["description"])]
            if hit:
                print("selftest %s/%s: caught at %s (%.1fs)" % (unit_name, m["name"], hit[0]["name"], r.wall_s))
            else:
                bad += 1
                print("selftest %s/%s: NOT caught (failed=%s undecided=%s)" %
                      (unit_name, m["name"], [f["name"] for f in r.failed][:5], r.undecided))
        except Undecided as e:
            bad += 1
            print("selftest %s/%s: undecided: %s" % (unit_name, m["name"], e))
        finally:
            shutil.rmtree(u.bdir, ignore_errors=True)
    return 0 if bad == 0 else 2
