#!/bin/sh
# tools/verify_seed.sh <seed-dir>   -- confirm a seeded change myself in a scratch worktree:
#   demo passes without the patch, squid builds and `make -k check` passes with it, demo fails with it.
# writes <seed-dir>/verified.txt
d="$1"; id=$(basename "$d")
R=/tmp/seedverify-$id-$$
/verif/tools/mk_scratch.sh "$R" >/dev/null || exit 3
trap 'git -C /repo worktree remove --force "$R" >/dev/null 2>&1; rm -rf "$R"' EXIT INT TERM
out="$d/verified.txt"; : > "$out"
( cd "$d/demo" && bash ./run.sh "$R" ) > "$d/demo_without.log" 2>&1; rc0=$?
echo "demo without patch: exit $rc0" >> "$out"
git -C "$R" apply "$d/patch.diff" || { echo "patch does not apply" >> "$out"; cat "$out"; exit 3; }
( cd "$R" && make -k -j8 check ) > "$d/make_check_with_patch.log" 2>&1; rcm=$?
pass=$(grep -c '^PASS:' "$d/make_check_with_patch.log"); fail=$(grep -c '^FAIL:\|^ERROR:' "$d/make_check_with_patch.log")
echo "make -k check with patch: exit $rcm PASS lines $pass FAIL/ERROR lines $fail" >> "$out"
( cd "$d/demo" && bash ./run.sh "$R" ) > "$d/demo_with.log" 2>&1; rc1=$?
echo "demo with patch: exit $rc1" >> "$out"
if [ $rc0 -eq 0 ] && [ $rc1 -ne 0 ] && [ $rcm -eq 0 ] && [ "$fail" = "0" ]; then echo "VERIFIED" >> "$out"; else echo "NOT-VERIFIED" >> "$out"; fi
gzip -f "$d/make_check_with_patch.log"
cat "$out"
