#!/bin/sh
# tools/run_seeded.sh <seed-id> [tier]  -- apply /verif/seeded/<id>/patch.diff to /repo, run the property's check, restore /repo.
# prints the check output; exit code = the check's exit code (1 expected: the seeded change must be detected)
id="$1"; tier="${2:-quick}"
d=/verif/seeded/$id
prop=$(python3 -c "import json;print(json.load(open('$d/meta.json'))['property'])")
if [ -n "$(git -C /repo status --porcelain --untracked-files=no)" ]; then echo "/repo has local modifications; refusing"; exit 3; fi
git -C /repo apply "$d/patch.diff" || { echo "patch does not apply"; exit 3; }
trap 'git -C /repo checkout -- . ' EXIT INT TERM
cd /verif && ./check "$prop" --tier "$tier" --no-evidence
rc=$?
echo "seeded $id property=$prop tier=$tier exit=$rc"
exit $rc
