#!/bin/sh
# tools/run_seeded.sh <seed-id> [tier] [--in-repo]
# Runs the property's check against squid WITH the seeded change /verif/seeded/<id>/patch.diff applied.
# default: in a throw-away scratch worktree (so concurrent work on /repo is not disturbed);
# --in-repo: apply to /repo itself, run, and undo straight afterwards.
# exit code = the check's exit code (1 expected: the seeded change must be detected)
id="$1"; tier="${2:-quick}"; where="$3"
d=/verif/seeded/$id
prop=$(python3 -c "import json;print(json.load(open('$d/meta.json'))['property'])")
if [ "$where" = "--in-repo" ]; then
  if [ -n "$(git -C /repo status --porcelain --untracked-files=no)" ]; then echo "/repo has local modifications; refusing"; exit 3; fi
  git -C /repo apply "$d/patch.diff" || { echo "patch does not apply"; exit 3; }
  trap 'git -C /repo checkout -- . ' EXIT INT TERM
  R=/repo
else
  R=/tmp/seedrun-$id-$$
  /verif/tools/mk_scratch.sh "$R" >/dev/null || exit 3
  trap 'git -C /repo worktree remove --force "$R" >/dev/null 2>&1; rm -rf "$R"' EXIT INT TERM
  git -C "$R" apply "$d/patch.diff" || { echo "patch does not apply"; exit 3; }
fi
cd /verif && VERIF_BUILD=/verif/build/seeded-$id ./check "$prop" --tier "$tier" --no-evidence --repo "$R"
rc=$?
rm -rf /verif/build/seeded-$id
echo "seeded $id property=$prop tier=$tier exit=$rc"
exit $rc
