#!/usr/bin/env python3
"""setup: nothing to build (python stdlib + pre-installed cbmc); verify the tools are present."""
import shutil, subprocess, sys
ok = True
for t in ("cbmc", "goto-cc", "goto-instrument", "g++"):
    p = shutil.which(t)
    print("%-16s %s" % (t, p))
    ok = ok and bool(p)
print(subprocess.run(["cbmc", "--version"], stdout=subprocess.PIPE).stdout.decode().strip())
sys.exit(0 if ok else 1)
