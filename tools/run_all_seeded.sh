#!/bin/sh
# tools/run_all_seeded.sh : run every seeded change through its property's quick check (scratch worktrees); one line per seed
cd /verif
for d in seeded/*/; do
  s=$(basename $d)
  [ -f "$d/patch.diff" ] || continue
  tools/run_seeded.sh $s quick > /tmp/seeded_$s.log 2>&1; rc=$?
  echo "$s exit=$rc $(grep -c '^VIOLATION' /tmp/seeded_$s.log) violations $(grep -c '^UNDECIDED' /tmp/seeded_$s.log) undecided"
done
