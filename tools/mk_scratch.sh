#!/bin/sh
# tools/mk_scratch.sh <dir> : scratch git worktree of /repo with /repo's build output copied in (incremental make works there)
set -e
d="$1"
git -C /repo worktree add --detach "$d" HEAD >/dev/null 2>&1
rsync -a --exclude .git /repo/ "$d"/
echo "scratch worktree at $d (remove with: git -C /repo worktree remove --force $d)"
