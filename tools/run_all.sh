#!/bin/sh
# tools/run_all.sh [tier] : run every claimed check once, print exit code and wall time per property
tier="${1:-quick}"
cd /verif
for p in $(python3 -c "import json;print(' '.join(c['property_id'] for c in json.load(open('MANIFEST.json'))['checks']))"); do
  s=$(date +%s)
  ./check $p --tier $tier > /tmp/run_all_$p.log 2>&1; rc=$?
  e=$(date +%s)
  echo "$p exit=$rc wall=$((e-s))s $(grep -c '^VIOLATION' /tmp/run_all_$p.log) violations $(grep -c '^UNDECIDED' /tmp/run_all_$p.log) undecided $(grep -c '^KNOWN-FINDING' /tmp/run_all_$p.log) known"
done
