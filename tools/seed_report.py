#!/usr/bin/env python3
"""writes /verif/seeded/RESULTS.md from seeded/*/meta.json, verified.txt and seeded/detection.json"""
import json, os
V = os.path.dirname(os.path.dirname(os.path.abspath(__file__)))
S = os.path.join(V, "seeded")
det = json.load(open(os.path.join(S, "detection.json")))
out = ["# Seeded changes (written by independent sub-agents that saw only the property text) and what the checks do with them", "",
       "Each directory has patch.diff, demo/ (fails with the patch, passes without), meta.json, verified.txt (my own confirmation:",
       "demo passes without the patch, `make -k check` passes with it, demo fails with it).  Run one with `tools/run_seeded.sh <id>`,",
       "all with `tools/run_all_seeded.sh`.  Every patch.diff applies to /repo's HEAD (the pinned commit plus the 14 fix: commits);",
       "C27-1 was re-made after a fix touched its line (original kept as patch.orig-base.diff).",
       "seeded/regression.log = the last `tools/run_all_seeded.sh` run on the final tree: every seed exits 1.", "",
       "| seed | property | what it needs to manifest | confirmed | quick check | caught by | checks strengthened because of it |", "|---|---|---|---|---|---|---|"]
for d in sorted(os.listdir(S)):
    p = os.path.join(S, d, "meta.json")
    if not os.path.exists(p):
        continue
    m = json.load(open(p))
    v = ""
    vp = os.path.join(S, d, "verified.txt")
    if os.path.exists(vp):
        v = open(vp).read().strip().split("\n")[-1]
    x = det.get(d, {})
    needs = str(m.get("needs", "")).replace("|", "/").replace("\n", " ")
    out.append("| %s | %s | %s | %s | %s | %s | %s |" % (d, m.get("property"), needs[:400], v, x.get("quick", "?"),
               x.get("caught_by", "?").replace("|", "/"), x.get("strengthened", "").replace("|", "/")))
open(os.path.join(S, "RESULTS.md"), "w").write("\n".join(out) + "\n")
print("\n".join(out[-20:])[:3000])
