#!/bin/sh
# removes goto-cc temp dirs older than 30 minutes
find /tmp -maxdepth 1 -name 'goto-cc-*' -mmin +30 -exec rm -rf {} + 2>/dev/null
exit 0
