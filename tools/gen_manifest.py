#!/usr/bin/env python3
"""Regenerates /verif/MANIFEST.json from tools/claims.json (claimed properties) and tools/not_applicable.json."""
import json, os
V = os.path.dirname(os.path.dirname(os.path.abspath(__file__)))
claims = {}
for fn in sorted(os.listdir(os.path.join(V, "tools", "claims.d"))):
    if fn.endswith(".json"):
        claims[fn[:-5]] = json.load(open(os.path.join(V, "tools", "claims.d", fn)))
na = json.load(open(os.path.join(V, "tools", "not_applicable.json")))
props = [json.loads(l)["id"] for l in open(os.path.join(V, "properties.jsonl"))]
checks = []
for pid in props:
    if pid in claims:
        c = claims[pid]
        checks.append({
            "property_id": pid,
            "quick_cmd": "./check %s --tier quick" % pid,
            "thorough_cmd": "./check %s --tier thorough" % pid,
            "evidence_file": "/verif/evidence/%s.json" % pid,
            "replay_cmd_template": "./check --replay {path}",
            "engine": "cv",
            "level_claimed": {"category": c.get("category", "proof"), "text": c["text"], "design_ref": c.get("design_ref", "DESIGN.md section 5")},
            "level_note": c["note"],
            "technique": c["technique"],
        })
not_app = []
for pid in props:
    if pid not in claims:
        not_app.append({"property_id": pid, "reason": na.get(pid, "planned in DESIGN.md section 5; its unit is not built yet, so nothing is claimed")})
m = {
    "version": 1,
    "setup_cmd": "python3 tools/setup_check.py",
    "hooks": {"guard": "SQUID_VERIF", "enable": "no hooks: contracts are sidecar files under /verif/units; /repo is read, never patched",
              "baseline_off_cmd": "cd /repo && make -k check", "source_commits": [], "add_only": True},
    "engines": [{"name": "cv", "path": "/verif/cv/core.py", "serves_properties": sorted(claims),
                 "kind_free_text": "CBMC 6.11 code contracts: goto-cc on text extracted from /repo on every run, goto-instrument (--dfcc enforce/replace or harness-encoded pre/post, loop contracts), cbmc SAT back end; native replay of counterexamples"}],
    "checks": checks,
    "notes": "exit 0 held / 1 violation (VIOLATION line) / 2 undecided (tool limit, timeout, extraction break). See DESIGN.md.",
    "not_applicable": not_app,
}
json.dump(m, open(os.path.join(V, "MANIFEST.json"), "w"), indent=1)
print("claimed", len(checks), "not_applicable", len(not_app))
