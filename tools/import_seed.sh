#!/bin/sh
# tools/import_seed.sh Cnn k : copy /tmp/seedout-Cnn into seeded/Cnn-k, drop the scratch worktree, start verification in the background
p=$1; k=${2:-1}
mkdir -p /verif/seeded/$p-$k && cp -r /tmp/seedout-$p/patch.diff /tmp/seedout-$p/demo /tmp/seedout-$p/meta.json /verif/seeded/$p-$k/
git -C /repo worktree remove --force /tmp/seed-$p >/dev/null 2>&1
(/verif/tools/verify_seed.sh /verif/seeded/$p-$k >/dev/null 2>&1 &)
echo imported $p-$k
