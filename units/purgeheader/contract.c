/* Harness-encoded contracts for the purgeheader unit (C20): the same-host test behind "the same applies to a same-host URL named
 * in that response's Location or Content-Location".
 *
 * sameUrlHosts(url1, url2) (src/clients/Client.cc), as the code defines it:
 *   - false unless both strings contain a ':' (the FIRST one counts);
 *   - after the colon, the longest run of positions where BOTH strings have '/' is skipped (the same number in both);
 *   - false when url1 ends there;
 *   - then bytes are compared, case-SENSITIVELY, while equal and url1's byte is neither NUL nor '/';
 *   - true iff the bytes at the stop position are equal (both '/' or both NUL).
 * Property-level consequence (what C20 needs): for two URLs of the form  scheme "://" authority [ "/" ... ]  the answer is true only
 * when the authority strings (userinfo, host, port: everything up to the next '/' or the end) are byte-identical -- so never for
 * two such URLs whose hosts differ, not even in letter case.  It reads no byte outside the two strings. */
#include <stddef.h>

#ifndef N
#define N 16          /* url1 and url2 are NUL-terminated strings shorter than N */
#endif

#ifndef CV_NATIVE
_Bool sameUrlHosts(const char *url1, const char *url2);
#endif

size_t g;             /* ghost index: any position inside url1's authority */
/* ghosts read by the loop invariants; all assigned by the harness before the call */
const char *gu1, *gu2;    /* the strings as passed */
long gL1, gL2;            /* their lengths: gu[gL] == 0 and no NUL before */
long gc1, gc2;            /* index of the first ':' (-1: none) */
long gk;                  /* number of positions after the colons where both have '/' */
long gm;                  /* length of the compared run */

/* ---- the code's definition, re-expressed over indexes ---- */
static long spec_colon(const char *u, long L) { for (long i = 0; i < N; i++) if (i < L && u[i] == ':') return i; return -1; }
static long spec_slashes(const char *u1, long L1, long c1, const char *u2, long L2, long c2)
{
    long k = 0;
    for (long i = 1; i < N; i++) { if (c1 + i <= L1 && c2 + i <= L2 && k == i - 1 && u1[c1 + i] == '/' && u2[c2 + i] == '/') k = i; }
    return k;
}
static long spec_run(const char *u1, long L1, long p1, const char *u2, long L2, long p2)
{
    long m = 0;
    for (long i = 0; i < N; i++) { if (p1 + i <= L1 && p2 + i <= L2 && m == i && u1[p1 + i] != 0 && u1[p1 + i] != '/' && u1[p1 + i] == u2[p2 + i]) m = i + 1; }
    return m;
}
static int spec_same(const char *u1, long L1, const char *u2, long L2)
{
    long c1 = spec_colon(u1, L1), c2 = spec_colon(u2, L2);
    if (c1 < 0 || c2 < 0) return 0;
    long k = spec_slashes(u1, L1, c1, u2, L2, c2);
    long p1 = c1 + 1 + k, p2 = c2 + 1 + k;
    if (u1[p1] == 0) return 0;
    long m = spec_run(u1, L1, p1, u2, L2, p2);
    return u1[p1 + m] == u2[p2 + m];
}
/* scheme "://" form: the first ':' is followed by exactly... at least two '/' */
static int has_authority(const char *u, long L, long c) { return c >= 0 && c + 2 <= L && u[c + 1] == '/' && u[c + 2] == '/'; }
/* length of the authority that starts at index a: up to the next '/' or the end */
static long auth_len(const char *u, long L, long a) { long n = 0; for (long i = 0; i < N; i++) if (a + i < L && n == i && u[a + i] != '/') n = i + 1; return n; }

#ifndef CV_NATIVE
char hs[N], ds[N];    /* copies of the inputs for the counterexample trace (native replay reads them) */
static void trace_inputs(const char *a, long la, const char *b, long lb)
{
    for (int ti = 0; ti < N; ti++) { hs[ti] = ti <= la ? a[ti] : 0; ds[ti] = ti <= lb ? b[ti] : 0; }
}
/* a string of length L < N placed at the END of an N-byte object (terminator = last byte of the object, no NUL before it):
 * any read past the terminator is an out-of-bounds read */
static char *mk_string(char *buf, long L)
{
    char *s = buf + (N - 1 - L);
    for (long i = 0; i < N; i++) if (i < L) __CPROVER_assume(s[i] != 0);
    s[L] = 0;
    return s;
}

#ifdef T_SAME
void h_same(void)
{
    long L1, L2;
    __CPROVER_assume(0 <= L1 && L1 < N && 0 <= L2 && L2 < N);
    char buf1[N], buf2[N];
    char *a = mk_string(buf1, L1), *b = mk_string(buf2, L2);
    gu1 = a; gu2 = b; gL1 = L1; gL2 = L2;
    gc1 = spec_colon(a, L1); gc2 = spec_colon(b, L2);
    gk = (gc1 >= 0 && gc2 >= 0) ? spec_slashes(a, L1, gc1, b, L2, gc2) : 0;
    gm = (gc1 >= 0 && gc2 >= 0) ? spec_run(a, L1, gc1 + 1 + gk, b, L2, gc2 + 1 + gk) : 0;

    _Bool r = sameUrlHosts(a, b);

    trace_inputs(a, L1, b, L2);
    const int want = spec_same(a, L1, b, L2);
#ifdef TWIN_SAME
    __CPROVER_assert(!r || !(has_authority(a, L1, gc1) && has_authority(b, L2, gc2)), "ensures: TWIN (negated) true is never answered for two scheme://authority URLs");
#endif
    __CPROVER_assert((r != 0) == (want != 0), "ensures: the answer is exactly the code's definition (first colons, common slash run, case-sensitive run up to '/' or NUL, equal stop bytes)");
    /* property level: scheme://authority URLs are "same host" only with byte-identical authorities */
    if (r && has_authority(a, L1, gc1)) {
        const long a1 = gc1 + 3, a2 = gc2 + 3;
        __CPROVER_assert(has_authority(b, L2, gc2), "ensures: true for a scheme://authority url1 => url2 has the scheme://authority form too");
        const long n1 = auth_len(a, L1, a1);
        __CPROVER_assert(auth_len(b, L2, a2) == n1, "ensures: true => the two authorities have the same length");
        __CPROVER_assert(!(g < (size_t)n1) || a[a1 + g] == b[a2 + g], "ensures: true => the authorities (userinfo, host, port) are byte-identical: never two URLs whose hosts differ, even in letter case");
    }
    __CPROVER_assert(!r || (gc1 >= 0 && gc2 >= 0 && a[gc1 + 1 + gk] != 0), "ensures: false when a colon is missing or url1 has nothing after its scheme slashes");
    __CPROVER_assert(a[L1] == 0 && b[L2] == 0, "ensures: inputs not written (terminators)");
#ifdef REACH
    __CPROVER_assert(!(r && has_authority(a, L1, gc1) && L1 > gc1 + 4 && a[L1 - 1] != b[L2 - 1]), "reach: same authority, different paths");
    __CPROVER_assert(!(!r && has_authority(a, L1, gc1) && has_authority(b, L2, gc2) && gm >= 2), "reach: hosts with a common prefix, different");
    __CPROVER_assert(!(!r && gc1 < 0), "reach: no colon in url1");
    __CPROVER_assert(!(!r && gc1 >= 0 && gc2 >= 0 && a[gc1 + 1 + gk] == 0), "reach: nothing after the scheme slashes");
    __CPROVER_assert(!(r && a[gc1 + 1 + gk + gm] == 0 && gm >= 2), "reach: true at the end of both strings");
    __CPROVER_assert(!(r && gk == 0), "reach: true without any slash after the colon (authority-form / opaque URIs: a:x vs b:x)");
    __CPROVER_assert(!(L1 == N - 1 && L2 == N - 1 && r), "reach: full-length strings");
#endif
}
#endif

/* ---------------- target "url_is_relative": urlIsRelative() (src/anyp/Uri.cc), RFC 3986 section 4.2 ---------------- */
#ifdef T_REL
_Bool urlIsRelative(const char *url);
void h_rel(void)
{
    long L; int null_url;
    __CPROVER_assume(0 <= L && L < N);
    char buf[N];
    char *u = mk_string(buf, L);
    _Bool r = urlIsRelative(null_url ? (const char *)0 : u);
    trace_inputs(u, L, u, L);
    /* spec: index of the first ':' before any '/', '?' or '#' (-1: none) */
    long colon = -1; int stop = 0;
    for (long i = 0; i < N; i++) {
        if (i < L && !stop) {
            if (u[i] == '/' || u[i] == '?' || u[i] == '#') stop = 1;
            else if (u[i] == ':') { colon = i; stop = 1; }
        }
    }
    __CPROVER_assert(!null_url || !r, "ensures: no URL is not a relative reference");
#ifdef TWIN_REL
    __CPROVER_assert(null_url || r != (colon < 0), "ensures: TWIN (negated) relative iff no colon in the first segment");
#else
    __CPROVER_assert(null_url || r == (colon < 0), "ensures: relative iff the first path segment (up to '/', '?', '#' or the end) contains no ':' -- i.e. there is no scheme");
#endif
    __CPROVER_assert(null_url || !(L == 0 || u[0] == '/') || r, "ensures: the empty reference and everything starting with '/' (absolute-path and //network-path references) are relative");
    __CPROVER_assert(u[L] == 0, "ensures: input not written (terminator)");
#ifdef REACH
    __CPROVER_assert(!(r && L == 0), "reach: path-empty");
    __CPROVER_assert(!(r && L > 2 && u[0] == '/' && u[1] == '/'), "reach: network-path reference");
    __CPROVER_assert(!(!r && !null_url && colon == 4), "reach: scheme of four letters");
    __CPROVER_assert(!(r && L == N - 1 && u[3] == '?' && u[5] == ':'), "reach: colon after the query mark does not count");
    __CPROVER_assert(!(null_url), "reach: nullptr");
#endif
}
#endif

/* ---------------- target "by_header": purgeEntriesByHeader() (src/clients/Client.cc) over stub classes ---------------- */
#ifdef T_PBH
#include "methodtype_enum.inc"     /* REAL: METHOD_CONNECT ... */
#include "prototype_enum.inc"      /* REAL: PROTO_URN ... */
extern void pbh_purgeEntriesByHeader(int method, int scheme, int host, int have_hdr, char first, int is_relative, int same, int which_hdr);
extern char g_abs_text[2], g_req_url[2], g_hdr_text[2];
extern int g_abs_calls, g_abs_host, g_abs_scheme, g_abs_path_tag, g_getstr_calls, g_getstr_id, g_rel_calls, g_same_calls, g_purge_calls;
extern const char *g_abs_path_src, *g_rel_arg, *g_same_a, *g_same_b, *g_purge_url;
extern const void *g_purge_req, *g_req_obj;
extern int g_req_host_after, g_req_scheme_after, g_req_path_tag_after;
void h_pbh(void)
{
    int method, scheme, host, have_hdr, is_relative, same, which_hdr;
    char first;
    __CPROVER_assume(method >= METHOD_NONE && method <= METHOD_ENUM_END);
    __CPROVER_assume(scheme >= PROTO_NONE && scheme <= PROTO_MAX);
    __CPROVER_assume(which_hdr >= 0 && which_hdr <= 2);
    __CPROVER_assume(have_hdr == 0 || have_hdr == 1);
    __CPROVER_assume(is_relative == 0 || is_relative == 1);
    __CPROVER_assume(same == 0 || same == 1);
    /* urlIsRelative's verified contract: everything that is empty or starts with '/' is relative */
    __CPROVER_assume(!(first == 0 || first == '/') || is_relative);

    pbh_purgeEntriesByHeader(method, scheme, host, have_hdr, first, is_relative, same, which_hdr);

    const int purged_header_text = g_purge_calls == 1 && g_purge_url == g_hdr_text;
    const int purged_request_based = g_purge_calls == 1 && g_purge_url == g_abs_text;
    const int plain_relative = have_hdr && is_relative && method != METHOD_CONNECT && scheme != PROTO_URN;

    __CPROVER_assert(g_getstr_calls == 1 && g_getstr_id == which_hdr, "ensures: the header asked for is the one named by the caller (LOCATION / CONTENT_LOCATION)");
    __CPROVER_assert(g_purge_calls <= 1 && (g_purge_calls == 0 || g_purge_req == g_req_obj), "ensures: at most one purgeEntriesByUrl call, for this request");
    __CPROVER_assert(have_hdr || g_purge_calls == 0, "ensures: no such header => nothing is purged");
    __CPROVER_assert(g_purge_calls == 0 || purged_header_text || purged_request_based, "ensures: what is purged is the header's URL itself or a URL rendered from a request-URL object");
    /* C20: a same-host absolute URL named in the header IS purged, another host's never */
#ifdef TWIN_PBH
    __CPROVER_assert(!(have_hdr && !is_relative && same) || !purged_header_text, "ensures: TWIN (negated) same-host absolute URL purged");
#else
    __CPROVER_assert(!(have_hdr && !is_relative && same) || purged_header_text, "ensures: an absolute header URL that sameUrlHosts() accepts is purged as is");
#endif
    __CPROVER_assert(!(have_hdr && !is_relative && !same) || g_purge_calls == 0, "ensures: an absolute header URL on another host purges nothing");
    __CPROVER_assert(!(have_hdr && !is_relative) || (g_same_calls == 1 && g_same_a == g_req_url && g_same_b == g_hdr_text),
                     "ensures: the host test compares the request URL (first) with the header URL (second), once");
    __CPROVER_assert(!(purged_header_text && method != METHOD_CONNECT) || (!is_relative && same), "ensures: the header's own text is purged only after a positive host test");
    /* relative references are resolved against the request URL: the purged URL keeps the request's scheme and host */
    __CPROVER_assert(!plain_relative || (purged_request_based && g_abs_calls == 1 && g_abs_host == host && g_abs_scheme == scheme &&
                                         g_abs_path_src == g_hdr_text && g_abs_path_tag == (first == '/' ? 1 : 2)),
                     "ensures: a relative header URL => the request URL with only its path replaced ('/...') or merged (other) is purged: same scheme, same host");
    __CPROVER_assert(!purged_request_based || (g_abs_host == host && g_abs_scheme == scheme), "ensures: a request-based purge never leaves the request's scheme and host");
    __CPROVER_assert(g_req_host_after == host && g_req_scheme_after == scheme && g_req_path_tag_after == 0, "ensures: the request's own URL object is not modified (the path is changed on a copy)");
    __CPROVER_assert(g_rel_calls == (have_hdr ? 1 : 0) && (!have_hdr || g_rel_arg == g_hdr_text), "ensures: urlIsRelative is asked about the header value");
    /* code-derived corner cases the property does not speak about */
    __CPROVER_assert(!(have_hdr && is_relative && method != METHOD_CONNECT && scheme == PROTO_URN) || (purged_request_based && g_abs_path_tag == 0),
                     "pinned: relative reference under a URN request => the request URN itself is purged");
    __CPROVER_assert(!(have_hdr && is_relative && method == METHOD_CONNECT) || purged_header_text,
                     "pinned: relative reference under CONNECT => the reference text is handed on unresolved (CONNECT never reaches here: purgesOthers() is false for it)");
#ifdef REACH
    __CPROVER_assert(!(purged_header_text && !is_relative), "reach: same-host absolute URL purged");
    __CPROVER_assert(!(g_purge_calls == 0 && have_hdr), "reach: other-host absolute URL ignored");
    __CPROVER_assert(!(purged_request_based && g_abs_path_tag == 1), "reach: absolute-path reference");
    __CPROVER_assert(!(purged_request_based && g_abs_path_tag == 2), "reach: relative-path reference merged");
    __CPROVER_assert(!(purged_request_based && g_abs_path_tag == 0), "reach: URN request");
    __CPROVER_assert(!(!have_hdr), "reach: header absent");
#endif
}
#endif
#endif /* CV_NATIVE */
