// Native replay for the purgeheader unit: the REAL sameUrlHosts / urlIsRelative texts (same slices, g++ ASan+UBSan)
#include "replay.h"
#include <cstring>
#include <string>
#define CV_NATIVE 1
#define N 64
extern "C" {
#include "suh.c"
}
namespace relc {
extern "C" {
#include "rel.c"
}
}
namespace pbh {
#include "pbh_wrap.cc"
}
namespace spec {
#include "contract.c"
}
using namespace spec;

static std::string str_of(const Cex &c, const char *k)
{
    std::string s;
    for (auto x : c.arr(k)) { if (!x) break; s.push_back((char)x); }
    return s;
}

int main(int argc, char **argv)
{
    if (argc < 3) return 2;
    Cex c; if (!c.load(argv[2])) return 2;
    const std::string mode = argv[1];
    if (mode == "same_hosts") {
        // exact-size heap copies: ASan sees any read outside the strings
        std::string s1 = str_of(c, "hs"), s2 = str_of(c, "ds");
        if (s1.size() >= N || s2.size() >= N) RP_OK("outside the target's domain");
        char *a = strdup(s1.c_str()), *b = strdup(s2.c_str());
        const long L1 = (long)s1.size(), L2 = (long)s2.size();
        bool r = sameUrlHosts(a, b);
        printf("url1='%s' url2='%s' -> %d\n", a, b, (int)r);
        if ((int)r != spec_same(a, L1, b, L2)) RP_FAIL("answer differs from the code's definition as specified");
        const long c1 = spec_colon(a, L1), c2 = spec_colon(b, L2);
        if (r && has_authority(a, L1, c1)) {
            if (!has_authority(b, L2, c2)) RP_FAIL("true although url2 has no scheme://authority form");
            const long n1 = auth_len(a, L1, c1 + 3);
            if (auth_len(b, L2, c2 + 3) != n1 || memcmp(a + c1 + 3, b + c2 + 3, n1) != 0) RP_FAIL("true for two URLs with different authorities");
        }
        free(a); free(b);
        RP_OK("postconditions hold on this input");
    }
    if (mode == "url_is_relative") {
        std::string s1 = str_of(c, "hs");
        const bool null_url = c.num("null_url") != 0;
        char *a = strdup(s1.c_str());
        bool r = relc::urlIsRelative(null_url ? nullptr : a);
        printf("url=%s%s -> %d\n", null_url ? "(null) " : "", a, (int)r);
        if (null_url) { if (r) RP_FAIL("nullptr is relative"); RP_OK("postconditions hold on this input"); }
        long colon = -1;
        for (size_t i = 0; i < s1.size(); ++i) { if (a[i] == '/' || a[i] == '?' || a[i] == '#') break; if (a[i] == ':') { colon = (long)i; break; } }
        if (r != (colon < 0)) RP_FAIL("relative=%d although the first segment %s a colon", (int)r, colon < 0 ? "has no" : "has");
        free(a);
        RP_OK("postconditions hold on this input");
    }
    if (mode == "by_header") {
        using namespace pbh;
        int method = (int)c.num("method"), scheme = (int)c.num("scheme"), host = (int)c.num("host"), have_hdr = c.num("have_hdr") != 0,
            is_relative = c.num("is_relative") != 0, same = c.num("same") != 0, which_hdr = (int)c.num("which_hdr");
        char first = (char)c.num("first");
        if (first == 0 || first == '/') is_relative = 1;
        if (which_hdr < 0 || which_hdr > 2) which_hdr = 1;
        pbh_purgeEntriesByHeader(method, scheme, host, have_hdr, first, is_relative, same, which_hdr);
        const bool header_text = g_purge_calls == 1 && g_purge_url == g_hdr_text, request_based = g_purge_calls == 1 && g_purge_url == g_abs_text;
        printf("method=%d scheme=%d header=%d first=%d relative=%d same=%d -> purge calls %d (%s)\n", method, scheme, have_hdr, first, is_relative, same, g_purge_calls,
               header_text ? "the header URL" : request_based ? "request-based URL" : "-");
        // property-level oracle only
        if (g_purge_calls > 1) RP_FAIL("more than one purge");
        if (!have_hdr && g_purge_calls) RP_FAIL("purge without a header");
        if (have_hdr && !is_relative && same && !header_text) RP_FAIL("same-host absolute URL not purged");
        if (have_hdr && !is_relative && !same && g_purge_calls) RP_FAIL("other-host absolute URL purged");
        if (request_based && (g_abs_host != host || g_abs_scheme != scheme)) RP_FAIL("relative reference resolved against another host");
        if (have_hdr && is_relative && method != Http::METHOD_CONNECT && scheme != AnyP::PROTO_URN && !request_based) RP_FAIL("relative reference not purged");
        RP_OK("property-level postconditions hold on this input");
    }
    return 2;
}
