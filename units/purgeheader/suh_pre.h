/* surroundings of the sameUrlHosts / urlIsRelative slices (C mode): exactly what the bodies touch */
#ifndef CV_SUH_PRE_H
#define CV_SUH_PRE_H
#ifndef CV_NATIVE
#include <stdbool.h>
#include <stddef.h>
char *strchr(const char *s, int c);     /* <string.h>; CBMC's library model is linked (unwound to the buffer bound) */
#endif
#endif
