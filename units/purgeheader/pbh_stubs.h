// Stub surroundings for the purgeEntriesByHeader slice (C20).  TRUSTED models declaring what the sliced body touches; the decisions
// (header present? relative? CONNECT/URN? same host?) are all in the sliced real text (pbh.inc).
#ifndef PBH_STUBS_H
#define PBH_STUBS_H

#define debugs(SECTION, LEVEL, CONTENT) ((void)0)

namespace Http
{
#include "methodtype_enum.inc"       // REAL text: typedef enum _method_t { ... } MethodType;  (src/http/MethodType.h)
#include "hdrtype_enum.inc"          // REAL text: enum HdrType { ... } (made scoped for the front end)  (src/http/RegisteredHeaders.h)
}
namespace AnyP
{
#include "prototype_enum.inc"        // REAL text: typedef enum { PROTO_NONE = 0, ..., PROTO_URN, ..., PROTO_MAX } ProtocolType;  (src/anyp/ProtocolType.h)
}

// ---- ghosts: what the stubs were asked and what they answered ----
extern "C" {
    char g_abs_text[2];           // the character data every AnyP::Uri::absolute() answer points to (identity only)
    int g_abs_calls;              // number of absolute() calls
    int g_abs_host, g_abs_scheme; // host identity / scheme of the Uri whose absolute form was taken last
    int g_abs_path_tag;           // 0: its path untouched, 1: replaced by path(p), 2: merged by addRelativePath(p)
    const char *g_abs_path_src;   // p
    const char *g_hdr_value;      // what HttpHeader::getStr() answers: nullptr or the header value
    int g_getstr_calls, g_getstr_id;   // 1 LOCATION, 2 CONTENT_LOCATION, 0 other
    int g_is_relative;            // what urlIsRelative(value) answers
    int g_rel_calls; const char *g_rel_arg;
    int g_same;                   // what sameUrlHosts(a, b) answers
    int g_same_calls; const char *g_same_a, *g_same_b;
    int g_purge_calls; const void *g_purge_req; const char *g_purge_url;
}

class SBuf
{
public:
    const char *c_str() { return p; }
    const char *p;
};

class HttpRequestMethod
{
public:
    Http::MethodType id() const { return theMethod; }    // real one-liner (src/http/RequestMethod.h)
    Http::MethodType theMethod;
};

namespace AnyP
{
// src/anyp/Uri.h reduced to identities: scheme, an opaque host identity, and a record of what happened to the path.
// ASSUMED: path(p)/addRelativePath(p) change the path only; absolute() renders scheme://authority/path of THIS object.
class Uri
{
public:
    ProtocolType getScheme() const { return scheme_; }    // real: UriScheme, compared against a ProtocolType
    void path(const char *p) { pathTag_ = 1; pathSrc_ = p; }
    void addRelativePath(const char *p) { pathTag_ = 2; pathSrc_ = p; }
    SBuf absolute() const {
        if (g_abs_calls < 1000) ++g_abs_calls;
        g_abs_host = host_; g_abs_scheme = (int)scheme_; g_abs_path_tag = pathTag_; g_abs_path_src = pathSrc_;
        SBuf r; r.p = g_abs_text; return r;
    }
    ProtocolType scheme_;
    int host_;
    int pathTag_;
    const char *pathSrc_;
};
}

class HttpHeader
{
public:
    const char *getStr(Http::HdrType id) const {
        if (g_getstr_calls < 1000) ++g_getstr_calls;
        g_getstr_id = (id == Http::HdrType::LOCATION) ? 1 : (id == Http::HdrType::CONTENT_LOCATION) ? 2 : 0;
        return g_hdr_value;
    }
};
namespace Http { class Message { public: HttpHeader header; }; }

class HttpRequest
{
public:
    HttpRequestMethod method;
    AnyP::Uri url;
};

// ASSUMED contracts (verified for the real texts by targets same_hosts / url_is_relative): symbolic answers, recorded arguments
static bool urlIsRelative(const char *u) { if (g_rel_calls < 1000) ++g_rel_calls; g_rel_arg = u; return g_is_relative != 0; }
static bool sameUrlHosts(const char *a, const char *b) { if (g_same_calls < 1000) ++g_same_calls; g_same_a = a; g_same_b = b; return g_same != 0; }
// ghost recorder (what it evicts is outside this kernel)
static void purgeEntriesByUrl(HttpRequest *req, const char *url) { if (g_purge_calls < 1000) ++g_purge_calls; g_purge_req = req; g_purge_url = url; }

#endif
