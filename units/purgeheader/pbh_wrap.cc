// Wrapper TU: stub surroundings + the REAL purgeEntriesByHeader text + an extern "C" entry point with scalar parameters.
#include "pbh_stubs.h"
#include "pbh.inc"           // static void purgeEntriesByHeader(HttpRequest *req, const char *reqUrl, Http::Message *rep, Http::HdrType hdr)

extern "C" {

char g_req_url[2];            // the request URL text handed in as reqUrl (identity only)
char g_hdr_text[2];           // the header value: only its first character is looked at by the body
int g_req_host_after, g_req_scheme_after, g_req_path_tag_after;   // the request's own Uri after the call
const void *g_req_obj;

void pbh_purgeEntriesByHeader(int method, int scheme, int host, int have_hdr, char first, int is_relative, int same, int which_hdr)
{
    HttpRequest req;
    req.method.theMethod = (Http::MethodType)method;
    req.url.scheme_ = (AnyP::ProtocolType)scheme;
    req.url.host_ = host;
    req.url.pathTag_ = 0;
    req.url.pathSrc_ = nullptr;
    Http::Message rep;
    g_hdr_text[0] = first; g_hdr_text[1] = 0;
    g_hdr_value = nullptr;
    if (have_hdr)
        g_hdr_value = &g_hdr_text[0];
    g_is_relative = is_relative;
    g_same = same;
    g_abs_calls = g_getstr_calls = g_rel_calls = g_same_calls = g_purge_calls = 0;
    g_abs_host = g_abs_scheme = g_abs_path_tag = -1;
    g_getstr_id = -1;
    g_purge_url = g_abs_path_src = g_rel_arg = g_same_a = g_same_b = nullptr;
    g_purge_req = nullptr;
    g_req_obj = &req;
    purgeEntriesByHeader(&req, g_req_url, &rep, which_hdr == 1 ? Http::HdrType::LOCATION : which_hdr == 2 ? Http::HdrType::CONTENT_LOCATION : Http::HdrType::OTHER);
    g_req_host_after = req.url.host_;
    g_req_scheme_after = (int)req.url.scheme_;
    g_req_path_tag_after = req.url.pathTag_;
}

}
