/* Sidecar contracts for src/base/CharacterSet.cc (C50, set half: "character-set union, difference, complement and
 * membership behave as the corresponding operations on sets of byte values").
 *
 * A set is a 256-entry array of 0/1 bytes (entry k == 1  <=>  byte value k is a member).  The entry points cs_* are the
 * extern "C" wrappers of units/charset/wrap.cc: they load the array(s) into REAL CharacterSet objects, call ONE real
 * operation, and store every object involved back.  Representation invariant of the class: every slot is 0 or 1
 * (established by every constructor, preserved by every mutator: both are proved below); operator== compares the
 * storage bytewise, so it is set equality exactly because of this invariant.
 *
 * Prefixes: `ensures:` = demanded by the C50 statement (union, difference, complement, membership as set operations);
 * `lemma:` = table lemma of DESIGN 5 C50; `pinned:` = present behaviour of code the statement does not cover.
 *
 * The RFC definitions in part 1 are written from the RFC texts (ABNF quoted next to each), not from the code. */
#include <stddef.h>

typedef unsigned char u8;

/* =====================================================================================================
 * 1. Reference definitions, from the RFCs.
 * ===================================================================================================== */

/* RFC 5234 Appendix B.1 (Core Rules) */
static int rfc_ALPHA(unsigned c)  { return (c >= 0x41 && c <= 0x5A) || (c >= 0x61 && c <= 0x7A); } /* ALPHA = %x41-5A / %x61-7A */
static int rfc_BIT(unsigned c)    { return c == '0' || c == '1'; }                                  /* BIT = "0" / "1" */
static int rfc_CR(unsigned c)     { return c == 0x0D; }                                             /* CR = %x0D */
static int rfc_CTL(unsigned c)    { return c <= 0x1F || c == 0x7F; }                                /* CTL = %x00-1F / %x7F */
static int rfc_DIGIT(unsigned c)  { return c >= 0x30 && c <= 0x39; }                                /* DIGIT = %x30-39 */
static int rfc_DQUOTE(unsigned c) { return c == 0x22; }                                             /* DQUOTE = %x22 */
/* HEXDIG = DIGIT / "A" / "B" / "C" / "D" / "E" / "F"; RFC 5234 2.3: quoted strings are case-insensitive, so a-f too */
static int rfc_HEXDIG(unsigned c) { return rfc_DIGIT(c) || (c >= 'A' && c <= 'F') || (c >= 'a' && c <= 'f'); }
static int rfc_HTAB(unsigned c)   { return c == 0x09; }                                             /* HTAB = %x09 */
static int rfc_LF(unsigned c)     { return c == 0x0A; }                                             /* LF = %x0A */
static int rfc_SP(unsigned c)     { return c == 0x20; }                                             /* SP = %x20 */
static int rfc_VCHAR(unsigned c)  { return c >= 0x21 && c <= 0x7E; }                                /* VCHAR = %x21-7E */
static int rfc_WSP(unsigned c)    { return rfc_SP(c) || rfc_HTAB(c); }                              /* WSP = SP / HTAB */

/* RFC 7230 */
static int rfc_OBSTEXT(unsigned c) { return c >= 0x80 && c <= 0xFF; }                               /* 3.2.6 obs-text = %x80-FF */
/* 3.2.6 ctext = HTAB / SP / %x21-27 / %x2A-5B / %x5D-7E / obs-text */
static int rfc_CTEXT(unsigned c)
{ return rfc_HTAB(c) || rfc_SP(c) || (c >= 0x21 && c <= 0x27) || (c >= 0x2A && c <= 0x5B) || (c >= 0x5D && c <= 0x7E) || rfc_OBSTEXT(c); }
/* 3.2.6 tchar = "!" / "#" / "$" / "%" / "&" / "'" / "*" / "+" / "-" / "." / "^" / "_" / "`" / "|" / "~" / DIGIT / ALPHA */
static int rfc_TCHAR(unsigned c)
{
    return c == '!' || c == '#' || c == '$' || c == '%' || c == '&' || c == '\'' || c == '*' || c == '+' || c == '-' ||
           c == '.' || c == '^' || c == '_' || c == '`' || c == '|' || c == '~' || rfc_DIGIT(c) || rfc_ALPHA(c);
}
/* 3.2.6 "delimiters (DQUOTE and "(),/:;<=>?@[\]{}")" -- the set squid calls SPECIAL ("special VCHARs") */
static int rfc_SPECIAL(unsigned c)
{
    return c == 0x22 || c == '(' || c == ')' || c == ',' || c == '/' || c == ':' || c == ';' || c == '<' || c == '=' ||
           c == '>' || c == '?' || c == '@' || c == '[' || c == '\\' || c == ']' || c == '{' || c == '}';
}
/* 3.2.6 qdtext = HTAB / SP / %x21 / %x23-5B / %x5D-7E / obs-text */
static int rfc_QDTEXT(unsigned c)
{ return rfc_HTAB(c) || rfc_SP(c) || c == 0x21 || (c >= 0x23 && c <= 0x5B) || (c >= 0x5D && c <= 0x7E) || rfc_OBSTEXT(c); }
/* RFC 7232 2.3 etagc = %x21 / %x23-7E / obs-text */
static int rfc_ETAGC(unsigned c) { return c == 0x21 || (c >= 0x23 && c <= 0x7E) || rfc_OBSTEXT(c); }
/* RFC 7235 2.1 token68 = 1*( ALPHA / DIGIT / "-" / "." / "_" / "~" / "+" / "/" ) *"="   (squid's TOKEN68C: without "=") */
static int rfc_TOKEN68C(unsigned c)
{ return rfc_ALPHA(c) || rfc_DIGIT(c) || c == '-' || c == '.' || c == '_' || c == '~' || c == '+' || c == '/'; }
/* RFC 3986 2.3 unreserved = ALPHA / DIGIT / "-" / "." / "_" / "~" */
static int rfc_RFC3986_UNRESERVED(unsigned c)
{ return rfc_ALPHA(c) || rfc_DIGIT(c) || c == '-' || c == '.' || c == '_' || c == '~'; }

/* set of the bytes of a NUL-terminated string (reference for the (label, chars) constructor) */
static int str_has(const char *s, size_t bound, unsigned c)
{
    for (size_t i = 0; i < bound; i++) {
        if (s[i] == 0) return 0;
        if ((unsigned char)s[i] == c) return 1;
    }
    return 0;
}

#ifndef CV_NATIVE   /* ---------------- verifier-only from here ---------------- */

/* entry points (units/charset/wrap.cc) */
int cs_union(const u8 *a, const u8 *b, u8 *a_out, u8 *b_out);
int cs_diff(const u8 *a, const u8 *b, u8 *a_out, u8 *b_out);
void cs_union_self(const u8 *a, u8 *a_out);
void cs_diff_self(const u8 *a, u8 *a_out);
void cs_plus(const u8 *a, const u8 *b, u8 *r_out, u8 *a_out, u8 *b_out);
void cs_minus(const u8 *a, const u8 *b, u8 *r_out, u8 *a_out, u8 *b_out);
int cs_complement(const u8 *a, int label_null, u8 *r_out, u8 *a_out);
int cs_add(const u8 *a, unsigned char c, u8 *a_out);
int cs_remove(const u8 *a, unsigned char c, u8 *a_out);
int cs_addrange(const u8 *a, unsigned char lo, unsigned char hi, u8 *a_out);
int cs_member(const u8 *a, unsigned char c);
int cs_equal(const u8 *a, const u8 *b);
int cs_isempty(const u8 *a);
void cs_ctor_default(int label_null, u8 *r_out);
void cs_ctor_chars(const char *chars, u8 *r_out);
void cs_ctor_range(unsigned char lo, unsigned char hi, u8 *r_out);
void cs_ctor_ranges2(unsigned char lo0, unsigned char hi0, unsigned char lo1, unsigned char hi1, u8 *r_out);

#define ALL(v, expr)  __CPROVER_forall { unsigned v; (v < 256) ==> (expr) }
#define IS_SET(p)     ALL(k_, (p)[k_] <= 1)

/* =====================================================================================================
 * 2. Contracts, harness-encoded (README "harness" mode): inputs = ARBITRARY sets (every 256-entry 0/1 array, by
 *    __CPROVER_assume of the representation invariant on nondet arrays), call the real operation through its wrapper,
 *    assert the postcondition for all 256 byte values at once.  Every postcondition that equates an output array with
 *    a 0/1-valued expression also re-establishes the representation invariant of the output.
 *    The frame in the memory sense (nothing but the output arrays is written) is checked by the dfcc targets of part 4.
 * ===================================================================================================== */

/* ---- operator+= is union ---- */
#if defined(T_UNION)
void h_union(void)
{
    u8 a[256], b[256], ao[256], bo[256];
    __CPROVER_assume(IS_SET(a));
    __CPROVER_assume(IS_SET(b));
    int r = cs_union(a, b, ao, bo);
#ifdef TWIN
    __CPROVER_assert(ALL(k, ao[k] == (a[k] & b[k])), "ensures: TWIN += is intersection (must fail)");
#else
    __CPROVER_assert(ALL(k, ao[k] == (a[k] | b[k])), "ensures: union: k in (A += B) <=> k in A or k in B, for every byte k");
#endif
    __CPROVER_assert(ALL(k, bo[k] == b[k]), "ensures: union: right operand unchanged");
    __CPROVER_assert(r == 1, "ensures: union: returns *this");
#ifdef REACH
    __CPROVER_assert(!(a[7] == 0 && b[7] == 1), "reach: a byte only the right operand has");
    __CPROVER_assert(!(a[255] == 1 && b[255] == 0), "reach: byte 255 only in the left operand");
    __CPROVER_assert(!(a[0] == 0 && b[0] == 0), "reach: byte 0 in neither");
#endif
}
#endif

/* ---- operator-= is difference ---- */
#if defined(T_DIFF)
void h_diff(void)
{
    u8 a[256], b[256], ao[256], bo[256];
    __CPROVER_assume(IS_SET(a));
    __CPROVER_assume(IS_SET(b));
    int r = cs_diff(a, b, ao, bo);
#ifdef TWIN
    __CPROVER_assert(ALL(k, ao[k] == (a[k] ^ b[k])), "ensures: TWIN -= is symmetric difference (must fail)");
#else
    __CPROVER_assert(ALL(k, ao[k] == (b[k] ? 0 : a[k])), "ensures: difference: k in (A -= B) <=> k in A and k not in B, for every byte k");
#endif
    __CPROVER_assert(ALL(k, bo[k] == b[k]), "ensures: difference: right operand unchanged");
    __CPROVER_assert(r == 1, "ensures: difference: returns *this");
#ifdef REACH
    __CPROVER_assert(!(a[7] == 1 && b[7] == 1), "reach: a byte removed");
    __CPROVER_assert(!(a[255] == 1 && b[255] == 0), "reach: byte 255 kept");
    __CPROVER_assert(!(a[0] == 0 && b[0] == 1), "reach: byte 0 only in the right operand");
#endif
}
#endif

/* ---- aliasing operands: A += A leaves A, A -= A empties A ---- */
#if defined(T_SELF)
void h_self(void)
{
    u8 a[256], u[256], d[256];
    __CPROVER_assume(IS_SET(a));
    cs_union_self(a, u);
    cs_diff_self(a, d);
    __CPROVER_assert(ALL(k, u[k] == a[k]), "ensures: self-union: A += A is A");
#ifdef TWIN
    __CPROVER_assert(ALL(k, d[k] == a[k]), "ensures: TWIN A -= A is A (must fail)");
#else
    __CPROVER_assert(ALL(k, d[k] == 0), "ensures: self-difference: A -= A is empty");
#endif
#ifdef REACH
    __CPROVER_assert(!(a[0] == 1 && a[255] == 1), "reach: both end bytes members");
    __CPROVER_assert(!(a[0] == 0 && a[128] == 1), "reach: mixed set");
#endif
}
#endif

/* ---- free operator+ / operator- : value results, operands untouched ---- */
#if defined(T_PLUSMINUS)
void h_plusminus(void)
{
    u8 a[256], b[256], r[256], ao[256], bo[256], r2[256], ao2[256], bo2[256];
    __CPROVER_assume(IS_SET(a));
    __CPROVER_assume(IS_SET(b));
    cs_plus(a, b, r, ao, bo);
    cs_minus(a, b, r2, ao2, bo2);
#ifdef TWIN
    __CPROVER_assert(ALL(k, r[k] == (a[k] | b[k]) && r2[k] == (b[k] ? 1 : a[k])), "ensures: TWIN A - B (must fail)");
#else
    __CPROVER_assert(ALL(k, r[k] == (a[k] | b[k])), "ensures: A + B is the union");
    __CPROVER_assert(ALL(k, r2[k] == (b[k] ? 0 : a[k])), "ensures: A - B is the difference");
#endif
    __CPROVER_assert(ALL(k, ao[k] == a[k] && bo[k] == b[k] && ao2[k] == a[k] && bo2[k] == b[k]), "ensures: A + B, A - B leave both operands unchanged");
#ifdef REACH
    __CPROVER_assert(!(a[9] == 1 && b[9] == 1), "reach: common member");
    __CPROVER_assert(!(a[9] == 0 && b[9] == 1), "reach: member of the right operand only");
#endif
}
#endif

/* ---- complement() ---- */
#if defined(T_COMPLEMENT)
void h_complement(void)
{
    u8 a[256], r[256], ao[256];
    int label_null;
    __CPROVER_assume(IS_SET(a));
    int named = cs_complement(a, label_null, r, ao);
#ifdef TWIN
    __CPROVER_assert(ALL(k, r[k] == a[k]), "ensures: TWIN complement is the identity (must fail)");
#else
    __CPROVER_assert(ALL(k, r[k] == 1 - a[k]), "ensures: complement: k in A.complement() <=> k not in A, for every byte k");
#endif
    __CPROVER_assert(ALL(k, ao[k] == a[k]), "ensures: complement: the set itself is unchanged");
    __CPROVER_assert(named == 1, "ensures: complement: the result has a non-null label");
#ifdef REACH
    __CPROVER_assert(!(label_null != 0 && a[0] == 1 && a[255] == 0), "reach: default label, byte 0 in, byte 255 out");
    __CPROVER_assert(!(label_null == 0 && a[0] == 0), "reach: given label, byte 0 out");
#endif
}
#endif

/* ---- add / remove: exactly the named member changes ---- */
#if defined(T_ADDREMOVE)
void h_addremove(void)
{
    u8 a[256], ao[256], ro[256];
    unsigned char c;
    __CPROVER_assume(IS_SET(a));
    int r1 = cs_add(a, c, ao);
    int r2 = cs_remove(a, c, ro);
#ifdef TWIN
    __CPROVER_assert(ALL(k, ao[k] == (k == c ? 1 : a[k]) && ro[k] == a[k]), "ensures: TWIN remove changes nothing (must fail)");
#else
    __CPROVER_assert(ALL(k, ao[k] == (k == c ? 1 : a[k])), "ensures: add(c): c becomes a member, every other byte keeps its status");
    __CPROVER_assert(ALL(k, ro[k] == (k == c ? 0 : a[k])), "ensures: remove(c): c stops being a member, every other byte keeps its status");
#endif
    __CPROVER_assert(r1 == 1 && r2 == 1, "ensures: add/remove return *this");
#ifdef REACH
    __CPROVER_assert(!(c == 255 && a[255] == 0), "reach: add a new member 255");
    __CPROVER_assert(!(c == 0 && a[0] == 1), "reach: remove an existing member 0");
    __CPROVER_assert(!(c == 0x80 && a[0x80] == 1), "reach: add an existing member 0x80");
#endif
}
#endif

/* ---- addRange(lo, hi): the loop is closed by a loop invariant (loops.json) on the sliced body text (wrap.cc:
 *      cs_addrange_sliced); g_old / g_lo are ghosts holding the set and the lower bound at entry.
 *      lo <= hi: exactly [lo, hi] is added, nothing else changes; the decreases clause proves termination for every
 *      (lo, hi), including hi == 255 where a `low <= high` loop would wrap and never end. ---- */
u8 g_old[256];
unsigned char g_lo;
void cs_addrange_sliced(unsigned char *chars_, unsigned char low, unsigned char high);

/* ---- the MEMBER function addRange on concrete corner ranges (every loop bound is then a constant: complete per pair).
 *      The symbolic-(lo,hi) proof above runs on a slice of the body text and needs its loop shape; this target does not,
 *      so a rewrite of addRange in another style is still decided on the corners, including the full range [0,255]. ---- */
int cs_addrange(const u8 *a, unsigned char lo, unsigned char hi, u8 *a_out);
#if defined(T_ADDRANGE_CORNERS)
static void corner(unsigned lo, unsigned hi)
{
    u8 a[256], ao[256];
    __CPROVER_assume(IS_SET(a));
    cs_addrange(a, (unsigned char)lo, (unsigned char)hi, ao);
#ifdef TWIN
    __CPROVER_assert(ALL(k, ao[k] == a[k]), "ensures: TWIN addRange changes nothing (must fail)");
#else
    __CPROVER_assert(ALL(k, ao[k] == ((k >= lo && k <= hi) ? 1 : a[k])),
                     "ensures: addRange(lo,hi) on a corner pair adds exactly [lo,hi] and changes nothing else");
#endif
}
void h_addrange_corners(void)
{
    corner(0, 255); corner(0, 0); corner(255, 255); corner(0x80, 0xff); corner(1, 254); corner(0, 127); corner(254, 255);
#ifdef REACH
    __CPROVER_assert(0, "reach: all corner pairs return");
#endif
}
#endif

#if defined(T_ADDRANGE)
void h_addrange(void)
{
    u8 a[256];
    unsigned char lo, hi;
    __CPROVER_assume(IS_SET(a));
    __CPROVER_assume(lo <= hi);           /* documented domain: "pairs [low,high], including both ends" */
    for (unsigned k = 0; k < 256; k++) g_old[k] = a[k];
    g_lo = lo;
    cs_addrange_sliced(a, lo, hi);
#ifdef TWIN
    __CPROVER_assert(ALL(k, a[k] == ((k >= lo && k < hi) ? 1 : g_old[k])), "ensures: TWIN addRange excludes hi (must fail)");
#else
    __CPROVER_assert(ALL(k, a[k] == ((k >= lo && k <= hi) ? 1 : g_old[k])), "ensures: addRange(lo,hi): every byte in [lo,hi] becomes a member, every other byte keeps its status");
#endif
#ifdef REACH
    __CPROVER_assert(!(lo == 0 && hi == 255), "reach: the full range, hi == 255 (the wrap case)");
    __CPROVER_assert(!(lo == 255 && hi == 255), "reach: single byte 255");
    __CPROVER_assert(!(lo == 0x30 && hi == 0x39 && g_old[0x2f] == 0 && g_old[0x3a] == 1), "reach: inner range with both neighbours outside it");
#endif
}
#endif

/* ---- addRange outside its documented domain (lo > hi): what the code does, stated exactly (not a property claim) ---- */
#if defined(T_ADDRANGE_INV)
void h_addrange_inv(void)
{
    u8 a[256];
    unsigned char lo, hi;
    __CPROVER_assume(IS_SET(a));
    __CPROVER_assume(lo > hi);
    for (unsigned k = 0; k < 256; k++) g_old[k] = a[k];
    g_lo = lo;
    cs_addrange_sliced(a, lo, hi);
#ifdef TWIN
    __CPROVER_assert(ALL(k, a[k] == g_old[k]), "ensures: TWIN an inverted range adds nothing (must fail: it adds hi)");
#else
    __CPROVER_assert(ALL(k, a[k] == (k == hi ? 1 : g_old[k])), "ensures: addRange(lo,hi) with lo > hi adds exactly the byte hi");
#endif
#ifdef REACH
    __CPROVER_assert(!(lo == 255 && hi == 0 && g_old[0] == 0), "reach: fully inverted range");
    __CPROVER_assert(!(lo == 6 && hi == 5), "reach: adjacent inverted");
#endif
}
#endif

/* ---- operator[] is membership; operator== / != are set equality (labels ignored) ---- */
#if defined(T_MEMBER)
void h_member(void)
{
    u8 a[256], b[256];
    unsigned char c;
    __CPROVER_assume(IS_SET(a));
    __CPROVER_assume(IS_SET(b));
    int m = cs_member(a, c);
    int e = cs_equal(a, b);
    int same = 1;
    for (unsigned k = 0; k < 256; k++)
        if (a[k] != b[k]) same = 0;
#ifdef TWIN
    __CPROVER_assert(m == 1 - a[c], "ensures: TWIN membership inverted (must fail)");
#else
    __CPROVER_assert(m == a[c], "ensures: membership: set[c] <=> c is a member");
#endif
    __CPROVER_assert((e & 1) == same, "ensures: A == B <=> same members (labels differ in the wrapper)");
    __CPROVER_assert(((e >> 1) & 1) == 1 - same, "ensures: A != B <=> not same members");
#ifdef REACH
    __CPROVER_assert(!(m == 1 && c == 255), "reach: byte 255 is a member");
    __CPROVER_assert(!(m == 0 && c == 0), "reach: byte 0 is not a member");
    __CPROVER_assert(!(same == 1 && a[3] == 1), "reach: equal non-empty sets");
    __CPROVER_assert(!(same == 0 && a[255] != b[255] && a[0] == b[0]), "reach: sets that differ at byte 255 and agree at byte 0");
#endif
}
#endif

/* ---- isEmpty(): not part of the C50 statement (union, difference, complement, membership).  The code returns
 *      chars_.empty(); the storage always has 256 slots, so the result is false for EVERY set, the empty one included
 *      (the header comment says "whether the set lacks any members").  Pinned as it is; reported as an observation. ---- */
#if defined(T_ISEMPTY)
void h_isempty(void)
{
    u8 a[256];
    __CPROVER_assume(IS_SET(a));
    int r = cs_isempty(a);
    int none = 1;
    for (unsigned k = 0; k < 256; k++)
        if (a[k]) none = 0;
#ifdef TWIN
    __CPROVER_assert(r == none, "ensures: TWIN isEmpty() <=> the set has no member (must fail: it is constantly false)");
#else
    __CPROVER_assert(r == 0, "pinned: isEmpty() returns false for every set, including the empty set (storage always has 256 slots)");
#endif
#ifdef REACH
    __CPROVER_assert(!(none == 1), "reach: the empty set");
    __CPROVER_assert(!(none == 0 && a[65] == 1), "reach: a non-empty set");
#endif
}
#endif

/* ---- default constructor, both label paths: the empty set (the range constructors are one addRange call / a loop of
 *      addRange calls on a default-initialised storage; they run on every argument list of the real tables in `tables`) ---- */
#if defined(T_CTORS)
void h_ctors(void)
{
    u8 d[256];
    int label_null;
    cs_ctor_default(label_null, d);
#ifdef TWIN
    __CPROVER_assert(ALL(k, d[k] == (k == 0)), "ensures: TWIN default set contains NUL (must fail)");
#else
    __CPROVER_assert(ALL(k, d[k] == 0), "ensures: the default-constructed set is empty");
#endif
#ifdef REACH
    __CPROVER_assert(!(label_null != 0), "reach: null label");
    __CPROVER_assert(!(label_null == 0), "reach: default label");
#endif
}
#endif

/* ---- CharacterSet(label, chars): exactly the bytes of the string (BOUNDED: strings shorter than N) ---- */
#if defined(T_CTOR_CHARS)
#ifndef N
#define N 6
#endif
void h_ctor_chars(void)
{
    char chars[N];
    u8 r[256];
    chars[N - 1] = 0;
    cs_ctor_chars(chars, r);
    int ok = 1;
    for (unsigned k = 0; k < 256; k++) {
#ifdef TWIN
        if (r[k] != str_has(chars + 1, N - 1, k)) ok = 0;
#else
        if (r[k] != str_has(chars, N, k)) ok = 0;
#endif
    }
#ifdef TWIN
    __CPROVER_assert(ok, "ensures: TWIN the first byte of the string is skipped (must fail)");
#else
    __CPROVER_assert(ok, "ensures: CharacterSet(label, chars) contains exactly the bytes of the NUL-terminated string chars");
#endif
#ifdef REACH
    __CPROVER_assert(!(chars[0] == 0), "reach: empty string");
    __CPROVER_assert(!(chars[0] == (char)0xff && chars[1] == 'a' && chars[N - 2] != 0), "reach: full-length string starting with byte 0xff (negative char)");
#endif
}
#endif

/* =====================================================================================================
 * 3. Table lemma: each predefined constant is compared with its RFC definition (part 1) for every byte value.
 *    cs_table_X evaluates the real initialiser expression of CharacterSet::X through the real constructor.
 * ===================================================================================================== */
#if defined(T_TABLES)
/* What the C50 statement demands is set semantics of the OPERATIONS; it does not mention the predefined constants.  The table
 * lemma is therefore a lemma (DESIGN 5 C50), not a postcondition: 18 constants equal their RFC definition.  Two do not; for
 * them the code's present value is PINNED (README: `pinned:`) and the deviation from the RFC is stated in the text:
 *   CTL   = %x01-1F / %x7F in the code;  RFC 5234 B.1: CTL = %x00-1F / %x7F            (NUL missing)
 *   CTEXT lacks %x21-27 in the code;     RFC 7230 3.2.6: ctext = HTAB / SP / %x21-27 / %x2A-5B / %x5D-7E / obs-text */
static int code_CTL(unsigned c)   { return rfc_CTL(c) && c != 0x00; }
static int code_CTEXT(unsigned c) { return rfc_CTEXT(c) && !(c >= 0x21 && c <= 0x27); }
#define L(T, what) "lemma: table " #T " == " what " for every byte value"
#define CV_TABLES(X) \
    X(ALPHA, rfc_ALPHA, L(ALPHA, "RFC 5234 ALPHA")) X(BIT, rfc_BIT, L(BIT, "RFC 5234 BIT")) X(CR, rfc_CR, L(CR, "RFC 5234 CR")) \
    X(CTL, code_CTL, "pinned: table CTL == %x01-1F / %x7F (the code's value; RFC 5234 B.1 CTL = %x00-1F / %x7F also contains 0x00)") \
    X(DIGIT, rfc_DIGIT, L(DIGIT, "RFC 5234 DIGIT")) \
    X(DQUOTE, rfc_DQUOTE, L(DQUOTE, "RFC 5234 DQUOTE")) X(HEXDIG, rfc_HEXDIG, L(HEXDIG, "RFC 5234 HEXDIG")) X(HTAB, rfc_HTAB, L(HTAB, "RFC 5234 HTAB")) \
    X(LF, rfc_LF, L(LF, "RFC 5234 LF")) X(SP, rfc_SP, L(SP, "RFC 5234 SP")) \
    X(VCHAR, rfc_VCHAR, L(VCHAR, "RFC 5234 VCHAR")) X(WSP, rfc_WSP, L(WSP, "RFC 5234 WSP")) \
    X(CTEXT, code_CTEXT, "pinned: table CTEXT == RFC 7230 ctext minus %x21-27 (the code's value; RFC 7230 3.2.6 ctext also contains %x21-27)") \
    X(TCHAR, rfc_TCHAR, L(TCHAR, "RFC 7230 tchar")) X(SPECIAL, rfc_SPECIAL, L(SPECIAL, "RFC 7230 delimiters")) \
    X(QDTEXT, rfc_QDTEXT, L(QDTEXT, "RFC 7230 qdtext")) X(OBSTEXT, rfc_OBSTEXT, L(OBSTEXT, "RFC 7230 obs-text")) X(ETAGC, rfc_ETAGC, L(ETAGC, "RFC 7232 etagc")) \
    X(TOKEN68C, rfc_TOKEN68C, L(TOKEN68C, "RFC 7235 token68 characters")) X(RFC3986_UNRESERVED, rfc_RFC3986_UNRESERVED, L(RFC3986_UNRESERVED, "RFC 3986 unreserved"))
#define CV_DECL(T, pred, msg) void cs_table_##T(u8 *r_out);
CV_TABLES(CV_DECL)
#ifdef TWIN   /* one deliberately wrong reference definition per group: the check must fail at exactly that table */
#define rfc_ALPHA(c) (rfc_ALPHA(c) || (c) == '_')          /* group 0: '_' is not ALPHA */
#define rfc_HEXDIG(c) (rfc_HEXDIG(c) || (c) == 'g')        /* group 1 */
#define rfc_TCHAR(c) (rfc_TCHAR(c) || (c) == '(')          /* group 2 */
#define rfc_TOKEN68C(c) (rfc_TOKEN68C(c) || (c) == '=')    /* group 3 */
#endif
#ifndef G
#define G 0
#endif
#define CV_CHECK(T, pred, msg) \
    if (idx++ / 5 == G) { u8 t[256]; cs_table_##T(t); \
      for (unsigned c = 0; c < 256; c++) \
          __CPROVER_assert(t[c] == (pred(c) ? 1 : 0), msg); \
      reached++; }
void h_tables(void)
{
    int reached = 0, idx = 0;      /* the 20 tables are checked in 4 groups of 5 (define G), one cbmc run per group */
    CV_TABLES(CV_CHECK)
    /* relations the header comments state: TCHAR is "any VCHAR except for SPECIAL"; these are facts about part 1 + tables */
    if (G == 1) {   /* checked with group 1, the cheapest group */
        u8 v[256], s[256], tc[256];
        cs_table_VCHAR(v); cs_table_SPECIAL(s); cs_table_TCHAR(tc);
        for (unsigned c = 0; c < 256; c++)
            __CPROVER_assert(tc[c] == (v[c] && !s[c]), "lemma: table TCHAR == VCHAR minus SPECIAL (RFC 7230 3.2.6: any VCHAR, except delimiters)");
    }
#ifdef REACH
    __CPROVER_assert(!(reached == 5), "reach: all 5 tables of this group evaluated");
    { u8 t[256]; cs_table_OBSTEXT(t); __CPROVER_assert(!(t[255] == 1 && t[127] == 0), "reach: OBSTEXT has 255 and lacks 127"); }
#endif
}
#endif

/* =====================================================================================================
 * 4. Frame, in the memory sense (goto-instrument --dfcc, thorough tier, operator+= only: the same check on complement()
 *    did not finish in 25 min on the shared machine and was dropped): the operation + wrapper write nothing but the output
 *    arrays (assigns clause); same postconditions as part 2.
 * ===================================================================================================== */
#define FRESH(p) __CPROVER_is_fresh(p, 256)
#define SETQ(v, p)  __CPROVER_forall { unsigned v; (v < 256) ==> ((p)[v] <= 1) }
unsigned gi;          /* ghost index, never assigned */
u8 ga, gb;            /* a[gi], b[gi] at entry: lets the harness' reach assertions see inputs that is_fresh hides from it */

#if defined(T_FRAME_UNION)
int cs_union(const u8 *a, const u8 *b, u8 *a_out, u8 *b_out)
__CPROVER_requires(FRESH(a) && FRESH(b) && FRESH(a_out) && FRESH(b_out))
__CPROVER_requires(SETQ(i1, a) && SETQ(i2, b))
__CPROVER_requires(gi < 256 && a[gi] == ga && b[gi] == gb)
__CPROVER_assigns(__CPROVER_object_whole(a_out), __CPROVER_object_whole(b_out))
#ifdef TWIN
__CPROVER_ensures(ALL(k, a_out[k] == (a[k] & b[k])))
#else
__CPROVER_ensures(ALL(k, a_out[k] == (a[k] | b[k])))
#endif
__CPROVER_ensures(ALL(j, b_out[j] == b[j]))
__CPROVER_ensures(__CPROVER_return_value == 1)
;
void h_frame_union(void)
{
    u8 *a, *b, *ao, *bo;
    int r = cs_union(a, b, ao, bo);
#ifdef REACH
    __CPROVER_assert(!(r == 1 && ga == 0 && gb == 1), "reach: a byte that only the right operand has");
    __CPROVER_assert(!(r == 1 && ga == 1 && gb == 0 && gi == 255), "reach: byte 255 only in the left operand");
#endif
}
#endif

#endif /* CV_NATIVE */
