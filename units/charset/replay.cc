// Native replay for the charset unit: compiles the REAL src/base/CharacterSet.cc (current tree, real libstdc++, no stubs,
// no rewrites) with ASan+UBSan, rebuilds the verifier's counterexample sets through the class's own storage, runs the same
// operation and re-evaluates the same postcondition.  exit 0 = postcondition held, 1 = reproduced.
#include "replay.h"
#include <algorithm>
#include <functional>
#include <initializer_list>
#include <iostream>
#include <vector>
#include "squid.h"
#define private public      /* replay only: direct access to the 256-slot storage */
#include REAL_CHARACTERSET_H   /* the real header by absolute path: the build dir holds a REWRITTEN base/CharacterSet.h for the verifier; same include guard, so the real .cc's own #include is then a no-op */
#undef private
#include REAL_CHARACTERSET_CC

#define CV_NATIVE 1
#include "contract.c"       /* part 1 only: the RFC reference definitions and str_has */

typedef std::vector<long long> Arr;

static bool loadSet(const Cex &c, const char *key, CharacterSet &s)
{
    Arr v = c.arr(key);
    if (v.size() != 256) {
        printf("note: counterexample has no 256-entry array '%s' (%zu entries): using the empty set\n", key, v.size());
        v.assign(256, 0);
    }
    for (size_t k = 0; k < 256; ++k) s.chars_[k] = (uint8_t)v[k];
    return true;
}
static int in(const CharacterSet &s, unsigned k) { return s.chars_[k]; }

#define CHECK_ALL(expr, ...) do { for (unsigned k = 0; k < 256; ++k) if (!(expr)) { printf("at byte k=%u (0x%02x): ", k, k); RP_FAIL(__VA_ARGS__); } } while (0)

#define TABLES(X) X(ALPHA) X(BIT) X(CR) X(CTL) X(DIGIT) X(DQUOTE) X(HEXDIG) X(HTAB) X(LF) X(SP) X(VCHAR) X(WSP) X(CTEXT) X(TCHAR) \
    X(SPECIAL) X(QDTEXT) X(OBSTEXT) X(ETAGC) X(TOKEN68C)

int main(int argc, char **argv)
{
    if (argc < 3) return 2;
    std::string mode = argv[1];
    Cex c; if (!c.load(argv[2])) return 2;
    CharacterSet A("a"), B("b");
    loadSet(c, "a", A);
    const CharacterSet A0 = A;
    if (mode == "union" || mode == "diff" || mode == "plusminus" || mode == "member") loadSet(c, "b", B);
    const CharacterSet B0 = B;
    unsigned ch = (unsigned)c.num("c") & 255, lo = (unsigned)c.num("lo") & 255, hi = (unsigned)c.num("hi") & 255;

    if (mode == "union") {
        CharacterSet &r = (A += B);
        CHECK_ALL(in(A, k) == (in(A0, k) | in(B0, k)), "A += B is not the union");
        CHECK_ALL(in(B, k) == in(B0, k), "A += B changed B");
        if (&r != &A) RP_FAIL("+= does not return *this");
        RP_OK("union holds on this input");
    }
    if (mode == "diff") {
        CharacterSet &r = (A -= B);
        CHECK_ALL(in(A, k) == (in(B0, k) ? 0 : in(A0, k)), "A -= B is not the difference");
        CHECK_ALL(in(B, k) == in(B0, k), "A -= B changed B");
        if (&r != &A) RP_FAIL("-= does not return *this");
        RP_OK("difference holds on this input");
    }
    if (mode == "self") {
        CharacterSet U = A0, D = A0;
        U += U; D -= D;
        CHECK_ALL(in(U, k) == in(A0, k), "A += A is not A");
        CHECK_ALL(in(D, k) == 0, "A -= A is not empty");
        RP_OK("self-union/self-difference hold");
    }
    if (mode == "plusminus") {
        CharacterSet P = A + B, M = A - B;
        CHECK_ALL(in(P, k) == (in(A0, k) | in(B0, k)), "A + B is not the union");
        CHECK_ALL(in(M, k) == (in(B0, k) ? 0 : in(A0, k)), "A - B is not the difference");
        CHECK_ALL(in(A, k) == in(A0, k) && in(B, k) == in(B0, k), "A + B / A - B changed an operand");
        RP_OK("operator+/- hold");
    }
    if (mode == "complement") {
        CharacterSet R = A.complement(c.num("label_null") ? nullptr : "c");
        CHECK_ALL(in(R, k) == 1 - in(A0, k), "complement() is not the complement");
        CHECK_ALL(in(A, k) == in(A0, k), "complement() changed the set");
        if (!R.name) RP_FAIL("complement has a null label");
        RP_OK("complement holds");
    }
    if (mode == "addremove") {
        CharacterSet R = A0;
        A.add((unsigned char)ch); R.remove((unsigned char)ch);
        CHECK_ALL(in(A, k) == (k == ch ? 1 : in(A0, k)), "add(%u) wrong", ch);
        CHECK_ALL(in(R, k) == (k == ch ? 0 : in(A0, k)), "remove(%u) wrong", ch);
        RP_OK("add/remove hold");
    }
    if (mode == "addrange" || mode == "addrange_inverted") {
        printf("addRange(%u, %u)\n", lo, hi);
        A.addRange((unsigned char)lo, (unsigned char)hi);
        if (lo <= hi)
            CHECK_ALL(in(A, k) == ((k >= lo && k <= hi) ? 1 : in(A0, k)), "addRange(%u,%u) did not add exactly [lo,hi]", lo, hi);
        else
            CHECK_ALL(in(A, k) == (k == hi ? 1 : in(A0, k)), "addRange(%u,%u), inverted, did not add exactly hi", lo, hi);
        RP_OK("addRange holds");
    }
    if (mode == "member") {
        const CharacterSet &cA = A;
        if ((cA[(unsigned char)ch] ? 1 : 0) != in(A0, ch)) RP_FAIL("set[%u] != membership", ch);
        bool same = true;
        for (unsigned k = 0; k < 256; ++k) if (in(A0, k) != in(B0, k)) same = false;
        B.rename("another label");
        if ((A == B) != same || (A != B) == same) RP_FAIL("operator==/!= is not set equality");
        RP_OK("membership and equality hold");
    }
    if (mode == "isempty") {
        // isEmpty() is outside the C50 statement: the verifier only pins its present behaviour (constantly false).
        // Property-level oracle: none.  The observation is printed, the replay does not fail.
        bool none = true;
        for (unsigned k = 0; k < 256; ++k) if (in(A0, k)) none = false;
        printf("note: set has %s members; isEmpty() returns %d (header comment: 'whether the set lacks any members')\n", none ? "no" : "some", (int)A.isEmpty());
        RP_OK("no property-level postcondition for isEmpty()");
    }
    if (mode == "ctors") {
        unsigned lo0 = c.num("lo0") & 255, hi0 = c.num("hi0") & 255, lo1 = c.num("lo1") & 255, hi1 = c.num("hi1") & 255;
        CharacterSet D(c.num("label_null") ? nullptr : "anonymous"), R("r", (unsigned char)lo, (unsigned char)hi);
        CharacterSet R2("r2", {{(uint8_t)lo0, (uint8_t)hi0}, {(uint8_t)lo1, (uint8_t)hi1}});
        CHECK_ALL(in(D, k) == 0, "default set not empty");
        CHECK_ALL(in(R, k) == (k >= lo && k <= hi), "CharacterSet(label,%u,%u) is not [lo,hi]", lo, hi);
        CHECK_ALL(in(R2, k) == ((k >= lo0 && k <= hi0) || (k >= lo1 && k <= hi1)), "range-list constructor wrong");
        RP_OK("constructors hold");
    }
    if (mode == "ctor_chars") {
        std::string s;
        for (auto x : c.arr("chars")) { if (x == 0) break; s.push_back((char)x); }
        CharacterSet R("r", s.c_str());
        CHECK_ALL(in(R, k) == str_has(s.c_str(), s.size() + 1, k), "CharacterSet(label, chars) != bytes of chars");
        RP_OK("string constructor holds");
    }
    if (mode == "tables") {
        int bad = 0;
        // CTL and CTEXT differ from their RFC definitions in the present code; the C50 statement does not demand the tables,
        // so the two deviations are printed as notes (the verifier pins the code's value) and do not fail the replay.
#define CHK(T) for (unsigned k = 0; k < 256; ++k) if (in(CharacterSet::T, k) != (rfc_##T(k) ? 1 : 0)) { \
            const bool known = std::string(#T) == "CTL" || std::string(#T) == "CTEXT"; \
            printf("%s: CharacterSet::" #T " %s byte 0x%02x, the RFC definition %s\n", known ? "note" : "REPLAY-FAIL", in(CharacterSet::T, k) ? "contains" : "lacks", k, rfc_##T(k) ? "contains it" : "does not"); if (!known) bad = 1; }
        TABLES(CHK)
        for (unsigned k = 0; k < 256; ++k)
            if (in(CharacterSet::RFC3986_UNRESERVED(), k) != (rfc_RFC3986_UNRESERVED(k) ? 1 : 0)) { printf("REPLAY-FAIL: RFC3986_UNRESERVED differs at 0x%02x\n", k); bad = 1; }
        for (unsigned k = 0; k < 256; ++k)
            if (in(CharacterSet::TCHAR, k) != (in(CharacterSet::VCHAR, k) && !in(CharacterSet::SPECIAL, k))) { printf("REPLAY-FAIL: TCHAR != VCHAR - SPECIAL at 0x%02x\n", k); bad = 1; }
        if (bad) return 1;
        RP_OK("all tables other than CTL/CTEXT equal their RFC definitions");
    }
    return 2;
}
