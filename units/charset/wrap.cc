// Wrapper TU for the charset unit (C50, set half).
// The REAL src/base/CharacterSet.cc (extracted at run time to CharacterSet_real.cc, with the rewrites listed in unit.json)
// is compiled here by the C++ front end together with its REAL header base/CharacterSet.h against the stub headers in stubs/.
// Below it: extern "C" entry points that marshal a 256-byte 0/1 array into a real CharacterSet object, call ONE real
// member function / operator, and marshal every object involved back out.  Contracts sit on these entry points
// (contract.c); the wrappers contain no set logic of their own.
#include "CharacterSet_real.cc"

typedef unsigned char u8;

// marshalling: byte k of the array <-> slot k of the private storage (made accessible by the `private:` rewrite)
static void cv_load(CharacterSet &s, const u8 *a)
{
    for (size_t k = 0; k < 256; ++k)
        s.chars_.d_[k] = a[k];
}
static void cv_store(const CharacterSet &s, u8 *a)
{
    for (size_t k = 0; k < 256; ++k)
        a[k] = s.chars_.d_[k];
}

extern "C" {

// A += B  (A, B distinct objects).  returns 1 iff the operator returned a reference to A itself
int cs_union(const u8 *a, const u8 *b, u8 *a_out, u8 *b_out)
{
    CharacterSet A("a"), B("b");
    cv_load(A, a);
    cv_load(B, b);
    CharacterSet &r = (A += B);
    cv_store(A, a_out);
    cv_store(B, b_out);
    return &r == &A;
}

// A -= B
int cs_diff(const u8 *a, const u8 *b, u8 *a_out, u8 *b_out)
{
    CharacterSet A("a"), B("b");
    cv_load(A, a);
    cv_load(B, b);
    CharacterSet &r = (A -= B);
    cv_store(A, a_out);
    cv_store(B, b_out);
    return &r == &A;
}

// A += A, A -= A (source and destination iterators alias)
void cs_union_self(const u8 *a, u8 *a_out)
{
    CharacterSet A("a");
    cv_load(A, a);
    A += A;
    cv_store(A, a_out);
}
void cs_diff_self(const u8 *a, u8 *a_out)
{
    CharacterSet A("a");
    cv_load(A, a);
    A -= A;
    cv_store(A, a_out);
}

// free operators: R = A + B, R = A - B (operands passed as the real signatures take them)
void cs_plus(const u8 *a, const u8 *b, u8 *r_out, u8 *a_out, u8 *b_out)
{
    CharacterSet A("a"), B("b");
    cv_load(A, a);
    cv_load(B, b);
    CharacterSet R = A + B;
    cv_store(R, r_out);
    cv_store(A, a_out);
    cv_store(B, b_out);
}
void cs_minus(const u8 *a, const u8 *b, u8 *r_out, u8 *a_out, u8 *b_out)
{
    CharacterSet A("a"), B("b");
    cv_load(A, a);
    cv_load(B, b);
    CharacterSet R = A - B;
    cv_store(R, r_out);
    cv_store(A, a_out);
    cv_store(B, b_out);
}

// R = A.complement(label); label_null selects the default-label path.  returns 1 iff R.name is non-null
int cs_complement(const u8 *a, int label_null, u8 *r_out, u8 *a_out)
{
    CharacterSet A("a");
    cv_load(A, a);
    CharacterSet R = A.complement(label_null ? (const char *)0 : "c");
    cv_store(R, r_out);
    cv_store(A, a_out);
    return R.name != 0;
}

int cs_add(const u8 *a, unsigned char c, u8 *a_out)
{
    CharacterSet A("a");
    cv_load(A, a);
    CharacterSet &r = A.add(c);
    cv_store(A, a_out);
    return &r == &A;
}
int cs_remove(const u8 *a, unsigned char c, u8 *a_out)
{
    CharacterSet A("a");
    cv_load(A, a);
    CharacterSet &r = A.remove(c);
    cv_store(A, a_out);
    return &r == &A;
}
int cs_addrange(const u8 *a, unsigned char lo, unsigned char hi, u8 *a_out)
{
    CharacterSet A("a");
    cv_load(A, a);
    CharacterSet &r = A.addRange(lo, hi);
    cv_store(A, a_out);
    return &r == &A;
}

// T3 slice: the BODY TEXT of CharacterSet::addRange (cut from the real file at run time into addrange_slice.inc, with
// `return *this;` -> `return;`), compiled over a plain pointer stand-in for the member `chars_`.  This copy exists only
// because a loop contract cannot be attached to a C++ member function (DESIGN 2 N-b) and 256 unwound iterations with a
// symbolic index do not bit-blast in reasonable time; the member function itself runs on concrete arguments in `tables`.
// Compiled only for the two targets that use it (CV_WITH_SLICE): a restyled addRange body that no longer fits the pointer
// stand-in then makes only those targets undecided, not the whole unit.
#ifdef CV_WITH_SLICE
void cs_addrange_sliced(unsigned char *chars_, unsigned char low, unsigned char high)
{
#include "addrange_slice.inc"
}
#endif

// membership and comparison
int cs_member(const u8 *a, unsigned char c)
{
    CharacterSet A("a");
    cv_load(A, a);
    const CharacterSet &cA = A;
    return cA[c] ? 1 : 0;
}
// bit 0: A == B, bit 1: A != B
int cs_equal(const u8 *a, const u8 *b)
{
    CharacterSet A("a"), B("a different label");
    cv_load(A, a);
    cv_load(B, b);
    return (A == B ? 1 : 0) | (A != B ? 2 : 0);
}

// isEmpty()
int cs_isempty(const u8 *a)
{
    CharacterSet A("a");
    cv_load(A, a);
    return A.isEmpty() ? 1 : 0;
}

// constructors on symbolic arguments
void cs_ctor_default(int label_null, u8 *r_out)
{
    if (label_null) {
        CharacterSet R((const char *)0);
        cv_store(R, r_out);
    } else {
        CharacterSet R;
        cv_store(R, r_out);
    }
}
void cs_ctor_chars(const char *chars, u8 *r_out)
{
    CharacterSet R("r", chars);
    cv_store(R, r_out);
}
void cs_ctor_range(unsigned char lo, unsigned char hi, u8 *r_out)
{
    CharacterSet R("r", lo, hi);
    cv_store(R, r_out);
}
// the initializer_list constructor on two symbolic ranges (the braced list lowered as the compiler lowers it)
void cs_ctor_ranges2(unsigned char lo0, unsigned char hi0, unsigned char lo1, unsigned char hi1, u8 *r_out)
{
    std::pair<uint8_t, uint8_t> r_[2];
    r_[0].first = lo0; r_[0].second = hi0;
    r_[1].first = lo1; r_[1].second = hi1;
    CharacterSet R("r", std::initializer_list<std::pair<uint8_t, uint8_t> >(r_, 2));
    cv_store(R, r_out);
}

// the predefined tables: each TBL_X() evaluates the real initialiser expression of CharacterSet::X through the real constructor
#define CV_TABLES(X) \
    X(0, ALPHA) X(1, BIT) X(2, CR) X(3, CTL) X(4, DIGIT) X(5, DQUOTE) X(6, HEXDIG) X(7, HTAB) X(8, LF) X(9, SP) \
    X(10, VCHAR) X(11, WSP) X(12, CTEXT) X(13, TCHAR) X(14, SPECIAL) X(15, QDTEXT) X(16, OBSTEXT) X(17, ETAGC) \
    X(18, TOKEN68C) X(19, RFC3986_UNRESERVED)
#define CV_TABLE_FN(n, T) \
    void cs_table_##T(u8 *r_out) { CharacterSet R = CharacterSet::TBL_##T(); cv_store(R, r_out); }
CV_TABLES(CV_TABLE_FN)

} // extern "C"
