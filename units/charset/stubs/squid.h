#ifndef CV_STUB_SQUID_H
#define CV_STUB_SQUID_H
typedef unsigned char uint8_t;
typedef unsigned long size_t;
extern "C" size_t strlen(const char *s);
#endif
