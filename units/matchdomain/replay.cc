// Native replay for the matchdomain unit: the SAME slice of the real src/anyp/Uri.cc that the verifier sees (extracted into the
// build dir on this run: mdn.c + mdn_enum.h), compiled natively against glibc's strlen/tolower under ASan+UBSan, run on the
// counterexample; the meaning for flags == 0 is re-evaluated with the spec functions of contract.c.
#include "replay.h"
#include <cstring>
#include <cctype>
#include <string>
#include "mdn.c"
#define N 4096
#define CV_NATIVE 1
namespace spec {
#include "contract.c"
}
static bool cexByte(const Cex &c, const std::string &k, int &out)
{
    auto it = c.kv.find(k);
    if (it == c.kv.end() || it->second.empty()) return false;
    const std::string &v = it->second;
    if (v[0] != '@') { out = (int)strtol(v.c_str(), nullptr, 10); return true; }
    if (v.size() >= 4 && v[1] == '\'' && v[2] == '\\') {
        switch (v[3]) { case 'n': out = '\n'; return true; case 'r': out = '\r'; return true; case 't': out = '\t'; return true;
        case 'v': out = '\v'; return true; case 'f': out = '\f'; return true; case 'a': out = '\a'; return true; case 'b': out = '\b'; return true;
        case '\\': out = '\\'; return true; case '\'': out = '\''; return true;
        case '0': case '1': case '2': case '3': out = (int)strtol(v.c_str() + 3, nullptr, 8); return true; }
    }
    if (v.size() >= 4 && v[1] == '\'' && v[3] == '\'') { out = (unsigned char)v[2]; return true; }
    return false;
}
static std::string str(const Cex &c, const char *name)
{
    std::string s;
    for (int i = 0; i < 4096; ++i) { int b = 0; if (!cexByte(c, std::string(name) + "[" + std::to_string(i) + "l]", b) || b == 0) break; s.push_back((char)b); }
    return s;
}
int main(int argc, char **argv)
{
    if (argc < 3) return 2;
    std::string h, d; int flags = 0;
    if (std::string(argv[1]) == "literal" && argc >= 4) { h = argv[2]; d = argv[3]; flags = argc > 4 ? atoi(argv[4]) : 0; }
    else { Cex c; if (!c.load(argv[2])) return 2; h = str(c, "hs"); d = str(c, "ds"); flags = (int)c.num("flags"); }
    // exact-size heap copies: ASan sees any read before the start or past the terminator
    char *hb = (char *)malloc(h.size() + 1); memcpy(hb, h.c_str(), h.size() + 1);
    char *db = (char *)malloc(d.size() + 1); memcpy(db, d.c_str(), d.size() + 1);
    const int r = matchDomainName(hb, db, (MatchDomainNameFlags)flags);
    printf("matchDomainName(\"%s\", \"%s\", %d) = %d\n", h.c_str(), d.c_str(), flags, r);
    if (flags == 0) {
        size_t dots = 0; while (hb[dots] == '.') ++dots;
        const int m = spec::spec_match(hb + dots, (long)strlen(hb + dots), db, (long)strlen(db));
        if ((r == 0) != (m != 0)) RP_FAIL("returns %d but the host %s the value", r, m ? "matches" : "does not match");
    }
    free(hb); free(db);
    RP_OK("postcondition holds on this input");
}
