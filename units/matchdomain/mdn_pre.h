/* surroundings of the matchDomainName slice (C mode): exactly what the body touches.
 * xtolower is the C branch of the real compat/xis.h (line "#define xtolower(x) tolower((unsigned char)x)"), restated: trusted. */
#ifndef CV_MDN_PRE_H
#define CV_MDN_PRE_H
#include <stdbool.h>
#include <stddef.h>
size_t strlen(const char *s);
int tolower(int c);
#define xtolower(x) tolower((unsigned char)x)
#endif
