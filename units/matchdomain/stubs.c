/* tolower in the "C" locale (ASCII): ASSUMED model -- squid runs its host-name comparisons in the C locale */
int tolower(int c) { return (c >= 'A' && c <= 'Z') ? c + ('a' - 'A') : c; }
