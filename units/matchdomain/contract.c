/* Sidecar contract for matchDomainName (src/anyp/Uri.cc), the per-value matcher behind dstdomain-style ACLs (C41).
 * Encoded harness-style: assume requires; call the REAL function (its three loops carry the invariants of loops_*.json);
 * assert ensures.  The meaning (flags == mdnNone) is written from the property statement and the function's doc comment
 * (src/anyp/Uri.h): a host matches a value iff, case-insensitively and with the host's leading dots removed,
 *   host == value,  or  value begins with '.' and ( host == value+1  or  host ends with value ). */
#include <stddef.h>
#include "mdn_enum.h"

#ifndef N
#define N 16          /* h and d are NUL-terminated strings shorter than N */
#endif

int matchDomainName(const char *h, const char *d, MatchDomainNameFlags flags);

size_t g;             /* ghost index (unused here, kept for the driver's default) */
/* ghosts read by the loop invariants; all are assigned by the harness before the call */
const char *gh0;      /* the host string as passed */
long gdots;           /* number of its leading dots */
long gHL, gDL;        /* strlen(host without leading dots), strlen(d) */

static int low(char c) { unsigned char u = (unsigned char)c; return (u >= 'A' && u <= 'Z') ? u + ('a' - 'A') : u; }
static long cv_strlen(const char *s) { long n = 0; while (n < N - 1 && s[n] != 0) n++; return n; }

/* the last n characters of hp[0..HL) and d[0..DL) are equal ignoring case (n <= HL, n <= DL) */
static int spec_suffix_eq(const char *hp, long HL, const char *d, long DL, long n)
{
    for (long j = 0; j < N; j++)
        if (j < n && low(hp[HL - 1 - j]) != low(d[DL - 1 - j])) return 0;
    return 1;
}
static int spec_match(const char *hp, long HL, const char *d, long DL)
{
    if (HL == 0 || DL == 0) return 0;                                   /* empty names match nothing (code: -1 / 1) */
    if (HL == DL && spec_suffix_eq(hp, HL, d, DL, HL)) return 1;        /* host == value */
    if (d[0] == '.') {
        if (HL == DL - 1 && spec_suffix_eq(hp, HL, d, DL, HL)) return 1;    /* host == value+1 */
        if (HL >= DL && spec_suffix_eq(hp, HL, d, DL, DL)) return 1;        /* host ends with value */
    }
    return 0;
}

#ifndef CV_NATIVE
/* copy the inputs into harness locals, byte by byte: puts every byte into the counterexample trace (native replay reads hs/ds) */
/* (a separate function: a loop inside the harness function itself makes the loop-contract pass inline the callee and lose its contracts) */
char hs[N], ds[N];
static void trace_inputs(const char *h, const char *d) { for (int ti = 0; ti < N; ti++) { hs[ti] = h[ti]; ds[ti] = d[ti]; } }
#define TRACE_INPUTS() trace_inputs(h, d)
static void setup(char *h, char *d)
{
    h[N - 1] = 0; d[N - 1] = 0;
    gh0 = h;
    long k = 0;
    while (k < N - 1 && h[k] == '.') k++;
    gdots = k;
    gHL = cv_strlen(h + gdots);
    gDL = cv_strlen(d);
}

/* ---------- memory safety + termination for every flag value (loop invariants: no index below 0 or beyond the terminator) ---------- */
#if defined(T_SAFETY)
void h_safety(void)
{
    char h[N], d[N]; int flags;
    setup(h, d);
    int r = matchDomainName(h, d, (MatchDomainNameFlags)flags);
    TRACE_INPUTS();
    __CPROVER_assert(h[N - 1] == 0 && d[N - 1] == 0, "ensures: inputs not written (sentinels)");
    __CPROVER_assert(!(gHL == 0) || r == -1, "ensures: a host that is empty after removing leading dots is 'less' (-1), never a match");
#ifdef TWIN_EMPTY
    __CPROVER_assert(!(gDL == 0 && gHL > 0) || r != 1, "ensures: TWIN (negated) empty value");
#else
    __CPROVER_assert(!(gDL == 0 && gHL > 0) || r == 1, "ensures: an empty value never matches (1)");
#endif
#ifdef REACH
    __CPROVER_assert(!(r == 0 && (flags & mdnRejectSubsubDomains) && gHL > gDL), "reach: subdomain match under mdnRejectSubsubDomains");
    __CPROVER_assert(!(r == 1 && (flags & mdnRejectSubsubDomains) && gHL > gDL + 2 && d[0] == '.'), "reach: sub-sub domain rejected");
    __CPROVER_assert(!(r == 0 && (flags & mdnHonorWildcards) && h[0] == '*'), "reach: wildcard match");
    __CPROVER_assert(!(r == -1 && gHL == N - 1), "reach: full-length host, less");
    __CPROVER_assert(!(gdots == N - 1), "reach: host made of dots only");
#endif
}
#endif

/* ---------- meaning for flags == mdnNone: returns 0 iff the host matches the value ---------- */
#if defined(T_SEMANTICS)
void h_semantics(void)
{
    char h[N], d[N];
    setup(h, d);
    int r = matchDomainName(h, d, mdnNone);
    const int flags = 0;
    TRACE_INPUTS();
    const char *hp = h + gdots;
    int m = spec_match(hp, gHL, d, gDL);
#ifdef TWIN_IFF
    __CPROVER_assert((r == 0) != (m != 0), "ensures: TWIN (negated) match iff spec");
#else
    __CPROVER_assert(!(r == 0) || m, "ensures: returns 0 => host == value, or value starts with '.' and host == value+1 or host ends with value (ignoring case, leading host dots removed)");
    __CPROVER_assert(!m || r == 0, "ensures: host matches the value in that sense => returns 0");
#endif
    __CPROVER_assert(h[N - 1] == 0 && d[N - 1] == 0, "ensures: inputs not written (sentinels)");
#ifdef REACH
    __CPROVER_assert(!(r == 0 && gHL == gDL && gHL == 7 && h[0] == 'F' && d[0] == 'f'), "reach: equal ignoring case");
    __CPROVER_assert(!(r == 0 && gHL == gDL - 1 && gHL == 7), "reach: host == value+1");
    __CPROVER_assert(!(r == 0 && gHL > gDL && gDL == 4 && gdots == 1), "reach: subdomain of a dotted value, host with a leading dot");
    __CPROVER_assert(!(r > 0 && gHL > gDL && d[0] != '.'), "reach: host ends with an undotted value: no match");
    __CPROVER_assert(!(r < 0 && gHL == gDL && gHL == N - 1), "reach: full-length mismatch");
#endif
}
#endif
#endif /* CV_NATIVE */
