/* Sidecar contract of the ipcmp unit (C42 "IP-address ACLs match exactly the configured address sets"), comparator level.
 * Harness-encoded contracts over the REAL code (see ip.cc / unit.json):
 *   Ip::Address        isIPv4 isIPv6 isAnyAddr isNoAddr matchIPAddr == != <= >= < > applyMask(Address)
 *                      applyMask(cidr,type) turnMaskedBitsOn setNoAddr setAnyAddr setEmpty cidr      (src/ip/Address.cc)
 *   acl_ip_data        firstAddress lastAddress DecodeMask, the two applyMask statements of FactoryParse  (src/acl/Ip.cc)
 *   aclIpAddrNetworkCompare (lookup comparator of ACLIP::match), ACLIP::match, ACLIP::parseGlobal
 *   Acl::SplayInserter<acl_ip_data*>::Compare / IsSubset / MakeCombinedValue (insertion side of Merge())
 * Every address is a full-domain symbolic 16-byte array (network byte order); all loops have constant bounds.
 *
 * MEANING of a configured value (from the property statement; an IPv4 address a.b.c.d is the 128-bit value ::ffff:a.b.c.d):
 *   address  A            the set {A}
 *   network  A/n          {x : x & M == A}, M = the mask with the top P bits set, P = n for IPv6 text, 96+n for IPv4 text
 *   range    A-B[/n]      {x : A <= (x & M) <= B} in the numeric order of the 16 bytes (M all ones without /n)
 *   "given without host bits below the mask": A & M == A (and B & M == B).
 * STORED FORM (what FactoryParse leaves in an acl_ip_data): addr1 = A, addr2 = B or all-zero for a non-range, mask = M.  */
#include <stddef.h>
typedef unsigned char u8;
struct cv_ent { u8 a1[16], a2[16], m[16]; };
#define CV_AF_INET 2
#define CV_AF_INET6 10

int ip_is_v4(const u8 *a);
int ip_is_v6(const u8 *a);
int ip_is_any(const u8 *a);
int ip_is_no(const u8 *a);
int ip_match(const u8 *a, const u8 *b);
int ip_eq(const u8 *a, const u8 *b);
int ip_ne(const u8 *a, const u8 *b);
int ip_le(const u8 *a, const u8 *b);
int ip_ge(const u8 *a, const u8 *b);
int ip_lt(const u8 *a, const u8 *b);
int ip_gt(const u8 *a, const u8 *b);
int ip_apply_cidr(u8 *a, unsigned cidr, int type);
int ip_apply_mask(u8 *a, const u8 *m);
void ip_turn_on(u8 *a, const u8 *m);
int ip_cidr(const u8 *a);
int acl_lookup(const u8 *client, const struct cv_ent *e);
int acl_compare(const struct cv_ent *a, const struct cv_ent *b);
int acl_issubset(const struct cv_ent *a, const struct cv_ent *b);
void acl_combine(const struct cv_ent *a, const struct cv_ent *b, struct cv_ent *r);
void acl_first(const struct cv_ent *a, u8 *r);
void acl_last(const struct cv_ent *a, u8 *r);
int acl_parse_finish(struct cv_ent *e, int has_mask, int cidr_text, int iptype);
int acl_match(const u8 *client, int any4, int any6, int have_entry, const struct cv_ent *e);
int acl_parse_global(const char *token, int any4, int any6);

/* ------------------------------------------------ spec functions ------------------------------------------------ */
static int sgn(int x) { return (x > 0) - (x < 0); }
/* numeric order of two 128-bit addresses in network byte order */
static int cmp16(const u8 *a, const u8 *b)
{
    for (int i = 0; i < 16; i++) {
        if (a[i] < b[i]) return -1;
        if (a[i] > b[i]) return 1;
    }
    return 0;
}
/* IPv4 address = member of ::ffff:0:0/96 */
static int is_v4(const u8 *a)
{
    for (int i = 0; i < 10; i++) if (a[i] != 0) return 0;
    return a[10] == 0xff && a[11] == 0xff;
}
static int all_bytes(const u8 *a, u8 v) { for (int i = 0; i < 16; i++) if (a[i] != v) return 0; return 1; }
/* the IPv4 addresses 0.0.0.0 / 255.255.255.255 */
static int is_v4_zero(const u8 *a) { return is_v4(a) && a[12] == 0 && a[13] == 0 && a[14] == 0 && a[15] == 0; }
static int is_v4_ones(const u8 *a) { return is_v4(a) && a[12] == 0xff && a[13] == 0xff && a[14] == 0xff && a[15] == 0xff; }
/* byte i of the mask with the top P bits set (0 <= P <= 128) */
static u8 prefix_byte(int P, int i)
{
    int bits = P - 8 * i;           /* mask bits that fall into byte i */
    if (bits >= 8) return 0xff;
    if (bits <= 0) return 0;
    return (u8)(0xff << (8 - bits));
}
static void prefix_mask(u8 *m, int P) { for (int i = 0; i < 16; i++) m[i] = prefix_byte(P, i); }
static int is_prefix_mask(const u8 *m, int P) { for (int i = 0; i < 16; i++) if (m[i] != prefix_byte(P, i)) return 0; return 1; }
static void and16(u8 *r, const u8 *a, const u8 *m) { for (int i = 0; i < 16; i++) r[i] = a[i] & m[i]; }
static void orn16(u8 *r, const u8 *a, const u8 *m) { for (int i = 0; i < 16; i++) r[i] = a[i] | (u8)~m[i]; }
static void cpy16(u8 *r, const u8 *a) { for (int i = 0; i < 16; i++) r[i] = a[i]; }
static int eq16(const u8 *a, const u8 *b) { for (int i = 0; i < 16; i++) if (a[i] != b[i]) return 0; return 1; }
static int no_host_bits(const u8 *a, const u8 *m) { for (int i = 0; i < 16; i++) if ((a[i] & m[i]) != a[i]) return 0; return 1; }

/* stored form of a configured value: family v4 (IPv4 text) or v6, prefix length P in the 128-bit space, range or not */
static int wf(const struct cv_ent *e, int v4, int P, int range)
{
    if (P < 0 || P > 128) return 0;
    if (v4 && P < 96) return 0;
    if (!is_prefix_mask(e->m, P)) return 0;
    if (v4 != is_v4(e->a1)) return 0;
    if (!no_host_bits(e->a1, e->m)) return 0;
    if (!range) return all_bytes(e->a2, 0);
    if (v4 != is_v4(e->a2)) return 0;
    if (!no_host_bits(e->a2, e->m)) return 0;
    return cmp16(e->a1, e->a2) <= 0;
}
/* x belongs to the set the value stands for (statement's meaning) */
static int spec_in(const u8 *x, const struct cv_ent *e, int range)
{
    u8 xm[16];
    and16(xm, x, e->m);
    if (!range) return eq16(xm, e->a1);
    return cmp16(e->a1, xm) <= 0 && cmp16(xm, e->a2) <= 0;
}
/* the set is the interval [lo, hi]: lo = A, hi = (B or A) with all bits below the mask set */
static void spec_lo(u8 *r, const struct cv_ent *e) { cpy16(r, e->a1); }
static void spec_hi(u8 *r, const struct cv_ent *e, int range) { orn16(r, range ? e->a2 : e->a1, e->m); }

/* copies of the inputs for the counterexample trace (the native replay reads them) */
u8 t_x[16], t_y[16];
struct cv_ent t_a, t_b, t_n;
int t_ra, t_rb, t_rn, t_cidr, t_type, t_hasmask, t_any4, t_any6, t_have;
static void trace_ent(struct cv_ent *t, const struct cv_ent *e) { cpy16(t->a1, e->a1); cpy16(t->a2, e->a2); cpy16(t->m, e->m); }

/* an arbitrary well-formed stored entry */
#define ARBITRARY_ENTRY(e, range)                                                       \
    struct cv_ent e; int range;                                                         \
    { int v4_, P_; range = range ? 1 : 0; v4_ = v4_ ? 1 : 0;                            \
      __CPROVER_assume(wf(&e, v4_, P_, range)); }

/* ---------------- Ip::Address predicates and operators against the numeric order ---------------- */
#if defined(T_OPS)
void h_ops(void)
{
    u8 a[16], b[16];
    cpy16(t_x, a); cpy16(t_y, b);
    int c = cmp16(a, b);
    int m = ip_match(a, b), le = ip_le(a, b), ge = ip_ge(a, b), lt = ip_lt(a, b), gt = ip_gt(a, b);
#ifdef TWIN_OPS
    __CPROVER_assert((le != 0) != (c <= 0), "ensures: TWIN (negated) <= is the numeric order");
#else
    __CPROVER_assert(ip_is_v4(a) == is_v4(a) && ip_is_v6(a) == !is_v4(a), "ensures: isIPv4() holds exactly for ::ffff:0:0/96 and isIPv6() for everything else (the families of 'ipv4' / 'ipv6')");
    __CPROVER_assert(m == c, "ensures: matchIPAddr(a,b) is -1/0/+1 = the numeric order of the two 16-byte addresses in network byte order");
    __CPROVER_assert(ip_eq(a, b) == (c == 0) && ip_ne(a, b) == (c != 0), "ensures: == and != are equality of the 16 address bytes");
    __CPROVER_assert((le != 0) == (c <= 0) && (lt != 0) == (c < 0), "ensures: a <= b and a < b are the numeric order, for ALL pairs (IPv4 0.0.0.0 / 255.255.255.255 against IPv6 included: one consistent order across both families, which share one tree)");
    __CPROVER_assert((ge != 0) == (c >= 0) && (gt != 0) == (c > 0), "ensures: a >= b and a > b are the numeric order, for ALL pairs");
    __CPROVER_assert(ip_is_any(a) == (all_bytes(a, 0) || is_v4_zero(a)), "api: isAnyAddr() is true exactly for :: and IPv4 0.0.0.0 (ip/Address.h)");
    __CPROVER_assert(ip_is_no(a) == (all_bytes(a, 0xff) || is_v4_ones(a)), "api: isNoAddr() is true exactly for ffff:...:ffff and IPv4 255.255.255.255 (ip/Address.h)");
#endif
#ifdef REACH
    __CPROVER_assert(!(m < 0 && a[0] == b[0] && a[15] < b[15]), "reach: decided by the last byte");
    __CPROVER_assert(!(m > 0 && is_v4(a) && !is_v4(b)), "reach: IPv4 address above an IPv6 address");
    __CPROVER_assert(!(m == 0 && is_v4(a)), "reach: equal IPv4 addresses");
#endif
}
#endif

/* ---------------- mask arithmetic ---------------- */
#if defined(T_APPLYMASK)
void h_applymask(void)
{
    u8 a[16], a0[16], m[16], want[16], pm[16];
    unsigned cidr; int type;
    __CPROVER_assume(type == CV_AF_INET || type == CV_AF_INET6);
    cpy16(a0, a); cpy16(t_x, a); t_cidr = (int)cidr; t_type = type;
    int r = ip_apply_cidr(a, cidr, type);
    int ok = cidr <= 128 && !(type == CV_AF_INET && cidr > 32);
    int P = type == CV_AF_INET6 ? (int)cidr : 96 + (int)cidr;
    if (ok) { prefix_mask(pm, P); and16(want, a0, pm); }
#ifdef TWIN_APPLYMASK
    __CPROVER_assert(!ok || !eq16(a, want), "ensures: TWIN (negated) applyMask(cidr) clears the low bits");
#else
    __CPROVER_assert((r != 0) == ok, "ensures: applyMask(cidr, type) succeeds exactly for cidr <= 128 (IPv6) / cidr <= 32 (IPv4)");
    __CPROVER_assert(ok || eq16(a, a0), "ensures: a rejected cidr leaves the address unchanged");
    __CPROVER_assert(!ok || eq16(a, want), "ensures: applyMask(cidr, type) clears exactly the low 128-cidr (IPv6) / 32-cidr (IPv4: the address lives in the last 4 of the 16 bytes) bits, for every accepted cidr including 0 (a /0 mask selects the whole family)");
#endif
    /* applyMask(mask): bitwise AND; the result counts the changed 32-bit words.  turnMaskedBitsOn(mask): OR with ~mask */
    u8 b[16], b0[16], c[16], wand[16], wor[16];
    cpy16(b0, b); cpy16(c, b);
    int ch = ip_apply_mask(b, m);
    ip_turn_on(c, m);
    and16(wand, b0, m); orn16(wor, b0, m);
    __CPROVER_assert(eq16(b, wand), "ensures: applyMask(mask) leaves address & mask");
    __CPROVER_assert((ch != 0) == !eq16(b0, wand) && ch >= 0 && ch <= 4, "ensures: applyMask(mask) returns non-zero exactly when it changed the address (FactoryParse's 'masks away part of the specified IP' warning)");
    __CPROVER_assert(eq16(c, wor), "ensures: turnMaskedBitsOn(mask) leaves address | ~mask");
#ifdef REACH
    __CPROVER_assert(!(r && type == CV_AF_INET && cidr == 24 && a0[15] != 0), "reach: IPv4 /24 clears a byte");
    __CPROVER_assert(!(r && type == CV_AF_INET6 && cidr == 61 && a0[7] == 0xff), "reach: IPv6 /61 clears part of a byte");
    __CPROVER_assert(!(r && cidr == 0), "reach: /0");
    __CPROVER_assert(!(!r && type == CV_AF_INET && cidr == 33), "reach: IPv4 /33 rejected");
    __CPROVER_assert(!(ch == 2), "reach: applyMask(mask) changed two words");
#endif
}
#endif

/* ---------------- FactoryParse's tail: DecodeMask() + the two applyMask statements produce the stored form ---------------- */
#if defined(T_PARSE)
void h_parse(void)
{
    struct cv_ent e, e0;
    int v4, range, hasmask, cidr;
    v4 = v4 ? 1 : 0; range = range ? 1 : 0; hasmask = hasmask ? 1 : 0;
    int type = v4 ? CV_AF_INET : CV_AF_INET6;
    __CPROVER_assume(cidr >= 0 && cidr <= (v4 ? 32 : 128));
    /* the decoded addresses: same family; a non-range has addr2 = the all-zero "any" address (FactoryParse: setAnyAddr()) */
    __CPROVER_assume(is_v4(e.a1) == v4);
    if (range) __CPROVER_assume(is_v4(e.a2) == v4 && cmp16(e.a1, e.a2) <= 0);
    else __CPROVER_assume(all_bytes(e.a2, 0));
    trace_ent(&e0, &e); trace_ent(&t_a, &e); t_ra = range; t_cidr = cidr; t_type = type; t_hasmask = hasmask;
    int P = !hasmask ? 128 : (v4 ? 96 + cidr : cidr);
    u8 M[16];
    prefix_mask(M, P);
    int hostbits = !no_host_bits(e0.a1, M) || (range && !no_host_bits(e0.a2, M));
    int changed = acl_parse_finish(&e, hasmask, cidr, type);
    int cidr0 = hasmask && cidr == 0;     /* only used by a reach assert: /0 is an ordinary case since the C42 repair (82c4d90) */
#ifdef TWIN_PARSE
    __CPROVER_assert(hostbits || !wf(&e, v4, P, range), "ensures: TWIN (negated) stored form");
#else
    __CPROVER_assert(changed >= 0, "ensures: a decimal mask length within the family's range is accepted");
    __CPROVER_assert(eq16(e.m, M), "ensures: the stored mask has exactly the top P bits set (P = 128 without a mask, cidr for IPv6, 96+cidr for IPv4; A/0 stands for the whole family)");
    __CPROVER_assert(hostbits || (wf(&e, v4, P, range) && eq16(e.a1, e0.a1) && eq16(e.a2, e0.a2)), "ensures: a value without host bits is stored unchanged, in the stored form the comparator targets quantify over");
    __CPROVER_assert((changed != 0) == hostbits, "ensures: the 'masks away part of the specified IP' warning condition holds exactly for values with host bits below the mask");
#endif
#ifdef REACH
    __CPROVER_assert(!(changed == 0 && v4 && hasmask && cidr == 8 && !range), "reach: IPv4 /8 network");
    __CPROVER_assert(!(changed == 0 && !v4 && hasmask && cidr == 7), "reach: IPv6 /7 network");
    __CPROVER_assert(!(changed == 0 && range && !hasmask), "reach: range without mask");
    __CPROVER_assert(!(changed > 0), "reach: host bits masked away");
    __CPROVER_assert(!(cidr0), "reach: /0");
#endif
}
#endif

/* ---------------- lookup comparator: 0 exactly when the address belongs to the entry's set ---------------- */
#if defined(T_LOOKUP)
void h_lookup(void)
{
    u8 x[16], lo[16], hi[16];
    ARBITRARY_ENTRY(e, range)
    cpy16(t_x, x); trace_ent(&t_a, &e); t_ra = range;
    int r = acl_lookup(x, &e);
    int in = spec_in(x, &e, range);
    spec_lo(lo, &e); spec_hi(hi, &e, range);
#ifdef TWIN_LOOKUP
    __CPROVER_assert((r == 0) != (in != 0), "ensures: TWIN (negated) lookup comparator 0 iff member");
#else
    __CPROVER_assert(in == (cmp16(lo, x) <= 0 && cmp16(x, hi) <= 0), "lemma: the set of a well-formed value is the interval [addr1, (addr2 or addr1) | ~mask]");
    __CPROVER_assert((r == 0) == (in != 0), "ensures: the lookup comparator returns 0 exactly when the address belongs to the configured value's set (every address, IPv4 0.0.0.0 and 255.255.255.255 included)");
    __CPROVER_assert(!(!in && cmp16(x, lo) < 0) || r < 0, "ensures: an address below the value's interval is ordered before it");
    __CPROVER_assert(!(!in && cmp16(x, hi) > 0) || r > 0, "ensures: an address above the value's interval is ordered after it");
#endif
#ifdef REACH
    __CPROVER_assert(!(r == 0 && !range && e.m[15] == 0 && is_v4(x)), "reach: IPv4 address inside a network");
    __CPROVER_assert(!(r == 0 && range && cmp16(e.a1, x) < 0 && cmp16(x, e.a2) < 0), "reach: address strictly inside a range");
    __CPROVER_assert(!(r == 0 && range && e.m[15] != 0xff), "reach: address inside a masked range");
    __CPROVER_assert(!(r < 0 && !is_v4(x)), "reach: IPv6 address before the value");
    __CPROVER_assert(!(r > 0 && range), "reach: address after a range");
#endif
}
#endif

/* ---------------- insertion comparator on two entries ---------------- */
#if defined(T_PAIR) || defined(T_SUBSET)
#if defined(T_PAIR)
void h_pair(void)
#else
void h_subset(void)
#endif
{
    u8 loa[16], hia[16], lob[16], hib[16], fa[16], la[16];
    ARBITRARY_ENTRY(a, ra)
    ARBITRARY_ENTRY(b, rb)
    trace_ent(&t_a, &a); trace_ent(&t_b, &b); t_ra = ra; t_rb = rb;
    spec_lo(loa, &a); spec_hi(hia, &a, ra); spec_lo(lob, &b); spec_hi(hib, &b, rb);
    int before = cmp16(hia, lob) < 0, after = cmp16(loa, hib) > 0;     /* disjoint intervals; otherwise they intersect */
    int c1 = acl_compare(&a, &b);
#if defined(T_PAIR)
    int c2 = acl_compare(&b, &a);
#ifdef TWIN_PAIR
    __CPROVER_assert((c1 == 0) != (!before && !after), "ensures: TWIN (negated) Compare 0 iff the sets intersect");
#else
    __CPROVER_assert(sgn(c1) == -sgn(c2), "ensures: Compare(a,b) and Compare(b,a) have opposite signs or are both 0");
    __CPROVER_assert((c1 == 0) == (!before && !after), "ensures: Compare(a,b) == 0 exactly when the two sets have a common address (reported as overlap)");
    __CPROVER_assert(((c1 < 0) == before && (c1 > 0) == after), "ensures: disjoint sets are ordered by Compare as their intervals are in the numeric order");
#endif
#ifdef REACH
    __CPROVER_assert(!(c1 == 0 && !ra && !rb && !eq16(a.m, b.m)), "reach: network inside a network");
    __CPROVER_assert(!(c1 == 0 && ra && rb && cmp16(loa, lob) < 0 && cmp16(hia, hib) < 0), "reach: partial overlap (Merge() combines)");
    __CPROVER_assert(!(c1 < 0 && c2 > 0 && is_v4(a.a1) && !is_v4(b.a1)), "reach: IPv4 value before an IPv6 value");
    __CPROVER_assert(!(c1 > 0 && is_v4(a.a1) && !is_v4(b.a1)), "reach: IPv4 value after an IPv6 value");
#endif
#else   /* T_SUBSET */
    int s_ab = acl_issubset(&a, &b), s_ba = acl_issubset(&b, &a);
    acl_first(&a, fa); acl_last(&a, la);
    int sub_ab = cmp16(lob, loa) <= 0 && cmp16(hia, hib) <= 0, sub_ba = cmp16(loa, lob) <= 0 && cmp16(hib, hia) <= 0;
#ifdef TWIN_SUBSET
    __CPROVER_assert(!(c1 == 0) || (s_ab != 0) != sub_ab, "ensures: TWIN (negated) IsSubset is set inclusion");
#else
    __CPROVER_assert(eq16(fa, loa) && eq16(la, hia), "ensures: firstAddress() / lastAddress() are the least / greatest member of the value's set");
    __CPROVER_assert(!(c1 == 0) || ((s_ab != 0) == sub_ab && (s_ba != 0) == sub_ba), "ensures: for overlapping values IsSubset(a,b) holds exactly when every address of a is in b (Merge() may drop a)");
#endif
#ifdef REACH
    __CPROVER_assert(!(c1 == 0 && s_ab && !s_ba && !ra && !rb), "reach: network inside a network");
    __CPROVER_assert(!(c1 == 0 && !s_ab && !s_ba), "reach: partial overlap (Merge() combines)");
    __CPROVER_assert(!(c1 == 0 && s_ab && s_ba), "reach: duplicates");
    __CPROVER_assert(!(c1 == 0 && s_ba && !s_ab && ra && !rb), "reach: network inside a range");
#endif
#endif
}
#endif

/* ---------------- an address and two entries: what Merge() + find() need from the two comparators together ---------------- */
#if defined(T_TRIPLE)
void h_triple(void)
{
    u8 x[16], loa[16], hia[16], lob[16], hib[16];
    ARBITRARY_ENTRY(a, ra)
    ARBITRARY_ENTRY(b, rb)
    cpy16(t_x, x); trace_ent(&t_a, &a); trace_ent(&t_b, &b); t_ra = ra; t_rb = rb;
    spec_lo(loa, &a); spec_hi(hia, &a, ra); spec_lo(lob, &b); spec_hi(hib, &b, rb);
    int m_a = acl_lookup(x, &a), m_b = acl_lookup(x, &b);
    int c = acl_compare(&a, &b);
    int s_ab = acl_issubset(&a, &b);
#ifdef TWIN_TRIPLE
    __CPROVER_assert(!(m_a == 0 && c != 0) || sgn(m_b) != sgn(c), "ensures: TWIN (negated) lookup order == insertion order");
#else
    __CPROVER_assert(!(m_a == 0 && c == 0 && s_ab) || m_b == 0, "ensures: an address matched by a is still matched by b when Merge() drops a as covered by b (Compare(a,b) == 0 and IsSubset(a,b))");
    __CPROVER_assert(!(m_a == 0 && m_b == 0) || c == 0, "ensures: two values that match a common address are reported as overlapping (Compare == 0)");
    __CPROVER_assert(!(m_a == 0 && c != 0) || sgn(m_b) == sgn(c), "ensures: non-overlapping values: an address matched by a is ordered against b by the lookup comparator exactly as a is by the insertion comparator");
    __CPROVER_assert(!(c < 0) || sgn(m_a) >= sgn(m_b), "ensures: the lookup comparator is monotone along the insertion order (a before b => sign(cmp(x,a)) >= sign(cmp(x,b)))");
    __CPROVER_assert(!(c > 0) || sgn(m_a) <= sgn(m_b), "ensures: the lookup comparator is monotone along the insertion order (b before a)");
#endif
#ifdef REACH
    __CPROVER_assert(!(m_a == 0 && c == 0 && s_ab && m_b == 0 && ra), "reach: range dropped as covered, address inside it");
    __CPROVER_assert(!(m_a == 0 && c < 0 && m_b < 0), "reach: address in a, a before b");
    __CPROVER_assert(!(m_a == 0 && c > 0 && m_b > 0), "reach: address in a, a after b");
    __CPROVER_assert(!(c < 0 && m_a > 0 && m_b < 0), "reach: address strictly between two values");
    __CPROVER_assert(!(m_a == 0 && m_b == 0 && is_v4(x) && !is_v4(b.a1)), "reach: IPv4 address in an IPv4 value and in an IPv6 network");
#endif
}
#endif

/* ---------------- three entries: Compare is a consistent order ---------------- */
#if defined(T_ORDER)
void h_order(void)
{
    ARBITRARY_ENTRY(n, rn)
    ARBITRARY_ENTRY(a, ra)
    ARBITRARY_ENTRY(b, rb)
    trace_ent(&t_n, &n); trace_ent(&t_a, &a); trace_ent(&t_b, &b); t_rn = rn; t_ra = ra; t_rb = rb;
    int c_ab = acl_compare(&a, &b), c_na = acl_compare(&n, &a), c_nb = acl_compare(&n, &b);
#ifdef TWIN_ORDER
    __CPROVER_assert(!(c_ab < 0) || sgn(c_na) < sgn(c_nb), "ensures: TWIN (negated) monotone");
#else
    __CPROVER_assert(!(c_ab < 0) || sgn(c_na) >= sgn(c_nb), "ensures: a before b => sign(Compare(n,a)) >= sign(Compare(n,b)) for every value n (n after b => n after a; n before a => n before b; the values overlapping n are contiguous)");
    __CPROVER_assert(!(c_ab < 0 && c_nb > 0) || c_na > 0, "ensures: transitive: a before b and b before n => a before n");
#endif
#ifdef REACH
    __CPROVER_assert(!(c_ab < 0 && c_na > 0 && c_nb < 0), "reach: n strictly between a and b");
    __CPROVER_assert(!(c_ab < 0 && c_na == 0 && c_nb == 0), "reach: n overlaps both a and b");
    __CPROVER_assert(!(c_ab < 0 && c_nb > 0), "reach: three values in a row");
#endif
}
#endif

/* ---------------- MakeCombinedValue: the merged value stands for exactly the union ---------------- */
#if defined(T_COMBINE)
void h_combine(void)
{
    u8 x[16], loa[16], hia[16], lob[16], hib[16];
    struct cv_ent r;
    ARBITRARY_ENTRY(a, ra)
    ARBITRARY_ENTRY(b, rb)
    cpy16(t_x, x); trace_ent(&t_a, &a); trace_ent(&t_b, &b); t_ra = ra; t_rb = rb;
    spec_lo(loa, &a); spec_hi(hia, &a, ra); spec_lo(lob, &b); spec_hi(hib, &b, rb);
    /* Merge() combines two values only when they overlap and neither covers the other */
    int before = cmp16(hia, lob) < 0, after = cmp16(loa, hib) > 0;
    int sub_ab = cmp16(lob, loa) <= 0 && cmp16(hia, hib) <= 0, sub_ba = cmp16(loa, lob) <= 0 && cmp16(hib, hia) <= 0;
    __CPROVER_assume(!before && !after && !sub_ab && !sub_ba);
    acl_combine(&a, &b, &r);
    int v4 = is_v4(r.a1);
    int m_r = acl_lookup(x, &r);
    int in = spec_in(x, &a, ra) || spec_in(x, &b, rb);
#ifdef TWIN_COMBINE
    __CPROVER_assert((m_r == 0) != (in != 0), "ensures: TWIN (negated) combined value == union");
#else
    __CPROVER_assert((m_r == 0) == (in != 0), "ensures: the value Merge() stores for two partially overlapping values matches exactly the addresses of their union");
    __CPROVER_assert(eq16(r.a1, cmp16(loa, lob) <= 0 ? loa : lob) && eq16(r.a2, cmp16(hia, hib) >= 0 ? hia : hib) && all_bytes(r.m, 0xff),
                     "ensures: the combined value is the range from the smaller first address to the greater last address, mask all ones");
    __CPROVER_assert(is_v4(r.a1) != is_v4(r.a2) || wf(&r, v4, 128, 1), "lemma: a combined value whose ends are of one family is again a well-formed stored range (the comparator facts apply to it)");
#endif
#ifdef REACH
    __CPROVER_assert(!(m_r == 0 && spec_in(x, &a, ra) && !spec_in(x, &b, rb)), "reach: address only in a");
    __CPROVER_assert(!(m_r == 0 && ra && !rb), "reach: range combined with a network");
    __CPROVER_assert(!(m_r != 0), "reach: address outside the union");
#endif
}
#endif

/* ---------------- ACLIP::match(): the family flags and (at most) one stored value ---------------- */
#if defined(T_MATCH)
void h_match(void)
{
    u8 x[16];
    int any4, any6, have;
    any4 = any4 ? 1 : 0; any6 = any6 ? 1 : 0; have = have ? 1 : 0;
    ARBITRARY_ENTRY(e, range)
    cpy16(t_x, x); trace_ent(&t_a, &e); t_ra = range; t_any4 = any4; t_any6 = any6; t_have = have;
    int r = acl_match(x, any4, any6, have, &e);
    int want = (any4 && is_v4(x)) || (any6 && !is_v4(x)) || (have && spec_in(x, &e, range));
#ifdef TWIN_MATCH
    __CPROVER_assert((r != 0) != (want != 0), "ensures: TWIN (negated) match");
#else
    __CPROVER_assert((r != 0) == (want != 0), "ensures: ACLIP::match() of an ACL holding 'ipv4' / 'ipv6' / 'all' flags and at most one value returns true exactly for the addresses of the flagged families and of the value's set");
#endif
#ifdef REACH
    __CPROVER_assert(!(r && any4 && !any6 && !have), "reach: 'ipv4' matches");
    __CPROVER_assert(!(r && !any4 && any6 && !have), "reach: 'ipv6' matches");
    __CPROVER_assert(!(!r && any4 && !any6 && have), "reach: 'ipv4' plus an IPv6 value, IPv6 address outside");
    __CPROVER_assert(!(r && any4 && !any6 && have && !is_v4(x)), "reach: 'ipv4' plus an IPv6 value, IPv6 address inside (fall through to the tree)");
    __CPROVER_assert(!(!r && !have), "reach: empty ACL");
#endif
}
#endif

/* ---------------- ACLIP::parseGlobal(): all / ipv4 / ipv6 ---------------- */
#if defined(T_GLOBAL)
void h_global(void)
{
    int any4, any6, which;
    any4 = any4 ? 1 : 0; any6 = any6 ? 1 : 0;
    const char *tok[6] = { "all", "ipv4", "ipv6", "10.0.0.0/8", "ipv", "ALL" };
    __CPROVER_assume(which >= 0 && which < 6);
    t_any4 = any4; t_any6 = any6; t_have = which;
    int r = acl_parse_global(tok[which], any4, any6);
    int w4 = any4 || which == 0 || which == 1, w6 = any6 || which == 0 || which == 2;
#ifdef TWIN_GLOBAL
    __CPROVER_assert(!(which == 1) || ((r >> 2) & 1) != any6, "ensures: TWIN (negated) 'ipv4' leaves the IPv6 flag alone");
#else
    __CPROVER_assert((r & 1) == (which <= 2), "ensures: all, ipv4, ipv6 are consumed as global parameters; an address value or another spelling is not");
    __CPROVER_assert(((r >> 1) & 1) == w4 && ((r >> 2) & 1) == w6, "ensures: 'all' sets both family flags, 'ipv4' / 'ipv6' exactly their own; earlier flags are kept");
#endif
#ifdef REACH
    __CPROVER_assert(!(r == 7 && which == 0), "reach: all");
    __CPROVER_assert(!(r == 3 && which == 1), "reach: ipv4");
    __CPROVER_assert(!(r == 5 && which == 2), "reach: ipv6");
    __CPROVER_assert(!(r == 0 && which == 3), "reach: ordinary value");
#endif
}
#endif
