// Native replay for the ipcmp unit (C42), compiled with ASan+UBSan.
// REAL code: class Ip::Address (src/ip/Address.h, unedited) with the member functions of src/ip/Address.cc that the verifier
// sees (addr_native.inc: the same slices, unedited), class acl_ip_data (src/acl/Ip.h slice), include/splay.h (Splay<>),
// src/acl/SplayInserter.h (Merge) and the functions of src/acl/Ip.cc (aclip_native.inc, unedited slices: firstAddress,
// lastAddress, the SplayInserter<acl_ip_data*> specialisations, aclIpAddrNetworkCompare, DecodeMask, the applyMask
// statements of FactoryParse, ACLIP::match, ACLIP::parseGlobal).  Stand-ins: debugs()/fatal(), class ACLIP's declaration
// (the real one derives from Acl::Node), printing of values, and the text-to-address step (inet_pton; FactoryParse's sscanf
// patterns are mimicked by parseValue() below -- textual forms are outside the unit).
// ORACLE = the PROPERTY: an ACL built from the values (every insertion order) matches address x  <=>  x belongs to the union
// of the values' sets, where the sets are computed here from the statement's meaning (plain 128-bit integer arithmetic).
#include "replay.h"
#include <cstdint>
#include <array>
#include <cstring>
#include <iostream>
#include <algorithm>
#include <type_traits>
#include <arpa/inet.h>
#include <sys/socket.h>
#include <netinet/in.h>
#include <netdb.h>
#define HAVE_SYS_SOCKET_H 1
#define HAVE_NETINET_IN_H 1
#define HAVE_NETDB_H 1
#define SQUID_SRC_FATAL_H
#define SQUID_SRC_ACL_ACL_H
#define SQUID_SRC_DEBUG_STREAM_H
#define SQUID_SRC_GLOBALS_H
static void fatal(const char *m) { fprintf(stderr, "fatal: %s\n", m); abort(); }
static int g_warn = 1;
#define debugs(S, L, C) do { if (g_warn && (L) <= 1) std::cout << "    squid: " << C << "\n"; } while (0)
#define DBG_PARSE_NOTE(x) (x)
#define DBG_IMPORTANT 1
#define DBG_CRITICAL 0
namespace Debug { static const char *Extra = "\n      "; }
#define Assure(c) do { if (!(c)) { printf("Assure failed: %s\n", #c); abort(); } } while (0)
#include "ip/Address.h"                  // REAL (from {repo}/src)
#include "addr_native.inc"               // REAL member functions, unedited
// stand-in for the text constructor used by DecodeMask's netmask branch (real one: getaddrinfo(AI_NUMERICHOST))
bool Ip::Address::operator =(const char *s)
{
    struct in_addr v4; struct in6_addr v6;
    if (inet_pton(AF_INET6, s, &v6) == 1) { *this = v6; return true; }
    if (inet_pton(AF_INET, s, &v4) == 1) { memset(&v6, 0, sizeof(v6)); v6.s6_addr[10] = v6.s6_addr[11] = 0xff; memcpy(&v6.s6_addr[12], &v4, 4); *this = v6; return true; }
    return false;
}
static std::string ipText(const Ip::Address &a);
// stand-in (debug output only): the real toUrl() formats address and port
char *Ip::Address::toUrl(char *buf, unsigned int len) const { snprintf(buf, len, "%s", ipText(*this).c_str()); return buf; }
#define MEMPROXY_CLASS(x) int cv_memproxy_unused_
class SBuf;
#include "ipdata.h"                      // REAL class acl_ip_data (its `private:` label made public at extraction)
#include "splay.h"                       // REAL
int splayLastResult = 0;                 // lib/Splay.cc
static std::string ipText(const Ip::Address &a)
{
    struct in6_addr x; a.getInAddr(x);
    char buf[64];
    if (a.isIPv4()) { inet_ntop(AF_INET, &x.s6_addr[12], buf, sizeof(buf)); return buf; }
    inet_ntop(AF_INET6, &x, buf, sizeof(buf));
    return buf;
}
static int maskBits(const Ip::Address &m) { struct in6_addr x; m.getInAddr(x); int n = 0; for (int i = 0; i < 16; ++i) n += __builtin_popcount(x.s6_addr[i]); return n; }
static std::ostream &operator <<(std::ostream &os, acl_ip_data *v)
{
    if (!v) return os;
    os << ipText(v->addr1);
    if (!v->addr2.isAnyAddr()) os << "-" << ipText(v->addr2);
    if (!v->mask.isNoAddr()) os << "/" << (maskBits(v->mask) - (v->addr1.isIPv4() ? 96 : 0));
    return os;
}
#define private public                    /* the comparator-level check below calls Compare() directly */
#include "acl/SplayInserter.h"           // REAL Merge()
#undef private
class ACLIP
{
public:
    typedef Splay<acl_ip_data *> IPSplay;
    int match(const Ip::Address &);     // REAL body
    bool parseGlobal(const char *);     // REAL body
    IPSplay *data = nullptr;
    bool matchAnyIpv4 = false;
    bool matchAnyIpv6 = false;
};
#include "aclip_native.inc"              // REAL functions of src/acl/Ip.cc, unedited

// the types the verifier-side rewrites wrote in place of `auto` are the ones g++ deduces
static_assert(std::is_same<decltype(std::declval<acl_ip_data>().firstAddress()), Ip::Address>::value, "firstAddress");
static_assert(std::is_same<decltype(std::declval<acl_ip_data>().addr1), Ip::Address>::value, "auto ip = addr1");
static_assert(std::is_same<decltype(reinterpret_cast<uint32_t *>((void *)nullptr)), uint32_t *>::value, "addressWords");
static_assert(std::is_same<decltype(sizeof(struct in6_addr) / sizeof(uint32_t)), size_t>::value, "len");

// ---------------- the property's arithmetic (128-bit, network byte order) ----------------
typedef std::array<unsigned char, 16> A16;
static A16 bytesOf(const Ip::Address &a) { struct in6_addr x; a.getInAddr(x); A16 r; memcpy(r.data(), &x, 16); return r; }
static Ip::Address addrOf(const A16 &b) { struct in6_addr x; memcpy(&x, b.data(), 16); return Ip::Address(x); }
static bool isV4(const A16 &a) { for (int i = 0; i < 10; ++i) if (a[i]) return false; return a[10] == 0xff && a[11] == 0xff; }
static A16 prefixMask(int P) { A16 m; for (int i = 0; i < 16; ++i) { int bits = P - 8 * i; m[i] = bits >= 8 ? 0xff : bits <= 0 ? 0 : (unsigned char)(0xff << (8 - bits)); } return m; }
static A16 band(const A16 &a, const A16 &m) { A16 r; for (int i = 0; i < 16; ++i) r[i] = a[i] & m[i]; return r; }
static std::string text(const A16 &a) { return ipText(addrOf(a)); }
// a configured value as the STATEMENT reads it
struct Value { A16 a, b; bool range; int P; std::string txt; bool v4; };
static bool inValue(const A16 &x, const Value &v)
{
    const A16 xm = band(x, prefixMask(v.P));
    if (!v.range) return xm == v.a;
    return !(xm < v.a) && !(v.b < xm);
}
static Value fromStored(const A16 &a1, const A16 &a2, const A16 &m, bool range)
{
    Value v; v.a = a1; v.b = a2; v.range = range; v.v4 = isV4(a1);
    v.P = 0; for (int i = 0; i < 16; ++i) v.P += __builtin_popcount(m[i]);
    std::string s = text(a1);
    if (range) s += "-" + text(a2);
    if (v.P != 128) s += "/" + std::to_string(v.P - (v.v4 ? 96 : 0));
    v.txt = s;
    return v;
}
static bool parseAddr(const std::string &s, A16 &out, bool &v4)
{
    struct in_addr a4; struct in6_addr a6;
    if (inet_pton(AF_INET, s.c_str(), &a4) == 1) { out.fill(0); out[10] = out[11] = 0xff; memcpy(&out[12], &a4, 4); v4 = true; return true; }
    if (inet_pton(AF_INET6, s.c_str(), &a6) == 1) { memcpy(out.data(), &a6, 16); v4 = false; return true; }
    return false;
}
// "A", "A/n", "A-B", "A-B/n"  (what FactoryParse's SCAN_ACL patterns accept, numeric masks only)
static bool parseValue(const std::string &t, Value &v, int &cidr, bool &hasMask)
{
    std::string s = t, m;
    auto sl = s.find('/');
    hasMask = sl != std::string::npos;
    if (hasMask) { m = s.substr(sl + 1); s = s.substr(0, sl); }
    auto da = s.find('-');
    v.range = da != std::string::npos;
    bool v4b = false;
    if (!parseAddr(v.range ? s.substr(0, da) : s, v.a, v.v4)) return false;
    if (v.range) { if (!parseAddr(s.substr(da + 1), v.b, v4b) || v4b != v.v4) return false; } else v.b.fill(0);
    cidr = hasMask ? atoi(m.c_str()) : 0;
    v.P = !hasMask ? 128 : (v.v4 ? 96 + cidr : cidr);
    v.txt = t;
    return true;
}
// the stored acl_ip_data for a value: REAL DecodeMask + REAL applyMask statements of FactoryParse
static acl_ip_data *store(const Value &v, bool hasMask, int cidr)
{
    auto *q = new acl_ip_data;
    q->addr1 = addrOf(v.a);
    if (v.range) q->addr2 = addrOf(v.b); else q->addr2.setAnyAddr();
    const std::string m = hasMask ? std::to_string(cidr) : "";
    if (!acl_ip_data::DecodeMask(m.c_str(), q->mask, v.v4 ? AF_INET : AF_INET6)) { printf("  DecodeMask rejected '%s'\n", m.c_str()); delete q; return nullptr; }
    const unsigned changed = cv_factory_apply_mask(q);
    if (changed) printf("  (squid would warn: netmask masks away part of the specified IP in '%s')\n", v.txt.c_str());
    return q;
}
static acl_ip_data *storeRaw(const A16 &a1, const A16 &a2, const A16 &m)
{
    return new acl_ip_data(addrOf(a1), addrOf(a2), addrOf(m), nullptr);
}
static void freeValue(acl_ip_data *&v) { delete v; }

struct Item { Value v; bool hasMask; int cidr; bool raw; A16 a1, a2, m; };
// builds the ACL from `items` in the given order with the REAL Merge(), asks the REAL ACLIP::match() about every probe
static int checkList(const std::vector<Item> &items, const std::vector<A16> &probes, bool any4 = false, bool any6 = false)
{
    int bad = 0;
    ACLIP acl;
    acl.data = new ACLIP::IPSplay();
    acl.matchAnyIpv4 = any4; acl.matchAnyIpv6 = any6;
    printf("  acl X src%s%s", any4 ? " ipv4" : "", any6 ? " ipv6" : "");
    for (auto &i : items) printf(" %s", i.v.txt.c_str());
    printf("\n");
    for (auto &i : items) {
        acl_ip_data *q = i.raw ? storeRaw(i.a1, i.a2, i.m) : store(i.v, i.hasMask, i.cidr);
        if (q) Acl::SplayInserter<acl_ip_data*>::Merge(*acl.data, std::move(q));
    }
    for (auto &x : probes) {
        bool want = (any4 && isV4(x)) || (any6 && !isV4(x));
        for (auto &i : items) if (inValue(x, i.v)) want = true;
        const bool got = acl.match(addrOf(x)) != 0;
        if (got != want) {
            printf("  address %s: ACL %s, but %s\n", text(x).c_str(), got ? "MATCHES" : "does NOT match", want ? "it belongs to a configured value" : "it belongs to no configured value");
            ++bad;
        }
    }
    acl.data->destroy(freeValue);
    delete acl.data;
    return bad;
}
static A16 plus(A16 a, int d)
{
    for (int i = 15; i >= 0; --i) { int v = a[i] + d; a[i] = (unsigned char)v; if (v >= 0 && v <= 255) break; d = v < 0 ? -1 : 1; }
    return a;
}
static void addProbes(std::vector<A16> &p, const Value &v)
{
    A16 lo = v.a, hi = v.range ? v.b : v.a; const A16 m = prefixMask(v.P);
    for (int i = 0; i < 16; ++i) hi[i] |= (unsigned char)~m[i];
    for (const A16 &e : {lo, hi}) { p.push_back(e); p.push_back(plus(e, 1)); p.push_back(plus(e, -1)); }
}
static int runLists(std::vector<Item> items, std::vector<A16> probes, bool any4 = false, bool any6 = false)
{
    for (auto &i : items) addProbes(probes, i.v);
    A16 z; z.fill(0); probes.push_back(z); z[10] = z[11] = 0xff; probes.push_back(z);      // ::, 0.0.0.0
    A16 o; o.fill(0xff); probes.push_back(o); for (int i = 0; i < 10; ++i) o[i] = 0; probes.push_back(o);   // all ones, 255.255.255.255
    std::sort(probes.begin(), probes.end());
    probes.erase(std::unique(probes.begin(), probes.end()), probes.end());
    std::vector<int> idx(items.size());
    for (size_t i = 0; i < idx.size(); ++i) idx[i] = (int)i;
    int bad = 0;
    do {
        std::vector<Item> l;
        for (int k : idx) l.push_back(items[k]);
        bad += checkList(l, probes, any4, any6);
        fflush(stdout);
    } while (std::next_permutation(idx.begin(), idx.end()));
    return bad;
}

static bool cexArr(const Cex &c, const std::string &name, A16 &out)
{
    for (int i = 0; i < 16; ++i) {
        const std::string k = name + "[" + std::to_string(i) + "l]";
        if (!c.has(k)) return false;
        out[i] = (unsigned char)c.num(k);
    }
    return true;
}
static bool cexItem(const Cex &c, const char *name, const char *rk, Item &it)
{
    if (!cexArr(c, std::string(name) + ".a1", it.a1) || !cexArr(c, std::string(name) + ".a2", it.a2) || !cexArr(c, std::string(name) + ".m", it.m)) return false;
    it.raw = true; it.hasMask = false; it.cidr = 0;
    it.v = fromStored(it.a1, it.a2, it.m, c.num(rk) != 0);
    return true;
}

int main(int argc, char **argv)
{
    if (argc < 3) return 2;
    std::string mode = argv[1];
    if (mode == "literal") {            // literal <address> <value>...   (ipv4 / ipv6 / all are accepted as values)
        A16 x; bool v4;
        if (!parseAddr(argv[2], x, v4)) return 2;
        std::vector<Item> items; bool any4 = false, any6 = false;
        for (int i = 3; i < argc; ++i) {
            ACLIP g;
            if (g.parseGlobal(argv[i])) { any4 |= g.matchAnyIpv4; any6 |= g.matchAnyIpv6; continue; }
            Item it; it.raw = false;
            if (!parseValue(argv[i], it.v, it.cidr, it.hasMask)) { printf("cannot parse '%s'\n", argv[i]); return 2; }
            items.push_back(it);
        }
        const int bad = runLists(items, {x}, any4, any6);
        if (bad) RP_FAIL("the ACL built by the real DecodeMask/Merge()/Splay/match does not match exactly the union of its values (%d disagreements)", bad);
        RP_OK("ACL (every insertion order) matches exactly the union of its values on the probed addresses");
    }
    Cex c; if (!c.load(argv[2])) return 2;
    if (mode == "ops") {
        A16 a, b; if (!cexArr(c, "t_x", a) || !cexArr(c, "t_y", b)) return 2;
        const Ip::Address A = addrOf(a), B = addrOf(b);
        const int n = a < b ? -1 : (b < a ? 1 : 0);
        printf("a=%s b=%s numeric order %d: matchIPAddr=%d  a<=b %d  a<b %d  a>=b %d  a>b %d  a==b %d\n", text(a).c_str(), text(b).c_str(), n,
               A.matchIPAddr(B), A <= B, A < B, A >= B, A > B, A == B);
        int bad = 0;
        if (A.matchIPAddr(B) != n || (A == B) != (n == 0) || (A != B) != (n != 0)) ++bad;
        if ((A <= B) != (n <= 0) || (A < B) != (n < 0) || (A >= B) != (n >= 0) || (A > B) != (n > 0)) ++bad;
        if (A.isIPv4() != isV4(a) || A.isIPv6() == isV4(a)) ++bad;
        if (bad) RP_FAIL("the operators disagree with the numeric order of the addresses");
        RP_OK("operators agree with the numeric order on this pair");
    }
    if (mode == "applymask") {
        A16 a; if (!cexArr(c, "t_x", a)) return 2;
        const unsigned cidr = (unsigned)c.num("t_cidr"); const int type = (int)c.num("t_type");
        Ip::Address A = addrOf(a);
        const bool r = A.applyMask(cidr, type);
        const bool ok = cidr <= 128 && !(type == AF_INET && cidr > 32);
        const A16 want = ok ? band(a, prefixMask(type == AF_INET6 ? (int)cidr : 96 + (int)cidr)) : a;
        printf("%s applyMask(%u, %s) = %d -> %s, expected %s\n", text(a).c_str(), cidr, type == AF_INET ? "AF_INET" : "AF_INET6", r, ipText(A).c_str(), text(want).c_str());
        if (r != ok || bytesOf(A) != want) RP_FAIL("applyMask(cidr,type) does not clear exactly the low bits");
        RP_OK("applyMask(cidr,type) as specified on this input");
    }
    if (mode == "parse") {
        Item it; if (!cexItem(c, "t_a", "t_ra", it)) return 2;
        const bool hasMask = c.num("t_hasmask") != 0; const int cidr = (int)c.num("t_cidr"); const bool v4 = c.num("t_type") == AF_INET;
        Value v; v.a = it.a1; v.b = it.a2; v.range = c.num("t_ra") != 0; v.v4 = v4; v.P = !hasMask ? 128 : (v4 ? 96 + cidr : cidr);
        v.txt = text(v.a) + (v.range ? "-" + text(v.b) : "") + (hasMask ? "/" + std::to_string(cidr) : "");
        Item p; p.raw = false; p.v = v; p.hasMask = hasMask; p.cidr = cidr;
        std::vector<A16> probes{plus(v.a, 1), plus(v.a, 256)};
        const int bad = runLists({p}, probes);
        if (bad) RP_FAIL("the stored form of '%s' does not stand for the value's set (%d disagreements)", v.txt.c_str(), bad);
        RP_OK("stored form of the value matches its set on the probed addresses");
    }
    if (mode == "lookup" || mode == "match") {
        A16 x; Item it; if (!cexArr(c, "t_x", x) || !cexItem(c, "t_a", "t_ra", it)) return 2;
        const bool any4 = mode == "match" && c.num("t_any4"), any6 = mode == "match" && c.num("t_any6");
        std::vector<Item> items; if (mode == "lookup" || c.num("t_have")) items.push_back(it);
        const int bad = runLists(items, {x}, any4, any6);
        if (bad) RP_FAIL("a one-value ACL does not match exactly the value's set (%d disagreements)", bad);
        RP_OK("one-value ACL matches exactly the value's set on the probed addresses");
    }
    if (mode == "set") {
        A16 x; std::vector<A16> probes; if (cexArr(c, "t_x", x)) probes.push_back(x);
        std::vector<Item> items; Item it;
        if (cexItem(c, "t_a", "t_ra", it)) items.push_back(it);
        if (cexItem(c, "t_b", "t_rb", it)) items.push_back(it);
        if (c.has("t_rn") && cexItem(c, "t_n", "t_rn", it) && it.v.P + it.v.a[0] + it.v.a[15] != 0) items.push_back(it);
        int bad = runLists(items, probes);
        // comparator level: the facts a search tree needs from the REAL Compare(), against the values' intervals
        for (size_t i = 0; i < items.size(); ++i) for (size_t j = 0; j < items.size(); ++j) {
            if (i == j) continue;
            acl_ip_data *p = storeRaw(items[i].a1, items[i].a2, items[i].m), *q = storeRaw(items[j].a1, items[j].a2, items[j].m);
            const int c1 = Acl::SplayInserter<acl_ip_data*>::Compare(p, q), c2 = Acl::SplayInserter<acl_ip_data*>::Compare(q, p);
            const Value &va = items[i].v, &vb = items[j].v;
            A16 hia = va.range ? va.b : va.a, hib = vb.range ? vb.b : vb.a;
            const A16 ma = prefixMask(va.P), mb = prefixMask(vb.P);
            for (int k = 0; k < 16; ++k) { hia[k] |= (unsigned char)~ma[k]; hib[k] |= (unsigned char)~mb[k]; }
            const int want = hia < vb.a ? -1 : (hib < va.a ? 1 : 0);
            if (c1 != want || (c1 > 0) != (c2 < 0) || (c1 < 0) != (c2 > 0)) {
                printf("  Compare(%s, %s) = %d, Compare(%s, %s) = %d; the sets %s\n", va.txt.c_str(), vb.txt.c_str(), c1, vb.txt.c_str(), va.txt.c_str(), c2,
                       want == 0 ? "overlap" : want < 0 ? "are disjoint, first below second" : "are disjoint, first above second");
                ++bad;
            }
            delete p; delete q;
        }
        if (bad) RP_FAIL("the ACL built by the real Merge()/Splay does not match exactly the union of its values, or the real Compare() is not the order of the values' sets (%d disagreements)", bad);
        RP_OK("ACL built from these values (every order) matches exactly the union of their sets on the probed addresses");
    }
    if (mode == "global") {
        static const char *tok[6] = { "all", "ipv4", "ipv6", "10.0.0.0/8", "ipv", "ALL" };
        const int which = (int)c.num("t_have");
        ACLIP g; g.matchAnyIpv4 = c.num("t_any4") != 0; g.matchAnyIpv6 = c.num("t_any6") != 0;
        const bool b4 = g.matchAnyIpv4, b6 = g.matchAnyIpv6;
        const bool r = g.parseGlobal(tok[which % 6]);
        printf("parseGlobal(\"%s\") = %d, ipv4 flag %d, ipv6 flag %d\n", tok[which % 6], r, g.matchAnyIpv4, g.matchAnyIpv6);
        const bool w4 = b4 || which == 0 || which == 1, w6 = b6 || which == 0 || which == 2;
        if (r != (which <= 2) || g.matchAnyIpv4 != w4 || g.matchAnyIpv6 != w6) RP_FAIL("family keyword handled wrongly");
        RP_OK("family keyword handled as specified");
    }
    return 2;
}
