// Wrapper TU of the ipcmp unit (C42, comparator level).
//   ip/Address.h   REAL class Ip::Address (whole header, copied at run time; one must-fire rewrite, see unit.json)
//   addr.inc       REAL member functions of src/ip/Address.cc (slices, unedited)
//   ipdata.h       REAL class acl_ip_data from src/acl/Ip.h (slice)
//   aclip.inc      REAL functions of src/acl/Ip.cc (slices; see unit.json for the few must-fire rewrites)
// <sys/socket.h>, <netinet/in.h>, <netdb.h> are the platform's real headers (struct in6_addr / sockaddr_in6 layout and the
// IN6_IS_ADDR_* / IN6_ARE_ADDR_EQUAL macros are glibc's own text); <iosfwd>/<ostream>/<optional>/<algorithm> are stubs.
#include <stdint.h>
#include <string.h>
#define HAVE_SYS_SOCKET_H 1
#define HAVE_NETINET_IN_H 1
#define HAVE_NETDB_H 1
#include <algorithm>
#include "ip/Address.h"
#include "addr.inc"
// DecodeMask's netmask branch (`mask = asc` for a text that is not a decimal number) is outside this unit
bool Ip::Address::operator =(const char *s)
{
    (void)s;
    __CPROVER_assert(0, "model: textual netmask (Ip::Address::operator=(const char*)) is not modelled");
    return false;
}

// ---- surroundings of src/acl/Ip.cc ----
#define MEMPROXY_CLASS(x) int cv_memproxy_unused_
#define DBG_CRITICAL 0
#define DBG_IMPORTANT 1
#define debugs(SECTION, LEVEL, CONTENT) ((void)0)      /* debug output only */
class SBuf;
#include "ipdata.h"

namespace Acl
{
// src/acl/SplayInserter.h declares `template <class DataValue> class SplayInserter` (Value = DataValue, private static
// Compare/IsSubset/MakeCombinedValue); Ip.cc defines the explicit specialisations for acl_ip_data*.  Explicit member
// specialisations are outside the C++ front end, so the acl_ip_data* instance is compiled as a member of this plain
// class (two must-fire rewrites per function: drop `template <>`, rename the qualifier).  TRUSTED glue.
class SplayInserter_ipdata
{
public:
    typedef acl_ip_data *Value;
    static int Compare(const Value &a, const Value &b);             // REAL body
    static bool IsSubset(const Value &a, const Value &b);           // REAL body
    static Value MakeCombinedValue(const Value &a, const Value &b); // REAL body
};
}

// `new acl_ip_data(...)` in MakeCombinedValue: the front end turns every new-expression into an untyped byte array and
// ignores MEMPROXY's class operator new; one typed static object serves the single allocation a target makes.
static acl_ip_data *cv_new_combined(const acl_ip_data &v);
#define CV_NEW_COMBINED(expr) cv_new_combined(expr)

// ---- stand-ins for ACLIP::match(): the ACL object and a search "tree" of at most one node ----
// Splay<acl_ip_data*>::find(value, compare) walks the tree calling compare(value, node->data) and returns the address of
// the data of the node where compare() returned 0 (include/splay.h).  MODEL (TRUSTED, not the splay): the tree holds zero
// or one value; find() calls the comparator on it exactly as a one-node splay does.
class IPSplay_model
{
public:
    acl_ip_data *node;      // nullptr: empty tree
    acl_ip_data *const *find(acl_ip_data *const &value, int (*compare)(acl_ip_data *const &a, acl_ip_data *const &b)) const
    {
        if (!node)
            return nullptr;
        if (compare(value, node) == 0)
            return const_cast<acl_ip_data **>(&node);   /* front end drops the const of `T *const *` */
        return nullptr;
    }
};
// class ACLIP (src/acl/Ip.h) derives from Acl::Node (out of reach); this stub declares its WHOLE data state
class ACLIP
{
public:
    typedef IPSplay_model IPSplay;
    int match(const Ip::Address &);     // REAL body
    bool parseGlobal(const char * const);     // REAL body (front end: top-level const must match the definition)
    IPSplay *data;
    bool matchAnyIpv4;
    bool matchAnyIpv6;
};
// DecodeMask's `sscanf(asc, "%d%c", &a1, &junk)`: non-variadic model with the call site's types.  The text is taken to be
// the decimal number cv_cidr_text (no trailing junk): one conversion, result 1.  TRUSTED; textual forms are not covered.
extern "C" {
int cv_cidr_text;
int cv_sscanf_calls;
int sscanf(const char *s, const char *fmt, int *a1, char *junk)
{
    __CPROVER_assert(fmt[0] == '%' && fmt[1] == 'd' && fmt[2] == '%' && fmt[3] == 'c' && fmt[4] == 0, "stub: sscanf format is \"%d%c\"");
    (void)s; (void)junk;
    ++cv_sscanf_calls;
    *a1 = cv_cidr_text;
    return 1;
}
int strcmp(const char *, const char *);
}

#include "aclip.inc"

static acl_ip_data cv_combined_storage;
static int cv_combined_live;
static acl_ip_data *cv_new_combined(const acl_ip_data &v)
{
    __CPROVER_assert(!cv_combined_live, "model: one MakeCombinedValue() allocation per run");
    cv_combined_live = 1;
    cv_combined_storage = v;
    return &cv_combined_storage;
}

// ---- extern "C" entry points for the C sidecar: an address is 16 bytes in network byte order ----
static Ip::Address mk(const unsigned char *b16)
{
    struct in6_addr x;
    memcpy(&x, b16, 16);
    return Ip::Address(x);          // REAL constructor (setEmpty + operator=(in6_addr))
}
static void out(const Ip::Address &a, unsigned char *b16)
{
    struct in6_addr x;
    a.getInAddr(x);
    memcpy(b16, &x, 16);
}
// getInAddr(in6_addr&) is the real accessor (src/ip/Address.cc); sliced as well
extern "C" {
int ip_is_v4(const unsigned char *a) { return mk(a).isIPv4() ? 1 : 0; }
int ip_is_v6(const unsigned char *a) { return mk(a).isIPv6() ? 1 : 0; }
int ip_is_any(const unsigned char *a) { return mk(a).isAnyAddr() ? 1 : 0; }
int ip_is_no(const unsigned char *a) { return mk(a).isNoAddr() ? 1 : 0; }
int ip_match(const unsigned char *a, const unsigned char *b) { return mk(a).matchIPAddr(mk(b)); }
int ip_eq(const unsigned char *a, const unsigned char *b) { return mk(a) == mk(b) ? 1 : 0; }
int ip_ne(const unsigned char *a, const unsigned char *b) { return mk(a) != mk(b) ? 1 : 0; }
int ip_le(const unsigned char *a, const unsigned char *b) { return mk(a) <= mk(b) ? 1 : 0; }
int ip_ge(const unsigned char *a, const unsigned char *b) { return mk(a) >= mk(b) ? 1 : 0; }
int ip_lt(const unsigned char *a, const unsigned char *b) { return mk(a) < mk(b) ? 1 : 0; }
int ip_gt(const unsigned char *a, const unsigned char *b) { return mk(a) > mk(b) ? 1 : 0; }
int ip_cidr(const unsigned char *a) { return mk(a).cidr(); }
// applyMask(cidr, type) on address a (in place); returns the bool
int ip_apply_cidr(unsigned char *a, unsigned cidr, int type)
{
    Ip::Address x = mk(a);
    const bool r = x.applyMask(cidr, type);
    out(x, a);
    return r ? 1 : 0;
}
// applyMask(mask) on address a (in place); returns the change count
int ip_apply_mask(unsigned char *a, const unsigned char *m)
{
    Ip::Address x = mk(a);
    const int r = x.applyMask(mk(m));
    out(x, a);
    return r;
}
void ip_turn_on(unsigned char *a, const unsigned char *m)
{
    Ip::Address x = mk(a);
    x.turnMaskedBitsOn(mk(m));
    out(x, a);
}
}

// ---- ACL entries: (addr1, addr2, mask), 16 bytes each ----
struct cv_ent { unsigned char a1[16], a2[16], m[16]; };
static acl_ip_data mkent(const struct cv_ent *e)
{
    return acl_ip_data(mk(e->a1), mk(e->a2), mk(e->m), nullptr);     // REAL constructor
}
static void outent(const acl_ip_data &d, struct cv_ent *e)
{
    out(d.addr1, e->a1); out(d.addr2, e->a2); out(d.mask, e->m);
}
extern "C" {
// lookup comparator exactly as ACLIP::match() calls it: the needle is a fake entry (addr1 = client, addr2/mask empty)
int acl_lookup(const unsigned char *client, const struct cv_ent *e)
{
    acl_ip_data needle;                // REAL default constructor
    needle.addr1 = mk(client);
    needle.addr2.setEmpty();
    needle.mask.setEmpty();
    acl_ip_data entry = mkent(e);
    acl_ip_data *p = &needle, *q = &entry;
    return aclIpAddrNetworkCompare(p, q);
}
// insertion comparator of Acl::SplayInserter<acl_ip_data*>::Merge()
int acl_compare(const struct cv_ent *a, const struct cv_ent *b)
{
    acl_ip_data x = mkent(a), y = mkent(b);
    acl_ip_data *p = &x, *q = &y;
    return Acl::SplayInserter_ipdata::Compare(p, q);
}
int acl_issubset(const struct cv_ent *a, const struct cv_ent *b)
{
    acl_ip_data x = mkent(a), y = mkent(b);
    acl_ip_data *p = &x, *q = &y;
    return Acl::SplayInserter_ipdata::IsSubset(p, q) ? 1 : 0;
}
void acl_combine(const struct cv_ent *a, const struct cv_ent *b, struct cv_ent *r)
{
    acl_ip_data x = mkent(a), y = mkent(b);
    acl_ip_data *p = &x, *q = &y;
    acl_ip_data *c = Acl::SplayInserter_ipdata::MakeCombinedValue(p, q);
    outent(*c, r);
}
void acl_first(const struct cv_ent *a, unsigned char *r) { out(mkent(a).firstAddress(), r); }
void acl_last(const struct cv_ent *a, unsigned char *r) { out(mkent(a).lastAddress(), r); }
// what FactoryParse() does with a decoded (addr1, addr2, mask text): DecodeMask(), then the two applyMask() statements
// returns -1 when DecodeMask() fails, else the `changed` count
int acl_parse_finish(struct cv_ent *e, int has_mask, int cidr_text, int iptype)
{
    acl_ip_data d = mkent(e);
    acl_ip_data *q = &d;
    cv_cidr_text = cidr_text;
    if (!acl_ip_data::DecodeMask(has_mask ? "<digits>" : "", q->mask, iptype))
        return -1;
    unsigned int changed = cv_factory_apply_mask(q);
    outent(d, e);
    return (int)changed;
}
// ACLIP::match() on an ACL with the two family flags and zero or one stored entry
int acl_match(const unsigned char *client, int any4, int any6, int have_entry, const struct cv_ent *e)
{
    acl_ip_data entry = mkent(e);
    IPSplay_model tree;
    tree.node = have_entry ? &entry : nullptr;
    ACLIP acl;
    acl.data = &tree;
    acl.matchAnyIpv4 = any4 != 0;
    acl.matchAnyIpv6 = any6 != 0;
    return acl.match(mk(client));
}
// ACLIP::parseGlobal() on a token: bit 0 = result, bit 1 = matchAnyIpv4, bit 2 = matchAnyIpv6 afterwards
int acl_parse_global(const char *token, int any4, int any6)
{
    ACLIP acl;
    acl.data = nullptr;
    acl.matchAnyIpv4 = any4 != 0;
    acl.matchAnyIpv6 = any6 != 0;
    const bool r = acl.parseGlobal(token);
    return (r ? 1 : 0) | (acl.matchAnyIpv4 ? 2 : 0) | (acl.matchAnyIpv6 ? 4 : 0);
}
}
