// Stub surroundings for the refreshstale slices (C12).  TRUSTED models declaring exactly what the sliced bodies touch.
// REAL text (cut at run time from src/refresh.cc): the stale_flags struct, the FRESH_*/STALE_* code enum, refreshStaleness().
#ifndef RS_STUBS_H
#define RS_STUBS_H

#ifndef RS_NATIVE
typedef long time_t;                 // LP64
typedef unsigned short uint16_t;
typedef int int32_t;
typedef unsigned long size_t;
typedef long int64_t;
typedef unsigned long uint64_t;
extern "C" void *memset(void *, int, size_t);              // CBMC library model
#define assert(EX) __CPROVER_assert((EX), "assert(" #EX ")")   // squid's assert() aborts; here a proof obligation
#endif

#define USE_HTTP_VIOLATIONS 1                               // as in include/autoconf.h (checked by gen.py)
#define EBIT_TEST(flag, bit)    ((flag) & ((1L<<(bit))))    // src/defines.h verbatim (checked by gen.py)
#include "entry_flags_enum.inc"      // REAL: enum { ENTRY_SPECIAL, ENTRY_REVALIDATE_ALWAYS, ..., ENTRY_REVALIDATE_STALE, ... }; (src/enums.h)

#define debugs(SECTION, LEVEL, CONTENT) ((void)0)

// SBuf as used by refreshCheck: an opaque URI whose identity is its pointer (never dereferenced)
class SBuf
{
public:
    SBuf(const char *s) : p(s) {}
    bool operator!=(const SBuf &o) const { return p != o.p; }
    const char *c_str() { return p; }
    const char *p;
};

// src/HttpHdrCc.h: has<Directive>(int32_t *val) report presence and copy the value; each is a symbolic input here
class HttpHdrCc
{
public:
    static const int32_t MAX_STALE_ANY=0x7fffffff;          // real value (checked by gen.py)
    bool hasMinFresh(int32_t *val = nullptr) const { if (minFreshSet && val) *val = minFreshV; return minFreshSet; }
    bool hasMaxAge(int32_t *val = nullptr) const { if (maxAgeSet && val) *val = maxAgeV; return maxAgeSet; }
    bool hasMaxStale(int32_t *val = nullptr) const { if (maxStaleSet && val) *val = maxStaleV; return maxStaleSet; }
    bool hasStaleIfError(int32_t *val = nullptr) const { if (staleIfErrorSet && val) *val = staleIfErrorV; return staleIfErrorSet; }
    bool hasImmutable() const { return immutable; }
    bool minFreshSet, maxAgeSet, maxStaleSet, staleIfErrorSet, immutable;
    int32_t minFreshV, maxAgeV, maxStaleV, staleIfErrorV;
};
class HttpReply { public: HttpHdrCc *cache_control; int64_t content_length; };   // src/http/Message.h: content_length (refreshIsCachable reads it)
class MemObject
{
public:
    const char *storeId() const { return id; }
    const HttpReply &baseReply() const { return *reply_; }      // real one-liner (the stored reply, before any 304 update)
    const char *id;
    HttpReply rep;        // freshestReply()
    HttpReply *reply_;    // real: HttpReplyPointer; baseReply(): only content_length is read (by refreshIsCachable)
};
class RequestFlags
{
public:
    bool noCacheHack() const { return USE_HTTP_VIOLATIONS && nocacheHack; }   // real one-liner
    bool noCache, ims, failOnValidationError, ignoreCc, nocacheHack;
};
class HttpRequest
{
public:
    HttpHdrCc *cache_control;
    RequestFlags flags;
    SBuf effectiveRequestUri() const { return SBuf(uri); }
    const char *uri;
};

// src/Store.h: the three timestamps and lastModified() (REAL one-liner, restated; gen.py checks it against Store.h)
class StoreEntry
{
public:
    const HttpReply *hasFreshestReply() const { return mem_obj ? &mem_obj->rep : nullptr; }   // real: mem_obj ? &mem_obj->freshestReply() : nullptr
    uint16_t flags;
    MemObject *mem_obj;
    time_t lastModified() const {
        // may still return -1 if timestamp is not set
        return lastModified_ < 0 ? timestamp : lastModified_;
    }
    time_t timestamp;
    time_t expires;
    time_t lastModified_;
};

// src/base/RegexPattern.h as used by refreshLimits()/refreshFirstDotRule(): whether the compiled regex matches a URL and whether its
// text is "." are symbolic inputs per rule (regexec() and the pattern text are outside the kernel)
class RegexPattern
{
public:
    bool isDot() const { return dot; }
    bool match(const char *) const { return matches; }
    bool matches, dot;
};

// src/RefreshPattern.h: the limits refreshStaleness() reads; the whole scalar state of the real class
class RefreshPattern
{
public:
    const RegexPattern &regex() const { assert(regex_); return *regex_; }   // src/refresh.cc RefreshPattern::regex() (restated; gen.py checks)
    time_t min;
    double pct;
    time_t max;
    RefreshPattern *next;
    struct {
        bool refresh_ims;
        bool store_stale;
        bool override_expire;
        bool override_lastmod;
        bool reload_into_ims;
        bool ignore_reload;
        bool ignore_no_store;
        bool ignore_private;
    } flags;
    int max_stale;
    mutable struct stats_ {
        uint64_t matchTests;
        uint64_t matchCount;
    } stats;
    RegexPattern *regex_;          // real: std::unique_ptr<RegexPattern>
};

// refresh.cc file statics and the two rule look-ups (ASSUMED: regex matching over Config.Refresh is outside the kernel)
static RefreshPattern DefaultRefresh;        // the wrapper gives it the real constructor's values: min 0, pct 0.20, max 259200, max_stale -1, no flags
static const RefreshPattern *g_matched;      // what refreshLimits() answers
static const RefreshPattern *g_dot;          // what refreshFirstDotRule() answers
static const RefreshPattern *refreshLimits(const char *) { return g_matched; }
static const RefreshPattern *refreshFirstDotRule() { return g_dot; }
struct SquidConfigOnOff { int refresh_all_ims; int reload_into_ims; };
struct SquidConfigStub { SquidConfigOnOff onoff; time_t maxStale; time_t minimum_expiry_time; RefreshPattern *Refresh; };
static SquidConfigStub Config;
static time_t squid_curtime;

#include "stale_flags.inc"     // REAL: typedef struct { bool expires; bool min; bool lmfactor; bool max; } stale_flags;
#include "codes_enum.inc"      // REAL: enum { FRESH_REQUEST_MAX_STALE_ALL = 100, ..., STALE_DEFAULT = 299 };
#if defined(T_CACHABLE) || defined(RS_NATIVE)
#define USE_HTCP 1             // as in include/autoconf.h (checked by gen.py)
#define USE_CACHE_DIGESTS 0    // as in include/autoconf.h (checked by gen.py)
#include "counts.inc"          // REAL: refreshCountsEnum (rcHTTP .. rcStore, rcCount) and static struct RefreshCounts {...} refreshCounts[rcCount];
#endif

#endif
