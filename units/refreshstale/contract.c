/* Harness-encoded contract for the refreshstale unit (C12): the staleness computation refreshStaleness().
 * Property C12: "Squid never serves a cached response without contacting the origin once its explicit freshness lifetime
 * has passed. That lifetime comes from s-maxage, max-age or Expires relative to Date ..."  (HttpReply::hdrExpirationTime
 * turns those headers into entry->expires; that part is outside this kernel.)
 * Kernel statement: with an explicit expiry (entry->expires > -1) the function answers "fresh" (-1) exactly when the
 * expiry lies after check_time, otherwise a non-negative staleness equal to check_time - expires; it never produces any
 * other negative number (refreshCheck() tests `staleness > -1` and `-1 == staleness`).  The heuristic branches answer
 * "fresh" only under their documented rule. */
#include <stddef.h>

#ifndef TMAX
#define TMAX 2147483647L        /* 2^31-1: every instant before 2038-01-19T03:14:07Z, every age/limit below 68 years */
#endif
#define PCTMAX 21474836.47      /* refresh_pattern percent is parsed as (double)int / 100.0 */

/* documented order: 1 expiry, 2 age > max, 3 last-modified factor, 4 age < min, 5 stale */
static int spec_fresh(long expires, long timestamp, long lastmod, long check_time, long age, long rmin, double pct, long rmax)
{
    if (expires > -1) return expires > check_time;
    if (age > rmax) return 0;
    long lm = lastmod < 0 ? timestamp : lastmod;
    long delta = timestamp - lm;
    if (delta > 0) return age < (long)((double)delta * pct);
    return age < rmin;
}
/* which rule decided: 1 expires, 8 max, 4 lmfactor, 2 min, 0 default */
static int spec_rule(long expires, long timestamp, long lastmod, long check_time, long age, long rmin, double pct, long rmax)
{
    if (expires > -1) return 1;
    if (age > rmax) return 8;
    long lm = lastmod < 0 ? timestamp : lastmod;
    if (timestamp - lm > 0) return 4;
    if (age < rmin) return 2;
    return 0;
}
static long spec_staleness(long expires, long timestamp, long lastmod, long check_time, long age, long rmin, double pct, long rmax)
{
    if (expires > -1) return check_time - expires;
    if (age > rmax) return age - rmax;
    long lm = lastmod < 0 ? timestamp : lastmod;
    long delta = timestamp - lm;
    if (delta > 0) return age - (long)((double)delta * pct);
    return age - rmin;
}

/* ===================== refreshCheck ===================== */
#include "rc_io.h"
#ifndef CV_NATIVE                 /* the native replay already has both enums from stubs.h */
#include "codes_enum.inc"         /* REAL text: FRESH_* = 100.., STALE_* = 200..299 (src/refresh.cc) */
#include "entry_flags_enum.inc"   /* REAL text: ENTRY_REVALIDATE_ALWAYS, ENTRY_REVALIDATE_STALE (src/enums.h) */
#endif

static int rc_on(long v) { return v != 0; }
static int stale_code(int c)
{
    return c == STALE_MUST_REVALIDATE || c == STALE_RELOAD_INTO_IMS || c == STALE_FORCED_RELOAD || c == STALE_EXCEEDS_REQUEST_MAX_AGE_VALUE ||
           c == STALE_EXPIRES || c == STALE_MAX_RULE || c == STALE_LMFACTOR_RULE || c == STALE_MAX_STALE || c == STALE_DEFAULT;
}
static int fresh_code(int c)
{
    return c == FRESH_REQUEST_MAX_STALE_ALL || c == FRESH_REQUEST_MAX_STALE_VALUE || c == FRESH_EXPIRES || c == FRESH_LMFACTOR_RULE ||
           c == FRESH_MIN_RULE || c == FRESH_OVERRIDE_EXPIRES || c == FRESH_OVERRIDE_LASTMOD;
}
/* the request's Cache-Control is looked at: there is a request, it is not marked ignoreCc, it has the header */
static int req_cc_active(const long *in) { return rc_on(in[RC_HAVE_REQUEST]) && !rc_on(in[RC_REQ_IGNORE_CC]) && rc_on(in[RC_REQ_HAVE_CC]); }
static int min_fresh_applies(const long *in) { return req_cc_active(in) && rc_on(in[RC_REQ_MINFRESH_SET]); }
/* the instant freshness is judged at: now + delta (+ the client's min-fresh) */
static long judged_at(const long *in) { return in[RC_NOW] + in[RC_DELTA] + (min_fresh_applies(in) ? in[RC_REQ_MINFRESH] : 0); }
static int custom_rule(const long *in) { return in[RC_WHICH_RULE] == 0 || in[RC_WHICH_RULE] == 1; }   /* else the built-in default rule */
static int must_revalidate_stale(const long *in) { return (in[RC_ENTRY_FLAGS] & (1L << ENTRY_REVALIDATE_STALE)) != 0; }
static int revalidate_always(const long *in) { return (in[RC_ENTRY_FLAGS] & (1L << ENTRY_REVALIDATE_ALWAYS)) != 0; }
static int reply_immutable(const long *in) { return rc_on(in[RC_HAVE_MEM]) && rc_on(in[RC_REP_HAVE_CC]) && rc_on(in[RC_REP_IMMUTABLE]); }


/* ---- exact transcription of refreshCheck()'s decision ladder (used by target check_all; also compiled into the replay) ---- */
/* the rule refreshCheck() ends up with: an entry with a store ID or a request is looked up by refreshLimits(url), anything else
 * by refreshFirstDotRule(); a miss falls back to the built-in default rule (min 0, 20%, max 3 days, no options, max_stale -1) */
static int uses_pattern(const long *in)
{
    return (rc_on(in[RC_HAVE_MEM]) || rc_on(in[RC_HAVE_REQUEST])) ? in[RC_WHICH_RULE] == 0 : in[RC_WHICH_RULE] == 1;
}
static long r_min(const long *in) { return uses_pattern(in) ? in[RC_PAT_MIN] : 0; }
static long r_max(const long *in) { return uses_pattern(in) ? in[RC_PAT_MAX] : 259200; }
static double r_pct(const long *in, double pct) { return uses_pattern(in) ? pct : 0.20; }
static int r_flag(const long *in, int which) { return uses_pattern(in) && rc_on(in[which]); }
/* the entry's age at the judged instant, as refreshCheck() computes it */
static long spec_age(const long *in)
{
    long check0 = in[RC_NOW] + in[RC_DELTA];
    long age = check0 > in[RC_TIMESTAMP] ? check0 - in[RC_TIMESTAMP] : 0;
    return age + (min_fresh_applies(in) ? in[RC_REQ_MINFRESH] : 0);
}
/* which refreshStaleness() rule decides (see spec_rule) for this refreshCheck() call */
static int spec_check_rule(const long *in, double pct)
{
    return spec_rule(in[RC_EXPIRES], in[RC_TIMESTAMP], in[RC_LASTMOD], judged_at(in), spec_age(in), r_min(in), r_pct(in, pct), r_max(in));
}
/* refreshCheck()'s answer, given which rule decided and the staleness (-1 = fresh) that rule produced */
static int spec_check(const long *in, int rule, long staleness, int *fail_on_validation, int *no_cache)
{
    const int have_req = rc_on(in[RC_HAVE_REQUEST]);
    const int rep_cc = rc_on(in[RC_HAVE_MEM]) && rc_on(in[RC_REP_HAVE_CC]);
    const long age = spec_age(in);
    *fail_on_validation = 0;
    *no_cache = 0;
    if (have_req && rep_cc && rc_on(in[RC_REP_SIE_SET]) && in[RC_REP_SIE] < staleness)
        *fail_on_validation = 1;
    if (revalidate_always(in) || (staleness > -1 && must_revalidate_stale(in))) {
        if (have_req) *fail_on_validation = 1;
        return STALE_MUST_REVALIDATE;
    }
    if (have_req && !rc_on(in[RC_REQ_IGNORE_CC])) {
        if (rc_on(in[RC_REQ_IMS]) && (r_flag(in, RC_PAT_REFRESH_IMS) || in[RC_CFG_REFRESH_ALL_IMS] != 0))
            return STALE_FORCED_RELOAD;
        if (rc_on(in[RC_REQ_NOCACHE_HACK])) {
            if (r_flag(in, RC_PAT_IGNORE_RELOAD)) {
            } else if (r_flag(in, RC_PAT_RELOAD_INTO_IMS) || in[RC_CFG_RELOAD_INTO_IMS] != 0) {
                return STALE_RELOAD_INTO_IMS;
            } else {
                *no_cache = 1;
                return STALE_FORCED_RELOAD;
            }
        }
        if (rc_on(in[RC_REQ_HAVE_CC])) {
            if (rc_on(in[RC_REQ_MAXAGE_SET])) {
                if (rep_cc && rc_on(in[RC_REP_IMMUTABLE])) {
                } else if (r_flag(in, RC_PAT_IGNORE_RELOAD) && in[RC_REQ_MAXAGE] == 0) {
                } else if (age > in[RC_REQ_MAXAGE] || in[RC_REQ_MAXAGE] == 0) {
                    return STALE_EXCEEDS_REQUEST_MAX_AGE_VALUE;
                }
            }
            if (rc_on(in[RC_REQ_MAXSTALE_SET]) && staleness > -1) {
                if (in[RC_REQ_MAXSTALE] == 0x7fffffff) return FRESH_REQUEST_MAX_STALE_ALL;
                else if (staleness < in[RC_REQ_MAXSTALE]) return FRESH_REQUEST_MAX_STALE_VALUE;
            }
        }
    }
    if (staleness == -1)
        return rule == 1 ? FRESH_EXPIRES : rule == 4 ? FRESH_LMFACTOR_RULE : FRESH_MIN_RULE;
    {
        const long pat_ms = uses_pattern(in) ? in[RC_PAT_MAX_STALE] : -1;
        const long max_stale = pat_ms >= 0 ? pat_ms : in[RC_CFG_MAX_STALE];
        if (max_stale >= 0 && staleness > max_stale) {
            if (have_req) *fail_on_validation = 1;
            return STALE_MAX_STALE;
        }
    }
    if (rule == 1) return (r_flag(in, RC_PAT_OVERRIDE_EXPIRE) && age < r_min(in)) ? FRESH_OVERRIDE_EXPIRES : STALE_EXPIRES;
    if (rule == 8) return STALE_MAX_RULE;
    if (rule == 4) return (r_flag(in, RC_PAT_OVERRIDE_LASTMOD) && age < r_min(in)) ? FRESH_OVERRIDE_LASTMOD : STALE_LMFACTOR_RULE;
    return STALE_DEFAULT;
}
/* the three answers that mean "fresh by the entry's own lifetime" (refreshIsStaleIfHit() == false) */
static int genuinely_fresh_code(int c) { return c == FRESH_EXPIRES || c == FRESH_LMFACTOR_RULE || c == FRESH_MIN_RULE; }

#ifndef CV_NATIVE
extern int rs_refreshCheck(const long *in, double pct);
extern int g_rc_fail_on_validation, g_rc_no_cache;

#define IN_INT(i) __CPROVER_assume(in[i] >= -2147483648L && in[i] <= 2147483647L)

/* ---------------- target "check_explicit": refreshCheck on entries WITH an explicit expiry time ---------------- */
#ifdef T_CHECK
void h_check(void)
{
    long in[RC_COUNT];
    double pct;
    /* input domain */
    __CPROVER_assume(in[RC_NOW] >= 0 && in[RC_NOW] <= TMAX && in[RC_DELTA] >= 0 && in[RC_DELTA] <= TMAX);
    __CPROVER_assume(!rc_on(in[RC_REQ_MINFRESH_SET]) || (in[RC_REQ_MINFRESH] >= 0 && in[RC_REQ_MINFRESH] <= TMAX));   /* HttpHdrCc::minFresh() rejects negatives */
    IN_INT(RC_REQ_MINFRESH); IN_INT(RC_REQ_MAXAGE); IN_INT(RC_REQ_MAXSTALE); IN_INT(RC_REP_SIE); IN_INT(RC_PAT_MAX_STALE);
    IN_INT(RC_CFG_REFRESH_ALL_IMS); IN_INT(RC_CFG_RELOAD_INTO_IMS); IN_INT(RC_CFG_MAX_STALE);
    __CPROVER_assume(judged_at(in) <= TMAX);                                          /* judged before 2038-01-19 */
    __CPROVER_assume(in[RC_EXPIRES] > -1 && in[RC_EXPIRES] <= TMAX);                 /* an explicit expiry exists */
    __CPROVER_assume(in[RC_TIMESTAMP] >= -1 && in[RC_TIMESTAMP] <= TMAX && in[RC_LASTMOD] >= -1 && in[RC_LASTMOD] <= TMAX);
    __CPROVER_assume(in[RC_PAT_MIN] >= 0 && in[RC_PAT_MIN] <= TMAX && in[RC_PAT_MAX] >= 0 && in[RC_PAT_MAX] <= TMAX);
    __CPROVER_assume(in[RC_WHICH_RULE] >= 0 && in[RC_WHICH_RULE] <= 2);
    __CPROVER_assume(pct >= 0.0 && pct <= PCTMAX);

    int code = rs_refreshCheck(in, pct);

    int expired = in[RC_EXPIRES] <= judged_at(in);
    int client_max_stale = req_cc_active(in) && rc_on(in[RC_REQ_MAXSTALE_SET]);
    int override_expire = custom_rule(in) && rc_on(in[RC_PAT_OVERRIDE_EXPIRE]);
    int ignore_reload = custom_rule(in) && rc_on(in[RC_PAT_IGNORE_RELOAD]);

    __CPROVER_assert(stale_code(code) || fresh_code(code), "ensures: the answer is one of the FRESH_/STALE_ codes");
#ifdef TWIN_CHECK
    __CPROVER_assert(!(expired && !client_max_stale && !override_expire) || !stale_code(code),
                     "ensures: TWIN (negated) explicit lifetime passed => STALE");
#else
    /* C12: once the explicit lifetime has passed the answer is STALE_*; the only exceptions are the client's max-stale
     * and the configured override-expire option */
    __CPROVER_assert(!(expired && !client_max_stale && !override_expire) || stale_code(code),
                     "ensures: explicit lifetime passed, no client max-stale, no override-expire => a STALE_ code");
#endif
    /* C12: stale responses marked must-revalidate / proxy-revalidate / s-maxage always go back to the origin */
    __CPROVER_assert(!(expired && must_revalidate_stale(in)) || code == STALE_MUST_REVALIDATE,
                     "ensures: stale and ENTRY_REVALIDATE_STALE => STALE_MUST_REVALIDATE, whatever the client or the overrides say");
    __CPROVER_assert(!revalidate_always(in) || code == STALE_MUST_REVALIDATE, "ensures: ENTRY_REVALIDATE_ALWAYS => STALE_MUST_REVALIDATE");
    __CPROVER_assert(!(code == STALE_MUST_REVALIDATE && rc_on(in[RC_HAVE_REQUEST])) || g_rc_fail_on_validation,
                     "ensures: must-revalidate also forbids serving the stale copy when validation fails");
    /* C12: request max-age=0 always contacts the origin (exceptions: reply Cache-Control immutable, ignore-reload option) */
    __CPROVER_assert(!(req_cc_active(in) && rc_on(in[RC_REQ_MAXAGE_SET]) && in[RC_REQ_MAXAGE] == 0 && !reply_immutable(in) && !ignore_reload) ||
                     stale_code(code), "ensures: request max-age=0 => a STALE_ code (unless immutable / ignore-reload)");
    /* C12: request no-cache that reaches refreshCheck (nocacheHack) is stale unless ignore-reload */
    __CPROVER_assert(!(rc_on(in[RC_HAVE_REQUEST]) && !rc_on(in[RC_REQ_IGNORE_CC]) && rc_on(in[RC_REQ_NOCACHE_HACK]) && !ignore_reload) || stale_code(code),
                     "ensures: client reload (no-cache) => a STALE_ code unless ignore-reload");
    /* not trivially stale */
    __CPROVER_assert(!(!expired && !rc_on(in[RC_HAVE_REQUEST]) && !revalidate_always(in)) || code == FRESH_EXPIRES,
                     "ensures: unexpired explicit lifetime, no request constraints => FRESH_EXPIRES");
    /* a FRESH_ answer for an expired entry names its excuse */
    __CPROVER_assert(!(expired && fresh_code(code)) ||
                     (code == FRESH_OVERRIDE_EXPIRES && override_expire) ||
                     ((code == FRESH_REQUEST_MAX_STALE_ALL || code == FRESH_REQUEST_MAX_STALE_VALUE) && client_max_stale),
                     "ensures: an expired entry is called fresh only as FRESH_OVERRIDE_EXPIRES / FRESH_REQUEST_MAX_STALE_*");
#ifdef REACH
    __CPROVER_assert(!(code == FRESH_EXPIRES), "reach: FRESH_EXPIRES");
    __CPROVER_assert(!(code == STALE_EXPIRES), "reach: STALE_EXPIRES");
    __CPROVER_assert(!(code == STALE_MUST_REVALIDATE && expired && !revalidate_always(in)), "reach: STALE_MUST_REVALIDATE by staleness");
    __CPROVER_assert(!(code == FRESH_REQUEST_MAX_STALE_VALUE && expired), "reach: client max-stale=N accepted");
    __CPROVER_assert(!(code == FRESH_OVERRIDE_EXPIRES), "reach: override-expire");
    __CPROVER_assert(!(code == STALE_EXCEEDS_REQUEST_MAX_AGE_VALUE && !expired), "reach: request max-age makes a fresh entry stale");
    __CPROVER_assert(!(code == STALE_MAX_STALE), "reach: configured max-stale limit");
    __CPROVER_assert(!(code == STALE_FORCED_RELOAD && g_rc_no_cache), "reach: client reload honoured");
    __CPROVER_assert(!(in[RC_WHICH_RULE] == 2 && code == STALE_EXPIRES), "reach: built-in default rule used");
#endif
}
#endif

/* ---------------- target "check_all": refreshCheck on ALL entries (explicit expiry or heuristic freshness) ----------------
 * ensures: = the two C12 sentences that bind on every path ("Requests with Cache-Control max-age=0 or no-cache, and stale
 * responses marked must-revalidate, also always contact the origin").  pinned: = the code's own ladder, transcribed in
 * spec_check(): which FRESH_/STALE_ code comes out for which heuristic rule (the property does not demand those). */
#ifdef T_CHECK_ALL
void h_check_all(void)
{
    long in[RC_COUNT];
    double pct;
    /* input domain: as for check_explicit, but the expiry may be unset (-1, or any other negative: the code treats them alike) */
    __CPROVER_assume(in[RC_NOW] >= 0 && in[RC_NOW] <= TMAX && in[RC_DELTA] >= 0 && in[RC_DELTA] <= TMAX);
    __CPROVER_assume(!rc_on(in[RC_REQ_MINFRESH_SET]) || (in[RC_REQ_MINFRESH] >= 0 && in[RC_REQ_MINFRESH] <= TMAX));
    IN_INT(RC_REQ_MINFRESH); IN_INT(RC_REQ_MAXAGE); IN_INT(RC_REQ_MAXSTALE); IN_INT(RC_REP_SIE); IN_INT(RC_PAT_MAX_STALE);
    IN_INT(RC_CFG_REFRESH_ALL_IMS); IN_INT(RC_CFG_RELOAD_INTO_IMS); IN_INT(RC_CFG_MAX_STALE);
    __CPROVER_assume(judged_at(in) <= TMAX);
#ifdef ONLY_HEURISTIC
    __CPROVER_assume(in[RC_EXPIRES] >= -TMAX - 1 && in[RC_EXPIRES] <= -1);
#else
    __CPROVER_assume(in[RC_EXPIRES] >= -TMAX - 1 && in[RC_EXPIRES] <= TMAX);
#endif
    __CPROVER_assume(in[RC_TIMESTAMP] >= -1 && in[RC_TIMESTAMP] <= TMAX && in[RC_LASTMOD] >= -1 && in[RC_LASTMOD] <= TMAX);
    __CPROVER_assume(in[RC_PAT_MIN] >= 0 && in[RC_PAT_MIN] <= TMAX && in[RC_PAT_MAX] >= 0 && in[RC_PAT_MAX] <= TMAX);
#ifdef DEFAULT_RULE_ONLY
    in[RC_WHICH_RULE] = 2;                                /* no refresh_pattern matches: the built-in default rule (min 0, 20%, max 3 days) */
#else
    __CPROVER_assume(in[RC_WHICH_RULE] >= 0 && in[RC_WHICH_RULE] <= 2);
#endif
    __CPROVER_assume(pct >= 0.0 && pct <= PCTMAX);

    int code = rs_refreshCheck(in, pct);

    const int rule = spec_check_rule(in, pct);            /* 1 expires, 8 max, 4 L-M factor, 2 min, 0 default */
    const long age = spec_age(in);
    const double epct = r_pct(in, pct);
    const int ignore_reload = r_flag(in, RC_PAT_IGNORE_RELOAD);
#ifdef LM_EXACT
    const int st_known = 1;                                /* the L-M product is recomputed */
#else
    const int st_known = rule != 4 || epct == 0.0;         /* L-M factor rule: only the 0% case is recomputed (SAT cost of a second multiplier) */
#endif
    long st = -1;                                          /* the staleness refreshStaleness() owes for this call (-1 fresh) */
    if (rule == 1)
        st = in[RC_EXPIRES] > judged_at(in) ? -1 : judged_at(in) - in[RC_EXPIRES];
    else if (rule == 8)
        st = age - r_max(in);
    else if (rule == 2)
        st = -1;
    else if (rule == 0)
        st = age - r_min(in);
    else if (epct == 0.0)
        st = age;
#ifdef LM_EXACT
    else {
        const long lm = in[RC_LASTMOD] < 0 ? in[RC_TIMESTAMP] : in[RC_LASTMOD];
        const long stale_age = (long)((double)(in[RC_TIMESTAMP] - lm) * epct);
        st = age < stale_age ? -1 : age - stale_age;
    }
#endif
    int sfail, snocache;
    const int spec = spec_check(in, rule, st, &sfail, &snocache);

    __CPROVER_assert(stale_code(code) || fresh_code(code), "ensures: the answer is one of the FRESH_/STALE_ codes");
    /* C12: request max-age=0 always contacts the origin (code's exceptions: reply Cache-Control immutable, ignore-reload option) */
#ifdef TWIN_CHECK_ALL
    __CPROVER_assert(!(req_cc_active(in) && rc_on(in[RC_REQ_MAXAGE_SET]) && in[RC_REQ_MAXAGE] == 0 && !reply_immutable(in) && !ignore_reload) ||
                     !stale_code(code), "ensures: TWIN (negated) every entry: request max-age=0 => a STALE_ code");
#else
    __CPROVER_assert(!(req_cc_active(in) && rc_on(in[RC_REQ_MAXAGE_SET]) && in[RC_REQ_MAXAGE] == 0 && !reply_immutable(in) && !ignore_reload) ||
                     stale_code(code), "ensures: every entry: request max-age=0 => a STALE_ code (unless immutable / ignore-reload)");
#endif
    /* C12: request no-cache that reaches refreshCheck (nocacheHack) */
    __CPROVER_assert(!(rc_on(in[RC_HAVE_REQUEST]) && !rc_on(in[RC_REQ_IGNORE_CC]) && rc_on(in[RC_REQ_NOCACHE_HACK]) && !ignore_reload) || stale_code(code),
                     "ensures: every entry: client reload (no-cache) => a STALE_ code unless ignore-reload");
    /* C12: stale responses marked must-revalidate */
    __CPROVER_assert(!revalidate_always(in) || code == STALE_MUST_REVALIDATE, "ensures: every entry: ENTRY_REVALIDATE_ALWAYS => STALE_MUST_REVALIDATE");
    __CPROVER_assert(!must_revalidate_stale(in) || stale_code(code) || genuinely_fresh_code(code),
                     "ensures: every entry: ENTRY_REVALIDATE_STALE is never answered FRESH_REQUEST_MAX_STALE_* / FRESH_OVERRIDE_* (no client or config excuse)");
    __CPROVER_assert(!(must_revalidate_stale(in) && st_known && st > -1) || code == STALE_MUST_REVALIDATE,
                     "ensures: every entry: stale (by expiry, max rule, min rule/default, L-M factor) and ENTRY_REVALIDATE_STALE => STALE_MUST_REVALIDATE");
    __CPROVER_assert(!(must_revalidate_stale(in) && fresh_code(code)) ||
                     (code == FRESH_EXPIRES && in[RC_EXPIRES] > judged_at(in)) ||
                     (code == FRESH_MIN_RULE && rule == 2 && age < r_min(in)) ||
                     (code == FRESH_LMFACTOR_RULE && rule == 4 && epct > 0.0 && (!st_known || st == -1)),
                     "ensures: every entry: a must-revalidate entry is answered FRESH_ only when its own lifetime rule says fresh");
    __CPROVER_assert(!(code == STALE_MUST_REVALIDATE && rc_on(in[RC_HAVE_REQUEST])) || g_rc_fail_on_validation,
                     "ensures: every entry: must-revalidate also forbids serving the stale copy when validation fails");
    /* code-derived characterisation of the verdicts (not demanded by C12) */
    __CPROVER_assert(!st_known || (code == spec && g_rc_fail_on_validation == sfail && g_rc_no_cache == snocache),
                     "pinned: refreshCheck() answers exactly what the transcribed ladder spec_check() answers (code and the two request flags)");
    __CPROVER_assert(!st_known || (code == FRESH_MIN_RULE) == (spec == FRESH_MIN_RULE), "pinned: FRESH_MIN_RULE exactly when the ladder says so");
    __CPROVER_assert(!st_known || (code == FRESH_LMFACTOR_RULE) == (spec == FRESH_LMFACTOR_RULE), "pinned: FRESH_LMFACTOR_RULE exactly when the ladder says so");
    __CPROVER_assert(!st_known || (code == STALE_MAX_RULE) == (spec == STALE_MAX_RULE), "pinned: STALE_MAX_RULE exactly when the ladder says so");
    __CPROVER_assert(!st_known || (code == STALE_LMFACTOR_RULE) == (spec == STALE_LMFACTOR_RULE), "pinned: STALE_LMFACTOR_RULE exactly when the ladder says so");
    __CPROVER_assert(!st_known || (code == STALE_DEFAULT) == (spec == STALE_DEFAULT), "pinned: STALE_DEFAULT exactly when the ladder says so");
    /* the verdict names its rule on every input, recomputed product or not */
    __CPROVER_assert((code != FRESH_MIN_RULE || rule == 2) && (code != STALE_MAX_RULE || rule == 8) && (code != STALE_DEFAULT || rule == 0) &&
                     ((code != FRESH_LMFACTOR_RULE && code != STALE_LMFACTOR_RULE && code != FRESH_OVERRIDE_LASTMOD) || rule == 4) &&
                     ((code != FRESH_EXPIRES && code != STALE_EXPIRES && code != FRESH_OVERRIDE_EXPIRES) || rule == 1),
                     "pinned: a rule-named verdict is given only when that rule decided (expires / max / L-M factor / min / default, in this order)");
    __CPROVER_assert(!(rule == 4 && !rc_on(in[RC_HAVE_REQUEST]) && !revalidate_always(in) && !must_revalidate_stale(in)) ||
                     code == FRESH_LMFACTOR_RULE || code == STALE_LMFACTOR_RULE || code == FRESH_OVERRIDE_LASTMOD || code == STALE_MAX_STALE,
                     "pinned: L-M factor rule without request or revalidate flags => FRESH_/STALE_LMFACTOR_RULE, FRESH_OVERRIDE_LASTMOD or STALE_MAX_STALE");
#ifdef REACH
    /* phrased by deciding rule and FRESH_/STALE_ class, not by the pinned code names */
    const int quiet = !rc_on(in[RC_HAVE_REQUEST]) && !revalidate_always(in) && !must_revalidate_stale(in);
    __CPROVER_assert(!(rule == 2 && fresh_code(code)), "reach: fresh by the min rule");
    __CPROVER_assert(!(rule == 4 && genuinely_fresh_code(code)), "reach: fresh by the L-M factor rule");
    __CPROVER_assert(!(rule == 8 && stale_code(code) && quiet), "reach: stale by the max rule");
    __CPROVER_assert(!(rule == 4 && stale_code(code) && quiet), "reach: stale by the L-M factor rule");
    __CPROVER_assert(!(rule == 0 && stale_code(code) && quiet), "reach: stale by default");
    __CPROVER_assert(!(rule == 4 && fresh_code(code) && !genuinely_fresh_code(code) && quiet), "reach: override-lastmod");
    __CPROVER_assert(!(code == STALE_MUST_REVALIDATE && rule == 0 && !revalidate_always(in)), "reach: heuristically stale must-revalidate entry");
    __CPROVER_assert(!(code == STALE_MUST_REVALIDATE && rule == 4 && !revalidate_always(in)), "reach: L-M-factor-stale must-revalidate entry");
    __CPROVER_assert(!(stale_code(code) && rule == 2 && req_cc_active(in) && rc_on(in[RC_REQ_MAXAGE_SET]) && in[RC_REQ_MAXAGE] == 0 && !must_revalidate_stale(in) && !revalidate_always(in)),
                     "reach: max-age=0 on a min-rule-fresh entry");
    __CPROVER_assert(!(g_rc_no_cache && rule == 4), "reach: client reload on a heuristic entry");
    __CPROVER_assert(!(fresh_code(code) && rule == 8), "reach: client max-stale accepted for a max-rule-stale entry");
    __CPROVER_assert(!(fresh_code(code) && rule == 2 && must_revalidate_stale(in)), "reach: must-revalidate entry fresh by min rule");
    __CPROVER_assert(!(fresh_code(code) && rule == 1), "reach: fresh explicit-expiry entries are in the domain");
    __CPROVER_assert(!(in[RC_WHICH_RULE] == 1 && rc_on(in[RC_HAVE_MEM]) && rule == 8 && stale_code(code)), "reach: built-in default rule after a refreshLimits() miss");
#endif
}
#endif

/* ---------------- target "cachable": refreshIsCachable() (assumed as a symbolic boolean by the C11 unit) ---------------- */
#ifdef T_CACHABLE
extern int rs_refreshIsCachable(const long *in, double pct);
extern int rs_storeCount(int code);
extern int g_rc_store_total;
void h_cachable(void)
{
    long in[RC_COUNT];
    double pct;
    /* refreshIsCachable() passes no request and delta = Config.minimum_expiry_time */
    __CPROVER_assume(in[RC_NOW] >= 0 && in[RC_NOW] <= TMAX && in[RC_CFG_MIN_EXPIRY] >= 0 && in[RC_CFG_MIN_EXPIRY] <= TMAX);
    in[RC_HAVE_REQUEST] = 0;
    in[RC_DELTA] = in[RC_CFG_MIN_EXPIRY];
    IN_INT(RC_REQ_MINFRESH); IN_INT(RC_REQ_MAXAGE); IN_INT(RC_REQ_MAXSTALE); IN_INT(RC_REP_SIE); IN_INT(RC_PAT_MAX_STALE);
    IN_INT(RC_CFG_REFRESH_ALL_IMS); IN_INT(RC_CFG_RELOAD_INTO_IMS); IN_INT(RC_CFG_MAX_STALE);
    __CPROVER_assume(judged_at(in) <= TMAX);
    __CPROVER_assume(in[RC_EXPIRES] >= -TMAX - 1 && in[RC_EXPIRES] <= TMAX);
    __CPROVER_assume(in[RC_TIMESTAMP] >= -1 && in[RC_TIMESTAMP] <= TMAX && in[RC_LASTMOD] >= -1 && in[RC_LASTMOD] <= TMAX);
    __CPROVER_assume(in[RC_PAT_MIN] >= 0 && in[RC_PAT_MIN] <= TMAX && in[RC_PAT_MAX] >= 0 && in[RC_PAT_MAX] <= TMAX);
    __CPROVER_assume(in[RC_WHICH_RULE] >= 0 && in[RC_WHICH_RULE] <= 2);
    __CPROVER_assume(pct >= 0.0 && pct <= PCTMAX);
    /* in[RC_BASE_CONTENT_LENGTH]: any long */

    int r = rs_refreshIsCachable(in, pct);

    const int rule = spec_check_rule(in, pct);
    const long age = spec_age(in);
    const double epct = r_pct(in, pct);
    const int st_known = rule != 4 || epct == 0.0;
    long st = -1;
    if (rule == 1) st = in[RC_EXPIRES] > judged_at(in) ? -1 : judged_at(in) - in[RC_EXPIRES];
    else if (rule == 8) st = age - r_max(in);
    else if (rule == 2) st = -1;
    else if (rule == 0) st = age - r_min(in);
    else if (epct == 0.0) st = age;
    int sfail, snocache;
    const int reason = spec_check(in, rule, st, &sfail, &snocache);       /* what refreshCheck(entry, nullptr, minimum_expiry_time) answers */
    const long lm = in[RC_LASTMOD] < 0 ? in[RC_TIMESTAMP] : in[RC_LASTMOD];  /* StoreEntry::lastModified() */
    const int refreshable = lm >= 0 && (!rc_on(in[RC_HAVE_MEM]) || in[RC_BASE_CONTENT_LENGTH] != 0);

    __CPROVER_assert(r == 0 || r == 1, "ensures: boolean");
#ifdef TWIN_CACHABLE
    __CPROVER_assert(!(st_known && stale_code(reason)) || r != refreshable, "ensures: TWIN (negated) stale in minimum_expiry_time seconds => cachable iff refreshable");
#else
    __CPROVER_assert(!(st_known && stale_code(reason)) || r == refreshable,
                     "ensures: stale minimum_expiry_time seconds from now => cachable iff it can be refreshed (a Last-Modified/timestamp validator, not a 0-byte stored body)");
#endif
    __CPROVER_assert(!(st_known && fresh_code(reason)) || r == 1, "ensures: still fresh minimum_expiry_time seconds from now (judged without a request) => cachable");
    __CPROVER_assert(!refreshable || r == 1, "ensures: refreshable entries are cachable whatever the freshness verdict");
    __CPROVER_assert(!(revalidate_always(in) && !refreshable) || r == 0, "ensures: an always-revalidate entry that cannot be refreshed is not cachable");
    __CPROVER_assert(g_rc_store_total == 1 && (!st_known || rs_storeCount(reason) == 1),
                     "ensures: the verdict is counted once in refreshCounts[rcStore] (counters start at 0)");
#ifdef REACH
    __CPROVER_assert(!(r == 1 && st_known && fresh_code(reason)), "reach: cachable because fresh");
    __CPROVER_assert(!(r == 1 && st_known && stale_code(reason)), "reach: cachable because refreshable");
    __CPROVER_assert(!(r == 0 && lm < 0), "reach: not cachable, no modification time");
    __CPROVER_assert(!(r == 0 && lm >= 0 && in[RC_BASE_CONTENT_LENGTH] == 0), "reach: not cachable, 0-byte body");
    __CPROVER_assert(!(r == 1 && !rc_on(in[RC_HAVE_MEM]) && stale_code(reason)), "reach: no mem_obj");
    __CPROVER_assert(!(rule == 4 && !st_known && r == 1), "reach: L-M factor rule");
#endif
}
#endif

/* ---------------- targets "limits" / "first_dot": the real rule look-ups over a configured list of at most 4 rules ---------------- */
#ifdef T_LIMITS
#define RL_MAX 4
extern int rs_refreshLimits(int n, int match_bits, int dot_bits, const unsigned long *tests0, const unsigned long *count0);
extern int rs_refreshFirstDotRule(int n, int match_bits, int dot_bits, const unsigned long *tests0, const unsigned long *count0);
extern unsigned long g_rl_tests[RL_MAX], g_rl_count[RL_MAX];
static int first_bit(int n, int bits) { for (int i = 0; i < RL_MAX; ++i) if (i < n && ((bits >> i) & 1)) return i; return -1; }
void h_limits(void)
{
    int n, match_bits, dot_bits;
    unsigned long tests0[RL_MAX], count0[RL_MAX];
    __CPROVER_assume(n >= 0 && n <= RL_MAX && match_bits >= 0 && match_bits < (1 << RL_MAX) && dot_bits >= 0 && dot_bits < (1 << RL_MAX));
#ifdef FIRST_DOT
    int r = rs_refreshFirstDotRule(n, match_bits, dot_bits, tests0, count0);
    const int want = first_bit(n, dot_bits);
#else
    int r = rs_refreshLimits(n, match_bits, dot_bits, tests0, count0);
    const int want = first_bit(n, match_bits);
#endif
#ifdef TWIN_LIMITS
    __CPROVER_assert(r != want, "ensures: TWIN (negated) the first rule in configuration order");
#else
    __CPROVER_assert(r == want, "ensures: the answer is the FIRST rule, in configuration order, whose regex matches (is \".\"), or nullptr when none does");
#endif
    for (int i = 0; i < RL_MAX; ++i) {
#ifdef FIRST_DOT
        __CPROVER_assert(g_rl_tests[i] == 0 && g_rl_count[i] == 0, "ensures: refreshFirstDotRule() leaves the match statistics alone");
#else
        __CPROVER_assert(g_rl_tests[i] == (unsigned long)(i < n && (want < 0 || i <= want)), "ensures: matchTests counts exactly the rules tried (up to and including the hit)");
        __CPROVER_assert(g_rl_count[i] == (unsigned long)(i == want), "ensures: matchCount counts the hit only");
#endif
    }
#ifdef REACH
    __CPROVER_assert(!(r == -1 && n == RL_MAX), "reach: no rule of a full list matches");
    __CPROVER_assert(!(r == RL_MAX - 1), "reach: the last rule is the first match");
    __CPROVER_assert(!(r == 0 && n > 1), "reach: the first rule matches");
    __CPROVER_assert(!(n == 0), "reach: empty list");
#endif
}
#endif
#endif /* CV_NATIVE (refreshCheck part) */

#ifndef CV_NATIVE
extern long rs_refreshStaleness(long expires, long timestamp, long lastmod, long check_time, long age,
                               long rmin, double pct, long rmax, int sf_in_bits);
extern int g_sf_bits;

/* ---------------- target "expiry": the explicit-expiry branch, which is what C12 is about ---------------- */
#ifdef T_EXPIRY
void h_expiry(void)
{
    long expires, timestamp, lastmod, check_time, age, rmin, rmax;
    double pct;        /* unconstrained (may be NaN/inf): an explicit expiry must make the heuristics irrelevant */
    int sf_in;
    /* input domain (harness-mode requires): */
    __CPROVER_assume(expires > -1 && expires <= TMAX);             /* an explicit expiry time was set */
    __CPROVER_assume(check_time >= 0 && check_time <= TMAX);
    __CPROVER_assume(sf_in >= 0 && sf_in <= 15);
    /* timestamp, lastmod, age, rmin, rmax: any long */

    long r = rs_refreshStaleness(expires, timestamp, lastmod, check_time, age, rmin, pct, rmax, sf_in);

#ifdef TWIN_STALE
    __CPROVER_assert((r == -1) != (expires > check_time), "ensures: TWIN (negated) explicit expiry: fresh <=> expires > check_time");
#else
    __CPROVER_assert((r == -1) == (expires > check_time), "ensures: explicit expiry: fresh (-1) <=> expires > check_time");
#endif
    __CPROVER_assert(!(expires <= check_time) || (r >= 0 && (long)r == check_time - expires),
                     "ensures: explicit expiry passed: result == check_time - expires >= 0");
    __CPROVER_assert(r >= -1, "ensures: the result is -1 (fresh) or a non-negative staleness, never another negative number");
    __CPROVER_assert(g_sf_bits == (sf_in | 1), "ensures: sf->expires is set, the other flags are untouched");
#ifdef REACH
    __CPROVER_assert(!(r == -1), "reach: fresh by explicit expiry");
    __CPROVER_assert(!(r == 0), "reach: stale at exactly the expiry second (staleness 0)");
    __CPROVER_assert(!(r > 0 && expires == 0), "reach: stale against an epoch (1970) expiry");
    __CPROVER_assert(!(check_time == TMAX && expires == 0), "reach: the largest staleness of the domain");
#endif
}
#endif

/* ---------------- target "heuristic": no explicit expiry; rules 2-5 in their documented order ---------------- */
#ifdef T_HEUR
void h_heuristic(void)
{
    long expires, timestamp, lastmod, check_time, age, rmin, rmax;
    double pct;
    int sf_in;
    __CPROVER_assume(expires >= -TMAX - 1 && expires <= -1);       /* -1 = no explicit expiry; any other negative is treated alike */
    __CPROVER_assume(timestamp >= -1 && timestamp <= TMAX);        /* -1 = not set */
    __CPROVER_assume(lastmod >= -1 && lastmod <= TMAX);            /* -1 = no Last-Modified */
    __CPROVER_assume(age >= 0 && age <= TMAX);                     /* refreshCheck asserts age >= 0 */
    __CPROVER_assume(rmin >= 0 && rmin <= TMAX && rmax >= 0 && rmax <= TMAX);
    __CPROVER_assume(pct >= 0.0 && pct <= PCTMAX);                 /* excludes NaN/inf */
    __CPROVER_assume(sf_in >= 0 && sf_in <= 15);
    /* check_time: any long (unused without an explicit expiry) */

    long r = rs_refreshStaleness(expires, timestamp, lastmod, check_time, age, rmin, pct, rmax, sf_in);

    int rule = spec_rule(expires, timestamp, lastmod, check_time, age, rmin, pct, rmax);
    __CPROVER_assert(r >= -1, "ensures: the result is -1 (fresh) or a non-negative staleness, never another negative number");
    __CPROVER_assert(g_sf_bits == (sf_in | rule), "ensures: exactly the deciding rule's flag is set in *sf (max / lmfactor / min / none)");
#ifdef TWIN_STALE
    __CPROVER_assert(!(rule == 8) || r == -1, "ensures: TWIN (negated) older than max");
#else
    __CPROVER_assert(!(rule == 8) || (r > 0 && (long)r == age - rmax), "ensures: older than max => stale by age - max, whatever Last-Modified says");
#endif
    __CPROVER_assert(!(rule == 2) || r == -1, "ensures: no Last-Modified and younger than min => fresh");
    __CPROVER_assert(!(rule == 0) || (long)r == age - rmin, "ensures: default => stale by age - min");
    /* L-M factor rule: the product itself is not recomputed (SAT cost of a second 53-bit multiplier); its boundary cases are */
    __CPROVER_assert(!(rule == 4 && pct == 0.0) || (long)r == age, "ensures: L-M factor 0% => never fresh");
    __CPROVER_assert(!(rule == 4 && r == -1) || pct > 0.0, "ensures: L-M factor freshness needs a positive percentage");
#ifdef REACH
    __CPROVER_assert(!(r > 0 && rule == 8), "reach: stale by max rule");
    __CPROVER_assert(!(r == -1 && rule == 4), "reach: fresh by L-M factor");
    __CPROVER_assert(!(r >= 0 && rule == 4 && pct > 0.0), "reach: stale by L-M factor");
    __CPROVER_assert(!(r == -1 && rule == 2), "reach: fresh by min rule");
    __CPROVER_assert(!(r >= 0 && rule == 0), "reach: stale by default");
#endif
}
#endif
#endif /* CV_NATIVE */
