/* Harness-encoded contract for the refreshstale unit (C12): the staleness computation refreshStaleness().
 * Property C12: "Squid never serves a cached response without contacting the origin once its explicit freshness lifetime
 * has passed. That lifetime comes from s-maxage, max-age or Expires relative to Date ..."  (HttpReply::hdrExpirationTime
 * turns those headers into entry->expires; that part is outside this kernel.)
 * Kernel statement: with an explicit expiry (entry->expires > -1) the function answers "fresh" (-1) exactly when the
 * expiry lies after check_time, otherwise a non-negative staleness equal to check_time - expires; it never produces any
 * other negative number (refreshCheck() tests `staleness > -1` and `-1 == staleness`).  The heuristic branches answer
 * "fresh" only under their documented rule. */
#include <stddef.h>

#ifndef TMAX
#define TMAX 2147483647L        /* 2^31-1: every instant before 2038-01-19T03:14:07Z, every age/limit below 68 years */
#endif
#define PCTMAX 21474836.47      /* refresh_pattern percent is parsed as (double)int / 100.0 */

/* documented order: 1 expiry, 2 age > max, 3 last-modified factor, 4 age < min, 5 stale */
static int spec_fresh(long expires, long timestamp, long lastmod, long check_time, long age, long rmin, double pct, long rmax)
{
    if (expires > -1) return expires > check_time;
    if (age > rmax) return 0;
    long lm = lastmod < 0 ? timestamp : lastmod;
    long delta = timestamp - lm;
    if (delta > 0) return age < (long)((double)delta * pct);
    return age < rmin;
}
/* which rule decided: 1 expires, 8 max, 4 lmfactor, 2 min, 0 default */
static int spec_rule(long expires, long timestamp, long lastmod, long check_time, long age, long rmin, double pct, long rmax)
{
    if (expires > -1) return 1;
    if (age > rmax) return 8;
    long lm = lastmod < 0 ? timestamp : lastmod;
    if (timestamp - lm > 0) return 4;
    if (age < rmin) return 2;
    return 0;
}
static long spec_staleness(long expires, long timestamp, long lastmod, long check_time, long age, long rmin, double pct, long rmax)
{
    if (expires > -1) return check_time - expires;
    if (age > rmax) return age - rmax;
    long lm = lastmod < 0 ? timestamp : lastmod;
    long delta = timestamp - lm;
    if (delta > 0) return age - (long)((double)delta * pct);
    return age - rmin;
}

/* ===================== refreshCheck ===================== */
#include "rc_io.h"
#ifndef CV_NATIVE                 /* the native replay already has both enums from stubs.h */
#include "codes_enum.inc"         /* REAL text: FRESH_* = 100.., STALE_* = 200..299 (src/refresh.cc) */
#include "entry_flags_enum.inc"   /* REAL text: ENTRY_REVALIDATE_ALWAYS, ENTRY_REVALIDATE_STALE (src/enums.h) */
#endif

static int rc_on(long v) { return v != 0; }
static int stale_code(int c)
{
    return c == STALE_MUST_REVALIDATE || c == STALE_RELOAD_INTO_IMS || c == STALE_FORCED_RELOAD || c == STALE_EXCEEDS_REQUEST_MAX_AGE_VALUE ||
           c == STALE_EXPIRES || c == STALE_MAX_RULE || c == STALE_LMFACTOR_RULE || c == STALE_MAX_STALE || c == STALE_DEFAULT;
}
static int fresh_code(int c)
{
    return c == FRESH_REQUEST_MAX_STALE_ALL || c == FRESH_REQUEST_MAX_STALE_VALUE || c == FRESH_EXPIRES || c == FRESH_LMFACTOR_RULE ||
           c == FRESH_MIN_RULE || c == FRESH_OVERRIDE_EXPIRES || c == FRESH_OVERRIDE_LASTMOD;
}
/* the request's Cache-Control is looked at: there is a request, it is not marked ignoreCc, it has the header */
static int req_cc_active(const long *in) { return rc_on(in[RC_HAVE_REQUEST]) && !rc_on(in[RC_REQ_IGNORE_CC]) && rc_on(in[RC_REQ_HAVE_CC]); }
static int min_fresh_applies(const long *in) { return req_cc_active(in) && rc_on(in[RC_REQ_MINFRESH_SET]); }
/* the instant freshness is judged at: now + delta (+ the client's min-fresh) */
static long judged_at(const long *in) { return in[RC_NOW] + in[RC_DELTA] + (min_fresh_applies(in) ? in[RC_REQ_MINFRESH] : 0); }
static int custom_rule(const long *in) { return in[RC_WHICH_RULE] == 0 || in[RC_WHICH_RULE] == 1; }   /* else the built-in default rule */
static int must_revalidate_stale(const long *in) { return (in[RC_ENTRY_FLAGS] & (1L << ENTRY_REVALIDATE_STALE)) != 0; }
static int revalidate_always(const long *in) { return (in[RC_ENTRY_FLAGS] & (1L << ENTRY_REVALIDATE_ALWAYS)) != 0; }
static int reply_immutable(const long *in) { return rc_on(in[RC_HAVE_MEM]) && rc_on(in[RC_REP_HAVE_CC]) && rc_on(in[RC_REP_IMMUTABLE]); }

#ifndef CV_NATIVE
extern int rs_refreshCheck(const long *in, double pct);
extern int g_rc_fail_on_validation, g_rc_no_cache;

#define IN_INT(i) __CPROVER_assume(in[i] >= -2147483648L && in[i] <= 2147483647L)

/* ---------------- target "check_explicit": refreshCheck on entries WITH an explicit expiry time ---------------- */
#ifdef T_CHECK
void h_check(void)
{
    long in[RC_COUNT];
    double pct;
    /* input domain */
    __CPROVER_assume(in[RC_NOW] >= 0 && in[RC_NOW] <= TMAX && in[RC_DELTA] >= 0 && in[RC_DELTA] <= TMAX);
    __CPROVER_assume(!rc_on(in[RC_REQ_MINFRESH_SET]) || (in[RC_REQ_MINFRESH] >= 0 && in[RC_REQ_MINFRESH] <= TMAX));   /* HttpHdrCc::minFresh() rejects negatives */
    IN_INT(RC_REQ_MINFRESH); IN_INT(RC_REQ_MAXAGE); IN_INT(RC_REQ_MAXSTALE); IN_INT(RC_REP_SIE); IN_INT(RC_PAT_MAX_STALE);
    IN_INT(RC_CFG_REFRESH_ALL_IMS); IN_INT(RC_CFG_RELOAD_INTO_IMS); IN_INT(RC_CFG_MAX_STALE);
    __CPROVER_assume(judged_at(in) <= TMAX);                                          /* judged before 2038-01-19 */
    __CPROVER_assume(in[RC_EXPIRES] > -1 && in[RC_EXPIRES] <= TMAX);                 /* an explicit expiry exists */
    __CPROVER_assume(in[RC_TIMESTAMP] >= -1 && in[RC_TIMESTAMP] <= TMAX && in[RC_LASTMOD] >= -1 && in[RC_LASTMOD] <= TMAX);
    __CPROVER_assume(in[RC_PAT_MIN] >= 0 && in[RC_PAT_MIN] <= TMAX && in[RC_PAT_MAX] >= 0 && in[RC_PAT_MAX] <= TMAX);
    __CPROVER_assume(in[RC_WHICH_RULE] >= 0 && in[RC_WHICH_RULE] <= 2);
    __CPROVER_assume(pct >= 0.0 && pct <= PCTMAX);

    int code = rs_refreshCheck(in, pct);

    int expired = in[RC_EXPIRES] <= judged_at(in);
    int client_max_stale = req_cc_active(in) && rc_on(in[RC_REQ_MAXSTALE_SET]);
    int override_expire = custom_rule(in) && rc_on(in[RC_PAT_OVERRIDE_EXPIRE]);
    int ignore_reload = custom_rule(in) && rc_on(in[RC_PAT_IGNORE_RELOAD]);

    __CPROVER_assert(stale_code(code) || fresh_code(code), "ensures: the answer is one of the FRESH_/STALE_ codes");
#ifdef TWIN_CHECK
    __CPROVER_assert(!(expired && !client_max_stale && !override_expire) || !stale_code(code),
                     "ensures: TWIN (negated) explicit lifetime passed => STALE");
#else
    /* C12: once the explicit lifetime has passed the answer is STALE_*; the only exceptions are the client's max-stale
     * and the configured override-expire option */
    __CPROVER_assert(!(expired && !client_max_stale && !override_expire) || stale_code(code),
                     "ensures: explicit lifetime passed, no client max-stale, no override-expire => a STALE_ code");
#endif
    /* C12: stale responses marked must-revalidate / proxy-revalidate / s-maxage always go back to the origin */
    __CPROVER_assert(!(expired && must_revalidate_stale(in)) || code == STALE_MUST_REVALIDATE,
                     "ensures: stale and ENTRY_REVALIDATE_STALE => STALE_MUST_REVALIDATE, whatever the client or the overrides say");
    __CPROVER_assert(!revalidate_always(in) || code == STALE_MUST_REVALIDATE, "ensures: ENTRY_REVALIDATE_ALWAYS => STALE_MUST_REVALIDATE");
    __CPROVER_assert(!(code == STALE_MUST_REVALIDATE && rc_on(in[RC_HAVE_REQUEST])) || g_rc_fail_on_validation,
                     "ensures: must-revalidate also forbids serving the stale copy when validation fails");
    /* C12: request max-age=0 always contacts the origin (exceptions: reply Cache-Control immutable, ignore-reload option) */
    __CPROVER_assert(!(req_cc_active(in) && rc_on(in[RC_REQ_MAXAGE_SET]) && in[RC_REQ_MAXAGE] == 0 && !reply_immutable(in) && !ignore_reload) ||
                     stale_code(code), "ensures: request max-age=0 => a STALE_ code (unless immutable / ignore-reload)");
    /* C12: request no-cache that reaches refreshCheck (nocacheHack) is stale unless ignore-reload */
    __CPROVER_assert(!(rc_on(in[RC_HAVE_REQUEST]) && !rc_on(in[RC_REQ_IGNORE_CC]) && rc_on(in[RC_REQ_NOCACHE_HACK]) && !ignore_reload) || stale_code(code),
                     "ensures: client reload (no-cache) => a STALE_ code unless ignore-reload");
    /* not trivially stale */
    __CPROVER_assert(!(!expired && !rc_on(in[RC_HAVE_REQUEST]) && !revalidate_always(in)) || code == FRESH_EXPIRES,
                     "ensures: unexpired explicit lifetime, no request constraints => FRESH_EXPIRES");
    /* a FRESH_ answer for an expired entry names its excuse */
    __CPROVER_assert(!(expired && fresh_code(code)) ||
                     (code == FRESH_OVERRIDE_EXPIRES && override_expire) ||
                     ((code == FRESH_REQUEST_MAX_STALE_ALL || code == FRESH_REQUEST_MAX_STALE_VALUE) && client_max_stale),
                     "ensures: an expired entry is called fresh only as FRESH_OVERRIDE_EXPIRES / FRESH_REQUEST_MAX_STALE_*");
#ifdef REACH
    __CPROVER_assert(!(code == FRESH_EXPIRES), "reach: FRESH_EXPIRES");
    __CPROVER_assert(!(code == STALE_EXPIRES), "reach: STALE_EXPIRES");
    __CPROVER_assert(!(code == STALE_MUST_REVALIDATE && expired && !revalidate_always(in)), "reach: STALE_MUST_REVALIDATE by staleness");
    __CPROVER_assert(!(code == FRESH_REQUEST_MAX_STALE_VALUE && expired), "reach: client max-stale=N accepted");
    __CPROVER_assert(!(code == FRESH_OVERRIDE_EXPIRES), "reach: override-expire");
    __CPROVER_assert(!(code == STALE_EXCEEDS_REQUEST_MAX_AGE_VALUE && !expired), "reach: request max-age makes a fresh entry stale");
    __CPROVER_assert(!(code == STALE_MAX_STALE), "reach: configured max-stale limit");
    __CPROVER_assert(!(code == STALE_FORCED_RELOAD && g_rc_no_cache), "reach: client reload honoured");
    __CPROVER_assert(!(in[RC_WHICH_RULE] == 2 && code == STALE_EXPIRES), "reach: built-in default rule used");
#endif
}
#endif
#endif /* CV_NATIVE (refreshCheck part) */

#ifndef CV_NATIVE
extern long rs_refreshStaleness(long expires, long timestamp, long lastmod, long check_time, long age,
                               long rmin, double pct, long rmax, int sf_in_bits);
extern int g_sf_bits;

/* ---------------- target "expiry": the explicit-expiry branch, which is what C12 is about ---------------- */
#ifdef T_EXPIRY
void h_expiry(void)
{
    long expires, timestamp, lastmod, check_time, age, rmin, rmax;
    double pct;        /* unconstrained (may be NaN/inf): an explicit expiry must make the heuristics irrelevant */
    int sf_in;
    /* input domain (harness-mode requires): */
    __CPROVER_assume(expires > -1 && expires <= TMAX);             /* an explicit expiry time was set */
    __CPROVER_assume(check_time >= 0 && check_time <= TMAX);
    __CPROVER_assume(sf_in >= 0 && sf_in <= 15);
    /* timestamp, lastmod, age, rmin, rmax: any long */

    long r = rs_refreshStaleness(expires, timestamp, lastmod, check_time, age, rmin, pct, rmax, sf_in);

#ifdef TWIN_STALE
    __CPROVER_assert((r == -1) != (expires > check_time), "ensures: TWIN (negated) explicit expiry: fresh <=> expires > check_time");
#else
    __CPROVER_assert((r == -1) == (expires > check_time), "ensures: explicit expiry: fresh (-1) <=> expires > check_time");
#endif
    __CPROVER_assert(!(expires <= check_time) || (r >= 0 && (long)r == check_time - expires),
                     "ensures: explicit expiry passed: result == check_time - expires >= 0");
    __CPROVER_assert(r >= -1, "ensures: the result is -1 (fresh) or a non-negative staleness, never another negative number");
    __CPROVER_assert(g_sf_bits == (sf_in | 1), "ensures: sf->expires is set, the other flags are untouched");
#ifdef REACH
    __CPROVER_assert(!(r == -1), "reach: fresh by explicit expiry");
    __CPROVER_assert(!(r == 0), "reach: stale at exactly the expiry second (staleness 0)");
    __CPROVER_assert(!(r > 0 && expires == 0), "reach: stale against an epoch (1970) expiry");
    __CPROVER_assert(!(check_time == TMAX && expires == 0), "reach: the largest staleness of the domain");
#endif
}
#endif

/* ---------------- target "heuristic": no explicit expiry; rules 2-5 in their documented order ---------------- */
#ifdef T_HEUR
void h_heuristic(void)
{
    long expires, timestamp, lastmod, check_time, age, rmin, rmax;
    double pct;
    int sf_in;
    __CPROVER_assume(expires >= -TMAX - 1 && expires <= -1);       /* -1 = no explicit expiry; any other negative is treated alike */
    __CPROVER_assume(timestamp >= -1 && timestamp <= TMAX);        /* -1 = not set */
    __CPROVER_assume(lastmod >= -1 && lastmod <= TMAX);            /* -1 = no Last-Modified */
    __CPROVER_assume(age >= 0 && age <= TMAX);                     /* refreshCheck asserts age >= 0 */
    __CPROVER_assume(rmin >= 0 && rmin <= TMAX && rmax >= 0 && rmax <= TMAX);
    __CPROVER_assume(pct >= 0.0 && pct <= PCTMAX);                 /* excludes NaN/inf */
    __CPROVER_assume(sf_in >= 0 && sf_in <= 15);
    /* check_time: any long (unused without an explicit expiry) */

    long r = rs_refreshStaleness(expires, timestamp, lastmod, check_time, age, rmin, pct, rmax, sf_in);

    int rule = spec_rule(expires, timestamp, lastmod, check_time, age, rmin, pct, rmax);
    __CPROVER_assert(r >= -1, "ensures: the result is -1 (fresh) or a non-negative staleness, never another negative number");
    __CPROVER_assert(g_sf_bits == (sf_in | rule), "ensures: exactly the deciding rule's flag is set in *sf (max / lmfactor / min / none)");
#ifdef TWIN_STALE
    __CPROVER_assert(!(rule == 8) || r == -1, "ensures: TWIN (negated) older than max");
#else
    __CPROVER_assert(!(rule == 8) || (r > 0 && (long)r == age - rmax), "ensures: older than max => stale by age - max, whatever Last-Modified says");
#endif
    __CPROVER_assert(!(rule == 2) || r == -1, "ensures: no Last-Modified and younger than min => fresh");
    __CPROVER_assert(!(rule == 0) || (long)r == age - rmin, "ensures: default => stale by age - min");
    /* L-M factor rule: the product itself is not recomputed (SAT cost of a second 53-bit multiplier); its boundary cases are */
    __CPROVER_assert(!(rule == 4 && pct == 0.0) || (long)r == age, "ensures: L-M factor 0% => never fresh");
    __CPROVER_assert(!(rule == 4 && r == -1) || pct > 0.0, "ensures: L-M factor freshness needs a positive percentage");
#ifdef REACH
    __CPROVER_assert(!(r > 0 && rule == 8), "reach: stale by max rule");
    __CPROVER_assert(!(r == -1 && rule == 4), "reach: fresh by L-M factor");
    __CPROVER_assert(!(r >= 0 && rule == 4 && pct > 0.0), "reach: stale by L-M factor");
    __CPROVER_assert(!(r == -1 && rule == 2), "reach: fresh by min rule");
    __CPROVER_assert(!(r >= 0 && rule == 0), "reach: stale by default");
#endif
}
#endif
#endif /* CV_NATIVE */
