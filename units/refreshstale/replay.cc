// Native replay for the refreshstale unit (T3): same slice + stubs compiled by g++ (ASan+UBSan); the postconditions of
// contract.c are re-evaluated on the counterexample.
#include "replay.h"
#include <cstdint>
#include <ctime>
#include <cstring>
#include <cassert>
#define RS_NATIVE 1
#define CV_NATIVE 1
#include "wrap.cc"
namespace spec {
#include "contract.c"
}
using namespace spec;

int main(int argc, char **argv)
{
    if (argc < 3) return 2;
    Cex c; if (!c.load(argv[2])) return 2;
    if (std::string(argv[1]) == "check") {
        long in[RC_COUNT] = {0};
        auto v = c.arr("in");
        for (size_t i = 0; i < v.size() && i < RC_COUNT; i++) in[i] = (long)v[i];
        double pct = c.has("pct") ? strtod(c.kv["pct"].c_str(), nullptr) : 0.2;
        if (!(pct >= 0.0)) pct = 0.2;
        if (in[RC_NOW] < 0 || in[RC_DELTA] < 0 || in[RC_EXPIRES] <= -1 || judged_at(in) > TMAX) RP_OK("outside the target's domain");
        int code = rs_refreshCheck(in, pct);
        int expired = in[RC_EXPIRES] <= judged_at(in);
        int client_max_stale = req_cc_active(in) && rc_on(in[RC_REQ_MAXSTALE_SET]);
        int override_expire = custom_rule(in) && rc_on(in[RC_PAT_OVERRIDE_EXPIRE]);
        int ignore_reload = custom_rule(in) && rc_on(in[RC_PAT_IGNORE_RELOAD]);
        printf("now=%ld delta=%ld expires=%ld judged_at=%ld entry_flags=0x%lx request=%d max-age=%s%ld max-stale=%s%ld rule=%ld -> code %d\n", in[RC_NOW], in[RC_DELTA], in[RC_EXPIRES],
               judged_at(in), in[RC_ENTRY_FLAGS] & 0xFFFF, rc_on(in[RC_HAVE_REQUEST]), rc_on(in[RC_REQ_MAXAGE_SET]) ? "" : "unset/", in[RC_REQ_MAXAGE],
               rc_on(in[RC_REQ_MAXSTALE_SET]) ? "" : "unset/", in[RC_REQ_MAXSTALE], in[RC_WHICH_RULE], code);
        if (!stale_code(code) && !fresh_code(code)) RP_FAIL("unknown code");
        if (expired && !client_max_stale && !override_expire && !stale_code(code)) RP_FAIL("explicit lifetime passed but the answer is FRESH");
        if (expired && must_revalidate_stale(in) && code != STALE_MUST_REVALIDATE) RP_FAIL("stale must-revalidate entry not answered STALE_MUST_REVALIDATE");
        if (revalidate_always(in) && code != STALE_MUST_REVALIDATE) RP_FAIL("ENTRY_REVALIDATE_ALWAYS not honoured");
        if (code == STALE_MUST_REVALIDATE && rc_on(in[RC_HAVE_REQUEST]) && !g_rc_fail_on_validation) RP_FAIL("failOnValidationError not set");
        if (req_cc_active(in) && rc_on(in[RC_REQ_MAXAGE_SET]) && in[RC_REQ_MAXAGE] == 0 && !reply_immutable(in) && !ignore_reload && !stale_code(code)) RP_FAIL("request max-age=0 served as fresh");
        if (rc_on(in[RC_HAVE_REQUEST]) && !rc_on(in[RC_REQ_IGNORE_CC]) && rc_on(in[RC_REQ_NOCACHE_HACK]) && !ignore_reload && !stale_code(code)) RP_FAIL("client reload served as fresh");
        if (!expired && !rc_on(in[RC_HAVE_REQUEST]) && !revalidate_always(in) && code != FRESH_EXPIRES) RP_FAIL("unexpired entry not FRESH_EXPIRES");
        RP_OK("postconditions hold on this input");
    }
    const std::string mode = argv[1];
    if (mode == "check_all" || mode == "cachable") {
        long in[RC_COUNT] = {0};
        auto v = c.arr("in");
        for (size_t i = 0; i < v.size() && i < RC_COUNT; i++) in[i] = (long)v[i];
        double pct = c.has("pct") ? strtod(c.kv["pct"].c_str(), nullptr) : 0.2;
        if (!(pct >= 0.0) || pct > PCTMAX) pct = 0.2;
        if (mode == "cachable") { in[RC_HAVE_REQUEST] = 0; in[RC_DELTA] = in[RC_CFG_MIN_EXPIRY]; }
        if (in[RC_NOW] < 0 || in[RC_DELTA] < 0 || judged_at(in) > TMAX || in[RC_TIMESTAMP] < -1 || in[RC_LASTMOD] < -1 ||
                in[RC_PAT_MIN] < 0 || in[RC_PAT_MAX] < 0 || in[RC_WHICH_RULE] < 0 || in[RC_WHICH_RULE] > 2 ||
                (rc_on(in[RC_REQ_MINFRESH_SET]) && in[RC_REQ_MINFRESH] < 0)) RP_OK("outside the target's domain");
        const int rule = spec_check_rule(in, pct);
        const long age = spec_age(in);
        const double epct = r_pct(in, pct);
        // native oracle: the staleness every rule owes, the L-M product included (one double multiplication)
        long st = spec_fresh(in[RC_EXPIRES], in[RC_TIMESTAMP], in[RC_LASTMOD], judged_at(in), age, r_min(in), epct, r_max(in)) ? -1 :
                  spec_staleness(in[RC_EXPIRES], in[RC_TIMESTAMP], in[RC_LASTMOD], judged_at(in), age, r_min(in), epct, r_max(in));
        if (mode == "cachable") {
            int r = rs_refreshIsCachable(in, pct);
            int sfail, snocache;
            const int reason = spec_check(in, rule, st, &sfail, &snocache);
            const long lm = in[RC_LASTMOD] < 0 ? in[RC_TIMESTAMP] : in[RC_LASTMOD];
            const int refreshable = lm >= 0 && (!rc_on(in[RC_HAVE_MEM]) || in[RC_BASE_CONTENT_LENGTH] != 0);
            printf("now=%ld min_expiry=%ld expires=%ld timestamp=%ld lastmod=%ld mem=%d content_length=%ld rule=%d staleness=%ld reason=%d -> cachable=%d\n",
                   in[RC_NOW], in[RC_DELTA], in[RC_EXPIRES], in[RC_TIMESTAMP], in[RC_LASTMOD], rc_on(in[RC_HAVE_MEM]), in[RC_BASE_CONTENT_LENGTH], rule, st, reason, r);
            if (fresh_code(reason) && r != 1) RP_FAIL("entry fresh in minimum_expiry_time seconds is not cachable");
            if (stale_code(reason) && r != refreshable) RP_FAIL("stale-soon entry: cachable=%d although refreshable=%d", r, refreshable);
            if (g_rc_store_total != 1 || rs_storeCount(reason) != 1) RP_FAIL("verdict not counted once");
            RP_OK("postconditions hold on this input");
        }
        int code = rs_refreshCheck(in, pct);
        const int ignore_reload = r_flag(in, RC_PAT_IGNORE_RELOAD);
        printf("now=%ld delta=%ld expires=%ld timestamp=%ld lastmod=%ld judged_at=%ld age=%ld rule=%d staleness=%ld entry_flags=0x%lx request=%d max-age=%s%ld -> code %d\n",
               in[RC_NOW], in[RC_DELTA], in[RC_EXPIRES], in[RC_TIMESTAMP], in[RC_LASTMOD], judged_at(in), age, rule, st, in[RC_ENTRY_FLAGS] & 0xFFFF,
               rc_on(in[RC_HAVE_REQUEST]), rc_on(in[RC_REQ_MAXAGE_SET]) ? "" : "unset/", in[RC_REQ_MAXAGE], code);
        // property-level oracle only (C12's two all-path sentences); the pinned: ladder is deliberately not re-checked here
        if (!stale_code(code) && !fresh_code(code)) RP_FAIL("unknown code");
        if (req_cc_active(in) && rc_on(in[RC_REQ_MAXAGE_SET]) && in[RC_REQ_MAXAGE] == 0 && !reply_immutable(in) && !ignore_reload && !stale_code(code)) RP_FAIL("request max-age=0 served as fresh");
        if (rc_on(in[RC_HAVE_REQUEST]) && !rc_on(in[RC_REQ_IGNORE_CC]) && rc_on(in[RC_REQ_NOCACHE_HACK]) && !ignore_reload && !stale_code(code)) RP_FAIL("client reload served as fresh");
        if (revalidate_always(in) && code != STALE_MUST_REVALIDATE) RP_FAIL("ENTRY_REVALIDATE_ALWAYS not honoured");
        if (must_revalidate_stale(in) && st > -1 && code != STALE_MUST_REVALIDATE) RP_FAIL("stale must-revalidate entry not answered STALE_MUST_REVALIDATE");
        if (must_revalidate_stale(in) && !stale_code(code) && !genuinely_fresh_code(code)) RP_FAIL("must-revalidate entry released on a client/config excuse");
        if (code == STALE_MUST_REVALIDATE && rc_on(in[RC_HAVE_REQUEST]) && !g_rc_fail_on_validation) RP_FAIL("failOnValidationError not set");
        RP_OK("property-level postconditions hold on this input");
    }
    if (mode == "limits" || mode == "first_dot") {
        int n = (int)c.num("n"), match_bits = (int)c.num("match_bits") & 15, dot_bits = (int)c.num("dot_bits") & 15;
        if (n < 0 || n > RL_MAX) RP_OK("outside the target's domain");
        unsigned long t0[RL_MAX] = {0}, c0[RL_MAX] = {0};
        const int bits = mode == "limits" ? match_bits : dot_bits;
        int want = -1;
        for (int i = 0; i < n; ++i) if ((bits >> i) & 1) { want = i; break; }
        int r = mode == "limits" ? rs_refreshLimits(n, match_bits, dot_bits, t0, c0) : rs_refreshFirstDotRule(n, match_bits, dot_bits, t0, c0);
        printf("rules=%d match=0x%x dot=0x%x -> rule %d (want %d)\n", n, match_bits, dot_bits, r, want);
        if (r != want) RP_FAIL("not the first matching rule in configuration order");
        for (int i = 0; i < RL_MAX; ++i) {
            if (mode == "limits" && g_rl_tests[i] != (unsigned long)(i < n && (want < 0 || i <= want))) RP_FAIL("matchTests of rule %d", i);
            if (mode == "limits" && g_rl_count[i] != (unsigned long)(i == want)) RP_FAIL("matchCount of rule %d", i);
            if (mode == "first_dot" && (g_rl_tests[i] || g_rl_count[i])) RP_FAIL("statistics touched");
        }
        RP_OK("postconditions hold on this input");
    }
    long expires = c.num("expires"), timestamp = c.num("timestamp"), lastmod = c.num("lastmod"), check_time = c.num("check_time"),
         age = c.num("age"), rmin = c.num("rmin"), rmax = c.num("rmax");
    int sf_in = (int)c.num("sf_in") & 15;
    double pct = 0.2;
    if (c.has("pct")) pct = strtod(c.kv["pct"].c_str(), nullptr);
    if (expires <= -1) {   // keep the heuristic branches free of signed overflow for the replay (contract domain)
        if (age < 0 || rmin < 0 || rmax < 0 || timestamp < -1 || lastmod < -1 || !(pct >= 0.0)) RP_OK("outside the heuristic target's domain");
    }
    long r = rs_refreshStaleness(expires, timestamp, lastmod, check_time, age, rmin, pct, rmax, sf_in);
    printf("expires=%ld check_time=%ld timestamp=%ld lastmod=%ld age=%ld min=%ld pct=%g max=%ld -> staleness=%ld flags=%d\n",
           expires, check_time, timestamp, lastmod, age, rmin, pct, rmax, r, g_sf_bits);
    if (r < -1) RP_FAIL("negative staleness other than -1: refreshCheck() treats it as neither fresh nor stale (skips must-revalidate and max-stale limits)");
    if (expires > -1) {
        if ((r == -1) != (expires > check_time)) RP_FAIL("explicit expiry: answered %s although expires %s check_time", r == -1 ? "FRESH" : "stale", expires > check_time ? ">" : "<=");
        if (expires <= check_time && (long)r != check_time - expires) RP_FAIL("staleness %ld != check_time - expires = %ld (result narrowed to int)", r, check_time - expires);
        if (g_sf_bits != (sf_in | 1)) RP_FAIL("stale_flags");
    } else {
        int rule = spec_rule(expires, timestamp, lastmod, check_time, age, rmin, pct, rmax);
        if (g_sf_bits != (sf_in | rule)) RP_FAIL("stale_flags: wrong rule flagged");
        if ((r == -1) != (spec_fresh(expires, timestamp, lastmod, check_time, age, rmin, pct, rmax) != 0)) RP_FAIL("heuristic freshness differs from the documented rule order");
        if (r != -1 && (long)r != spec_staleness(expires, timestamp, lastmod, check_time, age, rmin, pct, rmax)) RP_FAIL("heuristic staleness amount differs");
    }
    RP_OK("postconditions hold on this input");
}
