#!/usr/bin/env python3
"""refreshstale/gen.py: StoreEntry::lastModified() is restated in stubs.h; check it against src/Store.h on every run."""
import os, re, sys
repo = os.environ["VERIF_REPO"]
try:
    s = open(os.path.join(repo, "src/Store.h"), errors="replace").read()
except OSError:
    print("DROP: src/Store.h not present in this checkout: StoreEntry::lastModified() as restated in stubs.h is assumed")
    sys.exit(0)
want = "time_t lastModified() const {\n        // may still return -1 if timestamp is not set\n        return lastModified_ < 0 ? timestamp : lastModified_;\n    }"
if want not in s:
    sys.stderr.write("src/Store.h: StoreEntry::lastModified() differs from the copy in units/refreshstale/stubs.h\n"); sys.exit(1)
def need(path, text, what):
    try:
        t = open(os.path.join(repo, path), errors="replace").read()
    except OSError:
        print("DROP: %s not present in this checkout: %s as restated in stubs.h is assumed" % (path, what)); return
    if text not in t:
        sys.stderr.write("%s: %s differs from the copy in units/refreshstale/stubs.h or wrap.cc\n" % (path, what)); sys.exit(1)
need("src/defines.h", "#define EBIT_TEST(flag, bit)    ((flag) & ((1L<<(bit))))", "EBIT_TEST")
need("src/HttpHdrCc.h", "static const int32_t MAX_STALE_ANY=0x7fffffff;", "HttpHdrCc::MAX_STALE_ANY")
need("src/HttpHdrCc.h", "void minFresh(int32_t v) {if (v < 0) return;", "HttpHdrCc::minFresh() rejecting negative values")
need("src/RequestFlags.h", "return USE_HTTP_VIOLATIONS && nocacheHack;", "RequestFlags::noCacheHack()")
need("src/RefreshPattern.h", "min(0), pct(0.20), max(REFRESH_DEFAULT_MAX),", "the default rule's min/pct/max")
need("src/RefreshPattern.h", "#define REFRESH_DEFAULT_MAX static_cast<time_t>(259200)", "REFRESH_DEFAULT_MAX")
need("src/RefreshPattern.h", "max_stale(-1),", "the default rule's max_stale")
need("src/Store.h", "const HttpReply *hasFreshestReply() const { return mem_obj ? &mem_obj->freshestReply() : nullptr; }", "StoreEntry::hasFreshestReply()")
need("include/autoconf.h", "#define USE_HTTP_VIOLATIONS 1", "USE_HTTP_VIOLATIONS")
need("include/autoconf.h", "#define USE_HTCP 1", "USE_HTCP (refreshCountsEnum)")
need("include/autoconf.h", "#define USE_CACHE_DIGESTS 0", "USE_CACHE_DIGESTS (refreshCountsEnum)")
need("src/MemObject.h", "const HttpReply &baseReply() const { return *reply_; }", "MemObject::baseReply()")
need("src/http/Message.h", "int64_t content_length = 0;", "Http::Message::content_length")
need("src/SquidConfig.h", "time_t minimum_expiry_time;", "Config.minimum_expiry_time")
need("src/SquidConfig.h", "RefreshPattern *Refresh;", "Config.Refresh")
need("src/refresh.cc", "RefreshPattern::regex() const\n{\n    assert(regex_);\n    return *regex_;\n}", "RefreshPattern::regex()")
need("src/RefreshPattern.h", "        uint64_t matchTests;\n        uint64_t matchCount;", "RefreshPattern::stats")
need("src/RefreshPattern.h", "    RefreshPattern *next;", "RefreshPattern::next")
print("DROP: EBIT_TEST, MAX_STALE_ANY, noCacheHack(), hasFreshestReply(), the default refresh rule and USE_HTTP_VIOLATIONS are restated in stubs.h/wrap.cc (checked textually at extraction time)")
print("DROP: src/Store.h StoreEntry::lastModified() is restated in stubs.h (checked textually equal at extraction time)")
