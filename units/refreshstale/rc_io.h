/* Input vector of the refreshCheck wrapper, shared by wrap.cc (C++) and contract.c (C); one long each. */
#ifndef RC_IO_H
#define RC_IO_H
enum {
    RC_NOW,              /* squid_curtime */
    RC_DELTA,            /* refreshCheck's delta (0 for HTTP hits) */
    RC_TIMESTAMP, RC_EXPIRES, RC_LASTMOD,          /* StoreEntry times */
    RC_ENTRY_FLAGS,      /* StoreEntry::flags (16 bits) */
    RC_HAVE_MEM,         /* entry->mem_obj != nullptr (then the freshest reply is available) */
    RC_REP_HAVE_CC, RC_REP_IMMUTABLE, RC_REP_SIE_SET, RC_REP_SIE,      /* reply Cache-Control: immutable, stale-if-error=N */
    RC_HAVE_REQUEST, RC_REQ_IGNORE_CC, RC_REQ_IMS, RC_REQ_NOCACHE_HACK,
    RC_REQ_HAVE_CC, RC_REQ_MINFRESH_SET, RC_REQ_MINFRESH, RC_REQ_MAXAGE_SET, RC_REQ_MAXAGE, RC_REQ_MAXSTALE_SET, RC_REQ_MAXSTALE,
    RC_WHICH_RULE,       /* 0: a refresh_pattern matched the URL, 1: the first "." rule, 2: the built-in default rule */
    RC_PAT_MIN, RC_PAT_MAX, RC_PAT_MAX_STALE,
    RC_PAT_REFRESH_IMS, RC_PAT_OVERRIDE_EXPIRE, RC_PAT_OVERRIDE_LASTMOD, RC_PAT_RELOAD_INTO_IMS, RC_PAT_IGNORE_RELOAD,
    RC_CFG_REFRESH_ALL_IMS, RC_CFG_RELOAD_INTO_IMS, RC_CFG_MAX_STALE,
    RC_CFG_MIN_EXPIRY,   /* Config.minimum_expiry_time (refreshIsCachable only) */
    RC_BASE_CONTENT_LENGTH,   /* entry->mem_obj->baseReply().content_length (refreshIsCachable only) */
    RC_COUNT
};
#endif
