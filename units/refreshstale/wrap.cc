// Wrapper TU for the refreshstale unit.
#include "stubs.h"
#include "rc_io.h"
#include "staleness.inc"      // static time_t refreshStaleness(const StoreEntry *, time_t, const time_t, const RefreshPattern *, stale_flags *)
#include "check.inc"          // static int refreshCheck(const StoreEntry *, HttpRequest *, time_t)

extern "C" {

int g_sf_bits;      // stale_flags after the call: 1 expires, 2 min, 4 lmfactor, 8 max

long rs_refreshStaleness(time_t expires, time_t timestamp, time_t lastmod, time_t check_time, time_t age,
                        time_t rmin, double pct, time_t rmax, int sf_in_bits)
{
    StoreEntry e;
    e.timestamp = timestamp;
    e.expires = expires;
    e.lastModified_ = lastmod;
    RefreshPattern R;
    R.min = rmin;
    R.pct = pct;
    R.max = rmax;
    stale_flags sf;
    sf.expires = (sf_in_bits & 1) != 0;
    sf.min = (sf_in_bits & 2) != 0;
    sf.lmfactor = (sf_in_bits & 4) != 0;
    sf.max = (sf_in_bits & 8) != 0;
    const time_t r = refreshStaleness(&e, check_time, age, &R, &sf);
    g_sf_bits = (sf.expires ? 1 : 0) | (sf.min ? 2 : 0) | (sf.lmfactor ? 4 : 0) | (sf.max ? 8 : 0);
    return r;
}

int g_rc_fail_on_validation;   // request->flags.failOnValidationError after the call
int g_rc_no_cache;             // request->flags.noCache after the call

int rs_refreshCheck(const long *in, double pct)
{
    static const char url[] = "http://example.test/";
    HttpHdrCc repCc;
    repCc.minFreshSet = repCc.maxAgeSet = repCc.maxStaleSet = false;
    repCc.minFreshV = repCc.maxAgeV = repCc.maxStaleV = 0;
    repCc.immutable = in[RC_REP_IMMUTABLE] != 0;
    repCc.staleIfErrorSet = in[RC_REP_SIE_SET] != 0;
    repCc.staleIfErrorV = (int32_t)in[RC_REP_SIE];
    MemObject mem;
    mem.id = url;
    mem.rep.cache_control = in[RC_REP_HAVE_CC] ? &repCc : nullptr;
    StoreEntry e;
    e.timestamp = in[RC_TIMESTAMP];
    e.expires = in[RC_EXPIRES];
    e.lastModified_ = in[RC_LASTMOD];
    e.flags = (uint16_t)(in[RC_ENTRY_FLAGS] & 0xFFFF);
    e.mem_obj = in[RC_HAVE_MEM] ? &mem : nullptr;

    HttpHdrCc reqCc;
    reqCc.immutable = reqCc.staleIfErrorSet = false;
    reqCc.staleIfErrorV = 0;
    reqCc.minFreshSet = in[RC_REQ_MINFRESH_SET] != 0;
    reqCc.minFreshV = (int32_t)in[RC_REQ_MINFRESH];
    reqCc.maxAgeSet = in[RC_REQ_MAXAGE_SET] != 0;
    reqCc.maxAgeV = (int32_t)in[RC_REQ_MAXAGE];
    reqCc.maxStaleSet = in[RC_REQ_MAXSTALE_SET] != 0;
    reqCc.maxStaleV = (int32_t)in[RC_REQ_MAXSTALE];
    HttpRequest req;
    req.cache_control = in[RC_REQ_HAVE_CC] ? &reqCc : nullptr;
    req.uri = url;
    req.flags.noCache = false;
    req.flags.failOnValidationError = false;
    req.flags.ims = in[RC_REQ_IMS] != 0;
    req.flags.ignoreCc = in[RC_REQ_IGNORE_CC] != 0;
    req.flags.nocacheHack = in[RC_REQ_NOCACHE_HACK] != 0;

    RefreshPattern pat;
    pat.min = in[RC_PAT_MIN];
    pat.pct = pct;
    pat.max = in[RC_PAT_MAX];
    pat.max_stale = (int)in[RC_PAT_MAX_STALE];
    pat.flags.refresh_ims = in[RC_PAT_REFRESH_IMS] != 0;
    pat.flags.override_expire = in[RC_PAT_OVERRIDE_EXPIRE] != 0;
    pat.flags.override_lastmod = in[RC_PAT_OVERRIDE_LASTMOD] != 0;
    pat.flags.reload_into_ims = in[RC_PAT_RELOAD_INTO_IMS] != 0;
    pat.flags.ignore_reload = in[RC_PAT_IGNORE_RELOAD] != 0;
    pat.flags.store_stale = pat.flags.ignore_no_store = pat.flags.ignore_private = false;
    // the implicit default rule, as constructed by RefreshPattern(nullptr) in src/RefreshPattern.h
    DefaultRefresh.min = 0;
    DefaultRefresh.pct = 0.20;
    DefaultRefresh.max = 259200;
    DefaultRefresh.max_stale = -1;
    DefaultRefresh.flags.refresh_ims = DefaultRefresh.flags.store_stale = DefaultRefresh.flags.override_expire =
        DefaultRefresh.flags.override_lastmod = DefaultRefresh.flags.reload_into_ims = DefaultRefresh.flags.ignore_reload =
        DefaultRefresh.flags.ignore_no_store = DefaultRefresh.flags.ignore_private = false;
    g_matched = in[RC_WHICH_RULE] == 0 ? &pat : nullptr;
    g_dot = in[RC_WHICH_RULE] == 1 ? &pat : nullptr;

    Config.onoff.refresh_all_ims = (int)in[RC_CFG_REFRESH_ALL_IMS];
    Config.onoff.reload_into_ims = (int)in[RC_CFG_RELOAD_INTO_IMS];
    Config.maxStale = in[RC_CFG_MAX_STALE];
    squid_curtime = in[RC_NOW];

    const int code = refreshCheck(&e, in[RC_HAVE_REQUEST] ? &req : nullptr, in[RC_DELTA]);
    g_rc_fail_on_validation = req.flags.failOnValidationError;
    g_rc_no_cache = req.flags.noCache;
    return code;
}

}
