// Wrapper TU for the refreshstale unit.
#include "stubs.h"
#include "rc_io.h"
#include "staleness.inc"      // static time_t refreshStaleness(const StoreEntry *, time_t, const time_t, const RefreshPattern *, stale_flags *)
#include "check.inc"          // static int refreshCheck(const StoreEntry *, HttpRequest *, time_t)
#if defined(T_CACHABLE) || defined(RS_NATIVE)
#include "cachable.inc"       // bool refreshIsCachable(const StoreEntry *)
#endif
#if defined(T_LIMITS) || defined(RS_NATIVE)
// the REAL rule look-ups, under other names: refreshCheck() above keeps calling the assumed models of stubs.h, whose contract
// (nullptr or one rule of the list) is what targets limits/first_dot establish for the real text
#define refreshLimits real_refreshLimits
#define refreshFirstDotRule real_refreshFirstDotRule
#include "limits.inc"         // const RefreshPattern *refreshLimits(const char *url); static const RefreshPattern *refreshFirstDotRule()
#undef refreshLimits
#undef refreshFirstDotRule
#endif

extern "C" {

int g_sf_bits;      // stale_flags after the call: 1 expires, 2 min, 4 lmfactor, 8 max

long rs_refreshStaleness(time_t expires, time_t timestamp, time_t lastmod, time_t check_time, time_t age,
                        time_t rmin, double pct, time_t rmax, int sf_in_bits)
{
    StoreEntry e;
    e.timestamp = timestamp;
    e.expires = expires;
    e.lastModified_ = lastmod;
    RefreshPattern R;
    R.min = rmin;
    R.pct = pct;
    R.max = rmax;
    stale_flags sf;
    sf.expires = (sf_in_bits & 1) != 0;
    sf.min = (sf_in_bits & 2) != 0;
    sf.lmfactor = (sf_in_bits & 4) != 0;
    sf.max = (sf_in_bits & 8) != 0;
    const time_t r = refreshStaleness(&e, check_time, age, &R, &sf);
    g_sf_bits = (sf.expires ? 1 : 0) | (sf.min ? 2 : 0) | (sf.lmfactor ? 4 : 0) | (sf.max ? 8 : 0);
    return r;
}

int g_rc_fail_on_validation;   // request->flags.failOnValidationError after the call
int g_rc_no_cache;             // request->flags.noCache after the call

int rs_refreshCheck(const long *in, double pct)
{
#include "rc_setup.inc"
    const int code = refreshCheck(&e, in[RC_HAVE_REQUEST] ? &req : nullptr, in[RC_DELTA]);
    g_rc_fail_on_validation = req.flags.failOnValidationError;
    g_rc_no_cache = req.flags.noCache;
    return code;
}

#if defined(T_CACHABLE) || defined(RS_NATIVE)
int g_rc_store_total;          // refreshCounts[rcStore].total after the call

int rs_refreshIsCachable(const long *in, double pct)
{
#include "rc_setup.inc"
    (void)req;
    const bool r = refreshIsCachable(&e);
    g_rc_store_total = refreshCounts[rcStore].total;
    return r ? 1 : 0;
}
int rs_storeCount(int code) { return (code >= 0 && code <= STALE_DEFAULT) ? refreshCounts[rcStore].status[code] : -1; }

#endif

#if defined(T_LIMITS) || defined(RS_NATIVE)
// ---- refreshLimits() / refreshFirstDotRule() over a configured list of at most RL_MAX rules ----
#define RL_MAX 4
static RefreshPattern rl_node[RL_MAX];
static RegexPattern rl_regex[RL_MAX];
unsigned long g_rl_tests[RL_MAX], g_rl_count[RL_MAX];     // stats.matchTests / stats.matchCount after the call, minus their values before

static void rl_build(int n, int match_bits, int dot_bits, const unsigned long *tests0, const unsigned long *count0)
{
    for (int i = 0; i < RL_MAX; ++i) {
        rl_regex[i].matches = ((match_bits >> i) & 1) != 0;
        rl_regex[i].dot = ((dot_bits >> i) & 1) != 0;
        rl_node[i].regex_ = &rl_regex[i];                 // explicit rules own a regex (RefreshPattern's constructor)
        rl_node[i].next = (i + 1 < n) ? &rl_node[i + 1] : nullptr;
        rl_node[i].stats.matchTests = tests0[i];
        rl_node[i].stats.matchCount = count0[i];
    }
    Config.Refresh = n > 0 ? &rl_node[0] : nullptr;
}
static int rl_index(const RefreshPattern *r)
{
    if (!r) return -1;
    for (int i = 0; i < RL_MAX; ++i)
        if (r == &rl_node[i]) return i;
    return -2;      // not a rule of the list
}
static void rl_stats(const unsigned long *tests0, const unsigned long *count0)
{
    for (int i = 0; i < RL_MAX; ++i) {
        g_rl_tests[i] = rl_node[i].stats.matchTests - tests0[i];
        g_rl_count[i] = rl_node[i].stats.matchCount - count0[i];
    }
}
// returns the index of the rule answered, -1 for nullptr
int rs_refreshLimits(int n, int match_bits, int dot_bits, const unsigned long *tests0, const unsigned long *count0)
{
    rl_build(n, match_bits, dot_bits, tests0, count0);
    const int r = rl_index(real_refreshLimits("http://example.test/"));
    rl_stats(tests0, count0);
    return r;
}
int rs_refreshFirstDotRule(int n, int match_bits, int dot_bits, const unsigned long *tests0, const unsigned long *count0)
{
    rl_build(n, match_bits, dot_bits, tests0, count0);
    const int r = rl_index(real_refreshFirstDotRule());
    rl_stats(tests0, count0);
    return r;
}
#endif

}
