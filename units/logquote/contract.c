/* Sidecar contracts for the log-quoting helpers: Format::QuoteMimeBlob / QuoteUrlEncodeUsername (src/format/Quoting.cc)
 * and log_quoted_string (src/format/Format.cc).  Postconditions come from C34: "client-controlled bytes cannot introduce
 * extra lines or field separators ... The log-quoting transformations (quoted-string, mime-blob, ...) are reversible and
 * their output contains no raw line breaks."   (URL quoting: unit rfc1738.  Shell quoting, record count: not covered.)
 * Harness-encoded contracts (QuoteMimeBlob allocates a block of symbolic size; README). */
#include <stddef.h>
#include <stdlib.h>
#include <string.h>

#ifndef N
#define N 16          /* input bound: any NUL-terminated string of length < N */
#endif

/* ---- specification: decoders written from the property statement ("reversible") and the documented formats ---- */
static int spec_hexval(char c)
{
    if (c >= '0' && c <= '9') return c - '0';
    if (c >= 'a' && c <= 'f') return c - 'a' + 10;
    if (c >= 'A' && c <= 'F') return c - 'A' + 10;
    return -1;
}
/* mime-blob quoting (logformat %{...}>h with the ' modifier... "[" style): \r \n \\ and %xx; everything else literal.
 * Returns bytes consumed; *out = byte denoted.  Never reads past a NUL. */
static unsigned spec_mime_decode_one(const char *p, unsigned char *out)
{
    if (p[0] == '\\') {
        if (p[1] == 'r') { *out = '\r'; return 2; }
        if (p[1] == 'n') { *out = '\n'; return 2; }
        if (p[1] == '\\') { *out = '\\'; return 2; }
    }
    if (p[0] == '%' && spec_hexval(p[1]) >= 0 && spec_hexval(p[2]) >= 0) {
        *out = (unsigned char)(spec_hexval(p[1]) * 16 + spec_hexval(p[2]));
        return 3;
    }
    *out = (unsigned char)p[0];
    return 1;
}
/* quoted-string quoting (logformat " modifier): backslash escapes \r \n \t \" \\ ; everything else literal */
static unsigned spec_qs_decode_one(const char *p, unsigned char *out)
{
    if (p[0] == '\\') {
        if (p[1] == 'r') { *out = '\r'; return 2; }
        if (p[1] == 'n') { *out = '\n'; return 2; }
        if (p[1] == 't') { *out = '\t'; return 2; }
        if (p[1] == '"') { *out = '"'; return 2; }
        if (p[1] == '\\') { *out = '\\'; return 2; }
    }
    *out = (unsigned char)p[0];
    return 1;
}

#ifndef CV_NATIVE

char *QuoteMimeBlob(const char *header);
char *QuoteUrlEncodeUsername(const char *name);
void log_quoted_string(const char *str, char *out);

size_t g;                 /* ghost index: arbitrary (driver: nondet in harness mode) */
const char *g_in0;        /* ghost: the input pointer at entry (both functions advance their parameter); set by the harness */
size_t g_len;             /* ghost: strlen of the input; set by the harness */
char *g_out0;             /* ghost: the output buffer handed to log_quoted_string; set by the harness */

/* requires: in is a NUL-terminated string of length g_len < N (chosen arbitrarily) */
static void any_string(char *in)
{
    size_t n;
    __CPROVER_assume(n < N);
    __CPROVER_assume(__CPROVER_forall { size_t k; (k < N) ==> (k < n ==> in[k] != 0) });
    in[n] = 0;
    g_len = n;
    g_in0 = in;
}

/* ---------- QuoteMimeBlob: loop invariant => memory safety, termination, size bound, output alphabet ---------- */
#if defined(T_MIME_SAFE)
void h_mime_safe(void)
{
    char in[N];
    any_string(in);
    char *r = QuoteMimeBlob(in);
    __CPROVER_assert(r != NULL && __CPROVER_POINTER_OFFSET(r) == 0 && __CPROVER_OBJECT_SIZE(r) == 3 * g_len + 1,
                     "ensures: returns a fresh block of exactly 3*strlen+1 bytes");
    size_t lr = strlen(r);
    __CPROVER_assert(lr <= 3 * g_len, "ensures: output is NUL-terminated within the allocated 3*len+1 bytes");
#ifdef TWIN_MIME_ALPHABET
    __CPROVER_assert(!(g < lr) || !((unsigned char)r[g] >= 0x20 && (unsigned char)r[g] <= 0x7E),
                     "ensures: TWIN (negated) output alphabet");
#else
    __CPROVER_assert(!(g < lr) || ((unsigned char)r[g] >= 0x20 && (unsigned char)r[g] <= 0x7E),
                     "ensures: no output byte is CR, LF, another control byte, DEL or >= 0x80 (ghost index: every byte)");
    __CPROVER_assert(!(g < lr) || (r[g] != '[' && r[g] != ']'),
                     "ensures: no raw [ or ] (the field delimiters of this quoting style) in the output");
#endif
    __CPROVER_assert(in[g_len] == 0 && (g_len == 0 || in[0] != 0), "ensures: input not written (terminator in place)");
#ifdef REACH
    __CPROVER_assert(!(r[0] == '%' && r[1] == '0' && r[2] == 'a' && r[3] == 'x'), "reach: a %xx unit followed by a copied byte");
    __CPROVER_assert(!(r[0] == '\\' && r[1] == 'n'), "reach: line feed written as backslash-n");
    __CPROVER_assert(!(lr == 3 * (N - 1)), "reach: maximal expansion");
    __CPROVER_assert(!(lr == 0), "reach: empty input");
#endif
}
#endif

/* ---------- per-byte lemma (complete): every byte's code decodes to the byte, consuming exactly the code, whatever follows;
 * NULL input and QuoteUrlEncodeUsername's two special cases ---------- */
#if defined(T_MIME_UNIT)
void h_mime_unit(void)
{
    unsigned char c, rest;
    __CPROVER_assume(c != 0);
    char in[2]; in[0] = (char)c; in[1] = 0;
    g_in0 = in; g_len = 1;
    char *r = QuoteMimeBlob(in);
    size_t ul = strlen(r);
    __CPROVER_assert(ul >= 1 && ul <= 3, "unit: one byte is written as 1..3 bytes");
    char u[6];
    for (unsigned k = 0; k < 3; k++) u[k] = k < ul ? r[k] : 0;
    u[ul] = (char)rest; u[ul + 1] = 0; u[ul + 2] = 0;
    unsigned char o; unsigned used = spec_mime_decode_one(u, &o);
#ifdef TWIN_MIME_UNIT
    __CPROVER_assert(!(used == ul && o == c), "unit: TWIN (negated) decodes to its source byte");
#else
    __CPROVER_assert(used == ul && o == c, "unit: the code of c decodes to c and consumes exactly the code (injective, prefix-free)");
#endif
    /* NULL and empty inputs */
    char *e = QuoteMimeBlob(NULL);
    __CPROVER_assert(e != NULL && e[0] == 0, "ensures: QuoteMimeBlob(NULL) is a fresh empty string");
    __CPROVER_assert(QuoteUrlEncodeUsername(NULL) == NULL, "ensures: QuoteUrlEncodeUsername(NULL) == NULL");
    char empty[1]; empty[0] = 0;
    __CPROVER_assert(QuoteUrlEncodeUsername(empty) == NULL, "ensures: QuoteUrlEncodeUsername(\"\") == NULL");
    char *un = QuoteUrlEncodeUsername(in);
    __CPROVER_assert(un != NULL && strlen(un) == ul && un[0] == r[0], "ensures: QuoteUrlEncodeUsername(s) is QuoteMimeBlob(s) for non-empty s");
#ifdef REACH
    __CPROVER_assert(!(ul == 3 && c == '%'), "reach: percent is %25");
    __CPROVER_assert(!(ul == 2 && c == '\\'), "reach: backslash doubled");
    __CPROVER_assert(!(ul == 1 && c == '"'), "reach: copied byte");
#endif
}
#endif

/* ---------- log_quoted_string ---------- */
#if defined(T_QS_SAFE)
/* The caller (Format::assemble, LOG_QUOTE_QUOTES) hands log_quoted_string a buffer of at least 2*strlen+1 bytes.
 * Modelled as a fixed array of 2*N bytes whose bytes behind the first 2*len+1 are guard bytes 0x5A (a block of symbolic
 * size makes CBMC's array theory explode here): the function must terminate its output inside the 2*len+1 bytes and leave
 * every guard byte intact (ghost index) -- a write past 2*len+1, including a stray terminator, changes a guard byte. */
void h_qs_safe(void)
{
    char in[N];
    any_string(in);
    char out[2 * N];
    for (size_t k = 0; k < 2 * N; k++) { char junk; out[k] = k < 2 * g_len + 1 ? junk : 0x5A; }
    g_out0 = out;
    log_quoted_string(in, out);
    size_t lr = strlen(out);
    __CPROVER_assert(lr <= 2 * g_len, "ensures: output is NUL-terminated within 2*len+1 bytes");
    __CPROVER_assert(!(g >= 2 * g_len + 1 && g < 2 * N) || (unsigned char)out[g] == 0x5A,
                     "ensures: nothing is written behind the first 2*len+1 bytes of the buffer (guard bytes intact, ghost index)");
#ifdef TWIN_QS_ALPHABET
    __CPROVER_assert(!(g < lr) || out[g] == '\r' || out[g] == '\n' || out[g] == '\t', "ensures: TWIN (negated) no raw line break");
#else
    __CPROVER_assert(!(g < lr) || (out[g] != '\r' && out[g] != '\n' && out[g] != '\t'),
                     "ensures: no raw CR, LF or TAB in the output (ghost index: every byte)");
    __CPROVER_assert(!(g < lr && out[g] == '"') || (g >= 1 && out[g - 1] == '\\'),
                     "ensures: every double quote in the output is preceded by a backslash");
    __CPROVER_assert(!(g < lr && out[g] == '\\') || (g >= 1 && out[g - 1] == '\\') ||
                     (g + 1 < lr && (out[g + 1] == 'r' || out[g + 1] == 'n' || out[g + 1] == 't' || out[g + 1] == '"' || out[g + 1] == '\\')),
                     "ensures: every backslash in the output is escaped or introduces an escape");
#endif
    __CPROVER_assert(in[g_len] == 0 && (g_len == 0 || in[0] != 0), "ensures: input not written (terminator in place)");
    {   /* reversibility: decoding the quoted form returns the input (bounded target: the loop is unwound) */
        size_t i = 0, j = 0;
        _Bool same = 1;
        while (i < lr && j < N) {
            unsigned char o;
            i += spec_qs_decode_one(out + i, &o);
            if (j >= g_len || (unsigned char)in[j] != o) same = 0;
            j++;
        }
#ifdef TWIN_QS_ROUNDTRIP
        __CPROVER_assert(!(same && i == lr && j == g_len), "ensures: TWIN (negated) quoted-string round trip");
#else
        __CPROVER_assert(same && i == lr && j == g_len, "ensures: decoding the quoted-string form returns the original string");
#endif
    }
#ifdef REACH
    __CPROVER_assert(!(out[0] == 'a' && out[1] == '\\' && out[2] == 'n' && out[3] == 'b'), "reach: copied run, escape, copied run");
    __CPROVER_assert(!(out[0] == '\\' && out[1] == '"'), "reach: escaped quote");
    __CPROVER_assert(!(lr == 2 * (N - 1)), "reach: maximal expansion");
    __CPROVER_assert(!(lr == 0), "reach: empty input");
#endif
}
#endif

/* ---------- log_quoted_string by LOOP INVARIANT (every string shorter than N; nothing unwound inside the function) ----------
 * Same buffer discipline as h_qs_safe (2*N bytes, guard bytes 0x5A behind the first 2*len+1). The loop of the real function
 * carries the invariant in loops.json: str walks the input, p - out <= 2*(str - in), every output byte written so far obeys the
 * alphabet claims (ghost index g), guard bytes intact. Inside the loop strcspn and memcpy are CONTRACT MODELS (stubs.c): the
 * memcpy model makes the copied range arbitrary except the ghost bytes, so the WHOLE-STRING round trip is not claimed here
 * (bounded target qs_bounded + the complete per-byte lemma qs_unit cover contents). */
#if defined(T_QS_PROOF)
void h_qs_proof(void)
{
    char in[N];
    any_string(in);
    char out[2 * N];
    for (size_t k = 0; k < 2 * N; k++) { char junk; out[k] = k < 2 * g_len + 1 ? junk : 0x5A; }
    g_out0 = out;
    log_quoted_string(in, out);
    size_t lr = 0;                               /* strlen(out), constant bound (the array has 2*N bytes) */
    _Bool term = 0;
    for (size_t k = 0; k < 2 * N; k++)
        if (!term) { if (out[k] == 0) term = 1; else lr = k + 1; }
    __CPROVER_assert(term, "ensures: the output is NUL-terminated inside the buffer");
#ifdef TWIN_QSP_SIZE
    __CPROVER_assert(lr < 2 * g_len || g_len == 0, "ensures: TWIN (too strong) output shorter than 2*len");
#else
    __CPROVER_assert(lr <= 2 * g_len, "ensures: output is NUL-terminated within 2*len+1 bytes");
#endif
    __CPROVER_assert(!(g >= 2 * g_len + 1 && g < 2 * N) || (unsigned char)out[g] == 0x5A,
                     "ensures: nothing is written behind the first 2*len+1 bytes of the buffer (guard bytes intact, ghost index)");
#ifdef TWIN_QSP_ALPHABET
    __CPROVER_assert(!(g < lr) || out[g] == '\r' || out[g] == '\n' || out[g] == '\t', "ensures: TWIN (negated) no raw line break");
#else
    __CPROVER_assert(!(g < lr) || (out[g] != '\r' && out[g] != '\n' && out[g] != '\t'),
                     "ensures: no raw CR, LF or TAB in the output (ghost index: every byte)");
    __CPROVER_assert(!(g < lr && out[g] == '"') || (g >= 1 && out[g - 1] == '\\'),
                     "ensures: every double quote in the output is preceded by a backslash");
    __CPROVER_assert(!(g < lr && out[g] == '\\') || (g >= 1 && out[g - 1] == '\\') ||
                     (g + 1 < lr && (out[g + 1] == 'r' || out[g + 1] == 'n' || out[g + 1] == 't' || out[g + 1] == '"' || out[g + 1] == '\\')),
                     "ensures: every backslash in the output is escaped or introduces an escape");
#endif
    __CPROVER_assert(in[g_len] == 0 && (g_len == 0 || in[0] != 0), "ensures: input not written (terminator in place)");
#ifdef REACH
    __CPROVER_assert(!(g_len >= 3 && in[0] == 'a' && in[1] == '\n' && in[2] == 'b' && out[1] == '\\' && out[2] == 'n'), "reach: copied run, escape, copied run");
    __CPROVER_assert(!(out[0] == '\\' && out[1] == '"'), "reach: escaped quote");
    __CPROVER_assert(!(lr == 2 * (N - 1)), "reach: maximal expansion");
    __CPROVER_assert(!(lr == N - 1 && g_len == N - 1), "reach: full-length input without any escape");
    __CPROVER_assert(!(lr == 0), "reach: empty input");
#endif
}
#endif

/* per-unit lemma (complete): one byte, or one byte after a plain byte, decodes to itself whatever follows */
#if defined(T_QS_UNIT)
void h_qs_unit(void)
{
    unsigned char c, rest;
    __CPROVER_assume(c != 0);
    char in[2]; in[0] = (char)c; in[1] = 0;
    g_in0 = in; g_len = 1;
    char out[3 + 3];
    g_out0 = out;
    log_quoted_string(in, out);
    size_t ul = strlen(out);
    __CPROVER_assert(ul >= 1 && ul <= 2, "unit: one byte is written as 1..2 bytes");
    out[ul] = (char)rest; out[ul + 1] = 0; out[ul + 2] = 0;
    unsigned char o; unsigned used = spec_qs_decode_one(out, &o);
#ifdef TWIN_QS_UNIT
    __CPROVER_assert(!(used == ul && o == c), "unit: TWIN (negated) decodes to its source byte");
#else
    __CPROVER_assert(used == ul && o == c, "unit: the code of c decodes to c and consumes exactly the code");
#endif
#ifdef REACH
    __CPROVER_assert(!(ul == 2 && c == '\t'), "reach: tab escaped");
    __CPROVER_assert(!(ul == 1 && c == 'a'), "reach: copied byte");
#endif
}
#endif

/* ---------- whole-string round trip of the mime-blob style (bounded by N); the quoted-string style is checked in qs_bounded ---------- */
#if defined(T_MIME_ROUNDTRIP)
void h_mime_roundtrip(void)
{
    char x[N];
    x[N - 1] = 0;
    g_in0 = x;
    size_t lx = strlen(x);
    g_len = lx;
    char *r = QuoteMimeBlob(x);
    size_t lr = strlen(r);
    size_t i = 0, j = 0;
    _Bool same = 1;
    while (i < lr && j < N) {
        unsigned char o;
        i += spec_mime_decode_one(r + i, &o);
        if (j >= lx || (unsigned char)x[j] != o) same = 0;
        j++;
    }
#ifdef TWIN_ROUNDTRIP
    __CPROVER_assert(!(same && i == lr && j == lx), "ensures: TWIN (negated) round trip");
#else
    __CPROVER_assert(same && i == lr && j == lx, "ensures: decoding the mime-blob quoted form returns the original string");
#endif
#ifdef REACH
    __CPROVER_assert(!(lx == N - 1 && x[0] == '%' && x[1] == '\n'), "reach: full-length hostile input");
    __CPROVER_assert(!(lx == 0), "reach: empty input");
#endif
}
#endif

#endif /* CV_NATIVE */
