/* Assumed contract for the one strcspn call in log_quoted_string: strcspn(str, "\"\\\r\n\t").
 * C99 7.21.5.3: returns the length of the maximal initial segment of s consisting entirely of characters NOT in reject.
 * Modelled loop-free (the call sits inside the loop that carries the loop contract) as an arbitrary l constrained by
 * that sentence; the reject string is asserted, so any other use fails an obligation instead of being mis-modelled.
 * N bounds the strings of the harness.  Linked with the contract files (not safety-instrumented: quantifier body); its own
 * reads are covered by the r_ok assertion. */
#include <stddef.h>
#ifndef N
#define N 16
#endif
static int cv_in_reject(char c) { return c == '"' || c == '\\' || c == '\r' || c == '\n' || c == '\t'; }
size_t strcspn(const char *s, const char *reject)
{
    __CPROVER_assert(reject[0] == '"' && reject[1] == '\\' && reject[2] == '\r' && reject[3] == '\n' && reject[4] == '\t' &&
                     reject[5] == 0, "strcspn stub: only the reject set \"\\\\\\r\\n\\t is modelled");
    size_t l;
    __CPROVER_assume(l < N);
    __CPROVER_assume(__CPROVER_forall { size_t k; (k < N) ==> (k < l ==> (s[k] != 0 && s[k] != '"' && s[k] != '\\' && s[k] != '\r' && s[k] != '\n' && s[k] != '\t')) });
    __CPROVER_assert(__CPROVER_r_ok(s, l + 1), "strcspn stub: the scanned segment and its stop byte lie inside the object");
    __CPROVER_assume(s[l] == 0 || cv_in_reject(s[l]));
    return l;
}
