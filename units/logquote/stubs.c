/* Assumed contract for the one strcspn call in log_quoted_string: strcspn(str, "\"\\\r\n\t").
 * C99 7.21.5.3: returns the length of the maximal initial segment of s consisting entirely of characters NOT in reject.
 * Modelled loop-free (the call sits inside the loop that carries the loop contract) as an arbitrary l constrained by
 * that sentence; the reject string is asserted, so any other use fails an obligation instead of being mis-modelled.
 * N bounds the strings of the harness.  Linked with the contract files (not safety-instrumented: quantifier body); its own
 * reads are covered by the r_ok assertion. */
#include <stddef.h>
#ifndef N
#define N 16
#endif
extern const char *g_in0;
static int cv_in_reject(char c) { return c == '"' || c == '\\' || c == '\r' || c == '\n' || c == '\t'; }
size_t strcspn(const char *s, const char *reject)
{
    __CPROVER_assert(reject[0] == '"' && reject[1] == '\\' && reject[2] == '\r' && reject[3] == '\n' && reject[4] == '\t' &&
                     reject[5] == 0, "strcspn stub: only the reject set \"\\\\\\r\\n\\t is modelled");
    size_t l;
    __CPROVER_assume(l < N);
#ifdef CV_STRCSPN_ABS
    /* same sentence, written over the absolute (constant) indices of the harness' input string g_in0 (s = g_in0 + o): the
     * quantifier body then reads constant positions instead of N symbolic ones (much smaller formula for large N) */
    __CPROVER_assert(__CPROVER_same_object(s, g_in0) && s >= g_in0, "model: strcspn model: the scanned string lies in the input string of the harness");
    const size_t o = (size_t)(s - g_in0);
    __CPROVER_assume(__CPROVER_forall { size_t k; (k < N) ==> ((k >= o && k < o + l) ==> (g_in0[k] != 0 && g_in0[k] != '"' && g_in0[k] != '\\' && g_in0[k] != '\r' && g_in0[k] != '\n' && g_in0[k] != '\t')) });
#else
    __CPROVER_assume(__CPROVER_forall { size_t k; (k < N) ==> (k < l ==> (s[k] != 0 && s[k] != '"' && s[k] != '\\' && s[k] != '\r' && s[k] != '\n' && s[k] != '\t')) });
#endif
    __CPROVER_assert(__CPROVER_r_ok(s, l + 1), "strcspn stub: the scanned segment and its stop byte lie inside the object");
    __CPROVER_assume(s[l] == 0 || cv_in_reject(s[l]));
    return l;
}

#ifdef CV_MEMCPY_MODEL
/* Contract model of memcpy for the loop-invariant target qs_proof (log_quoted_string copies each strcspn segment with memcpy,
 * with a symbolic length, inside the loop that carries the loop contract; CBMC's own memcpy model did not finish there).
 * Over-approximation of C99 7.21.2.1: both regions are asserted valid and disjoint; afterwards the model remembers NOTHING
 * about the destination object except the (at most) three bytes the ghost-index claims look at -- out[g-1], out[g], out[g+1] --
 * which get exactly what memcpy gives them (the source byte if inside [dst, dst+n), their old value otherwise); every other
 * byte of the object is arbitrary afterwards. The frame "bytes outside the range are unchanged" is thus kept for the ghost
 * bytes only, which is all the invariant and the postconditions use (guard byte out[g], neighbours of out[g]).
 * Contents as a whole: bounded target qs_bounded and the complete per-byte lemma qs_unit.
 * The destination must lie in the harness' output buffer g_out0: asserted as "model:", any other use is undecided. */
extern size_t g;
extern char *g_out0;
void *memcpy(void *dst, const void *src, size_t n)
{
    char *d = (char *)dst;
    const char *s = (const char *)src;
    __CPROVER_assert(__CPROVER_same_object(d, g_out0) && d >= g_out0 && __CPROVER_OBJECT_SIZE(g_out0) == 2 * N,
                     "model: memcpy model: the destination lies in the 2*N-byte output buffer of the harness");
    const size_t off = (size_t)(d - g_out0);
    __CPROVER_assert(__CPROVER_w_ok(d, n), "memcpy contract: the destination range is writable");
    __CPROVER_assert(__CPROVER_r_ok(s, n), "memcpy contract: the source range is readable");
    __CPROVER_assert(!__CPROVER_same_object(d, s), "memcpy contract: the regions do not overlap (different objects)");
    const _Bool have0 = g >= 1 && g - 1 < 2 * N, have1 = g < 2 * N, have2 = g + 1 < 2 * N && g + 1 != 0;
    char keep0, keep1, keep2;                       /* what memcpy leaves in out[g-1], out[g], out[g+1] */
    if (have0) keep0 = (g - 1 >= off && g - 1 < off + n) ? s[g - 1 - off] : g_out0[g - 1];
    if (have1) keep1 = (g >= off && g < off + n) ? s[g - off] : g_out0[g];
    if (have2) keep2 = (g + 1 >= off && g + 1 < off + n) ? s[g + 1 - off] : g_out0[g + 1];
    __CPROVER_havoc_object(g_out0);                 /* forget the whole buffer ... */
    if (have0) g_out0[g - 1] = keep0;               /* ... except the ghost bytes */
    if (have1) g_out0[g] = keep1;
    if (have2) g_out0[g + 1] = keep2;
    return dst;
}
#endif
