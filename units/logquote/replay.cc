// Native replay for the logquote unit: the REAL src/format/Quoting.cc (current tree, real headers) and the slice of
// log_quoted_string cut from the current src/format/Format.cc by the extraction step, compiled with ASan+UBSan, fed the
// verifier's counterexample; the same postconditions are re-evaluated (spec decoders #included from contract.c).
#include "replay.h"
#include <cstdlib>
#include <cstring>
#include <string>
#include <vector>
#define CV_NATIVE 1
#define N 4096
#include "squid.h"
#include REAL_FORMAT_QUOTING_CC
namespace slice {
#include "log_quoted_string.c"      // build dir: extracted from the current tree
}
namespace spec {
#include "contract.c"
}

extern "C" const char *__asan_default_options() { return "detect_leaks=0"; }   // results are handed to the caller: not a leak check

static std::string input(const Cex &c, size_t maxlen)
{
    std::string s;
    const char *keys[] = {"in", "x", "string"};
    for (auto k : keys)
        if (c.has(k)) { for (auto v : c.arr(k)) { if (v == 0 || s.size() >= maxlen) break; s.push_back((char)v); } break; }
    if (c.has("n") && (size_t)c.num("n") < s.size()) s.resize((size_t)c.num("n"));   // any_string(): in[n] = 0
    return s;
}
static bool decode(const std::string &q, bool mime, std::string &out)
{
    std::vector<char> b(q.begin(), q.end()); b.insert(b.end(), 8, 0);
    size_t i = 0;
    while (i < q.size()) { unsigned char o; i += mime ? spec::spec_mime_decode_one(&b[i], &o) : spec::spec_qs_decode_one(&b[i], &o); out.push_back((char)o); }
    return i == q.size();
}

int main(int argc, char **argv)
{
    if (argc < 3) return 2;
    std::string mode = argv[1];
    Cex c; if (!c.load(argv[2])) return 2;
    std::string s;
    if (mode == "mime_unit" || mode == "qs_unit") s = std::string(1, (char)c.num("c")); else s = input(c, 4000);
    char *in = (char *)malloc(s.size() + 1); memcpy(in, s.c_str(), s.size() + 1);     // exact-size copies: ASan sees any overrun
    if (mode == "mime" || mode == "mime_unit") {
        char *r = Format::QuoteMimeBlob(in);
        printf("input len=%zu output=\"%s\"\n", s.size(), r);
        if (strlen(r) > 3 * s.size()) RP_FAIL("output longer than 3*len");
        for (const char *p = r; *p; ++p) {
            unsigned char ch = (unsigned char)*p;
            if (ch < 0x20 || ch > 0x7E) RP_FAIL("raw control/8-bit byte 0x%02x in the output", ch);
            if (ch == '[' || ch == ']') RP_FAIL("raw bracket in the output");
        }
        std::string back;
        if (!decode(r, true, back) || back != s) RP_FAIL("decoding the mime-blob form does not return the input");
        RP_OK("postconditions hold on this input");
    }
    if (mode == "qs" || mode == "qs_unit") {
        char *out = (char *)malloc(2 * s.size() + 1);                                  // exactly the caller's guarantee
        slice::log_quoted_string(in, out);
        printf("input len=%zu output=\"%s\"\n", s.size(), out);
        size_t lr = strlen(out);
        if (lr > 2 * s.size()) RP_FAIL("output longer than 2*len");
        for (size_t g = 0; g < lr; ++g) {
            if (out[g] == '\r' || out[g] == '\n' || out[g] == '\t') RP_FAIL("raw CR/LF/TAB at %zu", g);
            if (out[g] == '"' && !(g >= 1 && out[g - 1] == '\\')) RP_FAIL("unescaped quote at %zu", g);
        }
        std::string back;
        if (!decode(out, false, back) || back != s) RP_FAIL("decoding the quoted-string form does not return the input");
        RP_OK("postconditions hold on this input");
    }
    return 2;
}
