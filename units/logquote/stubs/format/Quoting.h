/* C-mode stand-in for src/format/Quoting.h (the real header wraps the two declarations in `namespace Format`);
 * the extraction rules strip the `Format::` qualifier from the two definitions. */
#ifndef CV_STUB_FORMAT_QUOTING_H
#define CV_STUB_FORMAT_QUOTING_H
char *QuoteUrlEncodeUsername(const char *name);
char *QuoteMimeBlob(const char *header);
#endif
