/* Environment of the sliced strListGetItem (src/StrList.cc) for C mode (-nostdinc): exactly what the body touches.
 * TRUSTED (unit.json): String as a plain struct with the real class's whole scalar state, termedBuf() as a function,
 * assert as an obligation, isspace/strspn/strcspn declared here and defined in stubs.c. xisspace is the REAL macro text
 * (compat/xis.h, its C branch). */
#ifndef CV_STRLIST_ENV_H
#define CV_STRLIST_ENV_H
typedef unsigned long size_t;
#define NULL ((void *)0)
/* src/SquidString.h: class String { size_type size_; size_type len_; char *buf_; }  (all of its non-static data members) */
typedef struct String {
    size_t size_;   /* buffer size */
    size_t len_;    /* current length: size() */
    char *buf_;     /* termedBuf(): NUL-terminated at len_, or NULL for an undefined String */
} String;
/* char const * String::termedBuf() const { return buf_; } */
const char *cv_termedBuf(const String *s);
int isspace(int c);
size_t strspn(const char *s, const char *accept);
size_t strcspn(const char *s, const char *reject);
#define assert(c) __CPROVER_assert((c), "assert: " #c)
#include "compat/xis.h"   /* the real xisspace */
#endif
