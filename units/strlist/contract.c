/* Sidecar contracts for strListGetItem (src/StrList.cc), the list tokeniser under Content-Length lists (C26), Range spec
 * lists (C28) and Cache-Control (C29).  The three consumer units (contentlength, hdrrangelist, and the Cache-Control kernel)
 * ASSUME an iterator model of it; this unit PROVES the contract those models are instances of, for the real text.
 *
 * Shape of the statements.  The string is cv_base[0 .. cv_len], cv_base[cv_len] == 0; bytes before cv_len are ARBITRARY
 * (also NUL: String::size() may exceed strlen(); the function then never gets past the first NUL, which is what the
 * postconditions say).  Universal statements ("every byte of the item ...") are made about the ghost index g, which is
 * arbitrary (dfcc havocs it; harness mode lists it under "ghosts").  gi is a second ghost: a guess of the item's start
 * offset; fq is DEFINED from it (first '"' at or behind gi); statements under `io == gi` therefore hold for the real start. */
#include "strlist_env.h"

#ifndef N
#define N 16          /* the string is shorter than N: cv_len < N */
#endif

/* ---- statics of the real function (hoisted to file scope by the extraction rule so that they can be named here) ---- */
extern char cv_delim[3][10];

/* ---- ghosts ---- */
const char *cv_base;  /* the string under iteration == str->termedBuf() */
size_t cv_len;        /* cv_base[cv_len] == 0 */
size_t g;             /* ghost index (arbitrary) */
size_t gi;            /* ghost guess of the item start offset (arbitrary) */
size_t fq;            /* == spec_first_quote(cv_base, gi): offset of the first '"' at or behind gi, cv_len if none */

/* ---- specification vocabulary (written from the comment above strListGetItem and RFC 7230 3.2.6, not from the body) ---- */
static int is_ws(char c) { return c == ' ' || c == '\t' || c == '\n' || c == '\v' || c == '\f' || c == '\r'; }   /* isspace, C locale */
static int is_sep(char c, char del) { return c == del || c == ','; }                  /* ',' is always a delimiter */
/* "white space around 'del' is considered to be a part of 'del'": what is skipped in front of an item = delimiters and every
 * xisspace() byte (since /repo 156b97d the skip set and the right-trim agree; before, \v and \f were trimmed but not skipped and a
 * member made only of them ended the walk early: recorded as fixed in known_findings.txt). */
static int is_skip(char c, char del) { return is_sep(c, del) || is_ws(c); }

/* c is one of the bytes of the C string set (at most 9 bytes + terminator in a 10-byte row) */
static int spec_member(char c, const char *set)
{
    for (int k = 0; k < 10; k++) {
        if (set[k] == 0) return 0;
        if (set[k] == c) return 1;
    }
    return 0;
}
static int set_ok(const char *set)
{
    return __CPROVER_r_ok(set, 10) &&
           (set[0] == 0 || set[1] == 0 || set[2] == 0 || set[3] == 0 || set[4] == 0 || set[5] == 0 || set[6] == 0 || set[7] == 0 ||
            set[8] == 0 || set[9] == 0);
}
static size_t spec_first_quote(const char *b, size_t from, size_t len)
{
    for (size_t k = 0; k < N; k++)
        if (k >= from && k < len && b[k] == '"')
            return k;
    return len;
}

/* the delimiter table: every byte except the two that each call overwrites with del.  (dfcc and the loop-contract pass
 * havoc statics: the invariant is stated in requires, re-established in ensures, and checked on the real initialiser by
 * target tables_init.) */
static int table_ok(void)
{
    return cv_delim[0][0] == '"' && cv_delim[0][2] == ',' && cv_delim[0][3] == 0 && cv_delim[0][4] == 0 &&
           cv_delim[0][5] == 0 && cv_delim[0][6] == 0 && cv_delim[0][7] == 0 && cv_delim[0][8] == 0 && cv_delim[0][9] == 0 &&
           cv_delim[1][0] == '"' && cv_delim[1][1] == '\\' && cv_delim[1][2] == 0 && cv_delim[1][3] == 0 &&
           cv_delim[1][4] == 0 && cv_delim[1][5] == 0 && cv_delim[1][6] == 0 && cv_delim[1][7] == 0 && cv_delim[1][8] == 0 && cv_delim[1][9] == 0 &&
           cv_delim[2][0] == ' ' && cv_delim[2][2] == ',' && cv_delim[2][3] == '\t' && cv_delim[2][4] == '\r' &&
           cv_delim[2][5] == '\n' && cv_delim[2][6] == '\v' && cv_delim[2][7] == '\f' && cv_delim[2][8] == 0 && cv_delim[2][9] == 0;
}

/* the string invariant every contract below needs */
static int str_ok(void)
{
    return cv_base != NULL && cv_len < N && __CPROVER_r_ok(cv_base, cv_len + 1) && cv_base[cv_len] == 0;
}
/* p points into the string (the terminator included) */
static int in_str(const char *p)
{
    return __CPROVER_same_object(p, cv_base) && p >= cv_base && (size_t)(p - cv_base) <= cv_len;
}

/* ======================= contracts of strspn / strcspn =======================
 * VERIFIED for the models in stubs.c (targets strspn_model, strcspn_model: every string position, every terminated 10-byte
 * set) and USED in place of the calls by the getitem_* targets.  Universal parts are stated for the ghost indices g and fq. */
#if defined(T_SPN) || defined(T_CSPN) || defined(T_GETITEM)
size_t strspn(const char *s, const char *accept)
__CPROVER_requires(str_ok() && in_str(s) && set_ok(accept))
__CPROVER_assigns()
__CPROVER_ensures(__CPROVER_return_value <= cv_len - (size_t)(s - cv_base))
__CPROVER_ensures(!spec_member(s[__CPROVER_return_value], accept) || s[__CPROVER_return_value] == 0)
__CPROVER_ensures(((size_t)(s - cv_base) <= g && g < (size_t)(s - cv_base) + __CPROVER_return_value) ==>
                  (cv_base[g] != 0 && spec_member(cv_base[g], accept)))
#ifdef TWIN_SPN
__CPROVER_ensures(__CPROVER_return_value == 0 || s[__CPROVER_return_value] == 0)    /* TWIN: must fail */
#endif
;

size_t strcspn(const char *s, const char *reject)
__CPROVER_requires(str_ok() && in_str(s) && set_ok(reject))
__CPROVER_assigns()
__CPROVER_ensures(__CPROVER_return_value <= cv_len - (size_t)(s - cv_base))
__CPROVER_ensures(s[__CPROVER_return_value] == 0 || spec_member(s[__CPROVER_return_value], reject))
__CPROVER_ensures(((size_t)(s - cv_base) <= g && g < (size_t)(s - cv_base) + __CPROVER_return_value) ==>
                  (cv_base[g] != 0 && !spec_member(cv_base[g], reject)))
__CPROVER_ensures(((size_t)(s - cv_base) <= fq && fq < (size_t)(s - cv_base) + __CPROVER_return_value) ==>
                  (cv_base[fq] != 0 && !spec_member(cv_base[fq], reject)))
#ifdef TWIN_CSPN
__CPROVER_ensures(__CPROVER_return_value == 0 || s[__CPROVER_return_value] == 0)    /* TWIN: must fail */
#endif
;
#endif

#if defined(T_SPN) || defined(T_CSPN)
/* arbitrary string, arbitrary position in it, arbitrary terminated set */
void h_model(void)
{
    char m_buf[N];
    char m_set[10];
    size_t len, off;
    __CPROVER_assume(len < N && off <= len);
    m_buf[len] = 0;
    cv_base = m_buf; cv_len = len;
    size_t r;
#ifdef T_SPN
    r = strspn(m_buf + off, m_set);
#else
    r = strcspn(m_buf + off, m_set);
#endif
#ifdef REACH
    __CPROVER_assert(!(r == 0), "reach: empty segment");
    __CPROVER_assert(!(r >= 3 && off + r == len), "reach: segment runs to the terminator");
    __CPROVER_assert(!(r >= 3 && off + r < len), "reach: segment stops inside the string");
    __CPROVER_assert(!(r >= 1 && m_set[8] != 0), "reach: a set of nine bytes");
    __CPROVER_assert(!(m_set[0] == 0 && off < len), "reach: empty set");
#endif
}
#endif

/* ======================= contract of strListGetItem =======================
 * so = offset where the scan starts (old *pos, or 0 when *pos was NULL);  io, po = offsets of *item and of the new *pos.
 * Everything below is stated for del in {',', ';'} (the delimiters Squid's callers pass), every string shorter than N,
 * every start position in the string (a superset of "NULL or a value left by a previous call", see ensures E1). */
#ifdef T_GETITEM
#define SO   (__CPROVER_old(*pos) ? (size_t)(__CPROVER_old(*pos) - cv_base) : (size_t)0)
#define IO   ((size_t)(*item - cv_base))
#define PO   ((size_t)(*pos - cv_base))
#define R    __CPROVER_return_value
#define LEN  ((size_t)*ilen)
int strListGetItem(const String *str, char del, const char **item, int *ilen, const char **pos)
__CPROVER_requires(del == ',' || del == ';')
__CPROVER_requires(table_ok())
__CPROVER_requires(str_ok() && __CPROVER_r_ok(str, sizeof(String)) && str->buf_ == cv_base)
__CPROVER_requires(__CPROVER_w_ok(item, sizeof(*item)) && __CPROVER_w_ok(pos, sizeof(*pos)) && __CPROVER_w_ok(ilen, sizeof(*ilen)))
__CPROVER_requires(*pos == NULL || in_str(*pos))
__CPROVER_requires(fq == spec_first_quote(cv_base, gi, cv_len))
__CPROVER_assigns(*item, *ilen, *pos, cv_delim[0][1], cv_delim[2][1])
/* E0 frame of the table: only the two del slots change */
__CPROVER_ensures(table_ok() && cv_delim[0][1] == del && cv_delim[2][1] == del)
/* E1 positions: so <= io <= po <= len, all inside the string (so the new *pos satisfies the precondition again) */
__CPROVER_ensures(in_str(*item) && in_str(*pos) && SO <= IO && IO <= PO)
/* E2 what lies in front of the item was skipped legitimately; the item starts at a byte that is not skipped */
__CPROVER_ensures((SO <= g && g < IO) ==> is_skip(cv_base[g], del))
__CPROVER_ensures(!is_skip(cv_base[IO], del))
/* E3 the scan stops at a delimiter or at the terminator; nothing before it is a NUL */
__CPROVER_ensures(cv_base[PO] == 0 || is_sep(cv_base[PO], del))
__CPROVER_ensures((IO <= g && g < PO) ==> cv_base[g] != 0)
/* E4 the item is [io, io + *ilen): inside [io, po), right-trimmed; the result is "non-empty after trimming" */
__CPROVER_ensures(*ilen >= 0 && LEN <= PO - IO && R == (*ilen > 0))
__CPROVER_ensures(*ilen > 0 ==> !is_ws(cv_base[IO + LEN - 1]))
__CPROVER_ensures((IO + LEN <= g && g < PO) ==> is_ws(cv_base[g]))
/* E5 the byte just behind the item: whitespace (trimmed), or the stop byte (delimiter / NUL) -- in particular never a digit */
__CPROVER_ensures(is_ws(cv_base[IO + LEN]) || cv_base[IO + LEN] == 0 || is_sep(cv_base[IO + LEN], del))
__CPROVER_ensures(!(cv_base[IO + LEN] >= '0' && cv_base[IO + LEN] <= '9'))
/* E6 strict progress: every caller loop `while (strListGetItem(...))` terminates */
__CPROVER_ensures(R ==> (PO > SO && PO >= IO + LEN && LEN >= 1))
/* E7 result 0 means END OF LIST: everything from the start position on is delimiter or whitespace and the stop byte is the
 *    terminator (what every caller loop and the iterator models of the consumer units rely on) */
__CPROVER_ensures(!R ==> ((SO <= g && g < PO) ==> is_skip(cv_base[g], del)))
__CPROVER_ensures(!R ==> (cv_base[PO] == 0 && IO == PO))
/* E8 quoting: a delimiter inside [io, po) has a '"' somewhere in front of it inside the item; i.e. an item without '"'
 *    contains neither del nor ',' */
__CPROVER_ensures((IO == gi && IO <= g && g < PO && is_sep(cv_base[g], del)) ==> fq < g)
#ifdef TWIN_PROGRESS
__CPROVER_ensures(R ==> PO > IO + LEN)                 /* TWIN: must fail ("a" stops at the terminator) */
#endif
#ifdef TWIN_QUOTE
__CPROVER_ensures((IO <= g && g < PO) ==> !is_sep(cv_base[g], del))    /* TWIN: must fail: quoted delimiters stay inside the item */
#endif
;

void h_getitem(void)
{
    char h_buf[N];
    size_t len, so;
    __CPROVER_assume(len < N && so <= len);
    h_buf[len] = 0;
    cv_base = h_buf; cv_len = len;
    String s;                     /* size_, len_ stay arbitrary: the function must not depend on them */
    s.buf_ = h_buf;
    _Bool fresh;
    const char *pos = fresh ? (const char *)NULL : (const char *)(h_buf + so);
    const char *item;
    int ilen;
    char del;
    __CPROVER_assume(gi <= len);
    /* fq is left arbitrary here; the contract's requires defines it as spec_first_quote(cv_base, gi, cv_len) */
    int r = strListGetItem(&s, del, &item, &ilen, &pos);
#ifdef REACH
    __CPROVER_assert(!(r == 1 && del == ';'), "reach: item found, del ';'");
    __CPROVER_assert(!(r == 1 && del == ',' && !fresh && so > 0), "reach: item found from a later position");
    __CPROVER_assert(!(r == 0 && len > 2 && fresh), "reach: no item in a non-empty string");
    __CPROVER_assert(!(r == 1 && ilen >= 3 && pos > item + ilen + 1), "reach: item was right-trimmed");
    __CPROVER_assert(!(r == 1 && ilen >= 3 && item > h_buf + 2 && fresh), "reach: leading delimiters skipped");
    __CPROVER_assert(!(r == 1 && pos == h_buf + len && len >= 4), "reach: scan ran to the terminator");
    __CPROVER_assert(!(r == 0 && !fresh && so + 3 <= len && pos == h_buf + len), "reach: result 0 after skipping a tail of delimiters and whitespace");
#endif
}
#endif


/* ======================= reference tokeniser (char by char; written from the comment above strListGetItem: items are
 * separated by del or ',', "white space around 'del' is considered to be a part of 'del'", and RFC 7230 3.2.6 quoted-string
 * = DQUOTE *( qdtext / "\" CHAR ) DQUOTE: delimiters inside a quoted part do not split; an unterminated quote runs to the
 * end of the string).  *p: in = where to start, out = where the scan stopped. ======================= */
static int ref_next(const char *b, size_t *p, char del, size_t *io, size_t *n)
{
    size_t k = *p;
    while (is_skip(b[k], del))
        k++;
    *io = k;
    int q = 0;
    while (b[k] != 0 && (q || !is_sep(b[k], del))) {
        if (b[k] == '"') { q = !q; k++; }
        else if (q && b[k] == '\\') { k++; if (b[k] != 0) k++; }
        else k++;
    }
    *p = k;
    size_t e = k;
    while (e > *io && is_ws(b[e - 1]))
        e--;
    *n = e - *io;
    return *n > 0;
}

int strListGetItem(const String *str, char del, const char **item, int *ilen, const char **pos);
#define ENS(c, txt) __CPROVER_assert((c), "ensures: " txt)
#ifdef REACH
#define RCH(c, txt) __CPROVER_assert(!(c), "reach: " txt)
#else
#define RCH(c, txt) ((void)0)
#endif

/* ---------- walk_exact (BOUNDED): the whole iteration from pos == NULL over every string shorter than NB, the real function
 * over the strspn/strcspn MODEL BODIES (no contract is used here), compared call by call with the reference ---------- */
#ifdef T_WALK
#ifndef NB
#define NB 7
#endif
void h_walk(void)
{
    char buf[NB];
    buf[NB - 1] = 0;                 /* every string shorter than NB: the first NUL may be anywhere */
    char del;
    __CPROVER_assume(del == ',' || del == ';');
    String s;
    s.buf_ = buf;
    const char *pos = NULL;
    size_t rp = 0, prev_end = 0;
    int items = 0, ended = 0;
    /* a string shorter than NB holds at most NB/2 items (each needs a byte and a separator); one more call sees the end */
    for (int c = 0; c < NB / 2 + 1; c++) {
        const char *item = NULL;
        int ilen = -1;
        int r = strListGetItem(&s, del, &item, &ilen, &pos);
        size_t io, n;
        int rr = ref_next(buf, &rp, del, &io, &n);
#ifdef TWIN_WALK
        ENS(!r || buf[io + n] == 0, "TWIN (must fail): every item ends at the terminator");
#endif
        ENS(r == rr, "result equals the reference tokeniser's (an item is reported <=> it is non-empty after trimming)");
        ENS(item == buf + io && ilen >= 0 && (size_t)ilen == n, "item start and length equal the reference tokeniser's");
        ENS(pos == buf + rp, "the position cookie equals the reference tokeniser's stop position");
        if (r && items > 0)
            ENS(io >= prev_end + 1, "successive items are separated by at least one byte");
        /* result 0 means END OF LIST (regression guard for /repo 156b97d: "1,\\v,2" used to yield 1 and then result 0 at the second ',') */
        ENS(r != 0 || *pos == 0, "[end of list] result 0 is returned only at the terminator: nothing but delimiters and whitespace was left");
        if (!r) { ended = 1; break; }
        prev_end = io + n;
        items++;
        RCH(items == 3, "three items in one walk");
        RCH(items == 2 && buf[io] == 0x22 && n >= 3, "second item is quoted");
    }
    ENS(ended, "the walk ends with result 0 after at most NB/2 + 1 calls");
    RCH(ended && items == 0 && buf[0] != 0, "non-empty string without items");
    RCH(ended && items == 2 && (buf[2] == '\v' || buf[2] == '\f'), "a \\v / \\f only member between two items is skipped");
}
#endif

/* ---------- corners (constant inputs, complete unwinding): quoting, unterminated quote, NULL String, ilen == NULL ---------- */
#ifdef T_CORNERS
static const char *c_pos;
static const char *c_item;
static int c_ilen;
static int step(const String *s, char del) { c_item = NULL; c_ilen = -1; return strListGetItem(s, del, &c_item, &c_ilen, &c_pos); }
#define ITEM_IS(b, off, n) (c_item == (b) + (off) && c_ilen == (n))
void h_corners(void)
{
    String s;
    int r;
    /* 1. unterminated quote: from the opening '"' everything up to the end of the string is ONE item (right-trimmed) */
    char t1[] = "a, \"b, c ";
    s.buf_ = t1; c_pos = NULL;
    r = step(&s, ','); ENS(r == 1 && ITEM_IS(t1, 0, 1) && c_pos == t1 + 1, "corner 1: a");
    r = step(&s, ','); ENS(r == 1 && ITEM_IS(t1, 3, 5) && c_pos == t1 + 9, "corner 1: unterminated quote swallows the rest: \"b, c");
    r = step(&s, ','); ENS(r == 0 && c_pos == t1 + 9, "corner 1: end");
    RCH(r == 0, "corner 1 done");
    /* 2. a delimiter (del or ',') inside a closed quoted part does not split; ',' splits also when del is ';' */
    char t2[] = "\"a,b;\" ;c,d";
    s.buf_ = t2; c_pos = NULL;
    r = step(&s, ';'); ENS(r == 1 && ITEM_IS(t2, 0, 6) && c_pos == t2 + 7, "corner 2: \"a,b;\"");
    r = step(&s, ';'); ENS(r == 1 && ITEM_IS(t2, 8, 1) && c_pos == t2 + 9, "corner 2: c (',' always separates)");
    r = step(&s, ';'); ENS(r == 1 && ITEM_IS(t2, 10, 1) && c_pos == t2 + 11, "corner 2: d");
    r = step(&s, ';'); ENS(r == 0, "corner 2: end");
    /* 3. backslash inside quotes escapes the next byte (a quoted '"' does not close); outside quotes it is ordinary */
    char t3[] = "\"x\\\",y\",a\\,b";
    s.buf_ = t3; c_pos = NULL;
    r = step(&s, ','); ENS(r == 1 && ITEM_IS(t3, 0, 7) && c_pos == t3 + 7, "corner 3: \"x\\\",y\"");
    r = step(&s, ','); ENS(r == 1 && ITEM_IS(t3, 8, 2) && c_pos == t3 + 10, "corner 3: a\\ (no escape outside quotes)");
    r = step(&s, ','); ENS(r == 1 && ITEM_IS(t3, 11, 1), "corner 3: b");
    /* 4. unterminated quote ending in a lone backslash: no read behind the terminator */
    char t4[] = "\"ab\\";
    s.buf_ = t4; c_pos = NULL;
    r = step(&s, ','); ENS(r == 1 && ITEM_IS(t4, 0, 4) && c_pos == t4 + 4, "corner 4: \"ab\\");
    r = step(&s, ','); ENS(r == 0 && c_pos == t4 + 4, "corner 4: end");
    /* 5. only delimiters and blanks; empty string */
    char t5[] = " ,;\t,\r\n ";
    s.buf_ = t5; c_pos = NULL;
    r = step(&s, ';'); ENS(r == 0 && c_pos == t5 + 8, "corner 5: nothing but delimiters");
    char t6[] = "";
    s.buf_ = t6; c_pos = NULL;
    r = step(&s, ','); ENS(r == 0 && c_pos == t6, "corner 6: empty string");
    /* 7. undefined String (termedBuf() == NULL): result 0, cookie stays NULL, nothing dereferenced */
    s.buf_ = NULL; c_pos = NULL;
    r = step(&s, ','); ENS(r == 0 && c_pos == NULL && c_item == NULL && c_ilen == -1, "corner 7: undefined String");
    /* 8. ilen == NULL is allowed */
    char t8[] = " a b ,c";
    s.buf_ = t8; c_pos = NULL; c_item = NULL;
    r = strListGetItem(&s, ',', &c_item, NULL, &c_pos);
    ENS(r == 1 && c_item == t8 + 1 && c_pos == t8 + 5, "corner 8: ilen == NULL");
    /* 9. regression (/repo 156b97d): a member made only of \v / \f is skipped like any other whitespace, the walk goes on */
    char t9[] = "1,\v,2, \f";
    s.buf_ = t9; c_pos = NULL;
    r = step(&s, ','); ENS(r == 1 && ITEM_IS(t9, 0, 1), "corner 9: 1");
    r = step(&s, ','); ENS(r == 1 && ITEM_IS(t9, 4, 1) && c_pos == t9 + 5, "corner 9: \"1,\\v,2\": the member 2 behind the \\v-only member is yielded");
    r = step(&s, ','); ENS(r == 0 && c_pos == t9 + 8, "corner 9: end of list at the terminator");
    RCH(r == 0, "corner 9 done");
}
#endif

/* ======================= tables_init: the real initialiser satisfies the table invariant ======================= */
#ifdef T_TABLES_INIT
void h_tables_init(void)
{
    __CPROVER_assert(table_ok(), "init: delimiter table = { \"\\\"?,\", \"\\\"\\\\\", \" ?,\\t\\r\\n\\v\\f\" } outside the two del slots");
    __CPROVER_assert(cv_delim[0][1] != 0 && cv_delim[2][1] != 0, "init: the del slots hold a non-NUL placeholder");
}
#endif
