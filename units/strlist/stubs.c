/* Models of the three libc functions strListGetItem calls, and of String::termedBuf().  TRUSTED as "this is what ISO C says
 * the libc functions compute" (C locale for isspace); everything else about them is CHECKED: targets strspn_model /
 * strcspn_model verify these bodies against the contracts in contract.c that the getitem_* proof targets then use instead of
 * the bodies, and the bounded target walk_exact runs the bodies themselves under the real strListGetItem. */
#include "strlist_env.h"

const char *cv_termedBuf(const String *s) { return s->buf_; }

/* <ctype.h> isspace in the "C" locale: space, \t \n \v \f \r.  ISO C domain: EOF or 0..UCHAR_MAX (xisspace casts to unsigned char) */
int isspace(int c)
{
    __CPROVER_assert(c >= -1 && c <= 255, "ctype: isspace argument is EOF or representable as unsigned char");
    return c == ' ' || (c >= 9 && c <= 13);
}

/* is the non-NUL byte c one of the bytes of the C string set?  (the terminator is not part of the set) */
static int cv_member(char c, const char *set)
{
    for (size_t j = 0; set[j] != 0; ++j)
        if (set[j] == c)
            return 1;
    return 0;
}

/* ISO C 7.24.5.6: length of the maximum initial segment of s which consists entirely of bytes from accept */
size_t strspn(const char *s, const char *accept)
{
    size_t i = 0;
    while (s[i] != 0 && cv_member(s[i], accept))
        ++i;
    return i;
}

/* ISO C 7.24.5.3: length of the maximum initial segment of s which consists entirely of bytes NOT from reject */
size_t strcspn(const char *s, const char *reject)
{
    size_t i = 0;
    while (s[i] != 0 && !cv_member(s[i], reject))
        ++i;
    return i;
}
