// Native replay for unit strlist: the REAL text of strListGetItem (cut unmodified from src/StrList.cc into native_getitem.inc on
// this run) compiled by g++ with ASan/UBSan over the real libc strspn/strcspn/isspace and the real compat/xis.h, on a heap
// copy of the string of exactly len+1 bytes.  Oracle = the property-level contract (positions, item shape, progress, quoting),
// written independently below.  exit 0 = contract held, non-zero / sanitizer abort = reproduced.
#include "replay.h"
#include <cassert>
#include <cctype>
#include <cstring>
#include "compat/xis.h"
class String {            // what the body uses of src/SquidString.h
public:
    typedef size_t size_type;
    String(const char *b, size_t n) : len_(n), buf_(b) {}
    size_type size() const { return len_; }
    char const *termedBuf() const { return buf_; }
private:
    size_type len_;
    const char *buf_;
};
int strListGetItem(const String *str, char del, const char **item, int *ilen, const char **pos);
#include "native_getitem.inc"

static bool ws(char c) { return c == ' ' || (c >= 9 && c <= 13); }
static bool sep(char c, char del) { return c == del || c == ','; }
static bool skip(char c, char del) { return sep(c, del) || ws(c); }
#define CHECK(c) do { if (!(c)) { fprintf(stderr, "contract violated: %s\n", #c); return 1; } } while (0)

// reference tokeniser, char by char (same specification as ref_next in contract.c, written again for the native side)
static bool ref_next(const char *b, size_t *p, char del, size_t *io, size_t *n)
{
    size_t k = *p;
    while (skip(b[k], del)) k++;
    *io = k;
    bool q = false;
    while (b[k] != 0 && (q || !sep(b[k], del))) {
        if (b[k] == '"') { q = !q; k++; }
        else if (q && b[k] == '\\') { k++; if (b[k] != 0) k++; }
        else k++;
    }
    *p = k;
    size_t e = k;
    while (e > *io && ws(b[e - 1])) e--;
    *n = e - *io;
    return *n > 0;
}

// one call from offset so (or NULL) on string b[0..len]; all contract clauses E1..E8
static int one_call(const char *b, size_t len, bool fresh, size_t so, char del, const char **posOut)
{
    String s(b, len);
    const char *pos = fresh ? nullptr : b + so;
    if (fresh) so = 0;
    const char *item = nullptr;
    int ilen = -1;
    const int r = strListGetItem(&s, del, &item, &ilen, &pos);
    CHECK(item >= b + so && pos >= item && pos <= b + len);
    const size_t io = item - b, po = pos - b;
    for (size_t k = so; k < io; ++k) CHECK(skip(b[k], del));
    CHECK(!skip(b[io], del));
    CHECK(b[po] == 0 || sep(b[po], del));
    for (size_t k = io; k < po; ++k) CHECK(b[k] != 0);
    CHECK(ilen >= 0 && (size_t)ilen <= po - io && r == (ilen > 0));
    const size_t n = ilen;
    if (n > 0) CHECK(!ws(b[io + n - 1]));
    for (size_t k = io + n; k < po; ++k) CHECK(ws(b[k]));
    CHECK(ws(b[io + n]) || b[io + n] == 0 || sep(b[io + n], del));
    if (r) CHECK(po > so && n >= 1);
    if (!r) {
        for (size_t k = so; k < po; ++k) CHECK(skip(b[k], del));
        CHECK(b[po] == 0 /* [end of list] result 0 only at the terminator */);
    }
    bool seenQuote = false;
    for (size_t k = io; k < po; ++k) {
        if (sep(b[k], del)) CHECK(seenQuote);
        if (b[k] == '"') seenQuote = true;
    }
    size_t rp = so, rio, rn;
    const bool rr = ref_next(b, &rp, del, &rio, &rn);
    CHECK(rr == (r != 0) && rio == io && rn == n && rp == po /* equals the reference tokeniser */);
    *posOut = pos;
    return 0;
}

int main(int argc, char **argv)
{
    if (argc < 3) return 2;
    Cex cex;
    if (!cex.load(argv[2])) return 2;
    const std::string mode = argv[1];
    std::vector<long long> v = cex.arr(mode == "walk" ? "buf" : "h_buf");
    if (v.empty()) { fprintf(stderr, "no buffer in the counterexample\n"); return 0; }
    char del = (char)cex.num("del", ',');
    if (del != ',' && del != ';') del = ',';
    size_t len = 0;
    if (mode == "walk") {
        v.back() = 0;
        while (v[len] != 0) ++len;
    } else {
        len = (size_t)cex.unum("len", 0);
        if (len >= v.size()) len = v.size() - 1;
    }
    char *b = (char *)malloc(len + 1);              // exact size: ASan sees any read past the terminator
    for (size_t k = 0; k < len; ++k) b[k] = (char)v[k];
    b[len] = 0;
    int rc = 0;
    if (mode == "walk") {
        const char *pos = nullptr;
        bool fresh = true;
        for (size_t c = 0; c <= len + 1 && !rc; ++c) {
            const size_t so = fresh ? 0 : pos - b;
            const char *np = nullptr;
            rc = one_call(b, len, fresh, so, del, &np);
            if (rc) break;
            if (!fresh && np == pos) break;           // result 0 (no progress): end of the walk
            if (fresh && np == b && b[0] == 0) break;
            pos = np; fresh = false;
        }
    } else {
        size_t so = (size_t)cex.unum("so", 0);
        if (so > len) so = len;
        const char *np = nullptr;
        rc = one_call(b, len, cex.num("fresh", 1) != 0, so, del, &np);
    }
    free(b);
    return rc;
}
