/* eq_contract.c -- sidecar of the eventqueue unit (C59): BOUNDED histories of schedule / cancel / checkEvents over the REAL
 * EventScheduler of src/event.cc (compiled in eq_wrap.cc). Harness mode: the harness draws a history of EQ_M operations, keeps a
 * property-level record of every scheduled event (S[]: due time, handler, argument, weight; pending / cancelled / fired) and after
 * every operation compares what the real code did (queue snapshot, fired log, dial log, return values, ghost counters) with what
 * the statement of C59 demands. No sorted-list model: "next to fire" is defined as the minimum of (due time, scheduling order)
 * over the pending records.
 * The same text is compiled by g++ (-DCV_NATIVE) into the native replay: inputs then come from the counterexample. */
#ifndef EQ_M
#define EQ_M 3
#endif
#define EQ_NARG 2
#ifndef EQ_TIME
#define EQ_TIME 0             /* 0 = time grid, 1 = wide delays on a clock grid, 2 = any double (does not finish) */
#endif
#define EQ_IDLE (-1)            /* AsyncEngine::EVENT_IDLE */

#ifdef CV_NATIVE
static int eq_failed = 0;
#define ENS(c, msg) do { if (!(c)) { printf("REPLAY-FAIL: ensures: %s\n", msg); eq_failed = 1; } } while (0)
#define ENS_CUT(c, msg) ENS(c, msg)
#define LEMMA(c, msg) do { if (!(c)) { printf("REPLAY-FAIL: %s\n", msg); eq_failed = 1; } } while (0)
#define RCH(c, msg) do { if (c) printf("reached: %s\n", msg); } while (0)
#define DOMAIN(c) do { if (!(c)) { printf("replay: input outside the harness domain (%s): nothing to reproduce\n", #c); exit(0); } } while (0)
#define TWN(on, c, msg) ((void)0)
#define RCH3(c, msg) RCH(c, msg)
#else
#define ENS(c, msg) __CPROVER_assert((c), "ensures: " msg)
/* assert, then continue only on the paths where it held: a violation already reported here is not reported again by every later
 * comparison of the same history (used for the one obligation with a known finding) */
#define ENS_CUT(c, msg) do { __CPROVER_assert((c), "ensures: " msg); __CPROVER_assume(c); } while (0)
#define LEMMA(c, msg) __CPROVER_assert((c), msg)
#ifdef REACH
#define RCH(c, msg) __CPROVER_assert(!(c), "reach: " msg)
#else
#define RCH(c, msg) ((void)0)
#endif
#define DOMAIN(c) __CPROVER_assume(c)
#if EQ_M >= 3
#define RCH3(c, msg) RCH(c, msg)    /* situations that need three operations */
#else
#define RCH3(c, msg) ((void)0)
#endif
/* must-fail twins: the negated postcondition, compiled in by one -DTWIN_x at a time */
#define TWN(on, c, msg) do { if (on) __CPROVER_assert((c), "ensures: TWIN (negated) " msg); } while (0)

/* ghost state and operations of eq_wrap.cc */
extern int eq_allocs, eq_frees, eq_call_allocs, eq_call_frees, eq_traps;
extern int eq_locks[EQ_NARG], eq_valid[EQ_NARG];
extern int eq_nfired, eq_fired_seq[EQ_M], eq_fired_func[EQ_M], eq_fired_arg[EQ_M], eq_fired_locked[EQ_M];
extern int eq_ndialed, eq_dialed_func[EQ_M], eq_dialed_arg[EQ_M], eq_nstale;
extern int eq_q_n, eq_q_seq[EQ_M], eq_q_func[EQ_M], eq_q_arg[EQ_M], eq_q_weight[EQ_M], eq_q_cbdata[EQ_M];
extern double eq_q_when[EQ_M];
void eq_op_schedule(int api, int seq, int f, int a, double when, int weight, int cbdata, double now);
void eq_op_schedule_ish(int seq, int f, int a, double delta_ish, int weight, double now);
void eq_op_cancel(int api, int f, int a, double now);
int eq_op_check(double now);
int eq_op_time_remaining(double now);
int eq_op_find(int api, int f, int a);
void eq_op_clean(void);
void eq_drain(void);
void eq_snapshot(void);
double ceil(double);
#endif

#ifdef TWIN_DUE
#define TW_DUE 1
#else
#define TW_DUE 0
#endif
#ifdef TWIN_ORDER
#define TW_ORDER 1
#else
#define TW_ORDER 0
#endif
#ifdef TWIN_REMAIN
#define TW_REMAIN 1
#else
#define TW_REMAIN 0
#endif
#ifdef TWIN_LEAK
#define TW_LEAK 1
#else
#define TW_LEAK 0
#endif
#ifdef TWIN_ISH
#define TW_ISH 1
#else
#define TW_ISH 0
#endif
#ifdef TWIN_CANCEL
#define TW_CANCEL 1
#else
#define TW_CANCEL 0
#endif

/* doubles travel through the counterexample as their bit patterns */
static double eq_bits2double(unsigned long b)
{
#ifdef CV_NATIVE
    double d;
    memcpy(&d, &b, sizeof d);
    return d;
#else
    union { unsigned long u; double d; } x;
    x.u = b;
    return x.d;
#endif
}

/* ---- property-level record of the history ------------------------------------------------------------------------------------- */
struct eq_rec {
    int func, arg, weight, cbdata;  /* as given to schedule(); arg: -1 = nullptr, else index */
    double ts;                      /* due time: current_dtime + when, or 0 for when <= 0 ("as soon as possible, in submission order") */
    int pending, cancelled, fired;
};
static struct eq_rec S[EQ_M];
static int eq_nsched = 0;

/* s fires before t: earlier due time, equal due times in scheduling order */
static int eq_before(int s, int t)
{
    return S[s].ts < S[t].ts || (S[s].ts == S[t].ts && s < t);
}
/* the pending event that has to fire next; -1 = none */
static int eq_next(void)
{
    int best = -1;
    for (int s = 0; s < EQ_M; ++s)
        if (s < eq_nsched && S[s].pending && (best < 0 || eq_before(s, best)))
            best = s;
    return best;
}
static int eq_npending(void)
{
    int n = 0;
    for (int s = 0; s < EQ_M; ++s)
        if (s < eq_nsched && S[s].pending)
            ++n;
    return n;
}
static int eq_queued(int s)     /* is the s-th scheduled event in the last snapshot? */
{
    for (int k = 0; k < EQ_M; ++k)
        if (k < eq_q_n && eq_q_seq[k] == s)
            return 1;
    return 0;
}
/* a "heavy" event: non-zero weight and a handler that is going to run (src/event.cc) */
static int eq_heavy(int s)
{
    return S[s].weight != 0 && (!S[s].cbdata || S[s].arg < 0 || eq_valid[S[s].arg] != 0);
}
/* (e) timeRemaining(): idle when nothing is pending, 0 when the next event is due, else the distance in ms, rounded up, >= 1.
 * Without -DEQ_EXACT_MS only the three classes are told apart (the millisecond arithmetic has its own target). */
static int eq_spec_remaining(double now)
{
    const int h = eq_next();
    if (h < 0)
        return EQ_IDLE;
    if (S[h].ts <= now)
        return 0;
#ifdef EQ_EXACT_MS
    {
        const double diff = S[h].ts - now;
        const int ms = (int)ceil(1000 * diff);
        return ms > 1 ? ms : 1;
    }
#else
    return 1;
#endif
}
/* the real result r agrees with the specified one */
static int eq_remaining_agrees(int r, int spec)
{
#ifdef EQ_EXACT_MS
    return r == spec;
#else
    return spec >= 1 ? r >= 1 : r == spec;
#endif
}

/* representation invariant + "everything still scheduled is accounted for": the real list, read front to back, ends within the
 * bound (acyclic), is strictly ordered by (when, scheduling order) and holds exactly the pending records with their own fields */
static void eq_check_queue(void)
{
    ENS(eq_q_n >= 0, "the task list ends within the bound (no cycle, no entry appears twice)");
    ENS(eq_q_n == eq_npending(), "the task list holds as many entries as there are scheduled, not cancelled, not fired events");
    for (int k = 0; k < EQ_M; ++k) {
        if (k < eq_q_n) {
            const int s = eq_q_seq[k];
            ENS(s >= 0 && s < eq_nsched, "every queued entry is one that schedule() was asked for");
            if (s >= 0 && s < eq_nsched) {
                ENS(S[s].pending, "every queued entry is still pending (not cancelled, not fired)");
                ENS(eq_q_func[k] == S[s].func && eq_q_arg[k] == S[s].arg && eq_q_weight[k] == S[s].weight &&
                    eq_q_cbdata[k] == S[s].cbdata, "a queued entry keeps its handler, argument, weight and cbdata flag");
                ENS(eq_q_when[k] == S[s].ts, "a queued entry is due at current_dtime + when (0 for when <= 0)");
                if (k > 0) {
                    const int p = eq_q_seq[k - 1];
                    if (p >= 0 && p < eq_nsched) {
                        ENS(eq_q_when[k - 1] <= eq_q_when[k], "the task list is sorted by due time");
                        ENS(eq_q_when[k - 1] < eq_q_when[k] || p < s, "entries with equal due times are queued in scheduling order");
                        RCH(eq_q_when[k - 1] == eq_q_when[k], "two queued entries with equal due times");
                        RCH(eq_q_when[k - 1] < eq_q_when[k] && p > s, "a later-scheduled entry queued before an earlier-scheduled one");
                    }
                }
            }
        }
    }
    for (int s = 0; s < EQ_M; ++s)
        if (s < eq_nsched)
            LEMMA(S[s].pending + S[s].cancelled + S[s].fired == 1, "bookkeeping: every scheduled event is pending, cancelled or fired");
}

/* one history of EQ_M operations; op_kind: 0 schedule, 1 cancel, 2 checkEvents */
static void eq_run_history(const int *op_kind, const int *op_f, const int *op_a, const unsigned long *op_when_bits,
                           const int *op_weight, const int *op_cb, const unsigned long *op_now_bits, const int *op_v0,
                           const int *op_v1, const int *op_qf, const int *op_qa, unsigned long base_bits, int nops)
{
    const double base = eq_bits2double(base_bits);
    DOMAIN(base >= 0.0 && base <= 4.0e9);

    eq_snapshot();
    LEMMA(eq_q_n == 0 && eq_nfired == 0 && eq_call_allocs == 0, "init: the scheduler starts empty");

    for (int t = 0; t < EQ_M && t < nops; ++t) {
        const int api = 1;     /* through eventAdd / eventDelete / eventFind, which forward to the member functions */
        const int kind = op_kind[t], f = op_f[t], a = op_a[t], weight = op_weight[t], cb = op_cb[t];
        const double when = eq_bits2double(op_when_bits[t]);
        const double now = eq_bits2double(op_now_bits[t]);
        DOMAIN(kind >= 0 && kind <= 2);
        DOMAIN(f == 0 || f == 1);
        DOMAIN(a >= -1 && a < EQ_NARG);
        DOMAIN(cb == 0 || cb == 1);
        DOMAIN(op_v0[t] == 0 || op_v0[t] == 1);
        DOMAIN(op_v1[t] == 0 || op_v1[t] == 1);
        /* the clock may step backwards, but stays within a window; delays up to 2e6 s: keeps 1000 * (due - now) inside int */
        DOMAIN(now >= base && now <= base + 1.0e5);
        DOMAIN(!(when > 2.0e6));
#if EQ_TIME == 0
        /* time grid: four clock values, eight delays (two of them "as soon as possible"); sums collide, so ties are frequent */
        DOMAIN(now == 1000.0 || now == 1001.0 || now == 1002.0 || now == 1003.0);
        DOMAIN(when == -1.0 || when == 0.0 || when == 0.0002 || when == 0.5 || when == 1.0 || when == 2.0 || when == 3.0 || when == 86400.0);
#elif EQ_TIME == 1
        /* four clock values; delays: every double <= 2e6 (any sign, NaN, -inf, subnormal) whose mantissa has at most 8 leading bits */
        DOMAIN(now == 1000.0 || now == 1001.0 || now == 1002.0 || now == 1003.0);
        DOMAIN((op_when_bits[t] & 0xFFFFFFFFFFFUL) == 0);
#endif
        eq_valid[0] = op_v0[t];
        eq_valid[1] = op_v1[t];

        if (kind == 0) {
            /* ---- schedule ------------------------------------------------------------------------------------------------- */
            const int s = eq_nsched;
            S[s].func = f; S[s].arg = a; S[s].weight = weight; S[s].cbdata = cb;
            S[s].ts = when > 0.0 ? now + when : 0.0;
            S[s].pending = 1; S[s].cancelled = 0; S[s].fired = 0;
            eq_op_schedule(api, s, f, a, when, weight, cb, now);
            ++eq_nsched;
            RCH(when > 0.0, "schedule with a positive delay");
            RCH(!(when > 0.0), "schedule with delay <= 0");
        } else if (kind == 1) {
            /* ---- cancel: with an argument, the first queued event of that handler and argument; without, every event of the handler */
            int victim[EQ_M];
            int nvict = 0;
            for (int s = 0; s < EQ_M; ++s)
                victim[s] = 0;
            if (a >= 0) {
                int best = -1;
                for (int s = 0; s < EQ_M; ++s)
                    if (s < eq_nsched && S[s].pending && S[s].func == f && S[s].arg == a && (best < 0 || eq_before(s, best)))
                        best = s;
                if (best >= 0) {
                    victim[best] = 1;
                    nvict = 1;
                }
            } else {
                for (int s = 0; s < EQ_M; ++s)
                    if (s < eq_nsched && S[s].pending && S[s].func == f) {
                        victim[s] = 1;
                        ++nvict;
                    }
            }
            const int traps0 = eq_traps;
            RCH(nvict == 1 && a >= 0, "cancel with an argument matches an event");
#ifndef EQ_ARG_ONLY
            RCH3(nvict >= 2, "cancel without an argument matches two events");
#endif
            RCH(a >= 0 && nvict == 0, "cancel matches nothing");
            eq_op_cancel(api, f, a, now);
            eq_snapshot();
            for (int s = 0; s < EQ_M; ++s)
                if (s < eq_nsched && victim[s]) {
                    ENS_CUT(eq_q_n >= 0 && !eq_queued(s), "an event matched by cancel() is no longer queued, so it can never fire");
                    TWN(TW_CANCEL, eq_queued(s), "an event matched by cancel() stays queued");
                    S[s].pending = 0;
                    S[s].cancelled = 1;
                }
            for (int s = 0; s < EQ_M; ++s)
                if (s < eq_nsched && S[s].pending)
                    ENS(eq_queued(s), "cancel() leaves every other event scheduled");
            ENS(eq_traps - traps0 == ((a >= 0 && nvict == 0) ? 1 : 0), "cancel() reports 'event not found' exactly when an argument was given and nothing matched");
            RCH3(nvict >= 1 && eq_npending() >= 1, "cancel removed an event and left another one");
        } else {
            /* ---- checkEvents ---------------------------------------------------------------------------------------------- */
            const int nf0 = eq_nfired;
            const int r = eq_op_check(now);
            int last_heavy = 0;
            ENS(eq_nfired >= nf0 && eq_nfired <= EQ_M, "fired log grows");
            for (int j = 0; j < EQ_M; ++j) {
                if (j >= nf0 && j < eq_nfired) {
                    const int s = eq_fired_seq[j];
                    ENS(!last_heavy, "no event is dequeued after a heavy event in the same batch");
                    ENS(s >= 0 && s < eq_nsched, "what fires is an event that was scheduled");
                    if (s >= 0 && s < eq_nsched) {
                        ENS(!S[s].cancelled, "(b) a cancelled event never fires");
                        ENS(!S[s].fired, "(c) no event fires twice");
                        ENS(S[s].ts <= now, "(a) no event fires before its due time");
                        ENS(s == eq_next(), "(a) events fire in due-time order, equal due times in scheduling order, none skipped");
                        ENS(eq_fired_func[j] == S[s].func && eq_fired_arg[j] == S[s].arg && eq_fired_locked[j] == S[s].cbdata,
                            "an event fires with its own handler, argument and cbdata protection");
                        TWN(TW_DUE, S[s].ts > now, "fires before its due time");
                        TWN(TW_ORDER, s != eq_next(), "fires out of order");
                        RCH3(j > nf0 && S[s].ts == S[eq_fired_seq[j - 1 < 0 ? 0 : j - 1]].ts, "two events with equal due times fired in one batch");
                        RCH3(j > nf0 && S[s].ts > S[eq_fired_seq[j - 1 < 0 ? 0 : j - 1]].ts, "two events with different due times fired in one batch");
                        last_heavy = eq_heavy(s);
                        S[s].pending = 0;
                        S[s].fired = 1;
                    }
                }
            }
            {
                const int h = eq_next();
                ENS(last_heavy || h < 0 || S[h].ts > now, "every due event fires, unless a heavy event ended the batch");
                RCH3(last_heavy && h >= 0 && S[h].ts <= now, "a heavy event ended the batch before another due event");
                RCH(eq_nfired == nf0 && h >= 0, "checkEvents with nothing due and an event pending");
                RCH3(eq_nfired - nf0 >= 2, "two events fired in one batch");
            }
            ENS(eq_remaining_agrees(r, eq_spec_remaining(now)), "checkEvents returns the time remaining until the next pending event (idle / 0 = call again / wait)");
            /* what the AsyncCallQueue does next: dial every call unless its cbdata-protected argument went stale */
            {
                const int nd0 = eq_ndialed;
                int d = nd0;
                eq_drain();
                for (int j = 0; j < EQ_M; ++j) {
                    if (j >= nf0 && j < eq_nfired) {
                        const int s = eq_fired_seq[j];
                        if (s >= 0 && s < eq_nsched) {
                            const int stale = S[s].cbdata && S[s].arg >= 0 && !eq_valid[S[s].arg];
                            if (!stale) {
                                ENS(d < eq_ndialed && d < EQ_M, "a fired event's handler is called (argument still valid)");
                                if (d < eq_ndialed && d < EQ_M)
                                    ENS(eq_dialed_func[d] == S[s].func && eq_dialed_arg[d] == S[s].arg, "handlers are called in firing order with their own arguments");
                                ++d;
                            }
                            RCH(stale, "a fired event whose cbdata argument went stale is not dialed");
                        }
                    }
                }
                ENS(d == eq_ndialed, "no handler is called that did not fire");
            }
        }

        if (kind != 1)
            eq_snapshot();      /* the cancel branch has taken it already */
        eq_check_queue();

        /* queries at the same clock value: timeRemaining() and find() */
#ifdef EQ_EXACT_MS
        {
            const int tr = eq_op_time_remaining(now);
            const int h = eq_next();
            ENS(tr == eq_spec_remaining(now), "(e) timeRemaining is idle / 0 / the rounded-up distance to the head entry in ms, at least 1 ms");
            if (h >= 0 && S[h].ts > now)
                ENS(tr >= 1 && (double)tr >= 1000 * (S[h].ts - now), "(e) coming back after timeRemaining() ms is not before the head entry is due");
            TWN(TW_REMAIN, !(h >= 0 && S[h].ts > now) || (double)tr < 1000 * (S[h].ts - now), "timeRemaining shorter than the distance to the head entry");
            RCH(tr > 1, "timeRemaining more than 1 ms");
            RCH(tr == EQ_IDLE && t > 0, "idle after an operation");
            RCH(tr == 0, "an event is due");
            RCH(tr == 1 && h >= 0 && 1000 * (S[h].ts - now) < 1.0, "minimum delay of 1 ms applied");
        }
#endif
        {
            const int qf = op_qf[t], qa = op_qa[t];
            int want = 0;
            DOMAIN(qf == 0 || qf == 1);
            DOMAIN(qa >= -1 && qa < EQ_NARG);
            for (int s = 0; s < EQ_M; ++s)
                if (s < eq_nsched && S[s].pending && S[s].func == qf && S[s].arg == qa)
                    want = 1;
            ENS((eq_op_find(api, qf, qa) != 0) == want, "find() tells whether an event with that handler and argument is scheduled");
            RCH(want, "find() finds");
        }
    }

    /* ---- (d) nothing is lost or leaked: after clean() the list is empty and every entry, call object and cbdata lock is released ---- */
    eq_op_clean();
    eq_snapshot();
    ENS(eq_q_n == 0, "(d) clean() empties the task list");
#ifdef CV_NATIVE
    /* goto-cc 6.11 does not call a class-specific operator new (it allocates with its built-in new): the allocation counter only
     * moves in the native build; the verifier's --memory-leak-check stands for it */
    ENS(eq_allocs == eq_nsched, "(d) one ev_entry is allocated per scheduled event");
#endif
    ENS(eq_frees == eq_nsched, "(d) every ev_entry is deleted exactly once (cancel, fire or clean)");
    ENS(eq_call_allocs == eq_nfired && eq_call_frees == eq_call_allocs, "(d) one call object per fired event, all destroyed");
    ENS(eq_locks[0] == 0 && eq_locks[1] == 0, "(d) every cbdata lock taken for a handler argument is released");
    TWN(TW_LEAK, eq_frees != eq_nsched || eq_call_frees != eq_call_allocs || eq_locks[0] != 0 || eq_locks[1] != 0, "an entry, a call object or a cbdata lock leaks");
}

#ifndef CV_NATIVE
#ifdef T_HISTORY
void h_history(void)
{
    int op_kind[EQ_M], op_f[EQ_M], op_a[EQ_M], op_weight[EQ_M], op_cb[EQ_M], op_v0[EQ_M], op_v1[EQ_M], op_qf[EQ_M], op_qa[EQ_M];
    unsigned long op_when_bits[EQ_M], op_now_bits[EQ_M];
    unsigned long base_bits;
#ifdef EQ_ARG_ONLY
    /* cancel() is only called with an argument (eventDelete(func, arg), arg != nullptr) */
    for (int t = 0; t < EQ_M; ++t)
        __CPROVER_assume(op_kind[t] != 1 || op_a[t] >= 0);
#endif
    eq_run_history(op_kind, op_f, op_a, op_when_bits, op_weight, op_cb, op_now_bits, op_v0, op_v1, op_qf, op_qa, base_bits, EQ_M);
}
#endif
#endif

#ifndef CV_NATIVE
#ifdef T_ADDISH
/* eventAddIsh(): the event is queued with a delay of delta (delta < 3 s) or of any value within delta +- delta/3, never earlier;
 * cbdata protection is on (eventAdd's default) */
void h_add_ish(void)
{
    unsigned long delta_bits, now_bits;
    int weight, a;
    const double delta = eq_bits2double(delta_bits), now = eq_bits2double(now_bits);
    DOMAIN(now >= 0.0 && now <= 4.0e9);
    DOMAIN(!(delta > 2.0e6));
#if EQ_TIME == 0
    DOMAIN((delta_bits & 0xFFFFFFFFFFFUL) == 0);
    DOMAIN(now == 1000.0 || now == 1001.5 || now == 1.7e9);
#endif
    DOMAIN(a >= -1 && a < EQ_NARG);
    eq_op_schedule_ish(0, 1, a, delta, weight, now);
    eq_snapshot();
    ENS(eq_q_n == 1, "eventAddIsh queues exactly one event");
    if (eq_q_n == 1) {
        const double due = eq_q_when[0];
        ENS(eq_q_seq[0] == 0 && eq_q_func[0] == 1 && eq_q_arg[0] == a && eq_q_weight[0] == weight && eq_q_cbdata[0] == 1,
            "eventAddIsh queues the event with its handler, argument and weight, cbdata-protected");
        if (!(delta > 0.0))
            ENS(due == 0.0, "a delay <= 0 means as soon as possible");
        else if (delta < 3.0)
            ENS(due == now + delta, "delays under 3 s are not randomised");
        else {
            const double third = delta / 3.0;
            ENS(due >= now + (delta - third) && due <= now + (delta + third), "the randomised delay stays within delta +- delta/3");
            ENS(due >= now, "never due before the time of scheduling");
            TWN(TW_ISH, due == now + delta, "the delay is not randomised");
        }
        RCH(delta >= 3.0, "randomised delay");
        RCH(delta > 0.0 && delta < 3.0, "plain delay");
        RCH(!(delta > 0.0), "as soon as possible");
    }
    eq_op_clean();
    ENS(eq_locks[0] == 0 && eq_locks[1] == 0 && eq_frees == 1, "clean() releases the entry and its cbdata lock");
}
#endif

#ifdef T_FAR
/* timeRemaining() for an event far in the future: 1000 * (due - now) has to fit the int it is cast to */
void h_far(void)
{
    unsigned long when_bits, now_bits;
    const double when = eq_bits2double(when_bits), now = eq_bits2double(now_bits);
    DOMAIN(now >= 0.0 && now <= 4.0e9);
    /* up to 2147483 s (24.8 days) ahead: beyond that `static_cast<int>(ceil(1000*diff))` leaves the range of int (undefined
     * behaviour; on x86 the result makes the caller poll every millisecond until the event is due). That is an observation
     * recorded in DESIGN.md 9.4, NOT a violation of C59's statement (the event still fires on time, in order), so the
     * domain of this target stops where the cast is defined. */
    DOMAIN(when > 0.0 && when <= 2147483.0);
    eq_op_schedule(1, 0, 0, -1, when, 0, 0, now);
    {
        const int tr = eq_op_time_remaining(now);
        if (now + when > now)
            ENS(tr >= 1, "an event that is not due yet is waited for");
        else
            ENS(tr == 0, "a delay that vanishes in rounding makes the event due at once");
        RCH(tr > 1000000, "more than 1000 s to wait");
        RCH(tr == 1, "minimum delay");
    }
    eq_op_clean();
}
#endif
#endif

