// eq_stubs.h -- stub surroundings of the eventqueue unit (C59). Everything here is TRUSTED glue: it declares exactly what the real
// texts of src/event.h / src/event.cc touch. Compiled by goto-cc (C++ front end, -nostdinc) and, with -DCV_NATIVE, by g++ for the replay.
#ifndef EQ_STUBS_H
#define EQ_STUBS_H

#ifdef CV_NATIVE
#include <cstdlib>
#include <cmath>
#include <cstdio>
#define EQ_OBLIGATION(c, txt) do { if (!(c)) { printf("REPLAY-FAIL: %s\n", txt); exit(1); } } while (0)
#else
typedef unsigned long size_t;
extern "C" void *malloc(size_t);
extern "C" void free(void *);
extern "C" double ceil(double);
#define EQ_OBLIGATION(c, txt) __CPROVER_assert((c), txt)
// goto-cc 6.11's C++ parser does not know the `override` specifier (it only asks the compiler to check that a base declaration
// exists; g++ checks that in the native replay build): defined away for the verifier
#define override
// ... and its code for a destructor of a class derived from one with a VIRTUAL destructor calls the base destructor through the
// vtable slot that it has just pointed at itself (endless recursion in symex): the stub base classes get non-virtual destructors
// for the verifier; nothing here deletes through a base pointer
#define EQ_VIRTUAL_DTOR
#endif
#ifdef CV_NATIVE
#define EQ_VIRTUAL_DTOR virtual
#endif

// ---- bounds of the model (set by the driver: -DEQ_M=<operations>) ----------------------------------------------------------
#ifndef EQ_M
#define EQ_M 3
#endif
#define EQ_NFUNC 2          /* distinct handler functions */
#define EQ_NARG 2           /* distinct non-null handler arguments */

// ---- ghost state (read by the C sidecar through the extern "C" observers of eq_wrap.cc) -------------------------------------
extern "C" {
    extern int eq_allocs, eq_frees;            // ev_entry pool: operator new / operator delete calls
    extern int eq_call_allocs, eq_call_frees;  // AsyncCall objects created / destroyed
    extern int eq_locks[EQ_NARG];              // cbdata lock count per argument
    extern int eq_valid[EQ_NARG];              // cbdataReferenceValid() verdict per argument (set by the harness: symbolic)
    extern int eq_traps;                       // debug_trap() calls
    extern char eq_argobj[EQ_NARG];            // the objects handler arguments point to
    extern const char eq_names[EQ_M];          // event names: &eq_names[s] identifies the s-th schedule() call
    int eq_arg_index(const void *p);           // index of p in eq_argobj, -1 if it is not such a pointer
}

// ---- squid.h odds and ends -----------------------------------------------------------------------------------------------------
#define debugs(SECTION, LEVEL, CONTENT) ((void)0)
#ifndef CV_NATIVE
// squid's assert() aborts the process: a proof obligation here
#define assert(EX) __CPROVER_assert((EX), "assert(" #EX ")")
#else
#include <cassert>
#endif
extern double current_dtime;                   // src/time/gadgets.h; symbolic (set by the harness before every operation)
inline void debug_trap(const char *) { ++eq_traps; }   // src/debug.cc: logs (or aborts when opt_catch_signals is off); counted here

// util.h
template<class A>
inline A const &
max(A const & lhs, A const & rhs)
{
    if (rhs > lhs)
        return rhs;
    return lhs;
}

// ---- mem/AllocatorProxy.h: MEMPROXY_CLASS via malloc/free with ghost counters -------------------------------------------------
#define MEMPROXY_CLASS(CLASS) \
    public: \
    void *operator new(size_t byteCount) { \
        assert(byteCount == sizeof(class CLASS)); \
        ++eq_allocs; \
        return malloc(sizeof(class CLASS)); /* constant size: a typed object for the verifier */ \
    } \
    void operator delete(void *address) { \
        if (address) { \
            ++eq_frees; \
            free(address); \
        } \
    } \
    private:

// ---- cbdata.h: the real macros over ghost lock counters ---------------------------------------------------------------------------
inline void cbdataInternalLock(const void *p)
{
    if (p == nullptr)
        return;
    const int i = eq_arg_index(p);
    EQ_OBLIGATION(i >= 0, "stub: cbdataInternalLock() on a pointer that is not a handler argument");
    if (i >= 0)
        ++eq_locks[i];
}
inline void cbdataInternalUnlock(const void *p)
{
    if (p == nullptr)
        return;
    const int i = eq_arg_index(p);
    EQ_OBLIGATION(i >= 0, "stub: cbdataInternalUnlock() on a pointer that is not a handler argument");
    if (i >= 0) {
        EQ_OBLIGATION(eq_locks[i] > 0, "cbdata: unlock without a lock (the real cbdataInternalUnlock asserts locks > 0)");
        --eq_locks[i];
    }
}
inline int cbdataReferenceValid(const void *p)
{
    if (p == nullptr)
        return 1;       // "A NULL pointer cannot become invalid" (src/cbdata.cc)
    const int i = eq_arg_index(p);
    EQ_OBLIGATION(i >= 0, "stub: cbdataReferenceValid() on a pointer that is not a handler argument");
    if (i < 0)
        return 0;
    // the real one asserts locks > 0: asking about an unlocked cbdata is a use after free
    EQ_OBLIGATION(eq_locks[i] > 0, "cbdata: validity of an unlocked argument asked (the real cbdataReferenceValid asserts locks > 0)");
    return eq_valid[i];
}
#define cbdataReference(var)    (cbdataInternalLock(var), var)
#define cbdataReferenceDone(var) do {if (var) {cbdataInternalUnlock(var); var = nullptr;}} while(0)

// ---- AsyncEngine.h (real enum values), base/Packable.h, base/AsyncCall.h stand-ins -----------------------------------------------
class AsyncEngine
{
public:
    enum CheckError {
        EVENT_IDLE = -1,
        EVENT_ERROR = -2
    };
    EQ_VIRTUAL_DTOR ~AsyncEngine() {}
    virtual int checkEvents(int timeout) = 0;
};
class Packable;
#ifdef CV_NATIVE
#include <iosfwd>
#else
namespace std { class ostream; }
#endif

class AsyncCall;
class CallDialer
{
public:
    CallDialer() {}
    EQ_VIRTUAL_DTOR ~CallDialer() {}
    virtual void print(std::ostream &os) const = 0;
};

// random numbers of eventAddIsh(): any value of the requested interval
#ifndef CV_NATIVE
extern "C" double eq_nondet_double(void);
inline unsigned RandomSeed32() { return 0; }
namespace std {
struct mt19937 {
    mt19937(unsigned) {}
};
template <class T = double>
struct uniform_real_distribution {
    T lo, hi;
    uniform_real_distribution(T a, T b): lo(a), hi(b) {}
    T operator()(mt19937 &) {
        T r = eq_nondet_double();
        __CPROVER_assume(r >= lo && r < hi);
        return r;
    }
};
}
#else
#include <random>
inline unsigned RandomSeed32() { return 12345; }
#endif

#endif
