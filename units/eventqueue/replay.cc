// Native replay for the eventqueue unit (C59): the same slices of src/event.h / src/event.cc and the same stub surroundings
// (eq_stubs.h, eq_wrap.cc) compiled by g++ with ASan+UBSan (+ float-cast-overflow); the operation history of the counterexample is
// re-run through eq_run_history() of eq_contract.c, whose ensures-clauses are evaluated at run time. Exit 1 = reproduced.
#include "replay.h"
#include <cstring>
#include <cmath>
#define CV_NATIVE 1
#define EQ_M 8                      // capacity; the verifier's bound is recovered from the array sizes of the counterexample
#define EQ_TIME 2                   // no restriction of the time domain beyond the ranges: the counterexample's values are what they are
#include "eq_wrap.cc"
#include "eq_contract.c"

static void fill(int *dst, const std::vector<long long> &v, int dflt)
{
    for (int i = 0; i < EQ_M; ++i)
        dst[i] = i < (int)v.size() ? (int)v[i] : dflt;
}
static void fillu(unsigned long *dst, const Cex &c, const char *key)
{
    // bit patterns exceed LLONG_MAX for negative doubles: parse unsigned
    for (int i = 0; i < EQ_M; ++i)
        dst[i] = 0;
    auto it = c.kv.find(key);
    if (it == c.kv.end() || it->second.empty() || it->second[0] == '@')
        return;
    std::stringstream ss(it->second);
    std::string tok;
    for (int i = 0; i < EQ_M && std::getline(ss, tok, ','); ++i)
        dst[i] = tok[0] == '-' ? (unsigned long)strtoll(tok.c_str(), nullptr, 10) : strtoull(tok.c_str(), nullptr, 10);
}

int main(int argc, char **argv)
{
    if (argc < 3) return 2;
    std::string mode = argv[1];
    Cex c; if (!c.load(argv[2])) return 2;
    if (mode == "history") {
        int op_kind[EQ_M], op_f[EQ_M], op_a[EQ_M], op_weight[EQ_M], op_cb[EQ_M], op_v0[EQ_M], op_v1[EQ_M], op_qf[EQ_M], op_qa[EQ_M];
        unsigned long op_when_bits[EQ_M], op_now_bits[EQ_M];
        const auto kinds = c.arr("op_kind");
        const int nops = (int)kinds.size();
        if (nops < 1 || nops > EQ_M) RP_FAIL("cannot read the history from the counterexample");
        fill(op_kind, kinds, 2); fill(op_f, c.arr("op_f"), 0); fill(op_a, c.arr("op_a"), -1); fill(op_weight, c.arr("op_weight"), 0);
        fill(op_cb, c.arr("op_cb"), 0); fill(op_v0, c.arr("op_v0"), 1); fill(op_v1, c.arr("op_v1"), 1);
        fill(op_qf, c.arr("op_qf"), 0); fill(op_qa, c.arr("op_qa"), -1);
        fillu(op_when_bits, c, "op_when_bits"); fillu(op_now_bits, c, "op_now_bits");
        const unsigned long base_bits = c.unum("base_bits");
        for (int t = 0; t < nops; ++t) {
            static const char *names[] = {"schedule", "cancel", "checkEvents"};
            printf("op %d: %s  func=%d arg=%d when=%g weight=%d cbdata=%d  now=%.6f valid={%d,%d}\n", t,
                   op_kind[t] >= 0 && op_kind[t] <= 2 ? names[op_kind[t]] : "?", op_f[t], op_a[t], eq_bits2double(op_when_bits[t]),
                   op_weight[t], op_cb[t], eq_bits2double(op_now_bits[t]), op_v0[t], op_v1[t]);
        }
        eq_run_history(op_kind, op_f, op_a, op_when_bits, op_weight, op_cb, op_now_bits, op_v0, op_v1, op_qf, op_qa, base_bits, nops);
        if (eq_failed) RP_FAIL("the history violates C59 on the real code");
        RP_OK("history of %d operations: every postcondition held", nops);
    }
    if (mode == "add_ish") {
        const double delta = eq_bits2double(c.unum("delta_bits")), now = eq_bits2double(c.unum("now_bits"));
        const int weight = (int)c.num("weight");
        // the real generator is seeded once: try a number of draws
        for (int i = 0; i < 64; ++i) {
            eq_op_schedule_ish(0, 0, 0, delta, weight, now);
            eq_snapshot();
            if (eq_q_n != 1) RP_FAIL("eventAddIsh() did not queue exactly one event");
            const double due = eq_q_when[0];
            printf("eventAddIsh(delta=%g) at %.3f: due %.6f\n", delta, now, due);
            if (delta > 0.0 && due < now) RP_FAIL("event due before the time of scheduling");
            if (delta >= 3.0 && (due < now + (delta - delta / 3.0) * (1 - 1e-12) || due > now + (delta + delta / 3.0) * (1 + 1e-12)))
                RP_FAIL("due time outside delta +- delta/3");
            eq_op_clean();
        }
        RP_OK("eventAddIsh stays within delta +- delta/3");
    }
    if (mode == "far") {
        const double when = eq_bits2double(c.unum("when_bits")), now = eq_bits2double(c.unum("now_bits"));
        printf("eventAdd(when=%.3f s = %.1f days) at clock %.3f, then timeRemaining(): 1000 * (due - now) = %.0f, INT_MAX = 2147483647\n",
               when, when / 86400.0, now, 1000 * ((now + when) - now));
        eq_op_schedule(1, 0, 0, -1, when, 0, 0, now);
        const int tr = eq_op_time_remaining(now);       // UBSan (float-cast-overflow) aborts here if the cast is out of range
        printf("timeRemaining() = %d ms\n", tr);
        eq_op_clean();
        if (tr < 1) RP_FAIL("an event in the future is not waited for");
        RP_OK("timeRemaining() = %d", tr);
    }
    printf("unknown replay mode %s\n", mode.c_str());
    return 0;
}
