// eq_wrap.cc -- wrapper TU of the eventqueue unit (C59): stub surroundings + REAL texts of src/event.h and src/event.cc +
// extern "C" operations / observers for the C sidecar (eq_contract.c). Nothing of the real text is changed here.
#include "eq_stubs.h"

// observers below read EventScheduler::tasks and the dialer's fields; the keyword swap does not change the meaning of the code
#define private public
#include "event_h.inc"          // EVH, eventAdd/eventAddIsh/eventDelete/eventFind declarations, class ev_entry, class EventScheduler

// ---- base/AsyncCall.h stand-in: what EventDialer::canDial() and checkEvents() touch ---------------------------------------------
class AsyncCall
{
public:
    struct Pointer {            // RefCount<AsyncCall> in squid; a plain pointer here, the queue model below owns the object
        AsyncCall *p;
    };
    AsyncCall(const char *aName): name(aName), isCanceled(nullptr) {}
    EQ_VIRTUAL_DTOR ~AsyncCall() {}
    bool cancel(const char *reason) { isCanceled = reason; return false; }   // as the real AsyncCall::cancel(): records, returns false
    const char *name;
    const char *isCanceled;
};

#include "event_dialer.inc"     // class EventDialer and its constructors / destructor / canDial()  (src/event.cc)
#undef private
void EventDialer::print(std::ostream &) const {}   // debugging output: not compiled from the real text (std::ostream)

// the AsyncCallT<EventDialer> of squid: a call object owning a COPY of the dialer (copy constructor = second cbdata lock)
class EqEventCall: public AsyncCall
{
public:
    EqEventCall(const char *aName, const EventDialer &aDialer): AsyncCall(aName), dialer(aDialer) { ++eq_call_allocs; }
    ~EqEventCall() override { ++eq_call_frees; }
    EventDialer dialer;
};

// ghost model of the AsyncCallQueue: ScheduleCallHere() appends, eq_drain() fires in FIFO order (what AsyncCallQueue::fire does)
static EqEventCall *eq_queue[EQ_M];
static int eq_queue_n = 0;
extern "C" {
    int eq_allocs = 0, eq_frees = 0, eq_call_allocs = 0, eq_call_frees = 0, eq_traps = 0;
    int eq_locks[EQ_NARG];
    int eq_valid[EQ_NARG];
    char eq_argobj[EQ_NARG];
    const char eq_names[EQ_M] = {0};
    // fired log: one record per ScheduleCallHere(), in call order
    int eq_nfired = 0;
    int eq_fired_seq[EQ_M], eq_fired_func[EQ_M], eq_fired_arg[EQ_M], eq_fired_locked[EQ_M];
    // dial log: one record per handler invocation, in invocation order
    int eq_ndialed = 0;
    int eq_dialed_func[EQ_M], eq_dialed_arg[EQ_M];
    int eq_nstale = 0;          // calls cancelled by canDial() ("stale handler data")
    // queue snapshot (eq_snapshot)
    int eq_q_n = 0;
    int eq_q_seq[EQ_M], eq_q_func[EQ_M], eq_q_arg[EQ_M], eq_q_weight[EQ_M], eq_q_cbdata[EQ_M];
    double eq_q_when[EQ_M];
}
double current_dtime = 0;
#ifndef CV_NATIVE
extern "C" double eq_nondet_double(void) { double any; return any; }      // uninitialised = arbitrary for the verifier
#endif

static int eq_arg_code(const void *p);
static void eq_handler_record(int f, void *arg)
{
    EQ_OBLIGATION(eq_ndialed < EQ_M, "model: dial log overflow");
    if (eq_ndialed < EQ_M) {
        eq_dialed_func[eq_ndialed] = f;
        eq_dialed_arg[eq_ndialed] = eq_arg_code(arg);
        ++eq_ndialed;
    }
}
static void eq_handler0(void *arg) { eq_handler_record(0, arg); }
static void eq_handler1(void *arg) { eq_handler_record(1, arg); }
static EVH *eq_func(int f) { return f == 0 ? eq_handler0 : eq_handler1; }
static int eq_func_index(EVH *f) { return f == eq_handler0 ? 0 : f == eq_handler1 ? 1 : -1; }
static void *eq_arg(int a) { return a < 0 ? nullptr : (void *)&eq_argobj[a]; }
extern "C" int eq_arg_index(const void *p)
{
    for (int i = 0; i < EQ_NARG; ++i)
        if (p == (const void *)&eq_argobj[i])
            return i;
    return -1;
}
static int eq_arg_code(const void *p)       // -1 = nullptr, 0.. = handler argument, -2 = anything else
{
    if (p == nullptr)
        return -1;
    const int i = eq_arg_index(p);
    return i >= 0 ? i : -2;
}
static int eq_name_index(const char *n)
{
    for (int i = 0; i < EQ_M; ++i)
        if (n == &eq_names[i])
            return i;
    return -1;
}

inline AsyncCall::Pointer
asyncCall(int, int, const char *name, const EventDialer &dialer)
{
    AsyncCall::Pointer p;
    p.p = new EqEventCall(name, dialer);
    return p;
}
static void eq_schedule_call(AsyncCall::Pointer &call)
{
    EqEventCall *c = (EqEventCall *)call.p;
    EQ_OBLIGATION(eq_nfired < EQ_M && eq_queue_n < EQ_M, "model: fired log overflow");
    if (eq_nfired < EQ_M && eq_queue_n < EQ_M) {
        eq_fired_seq[eq_nfired] = eq_name_index(c->name);
        eq_fired_func[eq_nfired] = eq_func_index(c->dialer.theHandler);
        eq_fired_arg[eq_nfired] = eq_arg_code(c->dialer.theArg);
        eq_fired_locked[eq_nfired] = c->dialer.isLockedArg ? 1 : 0;
        ++eq_nfired;
        eq_queue[eq_queue_n++] = c;
    }
}
#define ScheduleCallHere(call) eq_schedule_call(call)

#ifndef CV_NATIVE
// goto-cc 6.11 compiles a delete-expression to a bare deallocation: the destructor is NOT called and a class-specific operator
// delete is ignored (probed; scoped objects and temporaries are destroyed correctly). The C++ meaning -- destructor, then the
// class's operator delete -- is spelled out here and `delete` in the real text below is routed to it.
struct EqDeleter {};
inline void operator<<(EqDeleter, ev_entry *p)
{
    if (p) {
        p->~ev_entry();
        p->operator delete(p);   // goto-cc treats the (implicitly static) operator delete as a member taking `this`
    }
}
inline void operator<<(EqDeleter, EqEventCall *p)
{
    if (p) {
        p->~EqEventCall();
        delete p;
    }
}
#define EQ_DELETE EqDeleter() <<
#define delete EqDeleter() <<
#else
#define EQ_DELETE delete
#endif

#include "event_cc.inc"         // the REAL functions of src/event.cc (sliced)
#ifndef CV_NATIVE
#undef delete
#endif

extern "C" {

// ---- operations ---------------------------------------------------------------------------------------------------------------
// api: 0 = member function of the singleton, 1 = the free function of the eventAdd family
void eq_op_schedule(int api, int seq, int f, int a, double when, int weight, int cbdata, double now)
{
    current_dtime = now;
    if (api)
        eventAdd(&eq_names[seq], eq_func(f), eq_arg(a), when, weight, cbdata != 0);
    else
        EventScheduler::GetInstance()->schedule(&eq_names[seq], eq_func(f), eq_arg(a), when, weight, cbdata != 0);
}
void eq_op_schedule_ish(int seq, int f, int a, double delta_ish, int weight, double now)
{
    current_dtime = now;
    eventAddIsh(&eq_names[seq], eq_func(f), eq_arg(a), delta_ish, weight);
}
void eq_op_cancel(int api, int f, int a, double now)
{
    current_dtime = now;
    if (api)
        eventDelete(eq_func(f), eq_arg(a));
    else
        EventScheduler::GetInstance()->cancel(eq_func(f), eq_arg(a));
}
int eq_op_check(double now)
{
    current_dtime = now;
    // EventLoop calls this through the AsyncEngine interface; goto-cc 6.11 mis-types the virtual dispatch (symex invariant
    // "assignments must be type consistent" on the thunk's return value), so the call is qualified = non-virtual
    return EventScheduler::GetInstance()->EventScheduler::checkEvents(0);
}
int eq_op_time_remaining(double now)
{
    current_dtime = now;
    return EventScheduler::GetInstance()->timeRemaining();
}
int eq_op_find(int api, int f, int a)
{
    if (api)
        return eventFind(eq_func(f), eq_arg(a));
    return EventScheduler::GetInstance()->find(eq_func(f), eq_arg(a)) ? 1 : 0;
}
void eq_op_clean(void)
{
    EventScheduler::GetInstance()->clean();
}
// what AsyncCallQueue::fire() does with every queued call, FIFO: canDial() ? dial() : skip; then the call object dies
void eq_drain(void)
{
    for (int i = 0; i < eq_queue_n && i < EQ_M; ++i) {
        EqEventCall *c = eq_queue[i];
        // qualified = non-virtual: goto-cc 6.11's removal of virtual calls would add EventScheduler::checkEvents as a candidate target
        if (c->dialer.EventDialer::canDial(*c))
            c->dialer.dial(*c);
        else
            ++eq_nstale;
        EQ_DELETE c;
        eq_queue[i] = nullptr;
    }
    eq_queue_n = 0;
}

// ---- observer: copy the list into the snapshot arrays; eq_q_n = -1 if it does not end within EQ_M nodes -----------------------------
void eq_snapshot(void)
{
    int n = 0;
    const ev_entry *e = EventScheduler::GetInstance()->tasks;
    while (e != nullptr && n < EQ_M) {
        eq_q_seq[n] = eq_name_index(e->name);
        eq_q_func[n] = eq_func_index(e->func);
        eq_q_arg[n] = eq_arg_code(e->arg);
        eq_q_when[n] = e->when;
        eq_q_weight[n] = e->weight;
        eq_q_cbdata[n] = e->cbdata ? 1 : 0;
        ++n;
        e = e->next;
    }
    eq_q_n = e == nullptr ? n : -1;
}

}
