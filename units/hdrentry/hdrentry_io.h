/* Shared between wrap.cc (C++) and contract.c (C): what the extern "C" entry points report back.
 * EVERY member is 8 bytes wide: cbmc's C++ front end lays structs out without the ABI's padding, so a struct with an int before a
 * pointer would be read at different offsets by the C contract file. */
#ifndef CV_HDRENTRY_IO_H
#define CV_HDRENTRY_IO_H
struct cv_entry_out {
    long returned;             /* HttpHeaderEntry::parse() returned an entry (non-null) */
    long id;                   /* e->id */
    long name_kind;             /* e->name: 0 empty, 1 = the name_n bytes at name_p, 2 = the C string name_p (a registered name) */
    const char *name_p;
    unsigned long name_n;
    const char *value_p;       /* e->value: the value_n bytes at value_p (see the String model in hdrentry_env.h) */
    unsigned long value_n;
    long alive_delta;           /* headerStatsTable[id].aliveCount after - before, for the entry's id (0 if none) */
};
/* ---- block level ---- */
#define CV_MAXFIELDS 4
/* answers of the models, chosen by the harness (all arbitrary) */
struct cv_block_in {
    long owner;                            /* HttpHeader::owner */
    long relaxed;                          /* Config.onoff.relaxed_header_parser */
    long verdict[CV_MAXFIELDS];            /* what the ASSUMED HttpHeaderEntry::parse answers for the k-th field handed to it:
                                              0 = null (unparsable), 1 = entry with id OTHER, 2 = CONTENT_LENGTH, 3 = TRANSFER_ENCODING */
    long clen_ok[CV_MAXFIELDS];            /* what clen.checkField() answers at its k-th call */
    long prohibited, has_te, te_cmp;       /* clen.prohibitedAndIgnored() != null; getByIdIfPresent(TE); rawTe.caseCmp("chunked") */
    long saw_bad, needs_sanitizing, saw_good, wide_problem;   /* interpreter state after the loop */
};
struct cv_block_out {
    long ret;                              /* what HttpHeader::parse(block) returned */
    long nfields;                          /* number of HttpHeaderEntry::parse calls */
    unsigned long f_start[CV_MAXFIELDS];   /* offsets into the block of the k-th range handed over */
    unsigned long f_end[CV_MAXFIELDS];
    long f_owner_ok;                       /* every call passed the header's owner */
    long added;                            /* addEntry() calls since the last clean() */
    long added_field[CV_MAXFIELDS];        /* which parse call produced the k-th added entry */
    long deleted;                          /* entries deleted by the loop itself */
    long deleted_field[CV_MAXFIELDS];
    long bad_delete;                       /* delete of something that is not a live entry / of an added entry */
    long cleaned;                          /* clean() calls */
    long clen_calls;                       /* clen.checkField() calls */
    long clen_field[CV_MAXFIELDS];         /* which field's value the k-th checkField call was given */
    long del_cl, del_te, put_cl;           /* delById(CONTENT_LENGTH) / delById(TRANSFER_ENCODING) / putInt64(CONTENT_LENGTH) calls */
    long conflicting, te_unsupported;      /* conflictingContentLength_ / teUnsupported_ afterwards */
};
#endif
