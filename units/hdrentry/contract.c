/* Contracts and harnesses of the hdrentry unit (C25), harness mode.
 *
 * Property C25 (statement, /verif/properties.jsonl): "For any header block that Squid accepts, the stored fields are exactly the
 * block's name/value pairs in order, with surrounding whitespace removed and obs-fold joined. [pack/re-parse sentence: NOT covered.]
 * Blocks with NUL bytes, whitespace before the colon, or obs-fold or bare CR in Content-Length or Transfer-Encoding are rejected
 * [request line of CRs: NOT covered]."
 *
 * Entry level (HttpHeaderEntry::parse on one field [fs, fs+len), len >= 1 as at its only call site), from the statement:
 *   E1  an entry is returned only if the field has a ':' and at least one byte before the first ':'
 *   E2  whitespace before the colon: REJECTED for requests in every mode, and for every owner other than a reply when the relaxed
 *       parser is off.  What the code does otherwise is NOT what the statement says ("rejected") but what RFC 7230 3.2.4 asks of a
 *       proxy: for replies (any mode) and, with the relaxed parser on, for the other non-request owners the whitespace run is
 *       REMOVED from the name and the field is accepted -- pinned, not demanded.
 *   E3  the stored name is exactly the bytes before the first ':' (less that removed run): for an unregistered name the recorded
 *       range is (fs, that length); for a registered one the classifier was asked about exactly that range, exactly once, the stored
 *       id is its answer and the stored name is that id's registered name
 *   E4  the stored value is exactly the bytes after the first ':' with leading and trailing whitespace removed (fields without NUL;
 *       the block level refuses NUL before any field is cut)
 *   memory: nothing outside [fs, fs+len) is read (exact-size heap block + pointer checks on the real text and on the models)
 * Pinned (code-derived, not demanded): names must be RFC 7230 tokens (CharacterSet::TCHAR); every field without a reject reason IS
 * accepted; a NUL inside the value truncates the stored value there; aliveCount/seenCount bookkeeping. */
#include <stdlib.h>
#include "autoconf.h"
#include "hdrentry_io.h"
#include "owner_enum.inc"              /* REAL text: http_hdr_owner_type (src/HttpHeader.h) */
#include "hdrtype_enum_c.inc"          /* REAL text: enum HdrType (src/http/RegisteredHeaders.h) */

#ifndef N
#define N 12
#endif

extern int cv_lk_calls, cv_lkid_calls, cv_lkid_last, cv_memchr_calls;
extern const char *cv_lk_ptr;
extern unsigned long cv_lk_len;
extern char cv_regname[2];

void cv_entry_parse(const char *fs, unsigned long len, int msgType, int relaxed, int lookup_answer, struct cv_entry_out *out);

/* C-locale isspace(): what xisspace() is */
static int spec_ws(char c) { return c == ' ' || c == '\t' || c == '\n' || c == '\v' || c == '\f' || c == '\r'; }
/* RFC 7230 3.2.6 tchar, written from the RFC (the table the code uses is dumped from the real CharacterSet::TCHAR) */
static int spec_tchar(char c)
{
    return (c >= '0' && c <= '9') || (c >= 'a' && c <= 'z') || (c >= 'A' && c <= 'Z') || c == '!' || c == '#' || c == '$' || c == '%'
           || c == '&' || c == '\'' || c == '*' || c == '+' || c == '-' || c == '.' || c == '^' || c == '_' || c == '`' || c == '|' || c == '~';
}

#if defined(T_ENTRY)
struct spec_entry {
    long colon;                 /* index of the first ':' or -1 */
    int ws_before_colon;
    int strips;                 /* the code's decision to remove that whitespace instead of refusing the field */
    unsigned long name_len;     /* bytes before the colon less the trailing whitespace run */
    int name_is_token;
    unsigned long vs, ve;       /* value = [vs, ve) */
    long nul;                   /* first NUL inside [vs, ve) or -1 */
    int accept;                 /* the code's verdict as read from src/HttpHeader.cc */
};
static void spec_entry_parse(const char *b, unsigned long len, int msgType, int relaxed, struct spec_entry *s)
{
    s->colon = -1;
    for (unsigned long k = 0; k < N; ++k)
        if (k < len && s->colon < 0 && b[k] == ':')
            s->colon = (long)k;
    s->ws_before_colon = s->colon >= 1 && spec_ws(b[s->colon - 1]);
    s->strips = msgType != hoRequest && (msgType == hoReply || relaxed != 0);
    s->name_len = s->colon >= 1 ? (unsigned long)s->colon : 0;
    for (unsigned long k = 0; k < N; ++k)
        if (s->name_len > 0 && spec_ws(b[s->name_len - 1]))
            --s->name_len;
    s->name_is_token = 1;
    for (unsigned long k = 0; k < N; ++k)
        if (k < s->name_len && !spec_tchar(b[k]))
            s->name_is_token = 0;
    s->vs = s->colon >= 0 ? (unsigned long)s->colon + 1 : len;
    for (unsigned long k = 0; k < N; ++k)
        if (s->vs < len && spec_ws(b[s->vs]))
            ++s->vs;
    s->ve = len;
    for (unsigned long k = 0; k < N; ++k)
        if (s->ve > s->vs && spec_ws(b[s->ve - 1]))
            --s->ve;
    s->nul = -1;
    for (unsigned long k = 0; k < N; ++k)
        if (k >= s->vs && k < s->ve && s->nul < 0 && b[k] == 0)
            s->nul = (long)k;
    s->accept = s->colon >= 1 && s->colon <= 65534 && (!s->ws_before_colon || s->strips) && s->name_len >= 1 && s->name_is_token
                && s->ve - s->vs <= 65534;
}

void h_entry(void)
{
    unsigned long len;
    __CPROVER_assume(len >= 1 && len <= N);          /* the only caller (HttpHeader::parse) never passes an empty field */
    char *buf = 0;                                    /* exact size: a read outside [fs, fs+len) is a pointer-check failure */
    for (unsigned long k = 1; k <= N; ++k)            /* (one constant-size block per length: cheaper than one block of symbolic size) */
        if (len == k)
            buf = malloc(k);
    __CPROVER_assume(buf != 0);
    char text[N];                                     /* arbitrary bytes (a named array, so that a counterexample shows them) */
    for (unsigned long k = 0; k < N; ++k)
        if (k < len)
            buf[k] = text[k];
    int msgType, relaxed, answer;
    __CPROVER_assume(msgType >= hoNone && msgType <= hoEnd);
    __CPROVER_assume(relaxed == -1 || relaxed == 0 || relaxed == 1);     /* squid.conf: warn / off / on */
    __CPROVER_assume(answer >= enumBegin_ && answer < enumEnd_);        /* ASSUMED classifier: any id, incl. OTHER and BAD_HDR */
    struct cv_entry_out out;
    struct spec_entry s;
    spec_entry_parse(buf, len, msgType, relaxed, &s);

    cv_entry_parse(buf, len, msgType, relaxed, answer, &out);

    const int id = answer == BAD_HDR ? OTHER : answer;
#ifdef TWIN_COLON
    __CPROVER_assert(!out.returned || s.colon >= 2, "ensures: TWIN (strengthened to two name bytes) a field without ':' or with an empty name is rejected");
#else
    __CPROVER_assert(!out.returned || s.colon >= 1, "ensures: E1 a field without ':' or with an empty name is rejected");
#endif
#ifdef TWIN_WS
    __CPROVER_assert(!(out.returned && s.ws_before_colon), "ensures: TWIN (as the statement reads: every owner, every mode) whitespace before the colon is rejected");
#else
    __CPROVER_assert(!(out.returned && s.ws_before_colon && (msgType == hoRequest || (msgType != hoReply && relaxed == 0))),
                     "ensures: E2 whitespace before the colon is rejected in requests (any mode) and, with the relaxed parser off, in everything but replies");
#endif
    if (out.returned) {
        __CPROVER_assert(out.id == id && out.id != BAD_HDR, "ensures: E3 the stored id is the classifier's answer (OTHER when it knows no such name)");
#ifdef TWIN_NAME
        __CPROVER_assert(cv_lk_len == (unsigned long)s.colon, "ensures: TWIN (no run removed) the classifier is asked about the bytes before the colon");
#else
        __CPROVER_assert(cv_lk_calls == 1 && cv_lk_ptr == buf && cv_lk_len == s.name_len,
                         "ensures: E3 the classifier is asked exactly once, about exactly the bytes before the first ':' (less the removed whitespace run)");
#endif
        __CPROVER_assert(s.name_len == (unsigned long)s.colon || s.ws_before_colon, "ensures: E3 nothing is removed from a name that has no whitespace before the colon");
        if (id == OTHER)
            __CPROVER_assert(out.name_kind == 1 && out.name_p == buf && out.name_n == s.name_len,
                             "ensures: E3 the stored name of an unregistered field is exactly the bytes before the first ':'");
        else
            __CPROVER_assert(out.name_kind == 2 && out.name_p == cv_regname && cv_lkid_last == id,
                             "ensures: E3 the stored name of a registered field is the registered name of the stored id");
        if (s.nul < 0) {
#ifdef TWIN_VALUE
            __CPROVER_assert(out.value_p == buf + s.colon + 1 && out.value_n == len - (unsigned long)s.colon - 1,
                             "ensures: TWIN (untrimmed) the stored value is the bytes after the colon");
#else
            __CPROVER_assert(out.value_p == buf + s.vs && out.value_n == s.ve - s.vs,
                             "ensures: E4 the stored value is exactly the bytes after the first ':' without leading and trailing whitespace");
#endif
        } else {
            __CPROVER_assert(out.value_p == buf + s.vs && out.value_n == (unsigned long)s.nul - s.vs,
                             "pinned: a NUL inside the value ends the stored value (the block level refuses NUL earlier)");
        }
        __CPROVER_assert(s.name_is_token, "pinned: accepted names are RFC 7230 tokens");
        __CPROVER_assert(out.alive_delta == 1, "pinned: the new entry is counted alive under its id");
    }
    __CPROVER_assert(out.returned == s.accept, "pinned: accepted exactly when no reject reason applies (colon, name, whitespace rule, token, lengths)");
#ifdef REACH
    __CPROVER_assert(!(out.returned && id == OTHER && len == N && s.name_len >= 3 && s.ve - s.vs >= 3), "reach: unregistered field of maximal length accepted");
    __CPROVER_assert(!(out.returned && id == CONTENT_LENGTH), "reach: registered field accepted");
    __CPROVER_assert(!(out.returned && s.vs > (unsigned long)s.colon + 2 && s.ve + 2 <= len && s.ve > s.vs), "reach: value trimmed on both sides");
    __CPROVER_assert(!(out.returned && s.ve == s.vs), "reach: empty value accepted");
    __CPROVER_assert(!(out.returned && s.ws_before_colon && msgType == hoReply && relaxed == 0), "reach: reply: whitespace before the colon removed, strict mode");
    __CPROVER_assert(!(out.returned && s.ws_before_colon && msgType == hoNone && s.name_len + 2 == (unsigned long)s.colon), "reach: relaxed non-reply: two whitespace bytes removed");
    __CPROVER_assert(!(!out.returned && s.ws_before_colon && msgType == hoRequest && s.name_is_token), "reach: request with whitespace before the colon rejected");
    __CPROVER_assert(!(!out.returned && s.colon < 0), "reach: no colon rejected");
    __CPROVER_assert(!(!out.returned && s.colon == 0), "reach: empty name rejected");
    __CPROVER_assert(!(!out.returned && s.colon >= 1 && !s.ws_before_colon && !s.name_is_token), "reach: non-token name rejected");
    __CPROVER_assert(!(!out.returned && s.ws_before_colon && s.strips && s.name_len == 0), "reach: whitespace-only name rejected");
    __CPROVER_assert(!(out.returned && s.nul >= 0), "reach: value with NUL");
#endif
}
#endif

#if defined(T_BLOCK)
/* Block level: HttpHeader::parse(header_start, hdrLen, clen) on a block of 0..NB bytes, HttpHeaderEntry::parse ASSUMED (arbitrary
 * verdict per field: unparsable / unregistered / Content-Length / Transfer-Encoding; the ranges it is handed are recorded), the
 * Content-Length interpreter ASSUMED (arbitrary verdicts and state).  From the statement:
 *   B1  a block containing a NUL byte is rejected (and no field of it reaches the entry parser)
 *   B2  the k-th range handed to the entry parser is the k-th field of the block as an independent splitter cuts it: fields end at
 *       an LF that is not followed by SP / HT (an LF followed by SP / HT is obs-fold: the field continues over it, "joined"), less
 *       one CR directly before that LF; ranges therefore lie inside the block, are non-empty, in order and disjoint
 *   B3  an accepted block (return 1) had EVERY field handed over, each was parsable, the block ended with an LF (or a blank line at
 *       its very end), and the stored entries are exactly those fields' entries in order (a Content-Length field that the
 *       interpreter refuses is dropped in relaxed mode -- code-derived, pinned)
 *   B4  an accepted block has no Content-Length / Transfer-Encoding field with obs-fold or with a CR other than the one before its LF
 *   frame: the block's bytes are not modified, except that the relaxed parser overwrites such CRs with SP (pinned); nothing
 *   outside [header_start, header_start + hdrLen) is read or written (exact-size heap block + pointer checks)
 * Every entry the assumed parser returned is either stored or deleted exactly once. */
#ifndef NB
#define NB 6
#endif
void cv_block_parse(char *blk, unsigned long len, const struct cv_block_in *in, struct cv_block_out *out);
unsigned long g;      /* ghost index (nondet, see unit.json "ghosts") */

struct spec_block {
    int has_nul;
    long n;                                 /* number of non-empty fields the splitter finds before anything stops it */
    unsigned long start[NB + 1], end[NB + 1];
    int folded[NB + 1];                     /* the field spans more than one line */
    int cr[NB + 1];                         /* the field's range contains a CR */
    int blank_at_end;                       /* the block ends with a blank line (CRLF or LF right after a field's LF, then the end) */
    int stopped;                            /* 1: a blank line before the end; 2: unterminated last line */
};
static void spec_split(const char *b, unsigned long len, struct spec_block *s)
{
    s->has_nul = 0; s->n = 0; s->blank_at_end = 0; s->stopped = 0;
    unsigned long start = 0, line = 0;
    int folded = 0;
    for (unsigned long i = 0; i < NB; ++i) {
        if (i < len && b[i] == 0)
            s->has_nul = 1;
        if (i < len && !s->stopped && !s->blank_at_end && b[i] == '\n') {
            if (i + 1 < len && (b[i + 1] == ' ' || b[i + 1] == '\t')) {
                folded = 1;                 /* obs-fold: the field goes on */
                line = i + 1;
            } else {
                unsigned long end = i;
                if (end > line && b[end - 1] == '\r')
                    --end;
                if (start == end) {         /* blank line */
                    if (i + 1 == len)
                        s->blank_at_end = 1;
                    else
                        s->stopped = 1;
                } else {
                    s->start[s->n] = start; s->end[s->n] = end; s->folded[s->n] = folded; s->cr[s->n] = 0;
                    for (unsigned long j = 0; j < NB; ++j)
                        if (j >= start && j < end && b[j] == '\r')
                            s->cr[s->n] = 1;
                    ++s->n;
                }
                start = i + 1; line = i + 1; folded = 0;
            }
        }
    }
    if (!s->stopped && !s->blank_at_end && start < len)
        s->stopped = 2;
}

static void block_case(char *blk, const char *text, unsigned long len)
{
    struct cv_block_in in;
    __CPROVER_assume(in.owner > hoNone && in.owner < hoEnd);             /* HttpHeader's constructor asserts this */
    __CPROVER_assume(in.relaxed == -1 || in.relaxed == 0 || in.relaxed == 1);
    for (int k = 0; k < CV_MAXFIELDS; ++k)
        __CPROVER_assume(in.verdict[k] >= 0 && in.verdict[k] <= 3);
    struct cv_block_out out;
    struct spec_block s;
    spec_split(text, len, &s);

    cv_block_parse(blk, len, &in, &out);

    __CPROVER_assert(out.ret == 0 || out.ret == 1, "ensures: HttpHeader::parse returns 0 or 1");
#ifdef TWIN_NUL
    __CPROVER_assert(!(s.has_nul && out.ret == 0), "ensures: TWIN (negated) a block with a NUL byte is rejected");
#else
    __CPROVER_assert(!s.has_nul || (out.ret == 0 && out.nfields == 0), "ensures: B1 a block with a NUL byte is rejected before any field is cut");
#endif
    __CPROVER_assert(out.nfields >= 0 && out.nfields <= s.n && out.nfields <= CV_MAXFIELDS, "ensures: B2 no more ranges are handed to the entry parser than the block has fields");
    __CPROVER_assume(g < CV_MAXFIELDS);
    if ((long)g < out.nfields) {
#ifdef TWIN_SPLIT
        __CPROVER_assert(out.f_start[g] == s.start[g] && out.f_end[g] == s.end[g] && !s.folded[g], "ensures: TWIN (no field is folded) the k-th range is the k-th field");
#else
        __CPROVER_assert(out.f_start[g] == s.start[g] && out.f_end[g] == s.end[g],
                         "ensures: B2 the k-th range handed to the entry parser is exactly the k-th field (split at LF not followed by SP/HT, obs-fold joined, CR before the LF dropped)");
#endif
        __CPROVER_assert(out.f_start[g] < out.f_end[g] && out.f_end[g] < len, "ensures: B2 the range is non-empty and inside the block");
        __CPROVER_assert(g == 0 || out.f_start[g] > out.f_end[g - 1], "ensures: B2 ranges are in order and disjoint");
        __CPROVER_assert(out.f_owner_ok, "ensures: B2 the entry parser is told the header's owner");
    }
    __CPROVER_assert(!out.bad_delete, "ensures: every entry the entry parser returned is stored or deleted exactly once (no leak, no double delete, nothing stored twice)");
    if (out.ret == 1) {
#ifdef TWIN_ALL
        __CPROVER_assert(out.nfields == s.n && s.n <= 1, "ensures: TWIN (at most one field) every field was handed over");
#else
        __CPROVER_assert(out.nfields == s.n && s.stopped == 0, "ensures: B3 an accepted block had every field handed to the entry parser and ended with an LF / a final blank line");
#endif
        __CPROVER_assert(out.cleaned == 0, "ensures: B3 an accepted block's entries were not discarded");
        __CPROVER_assert(out.added + out.deleted == out.nfields, "ensures: B3 every field's entry is stored or was dropped");
        if ((long)g < out.nfields) {
            __CPROVER_assert(in.verdict[g] != 0, "ensures: B3 an accepted block has no unparsable field");
#ifdef TWIN_FRAMING
            __CPROVER_assert(!(in.verdict[g] >= 1 && (s.folded[g] || s.cr[g])), "ensures: TWIN (every field) no obs-fold or bare CR in an accepted block");
#else
            __CPROVER_assert(!(in.verdict[g] >= 2 && (s.folded[g] || s.cr[g])), "ensures: B4 no obs-fold or bare CR in Content-Length / Transfer-Encoding of an accepted block");
#endif
            __CPROVER_assert(!(s.cr[g] && !s.folded[g] && in.relaxed == 0), "pinned: the strict parser rejects a bare CR in any (unfolded) field");
        }
        if ((long)g < out.added) {
            __CPROVER_assert(out.added_field[g] >= 0 && out.added_field[g] < out.nfields && (g == 0 || out.added_field[g] > out.added_field[g - 1]),
                             "ensures: B3 the stored entries are entries of the block's fields, in block order, none twice");
        }
        if ((long)g < out.deleted) {
            const long f = out.deleted_field[g];
            __CPROVER_assert(f >= 0 && f < out.nfields && in.verdict[f] == 2 && in.relaxed != 0,
                             "pinned: only a Content-Length field refused by the interpreter is dropped from an accepted block, and only by the relaxed parser");
        }
    } else {
        __CPROVER_assert(out.cleaned >= 1 && out.added == 0, "ensures: a rejected block leaves no stored entry");
    }
    if ((long)g < out.clen_calls)
        __CPROVER_assert(out.clen_field[g] >= 0 && in.verdict[out.clen_field[g]] == 2, "pinned: the interpreter is consulted with Content-Length values only");
    /* frame */
    if (g < len)
        __CPROVER_assert(blk[g] == text[g] || (text[g] == '\r' && blk[g] == ' ' && in.relaxed != 0),
                         "pinned: the block is not modified, except that the relaxed parser overwrites a bare CR with SP");
#ifdef REACH
    __CPROVER_assert(!(out.ret == 1 && out.nfields == 2 && out.added == 2), "reach: two fields stored");
    __CPROVER_assert(!(out.ret == 1 && out.nfields == 1 && s.folded[0]), "reach: folded field accepted");
    __CPROVER_assert(!(out.ret == 1 && s.blank_at_end && out.nfields == 1), "reach: field + blank line");
    __CPROVER_assert(!(out.ret == 1 && out.nfields == 1 && s.cr[0] && blk[s.start[0] + 1] == ' ' && text[s.start[0] + 1] == '\r'), "reach: relaxed: bare CR overwritten");
    __CPROVER_assert(!(out.ret == 1 && out.deleted == 1), "reach: refused Content-Length dropped (relaxed)");
    __CPROVER_assert(!(out.ret == 1 && len == 0), "reach: empty block accepted");
    __CPROVER_assert(!(out.ret == 0 && s.has_nul), "reach: NUL rejected");
    __CPROVER_assert(!(out.ret == 0 && !s.has_nul && s.stopped == 2), "reach: missing LF rejected");
    __CPROVER_assert(!(out.ret == 0 && !s.has_nul && s.stopped == 1), "reach: blank line before the end rejected");
    __CPROVER_assert(!(out.ret == 0 && out.nfields == 1 && in.verdict[0] == 3 && s.folded[0]), "reach: folded Transfer-Encoding rejected");
    __CPROVER_assert(!(out.ret == 0 && out.nfields == 1 && in.verdict[0] == 2 && s.cr[0] && in.relaxed == 1), "reach: Content-Length with bare CR rejected (relaxed)");
    __CPROVER_assert(!(out.ret == 0 && out.nfields == 2 && in.verdict[1] == 0), "reach: second field unparsable");
    __CPROVER_assert(!(out.ret == 0 && out.nfields == 0 && !s.has_nul && s.stopped == 0 && in.owner == hoRequest), "reach: request: CR-only line rejected");
#endif
}

void h_block(void)
{
    unsigned long len;
    __CPROVER_assume(len <= NB);
    char *blk = 0;                                    /* exact size (one constant-size block per length) */
    for (unsigned long k = 0; k <= NB; ++k)
        if (len == k)
            blk = malloc(k);
    __CPROVER_assume(blk != 0);
    char text[NB];                                    /* the original bytes (the parser may overwrite CRs in blk) */
    for (unsigned long k = 0; k < NB; ++k)
        if (k < len)
            blk[k] = text[k];
    block_case(blk, text, len);
}
#endif
