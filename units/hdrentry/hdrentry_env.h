// Surroundings of the hdrentry slices (C25).  TRUSTED: every class here is an assumed model of the real one (listed in unit.json).
// Nothing in this file decides what the property is about: where the name ends, which whitespace is trimmed or refused,
// which lengths are refused, how a block is cut into fields -- all of that is in the sliced REAL text of src/HttpHeader.cc.
#ifndef CV_HDRENTRY_ENV_H
#define CV_HDRENTRY_ENV_H

#include "autoconf.h"                 // REAL build configuration ({repo}/include/autoconf.h): USE_HTCP / USE_OPENSSL decide the owner enum

#ifndef CV_NATIVE
typedef long int64_t;                 // LP64, as on the build host
typedef unsigned long uint64_t;
typedef unsigned char uint8_t;
typedef unsigned long size_t;
typedef long ssize_t;
namespace std { typedef unsigned long size_t; }
extern "C" int isspace(int);          // CBMC's library model: '\t' '\n' '\v' '\f' '\r' ' '
#define assert(EX) __CPROVER_assert((EX), "assert(" #EX ")")      // squid's assert() aborts; here a proof obligation
#define CV_MODEL_FAIL(txt) __CPROVER_assert(0, "model: " txt)     // a stub met a use it does not model -> UNDECIDED
#else
#include <cstring>
#include <cstdint>
#include <cstdio>
#include <cstdlib>
#include <cassert>
#include <cctype>
#include <sys/types.h>
#define CV_MODEL_FAIL(txt) do { printf("REPLAY-MODEL: %s\n", txt); exit(3); } while (0)
#endif

#define xisspace(x) isspace(static_cast<unsigned char>(x))         // text of compat/xis.h (C++ branch)
#define DBG_IMPORTANT 1
#define DBG_CRITICAL 0
#define debugs(SECTION, LEVEL, CONTENT) ((void)0)                  // debug output: the message expressions have no side effects
template <class T> inline const T &min(const T &a, const T &b) { return a < b ? a : b; }   // only inside debugs() today

// memchr: ASSUMED contract of the C library function (first occurrence of (unsigned char)c among the n bytes at s, or
// null; reads only those n bytes).  Written as a scan so that CBMC's pointer checks see every byte it reads.
#ifndef CV_NATIVE
extern "C" const void *cv_memchr(const void *s, int c, size_t n);   // defined in wrap.cc (C linkage: --unwindset can name its loop)
#define memchr(s, c, n) cv_memchr((s), (c), (n))
#endif

// ---- Config: the one directive the slices read; symbolic in every harness ----
struct CvSquidConfig { struct { int relaxed_header_parser; } onoff; };
extern CvSquidConfig Config;

// ---- CharacterSet: 256-entry membership table with the real operator[] text; the CONTENTS of TCHAR are dumped on every run
// from the real CharacterSet::TCHAR object (libbase.a of the tree) by gen.py into <build>/tchar.inc ----
struct CvCharTable {
    const unsigned char *chars_;
    explicit CvCharTable(const unsigned char *t): chars_(t) {}
    bool operator[](unsigned char c) const {return chars_[static_cast<uint8_t>(c)] != 0;}   // text of the real operator[]
};
class CharacterSet : public CvCharTable
{
public:
    explicit CharacterSet(const unsigned char *t): CvCharTable(t) {}
    static const CvCharTable TCHAR;   // (base-class type: cbmc's C++ front end segfaults on a static member of the class's own type)
    // the other standard tables (contents dumped from the real objects too); unused by today's HttpHeaderEntry::parse
    static const CvCharTable WSP, ALPHA, DIGIT, HEXDIG, CTL, VCHAR, SP, HTAB, CR, LF, BIT, DQUOTE, OBSTEXT, QDTEXT, SPECIAL;
};

// ---- SBuf: recorder of where its bytes came from ----
//   kind_ 0: empty; 1: the n_ bytes at p_ (append(ptr, n) on an empty SBuf); 2: the C string p_ (assignment from const char *,
//   i.e. a registered name out of the lookup table); anything else the slices might do -> "model:" (undecided)
class SBuf
{
public:
    typedef unsigned int size_type;
    SBuf() : p_(nullptr), n_(0), kind_(0) {}
    SBuf(const char *s) : p_(s), n_(0), kind_(2) {}
    SBuf(const SBuf &o) : p_(o.p_), n_(o.n_), kind_(o.kind_) {}
    SBuf &operator=(const SBuf &o) { p_ = o.p_; n_ = o.n_; kind_ = o.kind_; return *this; }
    SBuf &operator=(const char *s) { p_ = s; n_ = 0; kind_ = 2; return *this; }
    SBuf &assign(const char *s, size_type n) { p_ = s; n_ = n; kind_ = 1; return *this; }
    SBuf &append(const char *s, size_type n) {
        if (kind_ != 0) CV_MODEL_FAIL("SBuf::append() on a non-empty SBuf");
        p_ = s; n_ = n; kind_ = 1; return *this;
    }
    SBuf &append(const SBuf &o) {
        if (kind_ != 0) CV_MODEL_FAIL("SBuf::append() on a non-empty SBuf");
        p_ = o.p_; n_ = o.n_; kind_ = o.kind_; return *this;
    }
    const char *rawContent() const { return p_; }
    size_type length() const { return n_; }
    bool isEmpty() const { return kind_ == 0; }
    void clear() { p_ = nullptr; n_ = 0; kind_ = 0; }
    const char *p_;
    size_t n_;
    int kind_;
};

// ---- String: recorder (source pointer, length) of the bytes it was given ----
// The real String copies len bytes into a fresh buffer and adds a NUL (allocAndFill); termedBuf() hands out that buffer and
// String::operator=(const char *) / String(const char *) re-measure it with strlen.  Model: no copy; termedBuf() returns the
// SOURCE pointer and remembers (pointer, length) in cv_termed_*; a String built from that pointer holds the bytes up to the
// first NUL among those `length` bytes (what strlen on the real copy gives).  Any other C string -> "model:".
extern "C" { extern const char *cv_termed_ptr; extern size_t cv_termed_len; extern int cv_termed_valid; extern int cv_casecmp_answer; }
class String
{
public:
    typedef size_t size_type;
    String() : size_(0), len_(0), buf_(nullptr) {}
    String(char const *s) : size_(0), len_(0), buf_(nullptr) { fromTermed(s); }
    String(String const &o) : size_(o.size_), len_(o.len_), buf_(o.buf_) {}
    String &operator=(char const *s) { clean(); fromTermed(s); return *this; }
    String &operator=(String const &o) { size_ = o.size_; len_ = o.len_; buf_ = o.buf_; return *this; }
    size_type size() const { return len_; }
    int psize() const { return (int)len_; }
    char const *rawBuf() const { return buf_; }
    char const *termedBuf() const { cv_termed_ptr = buf_; cv_termed_len = len_; cv_termed_valid = 1; return buf_; }
    void assign(const char *str, int len) {
        clean();
        assert(str);                                               // allocAndFill
        if (len < 0 || len > 65534) { CV_MODEL_FAIL("String::assign(): length outside 0..65534 (the real String asserts)"); return; }
        size_ = (size_type)len + 1; len_ = (size_type)len; buf_ = str;
    }
    void append(char const *, int) { CV_MODEL_FAIL("String::append()"); }
    void append(char const *) { CV_MODEL_FAIL("String::append()"); }
    void append(char const) { CV_MODEL_FAIL("String::append()"); }
    void append(String const &) { CV_MODEL_FAIL("String::append()"); }
    void append(const SBuf &) { CV_MODEL_FAIL("String::append()"); }
    void clean() { size_ = 0; len_ = 0; buf_ = nullptr; }
    int caseCmp(char const *) const { return cv_casecmp_answer; }                  // ASSUMED: an arbitrary verdict the harness chose
    int caseCmp(char const *, size_type) const { return cv_casecmp_answer; }
    int cmp(char const *) const { return cv_casecmp_answer; }
    size_type size_;
    size_type len_;
    const char *buf_;
private:
    void fromTermed(char const *s) {
        if (!s)
            return;
        if (!cv_termed_valid || s != cv_termed_ptr) { CV_MODEL_FAIL("String built from a C string that is not another String's termedBuf()"); return; }
        size_type n = 0;
        while (n < cv_termed_len && s[n] != '\0')                  // strlen on the real NUL-terminated copy
            ++n;
        size_ = n + 1; len_ = n; buf_ = s;
    }
};

class Packable;
#if defined(CV_NATIVE) && defined(CV_BLOCK)
extern "C" void cv_native_delete(void *);               /* native block-level replay: entries are pool objects of block_env.h */
#define MEMPROXY_CLASS(C) public: void operator delete(void *p) { cv_native_delete(p); } private: friend class CvNoPool
#else
#define MEMPROXY_CLASS(C) friend class CvNoPool          /* Squid's pooled operator new/delete: not modelled */
#endif
#define Raw(label, ptr, len) 0                           /* only inside debugs() */
#define getStringPrefix(ptr, len) 0                      /* only inside debugs() */

#endif
