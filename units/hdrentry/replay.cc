// Native replay for the ENTRY-LEVEL targets of the hdrentry unit (C25), ASan+UBSan (the block-level target has no native replay).
// Compiles the same run-time slices of the REAL src/HttpHeader.cc that the verifier saw (entry_slices.inc in the build directory) over the same stub classes (hdrentry_env.h, CV_NATIVE:
// real memchr/isspace/assert, real operator new), runs them on the counterexample's bytes in an EXACT-SIZE heap block (ASan sees any
// read outside the field / block) and re-evaluates the PROPERTY-LEVEL postconditions against an independent reference.
#include <string>
#include <vector>
#include "replay.h"
#define __CPROVER_assert(c, txt) do { if (!(c)) { printf("REPLAY-FAIL: %s\n", txt); exit(1); } } while (0)
#include "wrap.cc"
extern "C" const char *__asan_default_options() { return "detect_leaks=0"; }

static bool ws(char c) { return c == ' ' || c == '\t' || c == '\n' || c == '\v' || c == '\f' || c == '\r'; }

static int replay_entry(const std::string &field, int msgType, int relaxed, int answer)
{
    char *heap = (char *)malloc(field.size());
    memcpy(heap, field.data(), field.size());
    cv_entry_out out;
    cv_entry_parse(heap, field.size(), msgType, relaxed, answer, &out);
    // reference reading of the statement
    const size_t colon = field.find(':');
    printf("field=\"");
    for (unsigned char c : field) { if (c >= 0x20 && c < 0x7f && c != '"' && c != '\\') putchar(c); else printf("\\x%02x", c); }
    printf("\" msgType=%d relaxed=%d classifier=%d -> returned=%ld id=%ld name=(kind %ld, +%ld, %lu) value=(+%ld, %lu)\n", msgType, relaxed, answer,
           out.returned, out.id, out.name_kind, out.name_p ? (long)(out.name_p - heap) : -1L, out.name_n,
           out.value_p ? (long)(out.value_p - heap) : -1L, out.value_n);
    if (!out.returned)
        RP_OK("field rejected (rejecting is never a violation of the property-level oracle)");
    if (colon == std::string::npos || colon == 0) RP_FAIL("a field without ':' or with an empty name was accepted");
    const bool wsBefore = ws(field[colon - 1]);
    if (wsBefore && (msgType == hoRequest || (msgType != hoReply && relaxed == 0)))
        RP_FAIL("whitespace before the colon accepted where it must be rejected");
    size_t nameLen = colon;
    while (nameLen > 0 && ws(field[nameLen - 1])) --nameLen;
    if (cv_lk_calls != 1 || cv_lk_ptr != heap || cv_lk_len != nameLen) RP_FAIL("the classifier was not asked about exactly the bytes before the colon");
    const int id = answer == (int)Http::HdrType::BAD_HDR ? (int)Http::HdrType::OTHER : answer;
    if (out.id != id) RP_FAIL("stored id differs from the classifier's answer");
    if (id == (int)Http::HdrType::OTHER) {
        if (out.name_kind != 1 || out.name_p != heap || out.name_n != nameLen) RP_FAIL("stored name is not exactly the bytes before the colon");
    } else if (out.name_kind != 2 || out.name_p != cv_regname) RP_FAIL("stored name is not the registered name");
    size_t vs = colon + 1, ve = field.size();
    while (vs < ve && ws(field[vs])) ++vs;
    while (ve > vs && ws(field[ve - 1])) --ve;
    if (field.find('\0') == std::string::npos && (out.value_p != heap + vs || out.value_n != ve - vs))
        RP_FAIL("stored value is not exactly the trimmed bytes after the colon");
    RP_OK("property-level postconditions hold on this input");
}

int main(int argc, char **argv)
{
    if (argc < 3) return 2;
    const std::string mode = argv[1];
    Cex c; if (!c.load(argv[2])) return 2;
    std::string bytes;
    for (auto x : c.arr("text")) bytes.push_back((char)x);
    size_t len = (size_t)c.unum("len", bytes.size());
    if (len > bytes.size()) bytes.resize(len, 'x');
    bytes.resize(len);
    if (mode == "entry") {
        if (len == 0) RP_OK("empty field: outside the call-site precondition");
        return replay_entry(bytes, (int)c.num("msgType", hoRequest), (int)c.num("relaxed", 0), (int)c.num("answer", (int)Http::HdrType::OTHER));
    }
    printf("unknown replay mode %s\n", mode.c_str());
    return 2;
}
