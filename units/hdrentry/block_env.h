// Block-level surroundings (CV_BLOCK): everything HttpHeader::parse(header_start, hdrLen, clen) touches besides the bytes.  TRUSTED models.
#ifndef CV_BLOCK_ENV_H
#define CV_BLOCK_ENV_H

extern "C" { const struct cv_block_in *cv_in; struct cv_block_out *cv_out; const char *cv_blk; unsigned long cv_blk_len; }

// ---- HttpHeaderEntry objects: typed static pool, one per field the harness allows; live = handed out and not deleted ----
HttpHeaderEntry::HttpHeaderEntry(Http::HdrType anId, const SBuf &aName, const char *) { id = anId; name = aName; }   // model (block level only)
HttpHeaderEntry::~HttpHeaderEntry() {}
static HttpHeaderEntry cvP0(Http::HdrType::BAD_HDR, SBuf(), nullptr), cvP1(Http::HdrType::BAD_HDR, SBuf(), nullptr),
       cvP2(Http::HdrType::BAD_HDR, SBuf(), nullptr), cvP3(Http::HdrType::BAD_HDR, SBuf(), nullptr);
#if CV_MAXFIELDS != 4
#error "the entry pool holds exactly 4 objects"
#endif
static HttpHeaderEntry *const cvPool[CV_MAXFIELDS] = { &cvP0, &cvP1, &cvP2, &cvP3 };
static int cvState[CV_MAXFIELDS];      // 0 = never handed out, 1 = live (owned by the loop), 2 = added to the header, 3 = deleted
static int cvPoolIndex(const void *p)
{
    for (int k = 0; k < CV_MAXFIELDS; ++k)
        if (p == (const void *)cvPool[k])
            return k;
    return -1;
}

// ASSUMED HttpHeaderEntry::parse (its own contract is what the entry-level targets check): records the range it is handed and
// answers what the harness chose for the k-th call: null, or an entry whose id is OTHER / CONTENT_LENGTH / TRANSFER_ENCODING.
HttpHeaderEntry *HttpHeaderEntry::parse(const char *field_start, const char *field_end, const http_hdr_owner_type msgType)
{
    const long k = cv_out->nfields;
    if (k >= CV_MAXFIELDS) {
        CV_MODEL_FAIL("more fields than the harness bound");
        return nullptr;
    }
    cv_out->nfields = k + 1;
    __CPROVER_assert(__CPROVER_same_object(field_start, cv_blk) && __CPROVER_same_object(field_end, cv_blk),
                     "ensures: every range handed to HttpHeaderEntry::parse points into the block");
    cv_out->f_start[k] = (unsigned long)(field_start - cv_blk);
    cv_out->f_end[k] = (unsigned long)(field_end - cv_blk);
    if ((long)msgType != cv_in->owner)
        cv_out->f_owner_ok = 0;
    const long v = cv_in->verdict[k];
    if (v == 0)
        return nullptr;
    HttpHeaderEntry *e = cvPool[k];
    e->id = v == 2 ? Http::HdrType::CONTENT_LENGTH : v == 3 ? Http::HdrType::TRANSFER_ENCODING : Http::HdrType::OTHER;
    cvState[k] = 1;
    return e;
}
#ifndef CV_NATIVE
extern "C" void __delete(void *p)
#else
extern "C" void cv_native_delete(void *p)
#endif
{
    const int k = cvPoolIndex(p);
    if (k < 0 || cvState[k] != 1) {
        cv_out->bad_delete = 1;
        return;
    }
    cvState[k] = 3;
    if (cv_out->deleted < CV_MAXFIELDS)
        cv_out->deleted_field[cv_out->deleted] = k;
    ++cv_out->deleted;
}

// ---- Http::ContentLengthInterpreter: whole state; checkField answers what the harness chose for that call ----
namespace Http
{
class ContentLengthInterpreter
{
public:
    bool checkField(const String &field) {
        const long c = cv_out->clen_calls;
        if (c >= CV_MAXFIELDS) {
            CV_MODEL_FAIL("more checkField calls than the harness bound");
            return false;
        }
        cv_out->clen_calls = c + 1;
        long which = -1;
        for (int k = 0; k < CV_MAXFIELDS; ++k)
            if (&field == &cvPool[k]->value)
                which = k;
        cv_out->clen_field[c] = which;
        return cv_in->clen_ok[c] != 0;
    }
    const char *prohibitedAndIgnored() const { return prohibitedAndIgnored_; }
    int64_t value;
    const char *headerWideProblem;
    bool sawBad;
    bool needsSanitizing;
    bool sawGood;
    const char *prohibitedAndIgnored_;
};
}

// ---- HttpHeader: recorders for the members the slice calls ----
typedef ssize_t HttpHeaderPos;
typedef char HttpHeaderMask[12];
#define CV_HDR_RECORDERS \
    void clean() { ++cv_out->cleaned; cv_out->added = 0; }      /* the real one deletes and forgets every stored entry */ \
    void addEntry(HttpHeaderEntry *e) { \
        const int k = cvPoolIndex(e); \
        if (k < 0 || cvState[k] != 1) { \
            cv_out->bad_delete = 1;                                /* adding something that is not a live entry of this run */ \
            return; \
        } \
        cvState[k] = 2; \
        if (cv_out->added < CV_MAXFIELDS) \
            cv_out->added_field[cv_out->added] = k; \
        ++cv_out->added; \
    } \
    int delById(Http::HdrType id) { \
        if (id == Http::HdrType::CONTENT_LENGTH) ++cv_out->del_cl; \
        else if (id == Http::HdrType::TRANSFER_ENCODING) ++cv_out->del_te; \
        else CV_MODEL_FAIL("delById() of an unexpected id"); \
        return 1; \
    } \
    bool getByIdIfPresent(Http::HdrType id, String *result) { \
        if (id != Http::HdrType::TRANSFER_ENCODING || !result) CV_MODEL_FAIL("getByIdIfPresent() of an unexpected id"); \
        return cv_in->has_te != 0; \
    } \
    void putInt64(Http::HdrType id, int64_t) { \
        if (id != Http::HdrType::CONTENT_LENGTH) CV_MODEL_FAIL("putInt64() of an unexpected id"); \
        ++cv_out->put_cl; \
    }
// the body text runs as a free function: the members it names become same-named globals and free functions
static HttpHeaderMask mask;
static http_hdr_owner_type owner;
static int len;
static bool conflictingContentLength_;
static bool teUnsupported_;
CV_HDR_RECORDERS
struct CvOwnerStat { int parsedCount; int ccParsedCount; int schParsedCount; int ccPassedCount; int busyDestroyedCount; };
static CvOwnerStat HttpHeaderStats[hoEnd];          // std::array<HttpHeaderStat, hoEnd>: the counters only

#include "block_body.inc"              // REAL body text of the same function inside extern "C" cv_block_body()

extern "C" void cv_block_parse(char *blk, unsigned long blk_len, const struct cv_block_in *in, struct cv_block_out *out)
{
    cv_in = in; cv_out = out; cv_blk = blk; cv_blk_len = blk_len;
    Config.onoff.relaxed_header_parser = (int)in->relaxed;
    out->ret = -1; out->nfields = 0; out->f_owner_ok = 1; out->added = 0; out->deleted = 0; out->bad_delete = 0; out->cleaned = 0;
    out->clen_calls = 0; out->del_cl = 0; out->del_te = 0; out->put_cl = 0;
    for (int k = 0; k < CV_MAXFIELDS; ++k) {
        out->f_start[k] = 0; out->f_end[k] = 0; out->added_field[k] = -1; out->deleted_field[k] = -1; out->clen_field[k] = -1;
        cvState[k] = 0;
    }
    owner = static_cast<http_hdr_owner_type>(in->owner);
    len = 0; conflictingContentLength_ = false; teUnsupported_ = false;
    Http::ContentLengthInterpreter clen;
    clen.value = -1;
    clen.headerWideProblem = nullptr;
    if (in->wide_problem) clen.headerWideProblem = &cv_regname[0];
    clen.sawBad = in->saw_bad != 0; clen.needsSanitizing = in->needs_sanitizing != 0; clen.sawGood = in->saw_good != 0;
    clen.prohibitedAndIgnored_ = nullptr;
    if (in->prohibited) clen.prohibitedAndIgnored_ = &cv_regname[0];
    cv_casecmp_answer = (int)in->te_cmp;
    out->ret = cv_block_body(blk, blk_len, clen);
    out->conflicting = conflictingContentLength_;
    out->te_unsupported = teUnsupported_;
    // entries still owned by the loop when it returned = leaked
    for (int k = 0; k < CV_MAXFIELDS; ++k)
        if (cvState[k] == 1)
            out->bad_delete = 2;
}
#endif
