// Wrapper TU for the hdrentry unit (C25, tier T3): function slices of the REAL src/HttpHeader.cc, cut on every run (see unit.json):
//   entry level (default):  HttpHeaderEntry::HttpHeaderEntry(id, name, value), HttpHeaderEntry::~HttpHeaderEntry(),
//                           HttpHeaderEntry::parse(field_start, field_end, msgType)                         -> entry_slices.inc
//   block level (CV_BLOCK): HttpHeader::parse(header_start, hdrLen, clen)                                    -> block_slices.inc
// compiled by the C++ front end against the REAL class text of HttpHeaderEntry (src/HttpHeader.h), the REAL enums
// http_hdr_owner_type / Http::HdrType, the REAL HttpHeaderFieldStat, and the stub classes of hdrentry_env.h.
#include "hdrentry_env.h"
#include "hdrentry_io.h"

// ghosts of the classifier model (see below)
extern "C" {
    int cv_lk_answer, cv_lk_calls; const char *cv_lk_ptr; unsigned long cv_lk_len; int cv_lk_touch;
    int cv_lkid_calls, cv_lkid_last;
    char cv_regname[2] = { 'R', 0 };
}

namespace Http
{
#include "hdrtype_enum.inc"           // REAL text: enum HdrType { ... } (made scoped for the front end)   (src/http/RegisteredHeaders.h)
#include "hdrtype_helpers.inc"        // REAL text: any_HdrType_enum_value()                                (src/http/RegisteredHeaders.h)

// the record's whole state as in src/http/RegisteredHeaders.h (type is an int here; nothing in the slices reads it)
class HeaderTableRecord
{
public:
    const char *name;
    Http::HdrType id;
    int type;
    bool list;
    bool request;
    bool reply;
    bool hopbyhop;
    bool denied304;
};

// ASSUMED classifier (TRUSTED): lookup(buf, len) answers with an ARBITRARY id that the harness chose (cv_lk_answer, any value of
// the enum incl. OTHER and BAD_HDR) and records what it was asked; it touches the first and last byte of the range it is given
// (so that a range outside the field is a pointer-check failure).  lookup(id) returns a record {name = the registered-name
// token cv_regname, id}.  That the real table maps a name to the id whose registered name equals it case-insensitively is NOT verified here.
class HeaderLookupTable_t
{
public:
    const HeaderTableRecord &lookup(const char *buf, const std::size_t len) const;
    const HeaderTableRecord &lookup(const SBuf &key) const { return lookup(key.rawContent(), key.length()); }
    const HeaderTableRecord &lookup(Http::HdrType id) const;
};
static HeaderTableRecord cvNameRec, cvIdRec;     // (non-const: the front end loses the const of a `const T &` return type)
const HeaderTableRecord &HeaderLookupTable_t::lookup(const char *buf, const std::size_t len) const
{
    if (cv_lk_calls < 1000) ++cv_lk_calls;
    cv_lk_ptr = buf; cv_lk_len = len;
    if (len > 0)
        cv_lk_touch = buf[0] + buf[len - 1];
    cvNameRec.name = &cv_regname[0];
    cvNameRec.id = static_cast<Http::HdrType>(cv_lk_answer);
    return cvNameRec;
}
const HeaderTableRecord &HeaderLookupTable_t::lookup(Http::HdrType id) const
{
    if (cv_lkid_calls < 1000) ++cv_lkid_calls;
    cv_lkid_last = static_cast<int>(id);
    cvIdRec.name = &cv_regname[0];
    cvIdRec.id = id;
    return cvIdRec;
}
static HeaderLookupTable_t HeaderLookupTable;
}
using Http::any_HdrType_enum_value;   // the real code finds it by argument-dependent lookup, which the front end does not implement

#include "owner_enum.inc"             // REAL text: typedef enum { hoNone ... hoEnd } http_hdr_owner_type;            (src/HttpHeader.h)
#include "fieldstat_class.inc"        // REAL text: class HttpHeaderFieldStat                                         (src/HttpHeaderFieldStat.h)
#include "entry_class.inc"            // REAL text: class HttpHeaderEntry { ... id; name; value; }                    (src/HttpHeader.h)
#include "tchar.inc"                  // GENERATED on this run by gen.py from the real CharacterSet::TCHAR object

extern "C" { const char *cv_termed_ptr; size_t cv_termed_len; int cv_termed_valid; int cv_memchr_calls; int cv_casecmp_answer; }
CvSquidConfig Config;
#ifndef CV_NATIVE
extern "C" const void *cv_memchr(const void *s, int c, size_t n)
{
    const unsigned char *p = (const unsigned char *)s;
    ++cv_memchr_calls;
    for (size_t k = 0; k < n; ++k)
        if (p[k] == (unsigned char)c)
            return p + k;
    return nullptr;
}
#endif
const CvCharTable CharacterSet::TCHAR(&CV_TCHAR[0]);
#define CV_TABLE(T) const CvCharTable CharacterSet::T(&CV_##T[0]);
CV_TABLE(WSP) CV_TABLE(ALPHA) CV_TABLE(DIGIT) CV_TABLE(HEXDIG) CV_TABLE(CTL) CV_TABLE(VCHAR) CV_TABLE(SP) CV_TABLE(HTAB)
CV_TABLE(CR) CV_TABLE(LF) CV_TABLE(BIT) CV_TABLE(DQUOTE) CV_TABLE(OBSTEXT) CV_TABLE(QDTEXT) CV_TABLE(SPECIAL)

// std::vector<HttpHeaderFieldStat> headerStatsTable(Http::HdrType::enumEnd_): index checked against that size; the per-id
// counters are abstracted to two cells (TRUSTED): the counters of the one id the wrapper watches (cv_stat_watch) and one cell
// standing for all other ids (a 90 x 5 int array updated at a symbolic index tripled the SAT problem; nothing the property
// is about depends on the counters)
extern "C" { int cv_stat_watch = -1; }
struct CvStatsTable {
    HttpHeaderFieldStat watched, rest;
    HttpHeaderFieldStat &operator[](Http::HdrType id) {
        const int k = static_cast<int>(id);
        __CPROVER_assert(k >= 0 && k < static_cast<int>(Http::HdrType::enumEnd_), "headerStatsTable[id]: index inside the vector");
        if (k == cv_stat_watch)
            return watched;
        return rest;
    }
};
CvStatsTable headerStatsTable;
static int HeaderEntryParsedCount = 0;                 // as in src/HttpHeader.cc

#ifndef CV_BLOCK
// ------------------------------------------------------------------------------------------------------------------------
// entry level
// ------------------------------------------------------------------------------------------------------------------------
#include "entry_slices.inc"           // REAL text: the constructor, the destructor and HttpHeaderEntry::parse

#ifndef CV_NATIVE
// allocator model (TRUSTED): `new HttpHeaderEntry` yields the one typed static object below (the front end's own `new` gives an
// untyped byte array; class operator new/delete = MEMPROXY_CLASS are ignored by the front end). A second allocation -> "model:".
static HttpHeaderEntry cvE0(Http::HdrType::BAD_HDR, SBuf(), nullptr);
static int cvAllocs;
extern "C" void *__new(size_t)
{
    if (cvAllocs >= 1)
        CV_MODEL_FAIL("more than one HttpHeaderEntry allocated by one HttpHeaderEntry::parse call");
    ++cvAllocs;
    return &cvE0;
}
#endif

// entry point: [fs, fs + len) is the field; everything else is scalar
extern "C" void cv_entry_parse(const char *fs, unsigned long len, int msgType, int relaxed, int lookup_answer, struct cv_entry_out *out)
{
    Config.onoff.relaxed_header_parser = relaxed;
    cv_lk_answer = lookup_answer;
    cv_stat_watch = lookup_answer == static_cast<int>(Http::HdrType::BAD_HDR) ? static_cast<int>(Http::HdrType::OTHER) : lookup_answer;
    cv_lk_calls = 0; cv_lkid_calls = 0; cv_lk_ptr = nullptr; cv_lk_len = 0; cv_termed_valid = 0; cv_memchr_calls = 0;
    HttpHeaderEntry *e = HttpHeaderEntry::parse(fs, fs + len, static_cast<http_hdr_owner_type>(msgType));
    out->returned = e != nullptr;
    out->id = -1; out->name_kind = 0; out->name_p = nullptr; out->name_n = 0; out->value_p = nullptr; out->value_n = 0; out->alive_delta = 0;
    if (e) {
        out->id = static_cast<int>(e->id);
        out->name_kind = e->name.kind_; out->name_p = e->name.p_; out->name_n = e->name.n_;
        out->value_p = e->value.buf_; out->value_n = e->value.len_;
        if (e->id != Http::HdrType::BAD_HDR)
            out->alive_delta = static_cast<int>(e->id) == cv_stat_watch ? headerStatsTable.watched.aliveCount : -1;   // counters start at 0 in these targets
    }
}
#else
// ------------------------------------------------------------------------------------------------------------------------
// block level
// ------------------------------------------------------------------------------------------------------------------------
#include "block_env.h"
#endif
