// wrapper TU: the real src/ipc/TypedMsgHdr.cc text (extracted into the build dir at run time; it includes the extracted copy of
// the real ipc/TypedMsgHdr.h) + extern "C" entry points working on ONE message object.
#define private public      // the wrappers must reach getRaw/putRaw/data/offset; text and layout of the class are unchanged
#include "TypedMsgHdr.cc"
#undef private

// stand-in for the real constructor (clear(); sync();), which cannot be compiled (see unit.json tier_kind): members get their
// default member initialisers / DataBuffer() / CtrlBuffer(), the msghdr base stays zero (static storage).  Every field a target
// depends on is then set explicitly to an arbitrary value by the harness.
Ipc::TypedMsgHdr::TypedMsgHdr() {}

static Ipc::TypedMsgHdr cv_msg;

extern "C" {
    // ---- layout facts (lemmas in contract.c compare them with the native values that gen.py checked) ----
    unsigned long cv_sizeof_msghdr(void) { return sizeof(struct msghdr); }
    unsigned long cv_sizeof_data(void) { return sizeof(cv_msg.data); }
    unsigned long cv_sizeof_raw(void) { return sizeof(cv_msg.data.raw); }
    unsigned long cv_max_size(void) { return Ipc::TypedMsgHdr::maxSize; }
    // ---- state access ----
    unsigned long cv_size(void) { return cv_msg.data.size; }
    unsigned int cv_offset(void) { return cv_msg.offset; }
    int cv_type(void) { return cv_msg.data.type_; }
    int cv_has_iov(void) { return cv_msg.msg_iov != 0; }
    char cv_raw(unsigned long i) { return cv_msg.data.raw[i]; }
    const void *cv_msg_addr(void) { return &cv_msg; }
    const char *cv_raw_base(void) { return cv_msg.data.raw; }
    void cv_set_size(unsigned long v) { cv_msg.data.size = v; }
    void cv_set_offset(unsigned int v) { cv_msg.offset = v; }
    void cv_set_type(int v) { cv_msg.data.type_ = v; }
    void cv_set_raw(unsigned long i, char c) { cv_msg.data.raw[i] = c; }
    void cv_set_iov(int on) { if (on) { cv_msg.msg_iov = cv_msg.ios; cv_msg.msg_iovlen = 1; } else { cv_msg.msg_iov = 0; cv_msg.msg_iovlen = 0; } }
    // ---- the real members ----
    void cv_getRaw(void *p, unsigned long n) { cv_msg.getRaw(p, n); }
    void cv_putRaw(const void *p, unsigned long n) { cv_msg.putRaw(p, n); }
    void cv_getFixed(void *p, unsigned long n) { cv_msg.getFixed(p, n); }
    void cv_putFixed(const void *p, unsigned long n) { cv_msg.putFixed(p, n); }
    int cv_getInt(void) { return cv_msg.getInt(); }
    void cv_putInt(int v) { cv_msg.putInt(v); }
    void cv_getPodInt(int *v) { cv_msg.getPod(*v); }
    void cv_putPodInt(const int *v) { cv_msg.putPod(*v); }
    void cv_getString(void) { String s; cv_msg.getString(s); }
    void cv_putString(void) { String s; cv_msg.putString(s); }
    void cv_checkType(int t) { cv_msg.checkType(t); }
    void cv_setType(int t) { cv_msg.setType(t); }
}
