/* stub tools.h: nothing of it is used by TypedMsgHdr.cc */
