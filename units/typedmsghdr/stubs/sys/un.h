/* stub <sys/un.h> (x86_64 Linux/glibc) */
#ifndef CV_STUB_SYS_UN_H
#define CV_STUB_SYS_UN_H
struct sockaddr_un {
    unsigned short sun_family;
    char sun_path[108];
};
#define SUN_LEN(ptr) ((size_t) (((struct sockaddr_un *) 0)->sun_path) + strlen ((ptr)->sun_path))
#endif
