/* stub <sys/socket.h>: the structs and CMSG macros of x86_64 Linux/glibc (bits/socket.h), layout checked natively by gen.py */
#ifndef CV_STUB_SYS_SOCKET_H
#define CV_STUB_SYS_SOCKET_H
struct iovec {
    void *iov_base;
    size_t iov_len;
};
struct msghdr {
    void *msg_name;
    socklen_t msg_namelen;
    struct iovec *msg_iov;
    size_t msg_iovlen;
    void *msg_control;
    size_t msg_controllen;
    int msg_flags;
};
struct cmsghdr {
    size_t cmsg_len;
    int cmsg_level;
    int cmsg_type;
};
#define SOL_SOCKET 1
#define SCM_RIGHTS 0x01
#define CMSG_DATA(cmsg) ((unsigned char *) ((struct cmsghdr *) (cmsg) + 1))
#define CMSG_FIRSTHDR(mhdr) \
  ((size_t) (mhdr)->msg_controllen >= sizeof (struct cmsghdr)        \
   ? (struct cmsghdr *) (mhdr)->msg_control : (struct cmsghdr *) 0)
#define CMSG_ALIGN(len) (((len) + sizeof (size_t) - 1) & (size_t) ~(sizeof (size_t) - 1))
#define CMSG_SPACE(len) (CMSG_ALIGN (len) + CMSG_ALIGN (sizeof (struct cmsghdr)))
#define CMSG_LEN(len)   (CMSG_ALIGN (sizeof (struct cmsghdr)) + (len))
#endif
