/* stub <sys/uio.h>: struct iovec is in the stub <sys/socket.h> */
