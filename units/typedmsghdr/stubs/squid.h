/* stub squid.h for the C++ front end (-nostdinc): the autoconf results TypedMsgHdr.h / compat/cmsg.h look at, and the libc
 * surface src/ipc/TypedMsgHdr.cc touches.  Platform: x86_64 Linux/glibc (layouts checked natively by gen.py). */
#ifndef CV_STUB_SQUID_H
#define CV_STUB_SQUID_H
#define HAVE_SYS_SOCKET_H 1
#define HAVE_SYS_UIO_H 1
#define HAVE_SYS_UN_H 1
#define HAVE_CMSGHDR 1
#define HAVE_IOVEC 1
#define HAVE_MSGHDR 1
#define HAVE_SOCKADDR_UN 1
#define HAVE_CONSTANT_CMSG_SPACE 1
typedef unsigned long size_t;
typedef unsigned int socklen_t;
extern "C" {
    void *memcpy(void *dst, const void *src, size_t n);
    void *memset(void *dst, int c, size_t n);
    size_t strlen(const char *s);
}
#endif
