/* stub base/TextException.h.  The real Must(c) throws a TextException when c is false.  The C++ front end has no exceptions:
 * Must(c) is modelled as "does not return normally": cv_must_failed() (contract.c) records the failure and stops the path
 * (__CPROVER_assume(0)); under -DREACH it first asserts, per operation, that the throw site is reachable. */
#ifndef CV_STUB_TEXTEXCEPTION_H
#define CV_STUB_TEXTEXCEPTION_H
extern "C" void cv_must_failed(void);
#define Must(condition) do { if (!(condition)) cv_must_failed(); } while (0)
#endif
