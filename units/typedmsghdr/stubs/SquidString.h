/* stub String (src/SquidString.h): the five members TypedMsgHdr.cc calls; state lives in C globals (cv_str_*) that the
 * sidecar contract can name.  psize()/rawBuf() describe an ARBITRARY string of 0 <= len <= INT_MAX held in cv_str_buf
 * (the real String guarantees len >= 0 and that rawBuf() has len readable bytes); assign()/clean() record what they get. */
#ifndef CV_STUB_SQUIDSTRING_H
#define CV_STUB_SQUIDSTRING_H
extern "C" {
    extern int cv_str_len;               /* what psize() returns */
    extern char cv_str_buf[4096];        /* what rawBuf() points to */
    extern int cv_str_assigned;          /* 0: untouched, 1: assign() was called, 2: clean() was called */
    extern int cv_str_assigned_len;      /* assign()'s length argument */
    extern char cv_str_assigned_g;       /* byte g of assign()'s buffer (g = ghost index) */
    void cv_string_assign(const char *buf, int len);
}
class String
{
public:
    int psize() const { return cv_str_len; }
    const char *rawBuf() const { return cv_str_buf; }
    void clean() { cv_str_assigned = 2; cv_str_assigned_len = 0; }
    void assign(const char *buf, int len) { cv_string_assign(buf, len); }
};
#endif
