/* Sidecar contracts for src/ipc/TypedMsgHdr.cc (real member functions, sliced; real ipc/TypedMsgHdr.h with three extraction rules).
 * The contracts are encoded harness-style (assume requires; call the REAL member through its extern "C" wrapper; assert ensures)
 * on ONE message object whose received fields are set to arbitrary values through the wrap.cc setters.
 * Must(c) is "does not return normally" (stubs/base/TextException.h): an obligation "returns => X" therefore reads
 * "X, or the function throws".  Postconditions come from C58: round trips are the identity; wrong type / truncated content /
 * out-of-range lengths raise an error and NEVER read beyond the buffer. */
#include <stddef.h>
#include <limits.h>

#define MAXSIZE 4096UL          /* Ipc::TypedMsgHdr::maxSize: lemma below */
#ifndef M
#define M 8192                  /* size of the caller's buffer in the getRaw/putRaw targets */
#endif

size_t g;                       /* ghost index: arbitrary */

/* wrap.cc */
unsigned long cv_sizeof_msghdr(void), cv_sizeof_data(void), cv_sizeof_raw(void), cv_max_size(void), cv_size(void);
unsigned int cv_offset(void);
int cv_type(void), cv_has_iov(void);
char cv_raw(unsigned long i);
void cv_set_size(unsigned long v), cv_set_offset(unsigned int v), cv_set_type(int v), cv_set_raw(unsigned long i, char c), cv_set_iov(int on);
void cv_getRaw(void *p, unsigned long n), cv_putRaw(const void *p, unsigned long n);
void cv_getFixed(void *p, unsigned long n), cv_putFixed(const void *p, unsigned long n);
int cv_getInt(void); void cv_putInt(int v);
void cv_getPodInt(int *v), cv_putPodInt(const int *v);
void cv_getString(void), cv_putString(void), cv_checkType(int t), cv_setType(int t);
/* stubs.c */
extern int cv_str_len; extern char cv_str_buf[4096]; extern int cv_str_assigned; extern int cv_str_assigned_len; extern char cv_str_assigned_g;

#ifndef CV_NATIVE
/* Must(c) failed: the real code throws.  Under -DREACH the throw site must be reachable in every target that expects one. */
void cv_must_failed(void)
{
#if defined(REACH) && !defined(NO_THROW_EXPECTED)
    __CPROVER_assert(0, "reach: a Must() of the operation under check fails (the error path exists)");
#endif
    __CPROVER_assume(0);
}

static void layout_lemmas(void)
{
    __CPROVER_assert(cv_max_size() == MAXSIZE && cv_sizeof_raw() == MAXSIZE, "lemma: maxSize == sizeof(data.raw) == 4096");
    /* NOTE: CBMC's C++ front end lays classes out WITHOUT alignment padding (it reports sizeof(msghdr) == 48, natively 56;
     * sizeof(DataBuffer) == 4108, natively 4112): member offsets inside the message object are not the native ones.  The
     * contracts speak only about positions relative to data.raw and about sizeof(data.raw), which do not depend on padding. */
}

/* what the RANGE memcpy model saw (stubs.c) */
extern int cv_mc_calls; extern const void *cv_mc_src[2]; extern void *cv_mc_dst[2]; extern size_t cv_mc_n[2]; extern int cv_mc_int[2];
extern const char *cv_str_assigned_buf;
const char *cv_raw_base(void);
/* "copy k moved n bytes from data.raw[from ..) to p" / "... from p to data.raw[to ..)" */
#define COPY_OUT(k, from, p, cnt) (cv_mc_src[k] == (const void *)(cv_raw_base() + (from)) && cv_mc_dst[k] == (void *)(p) && cv_mc_n[k] == (size_t)(cnt))
#define COPY_IN(k, p, to, cnt)    (cv_mc_dst[k] == (void *)(cv_raw_base() + (to)) && cv_mc_src[k] == (const void *)(p) && cv_mc_n[k] == (size_t)(cnt))

/* ------------------------------------------------------------------------------------------------------------------
 * getRaw(rawBuf, rawSize)   requires: rawBuf has rawSize writable bytes; class invariant offset <= data.size.
 * data.size is a RECEIVED field (recvmsg writes it): every value is possible.
 * ensures (or throws): exactly the bytes data.raw[offset, offset+rawSize) are copied to rawBuf; they lie inside
 * data.raw[0, maxSize) and inside the stored size; offset advances by rawSize; nothing else changes.
 * ------------------------------------------------------------------------------------------------------------------ */
#if defined(T_GETRAW)
void h_getraw(void)
{
    size_t size0, n; unsigned int off0; char dst[M]; int type0;
    layout_lemmas();
    __CPROVER_assume(off0 <= size0);                 /* class invariant (established by prepForReading/sync, kept by getRaw) */
    __CPROVER_assume(n <= M);                        /* requires: the caller's buffer has rawSize bytes */
#ifdef VALID_SIZE
    __CPROVER_assume(size0 <= MAXSIZE);              /* second target: what holds when the stored size is honest */
#endif
    cv_set_size(size0); cv_set_offset(off0); cv_set_type(type0);
    cv_getRaw(dst, n);
    /* returned normally */
#ifdef TWIN_INSIDE
    __CPROVER_assert(n == 0 || (size_t)off0 + n > size0, "ensures: TWIN (negated) read range within the stored size");
#endif
    __CPROVER_assert(n == 0 || (size_t)off0 + n <= MAXSIZE,
                     "ensures: getRaw returns => the bytes read lie inside data.raw[0,maxSize) -- never beyond the buffer");
    __CPROVER_assert(n == 0 || (size_t)off0 + n <= size0, "ensures: getRaw returns => the bytes read lie inside the stored size (truncated content is an error)");
    __CPROVER_assert(n == 0 ? cv_mc_calls == 0 : (cv_mc_calls == 1 && COPY_OUT(0, off0, dst, n)),
                     "ensures: getRaw returns => exactly data.raw[offset, offset+rawSize) is copied to rawBuf, once");
    __CPROVER_assert(cv_offset() == (unsigned int)(off0 + n) && cv_size() == size0 && cv_type() == type0, "ensures: getRaw returns => offset advanced by rawSize (as unsigned int), size and type unchanged");
    __CPROVER_assert(cv_offset() <= cv_size(), "ensures: class invariant offset <= data.size re-established");
#ifdef REACH
    __CPROVER_assert(!(n == 4 && off0 == 0), "reach: a 4-byte read at offset 0 returns");
    __CPROVER_assert(!(n == 0), "reach: empty read returns");
    __CPROVER_assert(!(n > 0 && (size_t)off0 + n == size0), "reach: read of exactly the remaining bytes returns");
#endif
}
#endif

/* ------------------------------------------------------------------------------------------------------------------
 * putRaw(rawBuf, rawSize)   requires: rawBuf has rawSize readable bytes; class invariant data.size <= maxSize (messages
 * being built start from allocData(): size 0).   ensures (or throws): exactly rawSize bytes are copied to data.raw at the old
 * data.size; data.size grows by rawSize and stays <= maxSize; offset and type unchanged.
 * ------------------------------------------------------------------------------------------------------------------ */
#if defined(T_PUTRAW)
void h_putraw(void)
{
    size_t size0, n; unsigned int off0; char src[M]; int type0;
    layout_lemmas();
    __CPROVER_assume(size0 <= MAXSIZE && n <= M);
    cv_set_size(size0); cv_set_offset(off0); cv_set_type(type0);
    cv_putRaw(src, n);
#ifdef TWIN_SIZE
    __CPROVER_assert(cv_size() != size0 + n, "ensures: TWIN (negated) size grows by rawSize");
#else
    __CPROVER_assert(cv_size() == size0 + n, "ensures: putRaw returns => data.size grew by rawSize");
#endif
    __CPROVER_assert(cv_size() <= MAXSIZE, "ensures: putRaw returns => data.size <= maxSize (nothing written beyond data.raw)");
    __CPROVER_assert(n == 0 ? cv_mc_calls == 0 : (cv_mc_calls == 1 && COPY_IN(0, src, size0, n)),
                     "ensures: putRaw returns => exactly rawSize bytes are copied to data.raw at the old data.size, once");
    __CPROVER_assert(cv_offset() == off0 && cv_type() == type0, "ensures: putRaw returns => offset and type unchanged");
#ifdef REACH
    __CPROVER_assert(!(n == 0), "reach: empty put returns");
    __CPROVER_assert(!(size0 + n == MAXSIZE && n > 0), "reach: put that exactly fills the buffer returns");
#endif
}
#endif

/* ------------------------------------------------------------------------------------------------------------------
 * getString(s): the length field is RECEIVED content: every int is possible (the RANGE memcpy model hands getInt() an
 * arbitrary int).  Stored size honest (<= maxSize; the other case is getRaw's finding).
 * ensures (or throws): length == 0 => s.clean(), nothing else read; else 0 < length <= maxSize, the length bytes that
 * follow the length field lie inside the stored size and exactly they reach s.assign().
 * ------------------------------------------------------------------------------------------------------------------ */
#if defined(T_GETSTRING)
void h_getstring(void)
{
    size_t size0; unsigned int off0; int type0;
    __CPROVER_assume(off0 <= size0 && size0 <= MAXSIZE);
    cv_set_size(size0); cv_set_offset(off0); cv_set_type(type0);
    cv_getString();
    const int len = cv_mc_int[0];                     /* the length field as received */
    __CPROVER_assert(cv_mc_calls >= 1 && cv_mc_src[0] == (const void *)(cv_raw_base() + off0) && cv_mc_n[0] == sizeof(int) && (size_t)off0 + sizeof(int) <= size0,
                     "ensures: getString returns => the length field was read at the old offset, inside the stored size");
    __CPROVER_assert(len >= 0 && (size_t)len <= MAXSIZE, "ensures: getString returns => 0 <= length <= maxSize");
    __CPROVER_assert((size_t)off0 + sizeof(int) + (size_t)len <= size0, "ensures: getString returns => length field and content lie inside the stored size");
#ifdef TWIN_LEN
    __CPROVER_assert(!(len > 0 && cv_str_assigned == 1 && cv_str_assigned_len == len), "ensures: TWIN (negated) assigned length");
#else
    __CPROVER_assert(len == 0 ? (cv_str_assigned == 2 && cv_mc_calls == 1)
                              : (cv_str_assigned == 1 && cv_str_assigned_len == len && cv_mc_calls == 2 &&
                                 COPY_OUT(1, off0 + sizeof(int), cv_str_assigned_buf, len)),
                     "ensures: getString returns => empty string cleaned; otherwise exactly the length bytes after the length field reach assign()");
#endif
    __CPROVER_assert(cv_offset() == off0 + sizeof(int) + (unsigned)len && cv_size() == size0, "ensures: getString returns => offset advanced past the string, size unchanged");
#ifdef REACH
    __CPROVER_assert(!(len == 0), "reach: empty string returns");
    __CPROVER_assert(!(len == (int)MAXSIZE - 4 && off0 == 0), "reach: longest storable string returns");
#endif
}
#endif

/* putString(s): s.psize() is any non-negative int.  ensures (or throws): length <= maxSize; the length, then exactly the
 * string's bytes, are copied to data.raw at the old data.size; data.size grows by 4 + length and stays <= maxSize. */
#if defined(T_PUTSTRING)
void h_putstring(void)
{
    size_t size0; int type0; unsigned int off0;
    __CPROVER_assume(size0 <= MAXSIZE);
    __CPROVER_assume(cv_str_len >= 0);                 /* String invariant (stub) */
    const int len = cv_str_len;
    cv_set_size(size0); cv_set_offset(off0); cv_set_type(type0);
    cv_putString();
#ifdef TWIN_LEN
    __CPROVER_assert(cv_size() != size0 + sizeof(int) + (size_t)len, "ensures: TWIN (negated) size after putString");
#endif
    __CPROVER_assert((size_t)len <= MAXSIZE && cv_size() == size0 + sizeof(int) + (size_t)len && cv_size() <= MAXSIZE,
                     "ensures: putString returns => length <= maxSize, size grew by 4 + length, inside the buffer");
    __CPROVER_assert(cv_mc_calls >= 1 && cv_mc_dst[0] == (void *)(cv_raw_base() + size0) && cv_mc_n[0] == sizeof(int) && cv_mc_int[0] == len,
                     "ensures: putString returns => the length is stored first, at the old data.size");
    __CPROVER_assert(len == 0 ? cv_mc_calls == 1 : (cv_mc_calls == 2 && COPY_IN(1, cv_str_buf, size0 + sizeof(int), len)),
                     "ensures: putString returns => exactly the string's bytes follow the length field");
    __CPROVER_assert(cv_offset() == off0 && cv_type() == type0, "ensures: putString returns => offset and type unchanged");
#ifdef REACH
    __CPROVER_assert(!(len == 0), "reach: empty string stored");
    __CPROVER_assert(!(len == (int)MAXSIZE - 4), "reach: longest storable string stored");
#endif
}
#endif

/* ------------------------------------------------------------------------------------------------------------------
 * round trips at FIXED buffer positions with the EXACT memcpy model (bounded: the universal statement is the composition of
 * the putRaw and getRaw contracts above: put copies the bytes to data.raw[size ..), get copies data.raw[offset ..) out).
 * putInt(x)/putPod(x) then getInt()/getPod() == x;  putFixed(b,n) then getFixed(c,n) => c == b, n <= 64.
 * ------------------------------------------------------------------------------------------------------------------ */
#if defined(T_RT_INT)
static void rt_int_at(size_t size0)
{
    int x, type0; _Bool pod;
    cv_set_size(size0); cv_set_offset((unsigned int)size0); cv_set_type(type0);
    int y;
    if (pod) { cv_putPodInt(&x); cv_getPodInt(&y); } else { cv_putInt(x); y = cv_getInt(); }
#ifdef TWIN_RT
    __CPROVER_assert(y != x, "ensures: TWIN (negated) round trip");
#else
    __CPROVER_assert(y == x, "ensures: putInt/putPod(x) then getInt/getPod yields x");
#endif
    __CPROVER_assert(cv_size() == size0 + sizeof(int) && cv_offset() == cv_size() && cv_size() <= MAXSIZE, "ensures: both cursors advanced by sizeof(int), inside the buffer");
#ifdef REACH
    __CPROVER_assert(!(pod && x == INT_MIN && size0 == 0), "reach: POD round trip of INT_MIN returns");
    __CPROVER_assert(!(!pod && size0 == MAXSIZE - sizeof(int)), "reach: int round trip in the last 4 bytes returns");
#endif
}
void h_rt_int(void)
{
    unsigned sel;
    if (sel == 0) rt_int_at(0); else if (sel == 1) rt_int_at(1); else if (sel == 2) rt_int_at(2047);
    else if (sel == 3) rt_int_at(MAXSIZE - sizeof(int)); else rt_int_at(MAXSIZE - sizeof(int) + 1);   /* the last one must throw */
}
#endif

#if defined(T_RT_FIXED)
#define F 64
static void rt_fixed_at(size_t size0)
{
    size_t n; char in[F], out[F]; int type0;
    __CPROVER_assume(n <= F);
    cv_set_size(size0); cv_set_offset((unsigned int)size0); cv_set_type(type0);
    cv_putFixed(in, n);
    cv_getFixed(out, n);
#ifdef TWIN_RT
    __CPROVER_assert(!(g < n) || out[g] != in[g], "ensures: TWIN (negated) round trip");
#else
    __CPROVER_assert(!(g < n) || out[g] == in[g], "ensures: putFixed(b,n) then getFixed(c,n) yields c == b (ghost index, n <= 64)");
#endif
    __CPROVER_assert(cv_size() == size0 + n && cv_offset() == cv_size() && cv_size() <= MAXSIZE, "ensures: both cursors advanced by n, inside the buffer");
#ifdef REACH
    __CPROVER_assert(!(n == F && size0 == 0 && g == F - 1), "reach: 64-byte round trip returns (ghost at the last byte)");
    __CPROVER_assert(!(n == 1 && size0 == MAXSIZE - 1), "reach: 1-byte round trip in the last byte returns");
#endif
}
void h_rt_fixed(void)
{
    unsigned sel;
    if (sel == 0) rt_fixed_at(0); else if (sel == 1) rt_fixed_at(3); else if (sel == 2) rt_fixed_at(MAXSIZE - F); else rt_fixed_at(MAXSIZE - 1);
}
#endif

/* checkType(t): returns only if the stored kind equals t (no data component => kind 0) */
#if defined(T_CHECKTYPE)
void h_checktype(void)
{
    int type0, t; _Bool iov;
    cv_set_type(type0); cv_set_iov(iov);
    cv_checkType(t);
#ifdef TWIN_TYPE
    __CPROVER_assert((iov ? type0 : 0) != t, "ensures: TWIN (negated) type check");
#else
    __CPROVER_assert((iov ? type0 : 0) == t, "ensures: checkType returns => the stored message kind is the expected one");
#endif
#ifdef REACH
    __CPROVER_assert(!(iov && t == 5), "reach: matching type returns");
    __CPROVER_assert(!(!iov && t == 0), "reach: no data component, kind 0 returns");
#endif
}
#endif
#endif /* CV_NATIVE */
