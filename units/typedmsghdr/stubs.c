/* C side of the stubs: state of the String stub (stubs/SquidString.h) */
#include <stddef.h>
int cv_str_len; char cv_str_buf[4096]; int cv_str_assigned; int cv_str_assigned_len; char cv_str_assigned_g; const char *cv_str_assigned_buf;
extern size_t g;    /* the contract's ghost index */
/* String::assign(buf, len): the real one copies len bytes from buf; the model records len and the byte at the ghost index */
void cv_string_assign(const char *buf, int len)
{
    __CPROVER_assert(len >= 0 && __CPROVER_r_ok(buf, (size_t)len), "String stub: assign(buf,len) gets len readable bytes");
    cv_str_assigned = 1;
    cv_str_assigned_len = len;
    cv_str_assigned_buf = buf;
#ifdef CV_MEMCPY_EXACT
    cv_str_assigned_g = (len > 0 && g < (size_t)len) ? buf[g] : 0;
#endif
}

/* memcpy(dst, src, n): two ASSUMED models, chosen per target (CBMC flattens the 4 KB data.raw array: every access at a
 * symbolic position costs a 4096-way multiplexer, and its byte-wise library memcpy did not finish).
 * Both assert the two region preconditions -- these are the memory-safety obligations of getRaw/putRaw.
 *
 * RANGE model (default; the universal targets): records (dst, src, n) of the first two calls and does NOT move bytes.
 *   One exception: an int-sized copy whose destination is outside the message object (getInt()'s local) stores an
 *   ARBITRARY int there -- the received buffer's content is arbitrary, so is the int read from it -- and remembers it;
 *   an int-sized copy from outside the message (putInt()'s local) remembers the int it would store.
 *   The contract then states WHICH bytes each operation copies (addresses and counts); what copying means is memcpy's spec.
 * EXACT model (-DCV_MEMCPY_EXACT; the round-trip targets at fixed positions): byte-wise copy, n <= 64. */
extern const void *cv_msg_addr(void);
int cv_mc_calls; const void *cv_mc_src[2]; void *cv_mc_dst[2]; size_t cv_mc_n[2]; int cv_mc_int[2];
void *memcpy(void *dst, const void *src, size_t n)
{
    __CPROVER_assert(n == 0 || __CPROVER_r_ok(src, n), "memcpy: source region readable");
    __CPROVER_assert(n == 0 || __CPROVER_w_ok(dst, n), "memcpy: destination region writeable");
#ifdef CV_MEMCPY_EXACT
    __CPROVER_assert(n <= 64, "memcpy (exact model): at most 64 bytes");
    for (size_t i = 0; i < 64; i++)
        if (i < n) ((char *)dst)[i] = ((const char *)src)[i];
#else
    if (cv_mc_calls < 2) {
        cv_mc_src[cv_mc_calls] = src; cv_mc_dst[cv_mc_calls] = dst; cv_mc_n[cv_mc_calls] = n;
        if (n == sizeof(int)) {
            if (!__CPROVER_same_object(dst, cv_msg_addr())) { int received; *(int *)dst = received; cv_mc_int[cv_mc_calls] = received; }
            else if (!__CPROVER_same_object(src, cv_msg_addr())) cv_mc_int[cv_mc_calls] = *(const int *)src;
        }
    }
    cv_mc_calls++;
#endif
    return dst;
}
