/* C side of the stubs: state of the String stub (stubs/SquidString.h) */
#include <stddef.h>
int cv_str_len; char cv_str_buf[4096]; int cv_str_assigned; int cv_str_assigned_len; char cv_str_assigned_g;
extern size_t g;    /* the contract's ghost index */
/* String::assign(buf, len): the real one copies len bytes from buf; the model records len and the byte at the ghost index */
void cv_string_assign(const char *buf, int len)
{
    __CPROVER_assert(len >= 0 && __CPROVER_r_ok(buf, (size_t)len), "String stub: assign(buf,len) gets len readable bytes");
    cv_str_assigned = 1;
    cv_str_assigned_len = len;
    cv_str_assigned_g = (len > 0 && g < (size_t)len) ? buf[g] : 0;
}
