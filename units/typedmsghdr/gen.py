#!/usr/bin/env python3
"""Run at extraction time: checks natively (g++ -fsyntax-only, real system headers) that the platform's socket structs have the
layout the stub headers restate, so that the offsets inside Ipc::TypedMsgHdr are the real ones."""
import os, subprocess, sys, tempfile
src = r'''
#include <sys/socket.h>
#include <sys/uio.h>
#include <sys/un.h>
#include <cstddef>
static_assert(sizeof(struct iovec) == 16 && offsetof(struct iovec, iov_len) == 8, "iovec");
static_assert(sizeof(struct msghdr) == 56 && offsetof(struct msghdr, msg_namelen) == 8 && offsetof(struct msghdr, msg_iov) == 16 &&
              offsetof(struct msghdr, msg_iovlen) == 24 && offsetof(struct msghdr, msg_control) == 32 &&
              offsetof(struct msghdr, msg_controllen) == 40 && offsetof(struct msghdr, msg_flags) == 48, "msghdr");
static_assert(sizeof(struct cmsghdr) == 16 && offsetof(struct cmsghdr, cmsg_level) == 8 && offsetof(struct cmsghdr, cmsg_type) == 12, "cmsghdr");
static_assert(sizeof(struct sockaddr_un) == 110 && offsetof(struct sockaddr_un, sun_path) == 2, "sockaddr_un");
static_assert(CMSG_SPACE(sizeof(int)) == 24 && SOL_SOCKET == 1 && SCM_RIGHTS == 1, "cmsg macros");
int main() { return 0; }
'''
with tempfile.TemporaryDirectory() as d:
    p = os.path.join(d, "layout.cc")
    open(p, "w").write(src)
    r = subprocess.run(["g++", "-std=c++17", "-fsyntax-only", p], stdout=subprocess.PIPE, stderr=subprocess.STDOUT)
    if r.returncode != 0:
        sys.stdout.write(r.stdout.decode()[-1500:])
        sys.exit(1)
print("DROP: stubs/sys/socket.h, sys/un.h restate iovec/msghdr/cmsghdr/sockaddr_un/CMSG_* of this platform; field order/sizes checked natively by gen.py (static_assert against the system headers). CBMC's C++ front end itself lays classes out without alignment padding, so offsets inside the object are not the native ones; the contracts only use positions relative to data.raw")
