// Native replay for the typedmsghdr unit: the REAL src/ipc/TypedMsgHdr.cc (current tree), compiled natively with the real
// headers under ASan+UBSan.  Native stand-ins only for what the file needs from outside: ReportAndThrow_ (throws, as the real
// one does after logging) and the two String members getString() calls.
// A received message is simulated the way recvmsg() delivers it: bytes written through msg_iov[0].iov_base.
#define private public       // to place the read cursor (offset) where the counterexample has it
#include "squid.h"
#include "ipc/TypedMsgHdr.h"
#undef private
#include "base/TextException.h"
#include "SquidString.h"
#include REAL_TYPEDMSGHDR_CC
#include "replay.h"
#include <stdexcept>
#include <vector>

void ReportAndThrow_(int, const char *d, const SourceLocation &) { throw std::runtime_error(d); }
void String::clean() {}
void String::assign(const char *, int) {}

static Ipc::TypedMsgHdr *received(unsigned long size, int type)
{
    Ipc::TypedMsgHdr *m = new Ipc::TypedMsgHdr;       // heap object of exact size: ASan sees reads past its end
    m->prepForReading();
    struct Wire { int type_; size_t size; } w = { type, size };
    memcpy(m->msg_iov[0].iov_base, &w, sizeof(w));  // what recvmsg() does
    return m;
}

int main(int argc, char **argv)
{
    if (argc < 3) return 2;
    std::string mode = argv[1];
    Cex c;
    if (mode == "literal-getraw" && argc >= 5) { c.kv["size0"] = argv[2]; c.kv["off0"] = argv[3]; c.kv["n"] = argv[4]; mode = "getraw"; }
    else if (!c.load(argv[2])) return 2;
    const unsigned long maxSize = Ipc::TypedMsgHdr::maxSize;
    if (mode == "getraw" || mode == "getraw_validsize") {
        const unsigned long size0 = c.unum("size0"), n = c.unum("n"); const unsigned int off0 = (unsigned int)c.unum("off0");
        Ipc::TypedMsgHdr *m = received(size0, 7);
        m->offset = off0;
        std::vector<char> out(n ? n : 1);
        printf("received data.size=%lu, offset=%u, getFixed(buf, %lu), maxSize=%lu\n", size0, off0, n, maxSize);
        try { m->checkType(7); m->getFixed(out.data(), n); }
        catch (const std::exception &e) { printf("threw: %s\n", e.what()); delete m; RP_OK("error raised"); }
        if (n > 0 && (unsigned long)off0 + n > maxSize)
            RP_FAIL("getFixed returned normally after reading data.raw[%u..%lu), beyond the %lu-byte buffer", off0, off0 + n, maxSize);
        if (n > 0 && (unsigned long)off0 + n > size0) RP_FAIL("read past the stored size");
        delete m;
        RP_OK("read inside the buffer");
    }
    if (mode == "putraw") {
        const unsigned long size0 = c.unum("size0"), n = c.unum("n");
        Ipc::TypedMsgHdr *m = new Ipc::TypedMsgHdr; m->setType(7); m->data.size = size0;
        std::vector<char> in(n ? n : 1, 'x');
        try { m->putFixed(in.data(), n); }
        catch (const std::exception &e) { printf("threw: %s\n", e.what()); delete m; RP_OK("error raised"); }
        if (m->data.size != size0 + n || m->data.size > maxSize) RP_FAIL("putFixed returned with data.size=%lu", (unsigned long)m->data.size);
        delete m;
        RP_OK("stored inside the buffer");
    }
    if (mode == "rt_int") {
        const int x = (int)c.num("x");
        Ipc::TypedMsgHdr m; m.setType(7);
        m.putInt(x); int y = m.getInt();
        if (y != x) RP_FAIL("putInt(%d) then getInt() gave %d", x, y);
        RP_OK("round trip");
    }
    printf("no native replay for mode %s\n", mode.c_str());
    return 0;
}
