/* models.c -- contract models used in harness-mode targets (see unit.json "trusted") */
#include <stddef.h>
