/* models.c -- contract models for harness-mode targets (plain cbmc has no --replace-call-with-contract).
 *
 * With -DM_<X> the real definition of X is compiled under the name X_real (extraction rule + cv_pre.h) and every call of X
 * in the real file goes to the model below = X's contract in the replace-call reading: requires ASSERTED at the call,
 * frame havocked, ensures ASSUMED.  The assumed predicate is the very function (specs.h) that X's own target asserts on
 * the real X, so a model cannot promise more than was proved:
 *    rfc1035NameUnpack   proved by  nameunpack (--dfcc, same clauses written out) and nameunpack_term
 *    rfc1035QueryUnpack  proved by  queryunpack        rfc1035RRUnpack  proved by  rrunpack
 * Ghost-index clauses are assumed for ONE arbitrary index only (weaker than proved: sound).
 * -DM_NUL adds the NUL clause to the NameUnpack model (used only as induction hypothesis by nameunpack_term).
 * -DM_RRDESTROY: rfc1035RRDestroy is the real loop restricted to the first KMAX entries; all later entries are ASSERTED to
 *   hold no rdata (ghost index).  Used only by message_safe, where ancount (0..65535) is arbitrary but fewer than
 *   KMAX = N/11+1 records fit into N octets.  The real rfc1035RRDestroy is checked by target rr_destroy. */
#include <stddef.h>
#include <stdlib.h>
#include <sys/types.h>
#include <netinet/in.h>
#include "dns/rfc1035.h"
#include "specs.h"

unsigned int cv_nondet_uint(void);
unsigned short cv_nondet_ushort(void);
int cv_nondet_int(void);
size_t cv_nondet_size(void);
void free_const(const void *);
void *xmalloc(size_t);

#ifdef M_NAMEUNPACK
int rfc1035NameUnpack(const char *buf, size_t sz, unsigned int *off, unsigned short *rdlength, char *name, size_t ns, int rdepth)
{
    /* requires: checked at every call site */
    __CPROVER_assert(1 <= sz && sz <= N && __CPROVER_r_ok(buf, sz), "NameUnpack requires: 1 <= sz <= N and buf[0,sz) readable");
    __CPROVER_assert(__CPROVER_rw_ok(off, sizeof(unsigned int)), "NameUnpack requires: off valid");
    __CPROVER_assert(rdlength == NULL || __CPROVER_rw_ok(rdlength, sizeof(unsigned short)), "NameUnpack requires: rdlength NULL or valid");
    __CPROVER_assert(1 <= ns && ns <= NS && __CPROVER_w_ok(name, ns), "NameUnpack requires: 1 <= ns <= 256 and name[0,ns) writable");
    __CPROVER_assert(rdlength == NULL || (size_t)*rdlength + ns <= 65535, "NameUnpack requires: rdlength count cannot wrap");
    __CPROVER_assert(0 <= rdepth && rdepth <= 65, "NameUnpack requires: 0 <= rdepth <= 65");
    /* is_fresh also demands pairwise distinct objects */
    __CPROVER_assert(!__CPROVER_same_object(name, buf) && !__CPROVER_same_object(name, off) &&
                     !__CPROVER_same_object(off, buf) &&
                     (rdlength == NULL || (!__CPROVER_same_object(rdlength, name) && !__CPROVER_same_object(rdlength, buf) &&
                                           !__CPROVER_same_object(rdlength, off))),
                     "NameUnpack requires: buf, off, rdlength, name are separate objects");
    /* assigns: *off, *rdlength, name[0,ns) */
    unsigned int off0 = *off;
    unsigned short rdl0 = rdlength ? *rdlength : 0;
    *off = cv_nondet_uint();
    if (rdlength)
        *rdlength = cv_nondet_ushort();
    __CPROVER_havoc_slice(name, ns);
    int r = cv_nondet_int();
    /* ensures */
    __CPROVER_assume(spec_name_post(sz, off0, *off, r, rdlength != NULL, rdl0, rdlength ? *rdlength : 0, ns));
#ifdef M_NUL
    if (r == 0) {
        size_t k = cv_nondet_size();     /* witness of "some byte of name[0,ns) is NUL" */
        __CPROVER_assume(k < ns && name[k] == 0);
    }
#endif
    return r;
}
#endif

#ifdef M_QUERYUNPACK
int rfc1035QueryUnpack(const char *buf, size_t sz, unsigned int *off, rfc1035_query *query)
{
    __CPROVER_assert(1 <= sz && sz <= N && __CPROVER_r_ok(buf, sz), "QueryUnpack requires: 1 <= sz <= N and buf[0,sz) readable");
    __CPROVER_assert(__CPROVER_rw_ok(off, sizeof(unsigned int)), "QueryUnpack requires: off valid");
    __CPROVER_assert(__CPROVER_w_ok(query, sizeof(*query)), "QueryUnpack requires: query writable");
    __CPROVER_assert(!__CPROVER_same_object(query, buf) && !__CPROVER_same_object(query, off) && !__CPROVER_same_object(off, buf),
                     "QueryUnpack requires: buf, off, query are separate objects");
    unsigned int off0 = *off;
    *off = cv_nondet_uint();
    rfc1035_query anyq;                   /* uninitialised local = arbitrary value (cheaper than a byte-wise havoc) */
    *query = anyq;
    int r = cv_nondet_int();
    __CPROVER_assume(spec_query_post(buf, sz, off0, *off, r, query, cv_nondet_size()));
    return r;
}
#endif

#ifdef M_RRUNPACK
int rfc1035RRUnpack(const char *buf, size_t sz, unsigned int *off, rfc1035_rr *RR)
{
    __CPROVER_assert(1 <= sz && sz <= N && __CPROVER_r_ok(buf, sz), "RRUnpack requires: 1 <= sz <= N and buf[0,sz) readable");
    __CPROVER_assert(__CPROVER_rw_ok(off, sizeof(unsigned int)), "RRUnpack requires: off valid");
    __CPROVER_assert(__CPROVER_w_ok(RR, sizeof(*RR)), "RRUnpack requires: RR writable");
    __CPROVER_assert(!__CPROVER_same_object(RR, buf) && !__CPROVER_same_object(RR, off) && !__CPROVER_same_object(off, buf),
                     "RRUnpack requires: buf, off, RR are separate objects");
    unsigned int off0 = *off;
    *off = cv_nondet_uint();
    rfc1035_rr anyrr;                     /* uninitialised local = arbitrary value (cheaper than a byte-wise havoc) */
    *RR = anyrr;
    int r = cv_nondet_int();
    if (r == 0) {
        size_t n = cv_nondet_size();
        __CPROVER_assume(n <= 65535);
        RR->rdata = xmalloc(n);          /* a fresh heap block; contents arbitrary */
    }
    __CPROVER_assume(spec_rr_post(buf, sz, off0, *off, r, RR, cv_nondet_size()));
    return r;
}
#endif

#ifdef M_RRDESTROY
void rfc1035RRDestroy(rfc1035_rr **rr, int n)
{
    if (*rr == NULL)
        return;
    int gi = cv_nondet_int();
    __CPROVER_assert(!(gi >= KMAX && gi < n) || (*rr)[gi].rdata == NULL,
                     "RRDestroy model: no record beyond the first N/11+1 holds rdata (so the real loop frees nothing there)");
    int k = n < KMAX ? n : KMAX;
    while (k-- > 0) {
        if ((*rr)[k].rdata)
            free_const((*rr)[k].rdata);
    }
    free_const(*rr);
    *rr = NULL;
}
#endif
