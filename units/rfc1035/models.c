/* models.c -- contract models for harness-mode targets (plain cbmc has no --replace-call-with-contract).
 *
 * With -DM_<X> the real definition of X is compiled under the name X_real (extraction rule + cv_pre.h) and every call of X
 * in the real file goes to the model below = X's contract in the replace-call reading: requires ASSERTED at the call,
 * frame havocked, ensures ASSUMED.  The assumed predicate is the very function (specs.h) that X's own target asserts on
 * the real X, so a model cannot promise more than was proved:
 *    rfc1035NameUnpack   proved by  nameunpack (--dfcc, same clauses written out) and nameunpack_term
 *    rfc1035QueryUnpack  proved by  queryunpack        rfc1035RRUnpack  proved by  rrunpack
 * Ghost-index clauses are assumed for ONE arbitrary index only (weaker than proved: sound).
 * -DM_NUL adds the NUL clause to the NameUnpack model (used only as induction hypothesis by nameunpack_term).
 * -DM_RRDESTROY: rfc1035RRDestroy is the real loop restricted to the first KMAX entries; all later entries are ASSERTED to
 *   hold no rdata (ghost index).  Used only by message_safe, where ancount (0..65535) is arbitrary but fewer than
 *   KMAX = N/11+1 records fit into N octets.  The real rfc1035RRDestroy is checked by target rr_destroy. */
#include <stddef.h>
#include <stdlib.h>
#include <sys/types.h>
#include <netinet/in.h>
#include "dns/rfc1035.h"
#include "specs.h"

unsigned int cv_nondet_uint(void);
unsigned short cv_nondet_ushort(void);
int cv_nondet_int(void);
size_t cv_nondet_size(void);
void free_const(const void *);
void *xmalloc(size_t);

#ifdef M_NAMEUNPACK
#ifdef M_DEPTH0_REAL
int rfc1035NameUnpack_real(const char *buf, size_t sz, unsigned int *off, unsigned short *rdlength, char *name, size_t ns, int rdepth);
#endif
int rfc1035NameUnpack(const char *buf, size_t sz, unsigned int *off, unsigned short *rdlength, char *name, size_t ns, int rdepth)
{
#ifdef M_DEPTH0_REAL
    /* round-trip targets: the outermost call (rdepth 0, from QueryUnpack/RRUnpack) runs the REAL body.  The packers of this file
     * emit no compression pointers, so the recursive call behind a pointer must be unreachable there: that is ASSERTED (a
     * failure is a reported violation), after which the path is cut. */
    if (rdepth == 0)
        return rfc1035NameUnpack_real(buf, sz, off, rdlength, name, ns, rdepth);
    __CPROVER_assert(0, "ensures: decoding a name packed by rfc1035NamePack follows no compression pointer");
    __CPROVER_assume(0);
#endif
    /* requires: checked at every call site */
    __CPROVER_assert(1 <= sz && sz <= N && __CPROVER_r_ok(buf, sz), "NameUnpack requires: 1 <= sz <= N and buf[0,sz) readable");
    __CPROVER_assert(__CPROVER_rw_ok(off, sizeof(unsigned int)), "NameUnpack requires: off valid");
    __CPROVER_assert(rdlength == NULL || __CPROVER_rw_ok(rdlength, sizeof(unsigned short)), "NameUnpack requires: rdlength NULL or valid");
    __CPROVER_assert(1 <= ns && ns <= NS && __CPROVER_w_ok(name, ns), "NameUnpack requires: 1 <= ns <= 256 and name[0,ns) writable");
    __CPROVER_assert(rdlength == NULL || (size_t)*rdlength + ns <= 65535, "NameUnpack requires: rdlength count cannot wrap");
    __CPROVER_assert(0 <= rdepth && rdepth <= 65, "NameUnpack requires: 0 <= rdepth <= 65");
    /* is_fresh also demands pairwise distinct objects */
    __CPROVER_assert(!__CPROVER_same_object(name, buf) && !__CPROVER_same_object(name, off) &&
                     !__CPROVER_same_object(off, buf) &&
                     (rdlength == NULL || (!__CPROVER_same_object(rdlength, name) && !__CPROVER_same_object(rdlength, buf) &&
                                           !__CPROVER_same_object(rdlength, off))),
                     "NameUnpack requires: buf, off, rdlength, name are separate objects");
    /* assigns: *off, *rdlength, name[0,ns) */
    unsigned int off0 = *off;
    unsigned short rdl0 = rdlength ? *rdlength : 0;
    *off = cv_nondet_uint();
    if (rdlength)
        *rdlength = cv_nondet_ushort();
    __CPROVER_havoc_slice(name, ns);
    int r = cv_nondet_int();
    /* ensures */
    __CPROVER_assume(spec_name_post(sz, off0, *off, r, rdlength != NULL, rdl0, rdlength ? *rdlength : 0, ns));
#ifdef M_NUL
    if (r == 0) {
        size_t k = cv_nondet_size();     /* witness of "some byte of name[0,ns) is NUL" */
        __CPROVER_assume(k < ns && name[k] == 0);
    }
#endif
    return r;
}
#endif

/* -DM_LIGHT (target message_body): light contract stubs of QueryUnpack / RRUnpack.  Same requires (ASSERTED), the *off / return
 * value part of the proved postcondition (spec_query_post / spec_rr_post) ASSUMED, but the 256-byte name arrays of *query / *RR
 * are NOT havocked and no byte-level struct copy is made (that is what cbmc's array post-processing choked on).  Only the
 * scalar members are given arbitrary values; RR->rdata becomes NULL (refused) or a fresh block (accepted).  Ghost counters
 * record the calls so that the harness can state MessageUnpack's own counting obligations. */
#ifdef M_LIGHT
unsigned cv_q_calls, cv_q_ok, cv_rr_calls, cv_rr_ok;      /* ghosts (zero at harness start) */
const void *cv_q_last, *cv_rr_last;                       /* where the last call was asked to write */
unsigned cv_off_max;                                      /* largest *off handed back on success */
#endif

#ifdef M_XCALLOC_SPLIT
/* cbmc 6.11 with --unwinding-assertions reports every call of a body-less function as a failed "no body for callee" check, so
 * the targets that unwind with assertions get explicit bodies: an uninitialised local is an arbitrary value in cbmc. */
unsigned int cv_nondet_uint(void) { unsigned int x; return x; }
unsigned short cv_nondet_ushort(void) { unsigned short x; return x; }
int cv_nondet_int(void) { int x; return x; }
size_t cv_nondet_size(void) { size_t x; return x; }

/* xcalloc as called from rfc1035.c in target message_body (cv_pre.h renames it there): the same assumed contract as
 * cv/stubs/xalloc.c (zeroed block of exactly n*sz bytes, never NULL), but written as a case split over n = 1..8 so that every
 * block has a CONSTANT size for cbmc (an array of symbolic size that is written and then read at symbolic indices is what
 * cbmc's array post-processing does not get through).  A count outside 1..8 is reported as "model:" (undecided), not ignored. */
void *calloc(size_t, size_t);
void *cv_xcalloc_split(size_t n, size_t sz)
{
    void *p = 0;
    if (n == 1) p = calloc(1, sz);
    else if (n == 2) p = calloc(2, sz);
    else if (n == 3) p = calloc(3, sz);
    else if (n == 4) p = calloc(4, sz);
    else if (n == 5) p = calloc(5, sz);
    else if (n == 6) p = calloc(6, sz);
    else if (n == 7) p = calloc(7, sz);
    else if (n == 8) p = calloc(8, sz);
    else __CPROVER_assert(0, "model: xcalloc called with a count outside 1..8 (the target's ANCOUNT bound must keep it inside)");
    __CPROVER_assume(p != 0);
    return p;
}
#endif

#if defined(M_QUERYUNPACK) && defined(M_LIGHT)
int rfc1035QueryUnpack(const char *buf, size_t sz, unsigned int *off, rfc1035_query *query)
{
    __CPROVER_assert(1 <= sz && sz <= N && __CPROVER_r_ok(buf, sz), "QueryUnpack requires: 1 <= sz <= N and buf[0,sz) readable");
    __CPROVER_assert(__CPROVER_rw_ok(off, sizeof(unsigned int)), "QueryUnpack requires: off valid");
    __CPROVER_assert(__CPROVER_w_ok(query, sizeof(*query)), "QueryUnpack requires: query writable");
    __CPROVER_assert(!__CPROVER_same_object(query, buf) && !__CPROVER_same_object(query, off) && !__CPROVER_same_object(off, buf),
                     "QueryUnpack requires: buf, off, query are separate objects");
    unsigned int off0 = *off, any_off;      /* uninitialised locals = arbitrary values */
    unsigned short any_t, any_c;
    int r;
    __CPROVER_assert(off0 <= sz, "MessageUnpack lemma: the offset handed to the question decoder does not exceed the datagram size");
    *off = any_off;
    query->qtype = any_t;
    query->qclass = any_c;
    __CPROVER_assume(r == 0 || r == 1);
    __CPROVER_assume(r != 0 || (*off <= sz && *off >= off0 + 5));       /* spec_query_post, the *off part */
    cv_q_calls++;
    cv_q_last = query;
    if (r == 0) { cv_q_ok++; if (*off > cv_off_max) cv_off_max = *off; }
    return r;
}
#elif defined(M_QUERYUNPACK)
int rfc1035QueryUnpack(const char *buf, size_t sz, unsigned int *off, rfc1035_query *query)
{
    __CPROVER_assert(1 <= sz && sz <= N && __CPROVER_r_ok(buf, sz), "QueryUnpack requires: 1 <= sz <= N and buf[0,sz) readable");
    __CPROVER_assert(__CPROVER_rw_ok(off, sizeof(unsigned int)), "QueryUnpack requires: off valid");
    __CPROVER_assert(__CPROVER_w_ok(query, sizeof(*query)), "QueryUnpack requires: query writable");
    __CPROVER_assert(!__CPROVER_same_object(query, buf) && !__CPROVER_same_object(query, off) && !__CPROVER_same_object(off, buf),
                     "QueryUnpack requires: buf, off, query are separate objects");
    unsigned int off0 = *off;
    *off = cv_nondet_uint();
    rfc1035_query anyq;                   /* uninitialised local = arbitrary value (cheaper than a byte-wise havoc) */
    *query = anyq;
    int r = cv_nondet_int();
    __CPROVER_assume(spec_query_post(buf, sz, off0, *off, r, query, cv_nondet_size()));
    return r;
}
#endif

#if defined(M_RRUNPACK) && defined(M_LIGHT)
int rfc1035RRUnpack(const char *buf, size_t sz, unsigned int *off, rfc1035_rr *RR)
{
    __CPROVER_assert(1 <= sz && sz <= N && __CPROVER_r_ok(buf, sz), "RRUnpack requires: 1 <= sz <= N and buf[0,sz) readable");
    __CPROVER_assert(__CPROVER_rw_ok(off, sizeof(unsigned int)), "RRUnpack requires: off valid");
    __CPROVER_assert(__CPROVER_w_ok(RR, sizeof(*RR)), "RRUnpack requires: RR writable");
    __CPROVER_assert(!__CPROVER_same_object(RR, buf) && !__CPROVER_same_object(RR, off) && !__CPROVER_same_object(off, buf),
                     "RRUnpack requires: buf, off, RR are separate objects");
    unsigned int off0 = *off, any_off;      /* uninitialised locals = arbitrary values */
    int r;
    __CPROVER_assert(off0 < sz, "MessageUnpack lemma: the offset handed to the record decoder lies inside the datagram");
    *off = any_off;
    __CPROVER_assume(r == 0 || r == 1);
    __CPROVER_assume(r != 0 || (*off <= sz && *off >= off0 + 11));      /* spec_rr_post, the *off part */
    RR->rdata = r == 0 ? (char *)xmalloc(1) : (char *)0;               /* accepted: a block the caller must free; refused: none */
    cv_rr_calls++;
    cv_rr_last = RR;
    if (r == 0) { cv_rr_ok++; if (*off > cv_off_max) cv_off_max = *off; }
    return r;
}
#elif defined(M_RRUNPACK)
int rfc1035RRUnpack(const char *buf, size_t sz, unsigned int *off, rfc1035_rr *RR)
{
    __CPROVER_assert(1 <= sz && sz <= N && __CPROVER_r_ok(buf, sz), "RRUnpack requires: 1 <= sz <= N and buf[0,sz) readable");
    __CPROVER_assert(__CPROVER_rw_ok(off, sizeof(unsigned int)), "RRUnpack requires: off valid");
    __CPROVER_assert(__CPROVER_w_ok(RR, sizeof(*RR)), "RRUnpack requires: RR writable");
    __CPROVER_assert(!__CPROVER_same_object(RR, buf) && !__CPROVER_same_object(RR, off) && !__CPROVER_same_object(off, buf),
                     "RRUnpack requires: buf, off, RR are separate objects");
    unsigned int off0 = *off;
    *off = cv_nondet_uint();
    rfc1035_rr anyrr;                     /* uninitialised local = arbitrary value (cheaper than a byte-wise havoc) */
    *RR = anyrr;
    int r = cv_nondet_int();
    if (r == 0) {
        size_t n = cv_nondet_size();
        __CPROVER_assume(n <= 65535);
        RR->rdata = xmalloc(n);          /* a fresh heap block; contents arbitrary */
    }
    __CPROVER_assume(spec_rr_post(buf, sz, off0, *off, r, RR, cv_nondet_size()));
    return r;
}
#endif

#ifdef M_RRDESTROY
void rfc1035RRDestroy(rfc1035_rr **rr, int n)
{
    if (*rr == NULL)
        return;
    int gi = cv_nondet_int();
    __CPROVER_assert(!(gi >= KMAX && gi < n) || (*rr)[gi].rdata == NULL,
                     "RRDestroy model: no record beyond the first N/11+1 holds rdata (so the real loop frees nothing there)");
    int k = n < KMAX ? n : KMAX;
    while (k-- > 0) {
        if ((*rr)[k].rdata)
            free_const((*rr)[k].rdata);
    }
    free_const(*rr);
    *rr = NULL;
}
#endif

#ifdef M_STRSTUBS
/* ---- assumed models for the packing side (round-trip targets) ---- */
#include <sys/types.h>
/* strtok(3), C standard 7.24.5.8, for the only delimiter set the file uses ("."): skips leading delimiters, returns the token,
 * overwrites the delimiter that ends it with NUL and remembers the position behind it.  Any other delimiter string = "stub:". */
static char *cv_strtok_save;
char *strtok(char *s, const char *delim)
{
    __CPROVER_assert(delim != 0 && delim[0] == '.' && delim[1] == 0, "stub: strtok is modelled for the delimiter set \".\" only");
    if (s == 0)
        s = cv_strtok_save;
    if (s == 0)
        return 0;
    while (*s == '.')
        s++;
    if (*s == 0) {
        cv_strtok_save = 0;
        return 0;
    }
    char *tok = s;
    while (*s != 0 && *s != '.')
        s++;
    if (*s != 0) {
        *s = 0;
        cv_strtok_save = s + 1;
    } else
        cv_strtok_save = 0;
    return tok;
}
/* memcpy as a byte loop (C standard semantics; every byte access is pointer-checked): cbmc's own model of a symbolic-length
 * memcpy leaves an array-copy constraint that the propositional back end does not get through for these targets */
void *memcpy(void *dst, const void *src, size_t n)
{
    for (size_t k = 0; k < n; k++)
        ((char *)dst)[k] = ((const char *)src)[k];
    return dst;
}
/* compat/xstring.cc xstrdup: exits on NULL (asserted here), otherwise a fresh copy of the string; never NULL.
 * DEVIATION (listed under trusted): the block has the constant size L+1 >= strlen(s)+1 instead of exactly strlen(s)+1 (a block
 * of symbolic size that is written and read at symbolic offsets is what cbmc does not get through), so a read of the copy
 * behind its NUL but inside L+1 bytes would not be flagged in the round-trip targets.  Longer strings: "model:" (undecided). */
char *xstrdup(const char *s)
{
    __CPROVER_assert(s != 0, "xstrdup requires: non-NULL string");
    size_t n = 0;
    while (s[n] != 0)
        n++;
    __CPROVER_assert(n <= L, "model: xstrdup of a string longer than L bytes (the target's name bound must keep it shorter)");
    char *p = xmalloc(L + 1);
    for (size_t k = 0; k <= n; k++)
        p[k] = s[k];
    return p;
}
/* src/dns/rfc2671.cc is not compiled: the round-trip targets build queries without the EDNS OPT record (edns_sz <= 0) */
int rfc2671RROptPack(char *buf, size_t sz, ssize_t edns_sz)
{
    __CPROVER_assert(0, "stub: rfc2671RROptPack (EDNS OPT record) is not modelled");
    return 0;
}
#endif
