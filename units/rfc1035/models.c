/* models.c -- contract models for harness-mode targets (plain cbmc has no --replace-call-with-contract).
 *
 * -DM_NAMEUNPACK: every call of rfc1035NameUnpack (from rfc1035RRUnpack, rfc1035QueryUnpack and the recursive call inside
 *   rfc1035NameUnpack itself, whose real definition is then named rfc1035NameUnpack_real) goes to the model below, which IS
 *   the contract NAMEUNPACK_CONTRACT of contract.c, clause by clause, in the replace-call-with-contract reading:
 *   requires -> asserted at the call, assigns -> havocked, ensures -> assumed.  The contract itself is proved on the real
 *   function by the targets `nameunpack` (--dfcc --enforce-contract-rec: everything but the NUL clause) and
 *   `nameunpack_term` (the NUL clause, by induction over 65 - rdepth with this model as the induction hypothesis).
 * -DM_RRDESTROY: rfc1035RRDestroy is the real loop restricted to the first KMAX entries; all later entries are asserted to
 *   hold no rdata (ghost index).  Used only by `message_safe`, where ancount (0..65535) is arbitrary but at most
 *   N/11 records can have been unpacked from N bytes.  The real rfc1035RRDestroy runs in `message_small`/`rr_destroy`. */
#include <stddef.h>
#include <stdlib.h>
#include <sys/types.h>
#include <netinet/in.h>
#include "dns/rfc1035.h"

#ifndef N
#define N 64
#endif
#define NS RFC1035_MAXHOSTNAMESZ

#ifdef M_NAMEUNPACK
unsigned int cv_nondet_uint(void);
unsigned short cv_nondet_ushort(void);
int cv_nondet_int(void);
size_t cv_nondet_size(void);

int rfc1035NameUnpack(const char *buf, size_t sz, unsigned int *off, unsigned short *rdlength, char *name, size_t ns, int rdepth)
{
    /* requires: checked at every call site */
    __CPROVER_assert(1 <= sz && sz <= N && __CPROVER_r_ok(buf, sz), "NameUnpack requires: 1 <= sz <= N and buf[0,sz) readable");
    __CPROVER_assert(__CPROVER_rw_ok(off, sizeof(unsigned int)), "NameUnpack requires: off valid");
    __CPROVER_assert(rdlength == NULL || __CPROVER_rw_ok(rdlength, sizeof(unsigned short)), "NameUnpack requires: rdlength NULL or valid");
    __CPROVER_assert(1 <= ns && ns <= NS && __CPROVER_w_ok(name, ns), "NameUnpack requires: 1 <= ns <= 256 and name[0,ns) writable");
    __CPROVER_assert(rdlength == NULL || (size_t)*rdlength + ns <= 65535, "NameUnpack requires: rdlength count cannot wrap");
    __CPROVER_assert(0 <= rdepth && rdepth <= 65, "NameUnpack requires: 0 <= rdepth <= 65");
    /* is_fresh also demands pairwise distinct objects */
    __CPROVER_assert(!__CPROVER_same_object(name, buf) && !__CPROVER_same_object(name, off) &&
                     !__CPROVER_same_object(off, buf) &&
                     (rdlength == NULL || (!__CPROVER_same_object(rdlength, name) && !__CPROVER_same_object(rdlength, buf) &&
                                           !__CPROVER_same_object(rdlength, off))),
                     "NameUnpack requires: buf, off, rdlength, name are separate objects");
    /* assigns: *off, *rdlength, name[0,ns) */
    unsigned int old_off = *off;
    unsigned short old_rdl = rdlength ? *rdlength : 0;
    *off = cv_nondet_uint();
    if (rdlength)
        *rdlength = cv_nondet_ushort();
    __CPROVER_havoc_slice(name, ns);
    int r = cv_nondet_int();
    /* ensures */
    __CPROVER_assume(r == 0 || r == 1);
    if (r == 0) {
        size_t k = cv_nondet_size();     /* witness of "some byte of name[0,ns) is NUL" */
        __CPROVER_assume(*off <= sz && *off > old_off && k < ns && name[k] == 0);
    }
    if (rdlength)
        __CPROVER_assume(*rdlength >= old_rdl && (size_t)(*rdlength - old_rdl) <= ns);
    return r;
}
#endif

#ifdef M_RRDESTROY
#define KMAX (N / 11 + 1)     /* an RR occupies at least 11 octets (root name + 10 fixed), so fewer than KMAX fit in N */
int cv_nondet_int2(void);
void free_const(const void *);
void rfc1035RRDestroy(rfc1035_rr **rr, int n)
{
    if (*rr == NULL)
        return;
    int gi = cv_nondet_int2();
    __CPROVER_assert(!(gi >= KMAX && gi < n) || (*rr)[gi].rdata == NULL,
                     "RRDestroy model: no record beyond the first N/11+1 holds rdata (so the real loop frees nothing there)");
    int k = n < KMAX ? n : KMAX;
    while (k-- > 0) {
        if ((*rr)[k].rdata)
            free_const((*rr)[k].rdata);
    }
    free_const(*rr);
    *rr = NULL;
}
#endif
