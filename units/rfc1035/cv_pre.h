/* cv_pre.h -- included at the top of the extracted rfc1035.c (one extraction rule adds the #include).
 * Lets a target swap a real function for its proven contract ("model", units/rfc1035/models.c):
 * with -DM_<X> the real definition is compiled under the name <x>_real and calls go to the model. */
#ifndef CV_PRE_H
#define CV_PRE_H
#ifdef M_NAMEUNPACK
#define CV_REAL_NAMEUNPACK rfc1035NameUnpack_real
#include <stddef.h>
/* the model's prototype (same signature as the real definition), so that callers in the real file convert arguments correctly */
int rfc1035NameUnpack(const char *buf, size_t sz, unsigned int *off, unsigned short *rdlength, char *name, size_t ns, int rdepth);
#else
#define CV_REAL_NAMEUNPACK rfc1035NameUnpack
#endif
#ifdef M_RRDESTROY
#define CV_REAL_RRDESTROY rfc1035RRDestroy_real
#else
#define CV_REAL_RRDESTROY rfc1035RRDestroy
#endif
#ifdef M_QUERYUNPACK
#define CV_REAL_QUERYUNPACK rfc1035QueryUnpack_real
#else
#define CV_REAL_QUERYUNPACK rfc1035QueryUnpack
#endif
#ifdef M_RRUNPACK
#define CV_REAL_RRUNPACK rfc1035RRUnpack_real
#else
#define CV_REAL_RRUNPACK rfc1035RRUnpack
#endif
#ifdef M_XCALLOC_SPLIT
/* target message_body: calls of xcalloc in rfc1035.c go to the constant-size case split in models.c (same contract) */
#define xcalloc cv_xcalloc_split
#endif
#if defined(M_QUERYUNPACK) || defined(M_RRUNPACK)
#include <sys/types.h>
#include <netinet/in.h>
#include "dns/rfc1035.h"
int rfc1035QueryUnpack(const char *buf, size_t sz, unsigned int *off, rfc1035_query *query);
int rfc1035RRUnpack(const char *buf, size_t sz, unsigned int *off, rfc1035_rr *RR);
#endif
#endif
