// Native replay for the rfc1035 unit: compiles the REAL src/dns/rfc1035.cc (current tree) with ASan+UBSan, feeds it the
// verifier's counterexample (datagram bytes in an exact-size heap block, so any out-of-bounds read/write is an ASan report),
// and re-evaluates the postconditions natively.
#include "replay.h"
#include <cstdlib>
#include <cstring>
#include <string>
#include "squid.h"
#include "dns/rfc1035.h"
#include "dns/rfc2671.h"
// squid helpers the real file links against
void *xmalloc(size_t n) { void *p = malloc(n < 1 ? 1 : n); if (!p) abort(); return p; }
void *xcalloc(size_t n, size_t sz) { void *p = calloc(n < 1 ? 1 : n, sz < 1 ? 1 : sz); if (!p) abort(); return p; }
void free_const(const void *p) { free(const_cast<void *>(p)); }
char *xstrdup(const char *s) { return strdup(s); }
char *xstrncpy(char *d, const char *s, size_t n) { if (!n) return d; strncpy(d, s, n - 1); d[n - 1] = 0; return d; }
int rfc2671RROptPack(char *, size_t, ssize_t) { return 0; }
#include REAL_RFC1035_CC

static char *exact(const std::string &s) { char *b = (char *)malloc(s.size() ? s.size() : 1); memcpy(b, s.data(), s.size()); return b; }

// the datagram: the first dynamic object of the trace (malloc(sz) in the harness), cut to sz
static std::string datagram(const Cex &c)
{
    size_t sz = (size_t)c.unum("sz", c.unum("arg.sz", 0));
    std::string s;
    if (c.has("arg.buf") && !c.bytes("arg.buf").empty()) { s = c.bytes("arg.buf"); s.resize(sz, 0); return s; }   // --dfcc targets
    for (const char *k : {"dynamic_object", "dynamic_object1", "dynamic_object2", "dynamic_object3"}) {
        if (c.has(k)) { for (auto x : c.arr(k)) s.push_back((char)x); break; }
    }
    s.resize(sz, 0);
    return s;
}

int main(int argc, char **argv)
{
    if (argc < 3) return 2;
    std::string mode = argv[1];
    Cex c; if (!c.load(argv[2])) return 2;
    std::string d = datagram(c);
    size_t sz = d.size();
    char *buf = exact(d);
    unsigned int off = (unsigned int)c.unum("off", 0);
    if (!c.has("off") && !c.pointee("arg.off").empty()) off = (unsigned int)c.pointee("arg.off")[0];   // --dfcc: *off
    unsigned int off0 = off;
    printf("mode=%s sz=%zu off=%u bytes=", mode.c_str(), sz, off);
    for (size_t i = 0; i < sz; i++) printf("%02x", (unsigned char)buf[i]);
    printf("\n");
    if (mode == "name") {
        size_t ns = (size_t)c.unum("ns", c.unum("arg.ns", 256)); if (ns < 1 || ns > 256) ns = 256;
        int rdepth = (int)c.num("rdepth", c.num("arg.rdepth", 0));
        unsigned short rdl = (unsigned short)c.unum("rdl", 0);
        char *name = (char *)malloc(ns);
        int r = rfc1035NameUnpack(buf, sz, &off, c.num("use_rdl", 0) ? &rdl : nullptr, name, ns, rdepth);
        if (r != 0 && r != 1) RP_FAIL("returned %d", r);
        if (r == 0 && !(off <= sz && off > off0)) RP_FAIL("*off=%u not in (%u, %zu]", off, off0, sz);
        if (r == 0 && !memchr(name, 0, ns)) RP_FAIL("name not NUL-terminated within ns=%zu", ns);
        free(name); free(buf);
        RP_OK("NameUnpack postcondition holds, no sanitizer report");
    }
    if (mode == "query") {
        rfc1035_query q; memset(&q, 0x55, sizeof(q));
        int r = rfc1035QueryUnpack(buf, sz, &off, &q);
        if (r == 0 && !(off <= sz && off >= off0 + 5)) RP_FAIL("*off=%u", off);
        if (r == 1 && (q.qtype || q.qclass || q.name[0])) RP_FAIL("query not zeroed on failure");
        free(buf);
        RP_OK("QueryUnpack postcondition holds, no sanitizer report");
    }
    if (mode == "rr") {
        rfc1035_rr RR; memset(&RR, 0x55, sizeof(RR));
        int r = rfc1035RRUnpack(buf, sz, &off, &RR);
        if (r == 0 && !(off <= sz && off >= off0 + 11 && RR.rdata)) RP_FAIL("*off=%u rdata=%p", off, (void *)RR.rdata);
        if (r == 1 && (RR.rdata || RR.type || RR.rdlength)) RP_FAIL("RR not zeroed on failure");
        if (r == 0) free(RR.rdata);    // LeakSanitizer reports anything else left behind
        free(buf);
        RP_OK("RRUnpack postcondition holds, no sanitizer report");
    }
    if (mode == "message") {
        rfc1035_message *ans = nullptr;
        int n = rfc1035MessageUnpack(buf, sz, &ans);
        if (n > 0 && !(ans && ans->answer && (unsigned)n <= ans->ancount)) RP_FAIL("n=%d without records", n);
        if (sz < 12 && !(n == -15 && !ans)) RP_FAIL("short datagram accepted");
        rfc1035MessageDestroy(&ans);
        free(buf);
        RP_OK("MessageUnpack postcondition holds (n=%d), no sanitizer report", n);
    }
    return 2;
}
