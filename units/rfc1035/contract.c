/* Sidecar contracts for src/dns/rfc1035.cc (the real file is compiled in C mode; see unit.json for the extraction rules).
 * Postconditions come from C37: for any received datagram decoding terminates without out-of-bounds access (including
 * compression-pointer loops); for well-formed messages the decoded header/questions/records equal those encoded and a
 * packed query decodes back to itself. */
#include <stddef.h>
#include <stdlib.h>
#include <string.h>
#include <sys/types.h>
#include <netinet/in.h>
#include "dns/rfc1035.h"      /* the rewritten copy in the build dir (class rfc1035_rr -> struct) */

/* functions of the real file that are file-static there (extraction drops `static` so that they can carry contracts) */
int rfc1035NameUnpack(const char *buf, size_t sz, unsigned int *off, unsigned short *rdlength, char *name, size_t ns, int rdepth);
int rfc1035RRUnpack(const char *buf, size_t sz, unsigned int *off, rfc1035_rr *RR);
int rfc1035QueryUnpack(const char *buf, size_t sz, unsigned int *off, rfc1035_query *query);
int rfc1035NamePack(char *buf, size_t sz, const char *name);

size_t g;                     /* ghost index: arbitrary; a statement about x[g] is a statement about every element */

#include "specs.h"            /* wire-format reference + the postcondition predicates shared with models.c */

#ifndef CV_NATIVE

/* =====================================================================================================================
 * rfc1035HeaderUnpack / rfc1035HeaderPack  (loop-free; --dfcc, complete)
 * ===================================================================================================================== */
#if defined(T_HEADER_UNPACK)
int rfc1035HeaderUnpack(const char *buf, size_t sz, unsigned int *off, rfc1035_message *h)
__CPROVER_requires(1 <= sz && sz <= N && __CPROVER_is_fresh(buf, sz))
__CPROVER_requires(__CPROVER_is_fresh(off, sizeof(unsigned int)) && *off == 0)      /* the code's own assert(*off == 0) */
__CPROVER_requires(__CPROVER_is_fresh(h, sizeof(rfc1035_message)))
__CPROVER_assigns(*off)
__CPROVER_assigns(__CPROVER_object_upto(h, offsetof(rfc1035_message, query)))       /* header fields only: query/answer untouched */
__CPROVER_ensures(__CPROVER_return_value == (sz < 12 ? 1 : 0))                        /* rejects exactly the short datagrams */
#ifdef TWIN_HU
__CPROVER_ensures(__CPROVER_return_value == 0 ==> !(*off == 12 && spec_header_matches(buf, h)))   /* TWIN: negated, must fail */
#else
__CPROVER_ensures(__CPROVER_return_value == 0 ==> (*off == 12 && spec_header_matches(buf, h)))
#endif
__CPROVER_ensures(__CPROVER_return_value != 0 ==> *off == 0)
;
void h_header_unpack(void)
{
    const char *buf; size_t sz; unsigned int *off; rfc1035_message *h;
    int r = rfc1035HeaderUnpack(buf, sz, off, h);
#ifdef REACH
    __CPROVER_assert(!(r == 0), "reach: header accepted");
    __CPROVER_assert(!(r == 1), "reach: short datagram rejected");
    __CPROVER_assert(!(r == 0 && sz == 12), "reach: exactly 12 octets accepted");
#endif
}
#endif

#if defined(T_HEADER_PACK)
int rfc1035HeaderPack(char *buf, size_t sz, rfc1035_message *hdr)
__CPROVER_requires(12 <= sz && sz <= N && __CPROVER_is_fresh(buf, sz))               /* the code's own assert(sz >= 12) */
__CPROVER_requires(__CPROVER_is_fresh(hdr, sizeof(rfc1035_message)))
__CPROVER_assigns(__CPROVER_object_upto(buf, 12))
__CPROVER_ensures(__CPROVER_return_value == 12)
#ifdef TWIN_HP
__CPROVER_ensures(!spec_header_matches(buf, hdr))                                    /* TWIN: negated, must fail */
#else
__CPROVER_ensures(spec_header_matches(buf, hdr))
#endif
__CPROVER_ensures((spec_be16(buf + 2) & 0x70) == 0)                                  /* RFC 1035: Z must be zero in new messages */
;
void h_header_pack(void)
{
    char *buf; size_t sz; rfc1035_message *hdr;
    int r = rfc1035HeaderPack(buf, sz, hdr);
#ifdef REACH
    __CPROVER_assert(!(r == 12), "reach: returns");
    __CPROVER_assert(!(sz == 12), "reach: minimal buffer");
#endif
}
#endif

/* round trip, both directions, every field / every octet (harness-encoded: two real calls) */
#if defined(T_HEADER_ROUNDTRIP)
void h_header_roundtrip(void)
{
    size_t g_any; g = g_any;        /* ghost index really arbitrary (file-scope statics are zero-initialised in harness mode) */
    /* (1) unpack(pack(h)) == h on all twelve header fields, for every header value */
    rfc1035_message h, h2;
    char wire[12];
    unsigned int off = 0;
    void *q = h2.query, *a = h2.answer;
    int n = rfc1035HeaderPack(wire, sizeof(wire), &h);
    int r = rfc1035HeaderUnpack(wire, (size_t)n, &off, &h2);
    __CPROVER_assert(n == 12 && r == 0 && off == 12, "ensures: a packed header is 12 octets and is accepted");
#ifdef TWIN_HDR
    __CPROVER_assert(!(h2.id == h.id && h2.rcode == h.rcode), "ensures: TWIN (negated) header identity");
#else
    __CPROVER_assert(h2.id == h.id && h2.qr == h.qr && h2.opcode == h.opcode && h2.aa == h.aa && h2.tc == h.tc &&
                     h2.rd == h.rd && h2.ra == h.ra && h2.rcode == h.rcode && h2.qdcount == h.qdcount &&
                     h2.ancount == h.ancount && h2.nscount == h.nscount && h2.arcount == h.arcount,
                     "ensures: unpack(pack(h)) == h on every header field");
#endif
    __CPROVER_assert(h2.query == q && h2.answer == a, "ensures: HeaderUnpack leaves the query/answer pointers alone");
    /* (2) pack(unpack(w)) == w on every octet, for every 12-octet string w whose reserved Z bits are zero */
    char w[12], w2[12];
    rfc1035_message h3;
    unsigned int off3 = 0;
    int r3 = rfc1035HeaderUnpack(w, sizeof(w), &off3, &h3);
    int n3 = rfc1035HeaderPack(w2, sizeof(w2), &h3);
    __CPROVER_assert(r3 == 0 && n3 == 12, "ensures: any 12 octets decode as a header");
    __CPROVER_assert(!(g < 12) || g == 3 || w2[g] == w[g], "ensures: pack(unpack(w)) == w on every octet but the flags' low octet");
    __CPROVER_assert(w2[3] == (char)(w[3] & 0x8F), "ensures: ... and that octet differs only in the reserved Z bits (cleared)");
#ifdef REACH
    __CPROVER_assert(!(h.qr == 1 && h.opcode == 15 && h.rcode == 15 && h.id == 0xFFFF), "reach: extreme field values");
    __CPROVER_assert(!(w[3] & 0x70), "reach: inbound Z bits set");
#endif
}
#endif

/* =====================================================================================================================
 * rfc1035NameUnpack  (recursive through compression pointers; --dfcc --enforce-contract-rec + loop contract)
 *
 * For ANY buf of sz <= N bytes, ANY *off, any name buffer of 1..256 bytes and any recursion depth 0..65:
 *   reads only buf[0,sz) (pointer checks on the real text + is_fresh), writes only *off, *rdlength, name[0,ns) (assigns),
 *   returns 0 or 1; on 0: *off <= sz, *off advanced, name holds a NUL within ns.
 * Termination: the do-while carries a decreases clause; recursion: the precondition rdepth <= 65 is CHECKED at the
 * recursive call site (the call is replaced by this contract), and the only recursive call passes rdepth + 1, so
 * 65 - rdepth is a non-negative measure that strictly decreases: at most 66 nested calls, for any pointer graph.
 * ===================================================================================================================== */
#ifdef TWIN_NAME
#define NAME_TWIN(x) (!(x))     /* TWIN: negated bound, must fail */
#else
#define NAME_TWIN(x) (x)
#endif
#define NAMEUNPACK_CONTRACT \
__CPROVER_requires(1 <= sz && sz <= N && __CPROVER_is_fresh(buf, sz)) \
__CPROVER_requires(__CPROVER_is_fresh(off, sizeof(unsigned int))) \
__CPROVER_requires(rdlength == NULL || __CPROVER_is_fresh(rdlength, sizeof(unsigned short))) \
__CPROVER_requires(1 <= ns && ns <= NS && __CPROVER_is_fresh(name, ns))              /* the code's own assert(ns > 0) */ \
__CPROVER_requires(rdlength == NULL || (size_t)*rdlength + ns <= 65535)              /* the byte count cannot wrap */ \
__CPROVER_requires(0 <= rdepth && rdepth <= 65) \
__CPROVER_assigns(*off) \
__CPROVER_assigns(rdlength != NULL: *rdlength) \
__CPROVER_assigns(__CPROVER_object_upto(name, ns)) \
__CPROVER_ensures(__CPROVER_return_value == 0 || __CPROVER_return_value == 1) \
__CPROVER_ensures(__CPROVER_return_value == 0 ==> (NAME_TWIN(*off <= sz) && *off > __CPROVER_old(*off))) \
__CPROVER_ensures(rdlength != NULL ==> (*rdlength >= __CPROVER_old(*rdlength) && (size_t)(*rdlength - __CPROVER_old(*rdlength)) <= ns))

/* assumed contract of memcpy (C standard: reads src[0,n), writes dst[0,n), nothing else). Its requires clause is CHECKED at
 * each of the three call sites in rfc1035NameUnpack; the copied contents are not needed for this target's postconditions.
 * (cbmc's own memcpy model with a symbolic length does not finish under --dfcc: DESIGN 5 C37 names this fallback.) */
#if defined(T_NAMEUNPACK) || defined(T_QUERYUNPACK)
void *memcpy(void *dst, const void *src, size_t n)
__CPROVER_requires(__CPROVER_r_ok(src, n) && __CPROVER_w_ok(dst, n))
__CPROVER_assigns(__CPROVER_object_upto(dst, n))
__CPROVER_ensures(__CPROVER_return_value == dst)
;
#endif

#if defined(T_NAMEUNPACK)
int rfc1035NameUnpack(const char *buf, size_t sz, unsigned int *off, unsigned short *rdlength, char *name, size_t ns, int rdepth)
NAMEUNPACK_CONTRACT
;
int g_ret;
void h_nameunpack(void)
{
    const char *buf; size_t sz; unsigned int *off; unsigned short *rdlength; char *name; size_t ns; int rdepth;
    g_ret = rfc1035NameUnpack(buf, sz, off, rdlength, name, ns, rdepth);
#ifdef REACH
    __CPROVER_assert(!(g_ret == 0), "reach: name accepted");
    __CPROVER_assert(!(g_ret == 1), "reach: name rejected");
    __CPROVER_assert(!(g_ret == 0 && rdepth == 65), "reach: accepted at the deepest permitted recursion level");
    __CPROVER_assert(!(g_ret == 0 && ns == 1), "reach: accepted into a 1-byte name buffer");
#endif
}
#endif


/* ---------- target "nameunpack_term": the NUL clause of the contract, by induction over 65 - rdepth ----------
 * The REAL function body runs (definition named rfc1035NameUnpack_real by -DM_NAMEUNPACK); its recursive call goes to the
 * contract model (models.c), i.e. the induction hypothesis at rdepth + 1.  Also re-checks the other ensures clauses. */
#if defined(T_NAMEUNPACK_TERM)
int rfc1035NameUnpack_real(const char *buf, size_t sz, unsigned int *off, unsigned short *rdlength, char *name, size_t ns, int rdepth);
void h_nameunpack_term(void)
{
    size_t sz, ns; unsigned int off; unsigned short rdl; _Bool use_rdl; int rdepth;
    __CPROVER_assume(1 <= sz && sz <= N);
    __CPROVER_assume(1 <= ns && ns <= NS);
    __CPROVER_assume(0 <= rdepth && rdepth <= 65);
    __CPROVER_assume((size_t)rdl + ns <= 65535);
    char *buf = malloc(sz); __CPROVER_assume(buf != NULL);
    char *name = malloc(ns); __CPROVER_assume(name != NULL);
    unsigned int off0 = off; unsigned short rdl0 = rdl;
    int r = rfc1035NameUnpack_real(buf, sz, &off, use_rdl ? &rdl : NULL, name, ns, rdepth);
    __CPROVER_assert(spec_name_post(sz, off0, off, r, use_rdl, rdl0, rdl, ns) && (use_rdl || rdl == rdl0),
                     "ensures: NameUnpack postcondition (0/1; on 0 *off advanced and <= sz; *rdlength grows by at most ns)");
#ifdef TWIN_TERM
    __CPROVER_assert(!(r == 0) || !spec_terminated(name, ns), "ensures: TWIN (negated) name NUL-terminated");
#else
    __CPROVER_assert(!(r == 0) || spec_terminated(name, ns), "ensures: on success name[0,ns) holds a NUL");
#endif
#ifdef REACH
    __CPROVER_assert(!(r == 0 && name[0] == 0), "reach: root name accepted");
    __CPROVER_assert(!(r == 0 && name[0] != 0 && name[1] == '.' && (unsigned char)buf[off0] < 64), "reach: multi-label name accepted");
    __CPROVER_assert(!(r == 0 && (unsigned char)buf[off0] >= 192), "reach: accepted through a compression pointer");
    __CPROVER_assert(!(r == 1 && rdepth == 65 && (unsigned char)buf[off0] >= 192), "reach: pointer refused at depth 65");
    __CPROVER_assert(!(r == 1), "reach: rejected");
#endif
}
#endif

/* =====================================================================================================================
 * rfc1035QueryUnpack, rfc1035RRUnpack, rfc1035MessageUnpack: harness-encoded contracts (RRUnpack/MessageUnpack allocate
 * symbolic-size blocks, which --dfcc does not finish).  Callees that have their own target are replaced by their contract
 * model (models.c: requires asserted, frame havocked, the SAME spec_*_post predicate assumed).
 * buf is a heap block of EXACTLY sz bytes (sz <= N, contents arbitrary): any read outside buf[0,sz) fails a pointer check.
 * ===================================================================================================================== */
#if defined(T_QUERYUNPACK)
void h_queryunpack(void)
{
    size_t g_any; g = g_any;        /* ghost index really arbitrary (file-scope statics are zero-initialised in harness mode) */
    size_t sz; unsigned int off; rfc1035_query q;
    __CPROVER_assume(1 <= sz && sz <= N);
    char *buf = malloc(sz); __CPROVER_assume(buf != NULL);
    unsigned int off0 = off;
    int r = rfc1035QueryUnpack(buf, sz, &off, &q);
#ifdef TWIN_QUERY
    __CPROVER_assert(!spec_query_post(buf, sz, off0, off, r, &q, g), "ensures: TWIN (negated) QueryUnpack postcondition");
#else
    __CPROVER_assert(spec_query_post(buf, sz, off0, off, r, &q, g),
                     "ensures: 0 => *off <= sz, >= 5 octets consumed, QTYPE/QCLASS are the big-endian words after the name; 1 => query zeroed");
#endif
    free(buf);
#ifdef REACH
    __CPROVER_assert(!(r == 0), "reach: question accepted");
    __CPROVER_assert(!(r == 0 && off == sz), "reach: question ends exactly at the end of the datagram");
    __CPROVER_assert(!(r == 1 && off > off0), "reach: rejected after the name (truncated QTYPE/QCLASS)");
    __CPROVER_assert(!(r == 1 && off == off0), "reach: rejected in the name");
#endif
}
#endif

#if defined(T_RRUNPACK)
void h_rrunpack(void)
{
    size_t g_any; g = g_any;        /* ghost index really arbitrary (file-scope statics are zero-initialised in harness mode) */
    size_t sz; unsigned int off; rfc1035_rr RR;
    __CPROVER_assume(1 <= sz && sz <= N);
    char *buf = malloc(sz); __CPROVER_assume(buf != NULL);
    unsigned int off0 = off;
    int r = rfc1035RRUnpack(buf, sz, &off, &RR);
#ifdef TWIN_RR
    __CPROVER_assert(!spec_rr_post(buf, sz, off0, off, r, &RR, g), "ensures: TWIN (negated) RRUnpack postcondition");
#else
    __CPROVER_assert(spec_rr_post(buf, sz, off0, off, r, &RR, g),
                     "ensures: 0 => *off <= sz, >= 11 octets consumed, rdata block sized to the copied RDATA (PTR: 256) and equal to it; 1 => RR zeroed");
#endif
    if (r == 0)
        free(RR.rdata);       /* with --memory-leak-check: nothing else was allocated and kept (error paths free rdata) */
    free(buf);
#ifdef REACH
    __CPROVER_assert(!(r == 0 && RR.type == RFC1035_TYPE_A && RR.rdlength == 4), "reach: A record accepted");
    __CPROVER_assert(!(r == 0 && RR.type == RFC1035_TYPE_PTR), "reach: PTR record accepted");
    __CPROVER_assert(!(r == 0 && off == sz), "reach: record ends exactly at the end of the datagram");
    __CPROVER_assert(!(r == 1 && off > off0 + 10), "reach: rejected after the fixed part (RDATA truncated or bad PTR name)");
    __CPROVER_assert(!(r == 1 && off == off0), "reach: rejected in the owner name");
#endif
}
#endif

#if defined(T_MESSAGE)
void h_message(void)
{
    size_t g_any; g = g_any;        /* ghost index really arbitrary (file-scope statics are zero-initialised in harness mode) */
    size_t sz;
    __CPROVER_assume(sz <= N);                       /* ANY datagram of at most N octets, including the empty one */
    char *buf = malloc(sz); __CPROVER_assume(buf != NULL);
#ifdef ANMAX
    /* BOUND (labelled): the ANCOUNT field (octets 6,7) is at most ANMAX.  cbmc does not finish with the up-to-18-MB
     * answer array that an arbitrary ANCOUNT makes xcalloc allocate. */
    __CPROVER_assume(sz < 8 || spec_be16(buf + 6) <= ANMAX);
#endif
    rfc1035_message *ans = NULL;                    /* as the only caller (idnsGrokReply) initialises it */
    int n = rfc1035MessageUnpack(buf, sz, &ans);
    __CPROVER_assert(n >= -15 && n < KMAX, "ensures: result is -15..-1 (error), 0, or a record count that fits the datagram");
    __CPROVER_assert(!(sz < 12) || (n == -15 && ans == NULL), "ensures: a datagram shorter than a header is refused");
#ifdef TWIN_MSG
    __CPROVER_assert(!(n > 0) || !(ans != NULL && ans->answer != NULL && (unsigned)n <= ans->ancount), "ensures: TWIN (negated) n records present");
#else
    __CPROVER_assert(!(n > 0) || (ans != NULL && ans->answer != NULL && (unsigned)n <= ans->ancount && ans->rcode == 0),
                     "ensures: n > 0 => message returned with an answer array of ancount >= n records");
#endif
    __CPROVER_assert(!(n > 0 && g < (size_t)n) ||
                     (ans->answer[g].rdata != NULL && __CPROVER_OBJECT_SIZE(ans->answer[g].rdata) >= ans->answer[g].rdlength),
                     "ensures: each of the n records has an rdata block of at least rdlength bytes (ghost index)");
    __CPROVER_assert(!(n > 0 && g >= (size_t)n && g < ans->ancount) || ans->answer[g].rdata == NULL,
                     "ensures: records beyond n hold no rdata (ghost index)");
    __CPROVER_assert(!(n == 0) || (ans != NULL && ans->ancount == 0 && ans->rcode == 0 && ans->answer == NULL),
                     "ensures: 0 => a message without answers");
    __CPROVER_assert(!(n < 0) || ans == NULL || (n == -(int)ans->rcode && ans->rcode != 0 && ans->answer == NULL),
                     "ensures: error => no message, or the server's RCODE with the message (no answer array)");
    __CPROVER_assert(ans == NULL || (spec_header_matches(buf, ans) && ans->qdcount == 1 && ans->query != NULL),
                     "ensures: a returned message carries the datagram's header and one question");
    _Bool had = ans != NULL;
    rfc1035MessageDestroy(&ans);                   /* the caller's duty; afterwards --memory-leak-check: nothing is left */
    __CPROVER_assert(ans == NULL, "ensures: MessageDestroy clears the pointer");
    free(buf);
#ifdef REACH
    __CPROVER_assert(!(n == 1), "reach: one record");
    __CPROVER_assert(!(n == 2), "reach: two records");
    __CPROVER_assert(!(n == 1 && sz == N), "reach: full-size datagram accepted");
    __CPROVER_assert(!(n == 0), "reach: no answers");
    __CPROVER_assert(!(n == -3 && had), "reach: NXDOMAIN returned with the message");
    __CPROVER_assert(!(n == -15 && !had && sz >= 12 + 5 + 11), "reach: corrupt first record => everything freed, no message");
    __CPROVER_assert(!(n == -15 && sz == 0), "reach: empty datagram");
#endif
}
#endif

/* ---------- target "message_body": rfc1035MessageUnpack's OWN obligations, over light contract stubs ----------
 * QueryUnpack / RRUnpack are the -DM_LIGHT stubs of models.c (requires asserted; *off and the result constrained as proved by
 * targets queryunpack / rrunpack; record contents untouched except RR->rdata = fresh block / NULL); the header decoder,
 * rfc1035MessageDestroy and rfc1035RRDestroy are the REAL text.  Ghost counters of the stubs let the harness state: which
 * calls were made, that the result is the number of accepted records, that every array slot handed to the record decoder was
 * inside the allocated array (the stub's w_ok requires), and (--memory-leak-check) that every path frees what it allocated
 * once the caller has done its duty (MessageDestroy on a returned message).
 * BOUND (labelled): ANCOUNT <= ANMAX (header octets 6,7). */
#if defined(T_MESSAGE_BODY)
extern unsigned cv_q_calls, cv_q_ok, cv_rr_calls, cv_rr_ok, cv_off_max;
extern const void *cv_q_last, *cv_rr_last;
void h_message_body(void)
{
    size_t g_any; g = g_any;        /* ghost index really arbitrary */
    size_t sz;
    __CPROVER_assume(sz <= N);                       /* ANY datagram of at most N octets, including the empty one */
    char *buf = malloc(sz); __CPROVER_assume(buf != NULL);
    __CPROVER_assume(sz < 8 || spec_be16(buf + 6) <= ANMAX);          /* BOUND: ANCOUNT <= ANMAX */
    unsigned qd = sz >= 6 ? spec_be16(buf + 4) : 0, an = sz >= 8 ? spec_be16(buf + 6) : 0, rc = sz >= 4 ? (spec_be16(buf + 2) & 15) : 0;
    rfc1035_message *ans = NULL;                    /* as the only caller (idnsGrokReply) initialises it */
    int n = rfc1035MessageUnpack(buf, sz, &ans);
    /* result conventions */
    __CPROVER_assert((n >= -15 && n <= -1) || n == 0 || (n >= 1 && (unsigned)n <= an),
                     "ensures: result is -15..-1 (error), 0, or a record count of at most ANCOUNT");
    __CPROVER_assert(!(sz < 12 || qd != 1) || (n == -15 && ans == NULL && cv_q_calls == 0 && cv_rr_calls == 0),
                     "ensures: a datagram shorter than a header or with QDCOUNT != 1 is refused before anything is decoded");
    __CPROVER_assert(!(sz >= 12 && qd == 1) || cv_q_calls == 1, "ensures: exactly one question is decoded");
    __CPROVER_assert(!(cv_q_calls == 1 && cv_q_ok == 0) || (n == -15 && ans == NULL && cv_rr_calls == 0),
                     "ensures: a corrupt question => unpack error, no message, no record decoded");
    __CPROVER_assert(!(cv_q_ok == 1 && rc != 0) || (n == -(int)rc && ans != NULL && ans->answer == NULL && cv_rr_calls == 0),
                     "ensures: the server's RCODE is returned negated with the message, no record decoded");
    __CPROVER_assert(!(cv_q_ok == 1 && rc == 0 && an == 0) || (n == 0 && ans != NULL && ans->answer == NULL && cv_rr_calls == 0),
                     "ensures: ANCOUNT == 0 => 0 with the message");
#ifdef TWIN_MSGB
    __CPROVER_assert(!(cv_q_ok == 1 && rc == 0 && an > 0) || !(n == (cv_rr_ok ? (int)cv_rr_ok : -15)),
                     "ensures: TWIN (negated) the result counts the accepted records");
#else
    __CPROVER_assert(!(cv_q_ok == 1 && rc == 0 && an > 0) || (n == (cv_rr_ok ? (int)cv_rr_ok : -15)),
                     "ensures: otherwise the result is the number of accepted records, or the unpack error if there is none");
#endif
    __CPROVER_assert(cv_rr_calls <= an && cv_rr_calls - cv_rr_ok <= 1,
                     "ensures: at most ANCOUNT records are decoded and decoding stops at the first refused one");
    __CPROVER_assert(cv_off_max <= sz, "ensures: no accepted question/record ends beyond the datagram");
    /* the returned message */
    __CPROVER_assert((ans != NULL) == (cv_q_ok == 1 && (n >= 0 || n == -(int)rc) && (n != -15 || rc == 15)),
                     "ensures: a message is returned exactly for n >= 0 and for server errors");
    __CPROVER_assert(ans == NULL || (spec_header_matches(buf, ans) && ans->qdcount == 1 && ans->query == cv_q_last && ans->query != NULL),
                     "ensures: a returned message carries the datagram's header and the one decoded question");
    __CPROVER_assert(!(n > 0) || (ans->answer != NULL && __CPROVER_OBJECT_SIZE(ans->answer) == (size_t)an * sizeof(rfc1035_rr) &&
                                  __CPROVER_POINTER_OFFSET(ans->answer) == 0 &&
                                  cv_rr_last == &ans->answer[cv_rr_calls - 1]),
                     "ensures: n > 0 => answer array of exactly ANCOUNT records; the records were decoded into its slots in order");
    __CPROVER_assert(!(n > 0 && g < (size_t)n) || ans->answer[g].rdata != NULL,
                     "ensures: each of the first n slots holds a decoded record (ghost index)");
    __CPROVER_assert(!(n > 0 && g >= (size_t)n && g < an) || ans->answer[g].rdata == NULL,
                     "ensures: slots beyond n hold no rdata (ghost index)");
    _Bool had = ans != NULL;
    rfc1035MessageDestroy(&ans);                   /* the caller's duty; afterwards --memory-leak-check: nothing is left */
    __CPROVER_assert(ans == NULL, "ensures: MessageDestroy clears the pointer");
    free(buf);
#ifdef REACH
    __CPROVER_assert(!(n == 1 && an == 1), "reach: one record of one");
    __CPROVER_assert(!(n == 2 && an == ANMAX && cv_rr_calls == 3), "reach: two records accepted, third refused");
    __CPROVER_assert(!(n == ANMAX), "reach: ANMAX records accepted");
    __CPROVER_assert(!(n == 1 && cv_rr_calls == 1 && an > 1), "reach: datagram exhausted after one record (off >= sz)");
    __CPROVER_assert(!(n == 0), "reach: no answers");
    __CPROVER_assert(!(n == -3 && had), "reach: NXDOMAIN returned with the message");
    __CPROVER_assert(!(n == -15 && !had && cv_rr_calls == 1), "reach: corrupt first record => everything freed, no message");
    __CPROVER_assert(!(n == -15 && !had && cv_q_calls == 1 && cv_q_ok == 0), "reach: corrupt question");
    __CPROVER_assert(!(n == -15 && sz == 0), "reach: empty datagram");
    __CPROVER_assert(!(n == -15 && had), "reach: RCODE 15 returned with the message");
#endif
}
#endif

/* =====================================================================================================================
 * Fidelity, packing side: rfc1035NamePack / rfc1035QuestionPack / rfc1035BuildAQuery followed by the REAL decoders.
 * BOUNDED (labelled): names of at most L bytes (any bytes, any placement of dots).  strtok / xstrdup are models (models.c);
 * strlen/strchr/memcpy/memset/strncasecmp are cbmc's library models; xstrncpy is the real text (slice of compat/xstring.cc).
 * Reference: the dotted name a label sequence denotes is the input with its empty labels dropped (rfc1035NamePack's own
 * comment: "use of strtok here makes names like foo....com valid") -- spec_canon below, written without looking at the code
 * beyond that comment.  For names without empty labels spec_canon is the identity, which is asserted separately.
 * ===================================================================================================================== */
#if defined(T_NAME_ROUNDTRIP) || defined(T_QUESTION_ROUNDTRIP) || defined(T_AQUERY_ROUNDTRIP)
int rfc1035NameUnpack_real(const char *buf, size_t sz, unsigned int *off, unsigned short *rdlength, char *name, size_t ns, int rdepth);
/* out := in without empty labels (no leading dot, no dot after a dot, no trailing dot); returns strlen(out) */
static size_t spec_canon(const char *in, size_t len, char *out)
{
    size_t o = 0;
    for (size_t i = 0; i < L; i++) {
        if (i >= len) break;
        if (in[i] == '.' && (o == 0 || out[o - 1] == '.')) continue;
        out[o++] = in[i];
    }
    if (o > 0 && out[o - 1] == '.') o--;
    out[o] = 0;
    return o;
}
static _Bool spec_no_empty_label(const char *in, size_t len)
{
    if (len == 0) return 1;
    if (in[0] == '.' || in[len - 1] == '.') return 0;
    for (size_t i = 0; i + 1 < L; i++) {
        if (i + 1 >= len) break;
        if (in[i] == '.' && in[i + 1] == '.') return 0;
    }
    return 1;
}
/* an arbitrary C string of exactly len <= L bytes */
#define ANY_NAME(name, len) \
    char name[L + 1]; size_t len; \
    __CPROVER_assume(len <= L && name[len] == 0); \
    for (size_t k_ = 0; k_ < L; k_++) __CPROVER_assume(k_ >= len || name[k_] != 0)
#ifdef TWIN_RT
#define RT_TWIN(x) (!(x))       /* TWIN: negated identity, must fail */
#else
#define RT_TWIN(x) (x)
#endif
#endif

#if defined(T_NAME_ROUNDTRIP)
void h_name_roundtrip(void)
{
    size_t g_any; g = g_any;
    ANY_NAME(name, len);
    char want[L + 1];
    size_t wl = spec_canon(name, len, want);
    char *wire = malloc(L + 2); __CPROVER_assume(wire != NULL);      /* exactly the largest packed size: any overrun is a pointer failure */
    int n = rfc1035NamePack(wire, L + 2, name);
    __CPROVER_assert(n == (int)(wl ? wl + 2 : 1), "ensures: packed size is strlen(canonical name) + 2, or 1 for the root");
    __CPROVER_assert(wire[n - 1] == 0, "ensures: the packed name ends with the root label");
    /* name buffer: one byte more than the decoded labels with their dots (L + 1) need; with exactly L + 1 the decoder's loop
     * stops on `no < ns` before it has consumed the root label (accepted, but *off is left on the root label) */
    char out[L + 2]; unsigned int off = 0;
    int r = rfc1035NameUnpack_real(wire, (size_t)n, &off, NULL, out, L + 2, 0);
    __CPROVER_assert(r == 0 && off == (unsigned)n, "ensures: the packed name is accepted and consumed entirely");
    __CPROVER_assert(RT_TWIN(g > wl || out[g] == want[g]), "ensures: unpack(pack(name)) is the name without its empty labels, NUL included (ghost index)");
    __CPROVER_assert(!spec_no_empty_label(name, len) || g > len || out[g] == name[g],
                     "ensures: a name without empty labels decodes to itself (ghost index)");
    free(wire);
#ifdef REACH
    __CPROVER_assert(!(len == 0), "reach: root name");
    __CPROVER_assert(!(len == L && wl == L), "reach: full-length name without empty labels");
    __CPROVER_assert(!(wl == 5 && want[1] == '.' && want[3] == '.'), "reach: three labels");
    __CPROVER_assert(!(len == 5 && wl == 3 && name[0] == '.' && name[4] == '.'), "reach: leading and trailing dot dropped");
    __CPROVER_assert(!(len == 3 && wl == 0), "reach: only dots = root");
#endif
}
#endif

#if defined(T_QUESTION_ROUNDTRIP)
void h_question_roundtrip(void)
{
    size_t g_any; g = g_any;
    ANY_NAME(name, len);
    unsigned short type, cls;
    char want[L + 1];
    size_t wl = spec_canon(name, len, want);
    char *wire = malloc(L + 2 + 4); __CPROVER_assume(wire != NULL);
    int n = rfc1035QuestionPack(wire, L + 2 + 4, name, type, cls);
    __CPROVER_assert(n == (int)(wl ? wl + 2 : 1) + 4, "ensures: packed question = packed name + QTYPE + QCLASS");
    rfc1035_query q; unsigned int off = 0;
    int r = rfc1035QueryUnpack(wire, (size_t)n, &off, &q);
    __CPROVER_assert(r == 0 && off == (unsigned)n, "ensures: the packed question is accepted and consumed entirely");
    __CPROVER_assert(RT_TWIN(q.qtype == type && q.qclass == cls), "ensures: QTYPE and QCLASS decode to the packed values");
    __CPROVER_assert(g > wl || q.name[g] == want[g], "ensures: the question name decodes to the packed name without empty labels (ghost index)");
    free(wire);
#ifdef REACH
    __CPROVER_assert(!(type == RFC1035_TYPE_PTR && cls == RFC1035_CLASS_IN && wl == L), "reach: PTR question, full-length name");
    __CPROVER_assert(!(type == 0xFFFF && len == 0), "reach: root name, extreme type");
#endif
}
#endif

#if defined(T_AQUERY_ROUNDTRIP)
void h_aquery_roundtrip(void)
{
    size_t g_any; g = g_any;
    ANY_NAME(host, len);
    unsigned short qid;
    char want[L + 1];
    size_t wl = spec_canon(host, len, want);
    char *pkt = malloc(12 + L + 2 + 4); __CPROVER_assume(pkt != NULL);
    rfc1035_query q;
    ssize_t n = rfc1035BuildAQuery(host, pkt, 12 + L + 2 + 4, qid, &q, 0);     /* no EDNS OPT record */
    __CPROVER_assert(n == 12 + (ssize_t)(wl ? wl + 2 : 1) + 4, "ensures: query size = header + packed name + 4");
    __CPROVER_assert(q.qtype == RFC1035_TYPE_A && q.qclass == RFC1035_CLASS_IN && (g > len || q.name[g] == host[g]),
                     "ensures: the query record kept by the caller is (hostname, A, IN) (ghost index)");
    rfc1035_message *msg = NULL;
    int r = rfc1035MessageUnpack(pkt, (size_t)n, &msg);
    __CPROVER_assert(r == 0 && msg != NULL, "ensures: the packed query is a well-formed message without answers");
    __CPROVER_assert(msg->id == qid && msg->qr == 0 && msg->opcode == 0 && msg->aa == 0 && msg->tc == 0 && msg->rd == 1 &&
                     msg->ra == 0 && msg->rcode == 0 && msg->qdcount == 1 && msg->ancount == 0 && msg->nscount == 0 &&
                     msg->arcount == 0, "ensures: the header decodes to (qid, standard query, RD, one question)");
    __CPROVER_assert(RT_TWIN(msg->query[0].qtype == RFC1035_TYPE_A && msg->query[0].qclass == RFC1035_CLASS_IN),
                     "ensures: the question decodes to type A, class IN");
    __CPROVER_assert(g > wl || msg->query[0].name[g] == want[g],
                     "ensures: the question name decodes to the hostname without empty labels (ghost index)");
#if WITH_COMPARE
    /* the test idnsGrokReply applies to match a reply to its query */
    __CPROVER_assert(!(spec_no_empty_label(host, len)) || rfc1035QueryCompare(&q, &msg->query[0]) == 0,
                     "ensures: rfc1035QueryCompare matches the decoded question with the kept query (names without empty labels)");
#endif
    rfc1035MessageDestroy(&msg);
    free(pkt);
#ifdef REACH
    __CPROVER_assert(!(wl == L), "reach: full-length hostname");
    __CPROVER_assert(!(len == 0), "reach: empty hostname");
    __CPROVER_assert(!(wl == 3 && len == 4 && host[3] == '.'), "reach: fully qualified name (trailing dot)");
#endif
}
#endif

/* ---------- the REAL rfc1035RRDestroy (message_safe uses a model of it): frees every rdata and the array ---------- */
#if defined(T_RRDESTROY)
void h_rrdestroy(void)
{
    int n; _Bool none;
    __CPROVER_assume(n >= -1 && n <= KD);
    rfc1035_rr *rr = calloc(KD, sizeof(*rr)); __CPROVER_assume(rr != NULL);
    for (int k = 0; k < KD; k++) {
        _Bool has;
        if (!none && k < n && has) { rr[k].rdata = malloc(1); __CPROVER_assume(rr[k].rdata != NULL); }
    }
    _Bool first = rr[0].rdata != NULL;
    rfc1035_rr *p = none ? NULL : rr;
    rfc1035RRDestroy(&p, n);
#ifdef TWIN_RRD
    __CPROVER_assert(p != NULL, "ensures: TWIN (negated) *rr cleared");
#else
    __CPROVER_assert(p == NULL, "ensures: *rr cleared");
#endif
    if (none) free(rr);
    /* --memory-leak-check: every rdata block and the array were freed exactly once (double free = free precondition) */
#ifdef REACH
    __CPROVER_assert(!(n == KD && first), "reach: full array with rdata");
    __CPROVER_assert(!(none), "reach: NULL array");
#endif
}
#endif

#endif /* CV_NATIVE */
