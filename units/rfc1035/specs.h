/* specs.h -- postcondition predicates shared by the harness (which ASSERTS them on the real function) and by the
 * contract models in models.c (which ASSUME them at call sites): one definition, so model and proved contract cannot drift. */
#ifndef CV_SPECS_H
#define CV_SPECS_H
#ifndef N
#define N 64                  /* datagram bound: buf is ANY byte string of sz <= N bytes */
#endif
#define NS RFC1035_MAXHOSTNAMESZ   /* 256: size of every name buffer the decoder writes into */
#define KMAX (N / 11 + 1)     /* an RR occupies at least 11 octets (1 name + 10 fixed), so fewer than KMAX fit in N */

/* ---- wire-format reference (RFC 1035 4.1.1, 4.1.2, 4.1.3), written from the RFC ---- */
static unsigned spec_be16(const char *p) { return ((unsigned)(unsigned char)p[0] << 8) | (unsigned char)p[1]; }
static unsigned long spec_be32(const char *p) { return ((unsigned long)spec_be16(p) << 16) | spec_be16(p + 2); }

/* header fields of *h equal the 12 octets at b (ID, QR|Opcode|AA|TC|RD|RA|Z|RCODE, QDCOUNT, ANCOUNT, NSCOUNT, ARCOUNT) */
static int spec_header_matches(const char *b, const rfc1035_message *h)
{
    unsigned f = spec_be16(b + 2);
    return h->id == spec_be16(b) &&
           h->qr == ((f >> 15) & 1) && h->opcode == ((f >> 11) & 15) && h->aa == ((f >> 10) & 1) &&
           h->tc == ((f >> 9) & 1) && h->rd == ((f >> 8) & 1) && h->ra == ((f >> 7) & 1) && h->rcode == (f & 15) &&
           h->qdcount == spec_be16(b + 4) && h->ancount == spec_be16(b + 6) &&
           h->nscount == spec_be16(b + 8) && h->arcount == spec_be16(b + 10);
}

/* some byte of name[0,ns) is NUL */
static int spec_terminated(const char *name, size_t ns)
{
    for (size_t k = 0; k < NS; k++) {
        if (k >= ns) return 0;
        if (name[k] == 0) return 1;
    }
    return 0;
}

#ifndef CV_NATIVE
/* rfc1035NameUnpack: ensures (without the NUL clause, which is the bounded target nameunpack_term) */
static int spec_name_post(size_t sz, unsigned int off0, unsigned int off, int r, int has_rdl, unsigned short rdl0, unsigned short rdl, size_t ns)
{
    if (r != 0 && r != 1) return 0;
    if (r == 0 && !(off <= sz && off > off0)) return 0;
    if (has_rdl && !(rdl >= rdl0 && (size_t)(rdl - rdl0) <= ns)) return 0;
    return 1;
}

/* rfc1035QueryUnpack: ensures.  gi = ghost index (arbitrary) */
static int spec_query_post(const char *buf, size_t sz, unsigned int off0, unsigned int off, int r, const rfc1035_query *q, size_t gi)
{
    if (r == 0)
        return off <= sz && off >= off0 + 5 &&                        /* >= 1 octet of name + QTYPE + QCLASS consumed */
               q->qtype == spec_be16(buf + off - 4) && q->qclass == spec_be16(buf + off - 2);
    if (r == 1)
        return q->qtype == 0 && q->qclass == 0 && (gi >= NS || q->name[gi] == 0);     /* all zero */
    return 0;
}

/* rfc1035RRUnpack: ensures */
static int spec_rr_post(const char *buf, size_t sz, unsigned int off0, unsigned int off, int r, const rfc1035_rr *RR, size_t gi)
{
    if (r == 0) {
        if (!(off <= sz && off >= off0 + 11)) return 0;               /* >= 1 octet of name + 10 fixed octets consumed */
        if (!(RR->rdata != NULL && __CPROVER_POINTER_OFFSET(RR->rdata) == 0)) return 0;
        if (RR->type == RFC1035_TYPE_PTR)                             /* PTR: a 256-byte block for the decoded target name */
            return __CPROVER_OBJECT_SIZE(RR->rdata) == NS && RR->rdlength <= NS;
        /* otherwise: a block of exactly the wire RDLENGTH holding exactly the RDATA octets, which lie inside the datagram */
        return __CPROVER_OBJECT_SIZE(RR->rdata) == RR->rdlength && off >= off0 + 11 + RR->rdlength &&
               (gi >= RR->rdlength || RR->rdata[gi] == buf[off - RR->rdlength + gi]);
    }
    if (r == 1)                                                       /* all zero: nothing left to free */
        return RR->rdata == NULL && RR->type == 0 && RR->_class == 0 && RR->ttl == 0 && RR->rdlength == 0 &&
               (gi >= NS || RR->name[gi] == 0);
    return 0;
}
#endif
#endif
