/* ASSUMED models of the libc functions src/ftp/Parsing.cc calls (each listed under "trusted" in unit.json).
 * Never variadic (units/README.md): the variadic ones are defined with the call site's argument types and assert their format.
 * This file is linked with the contract, i.e. it is NOT run through the automatic safety-check instrumentation (36 generated
 * assertions per copied byte made the SAT problem 6x larger): every model instead asserts its memory precondition
 * explicitly ("... stub: ..." obligations), which is where "the ip[] copy stays within MAX_IPSTRLEN" is checked. */
typedef unsigned long size_t;
#include "cv_ghost.h"
#define CV_LONG_MAX 9223372036854775807L
#define CV_LONG_MIN (-CV_LONG_MAX - 1L)
#define CV_ULONG_MAX 18446744073709551615UL

char cv_ftp_ipBuf[1024];

struct cv_ghost cvg;
extern size_t g;     /* the contract's ghost index (contract.c): arbitrary */

int cv_addr_is_any(void) { return cv_addr_any; }
int cv_addr_is_v6(void) { return cv_addr_v6; }
unsigned short cv_addr_set_port(unsigned short p) { ++cv_addr_port_calls; cv_addr_port = p; return p; }
void cv_addr_record_text(void) { cv_addr_want_text = 1; }

static int fmt_is(const char *fmt, const char *lit, int n)   /* n = strlen(lit)+1, constant at every call */
{
    for (int i = 0; i < n; i++)
        if (fmt[i] != lit[i]) return 0;
    return 1;
}

/* Ip::Address::operator=(const char *s) -- see stubs/ip/Address.h for the assumed contract */
int cv_addr_assign(const char *s)
{
    ++cv_addr_assigns;
    cv_addr_src = s;
    int any, v6;                   /* arbitrary verdicts */
    cv_addr_any = any != 0;
    cv_addr_v6 = v6 != 0;
    if (cv_snprintf_calls > 0 && s == cv_snprintf_dst) {
        for (int i = 0; i < 4; ++i)
            if (cv_snprintf_h[i] < 0 || cv_snprintf_h[i] > 255)
                cv_addr_any = 1;   /* not a dotted quad: the real object is emptied, isAnyAddr() becomes true */
    }
    if (cv_addr_want_text) {
        /* length of the assigned text = offset of its first NUL (-1: none within MAX_IPSTRLEN / the object), and its byte at the
         * ghost index g */
        __CPROVER_assert(__CPROVER_r_ok(s, 1), "Ip::Address stub: the assigned text is readable");
        int k = 0;
        while (k < CV_MAX_IPSTRLEN && __CPROVER_r_ok(s + k, 1) && s[k] != 0)
            ++k;
        cv_addr_len = (k < CV_MAX_IPSTRLEN && __CPROVER_r_ok(s + k, 1)) ? k : -1;
        cv_addr_text_g = (cv_addr_len >= 0 && g < (size_t)cv_addr_len) ? s[g] : 0;
    }
    return !cv_addr_any;
}

/* sscanf(str, "%d,%d,%d,%d,%d,%d", &h1..&p2): C11 7.21.6.2.  Returns the number n of items stored (EOF = -1 when the input
 * ends before the first conversion); exactly the first n targets are written.  A stored value is the decimal integer written
 * at that place when it fits an int; otherwise the behaviour is undefined (glibc: low 32 bits): then the model stores an
 * ARBITRARY int and raises cv_sscanf_ovf[i].  Nothing else about the text is modelled: the values are arbitrary. */
int sscanf(const char *str, const char *fmt, int *a0, int *a1, int *a2, int *a3, int *a4, int *a5)
{
    /* two formats are modelled: plain %d (a component that does not fit int is undefined behaviour: arbitrary value + ovf flag)
     * and %4d (C11 7.21.6.2p9: at most 4 characters are consumed per item, so every stored value lies in [-999, 9999]) */
    const _Bool plain = fmt_is(fmt, "%d,%d,%d,%d,%d,%d", 18);
    const _Bool width4 = fmt_is(fmt, "%4d,%4d,%4d,%4d,%4d,%4d", 24);
    __CPROVER_assert(plain || width4, "stub: sscanf models only the \"%d,%d,%d,%d,%d,%d\" and \"%4d,%4d,%4d,%4d,%4d,%4d\" formats");
    __CPROVER_assert(__CPROVER_r_ok(str, 1), "sscanf stub: str is readable");
    __CPROVER_assert(__CPROVER_w_ok(a0, sizeof(int)) && __CPROVER_w_ok(a1, sizeof(int)) && __CPROVER_w_ok(a2, sizeof(int)) &&
                     __CPROVER_w_ok(a3, sizeof(int)) && __CPROVER_w_ok(a4, sizeof(int)) && __CPROVER_w_ok(a5, sizeof(int)),
                     "sscanf stub: the six targets are writable ints");
    int n, v[6]; _Bool o[6];
    __CPROVER_assume(n >= -1 && n <= 6);
    int *t[6] = { a0, a1, a2, a3, a4, a5 };
    for (int i = 0; i < 6; i++) {
        cv_sscanf_v[i] = 0; cv_sscanf_ovf[i] = 0;
        if (width4) { __CPROVER_assume(v[i] >= -999 && v[i] <= 9999); o[i] = 0; }
        if (i < n) { *t[i] = v[i]; cv_sscanf_v[i] = v[i]; cv_sscanf_ovf[i] = o[i]; }
    }
    cv_sscanf_n = n;
    cv_sscanf_calls++;
    return n;
}

/* snprintf(dst, n, "%d.%d.%d.%d", h1, h2, h3, h4): writes at most n bytes, NUL-terminated when n > 0; the text is at most
 * 4*11+3 = 47 characters.  The characters themselves are arbitrary; the four values are remembered. */
int snprintf(char *dst, size_t n, const char *fmt, int h1, int h2, int h3, int h4)
{
    __CPROVER_assert(fmt_is(fmt, "%d.%d.%d.%d", 12), "snprintf stub: only the \"%d.%d.%d.%d\" format is modelled");
    __CPROVER_assert(n == 0 || __CPROVER_w_ok(dst, n), "snprintf stub: dst has room for n bytes");
    size_t len;
    __CPROVER_assume(len >= 7 && len <= 47);
    if (n > 0) {
        size_t w = len < n ? len : n - 1;
        char any[48];
        for (size_t i = 0; i < 48; i++)
            if (i <= w) dst[i] = i < w ? any[i] : 0;
    }
    cv_snprintf_dst = dst; cv_snprintf_h[0] = h1; cv_snprintf_h[1] = h2; cv_snprintf_h[2] = h3; cv_snprintf_h[3] = h4;
    cv_snprintf_calls++;
    return (int)len;
}

/* ---- the string under scan: set by the harness (cv_set_string).  cv_slen is the offset of its FIRST NUL. ---- */
static const char *cv_str; static size_t cv_slen;
void cv_set_string(const char *s, size_t len) { cv_str = s; cv_slen = len; }

/* strtol(nptr, &end, 10), C11 7.22.1.4 -- ASSUMED CONTRACT, loop-free: nptr points into the string; the function consumes
 * k bytes, none of them the terminator; either no conversion (end = nptr, result 0) or `digits` >= 1 digits end at end[-1]
 * and end[0] is not a digit; the result is an ARBITRARY long (by assumption: the decimal written there), or LONG_MAX/LONG_MIN
 * with the ghost flag ovf when that decimal does not fit (errno, which the caller does not read, is not modelled). */
long strtol(const char *nptr, char **endptr, int base)
{
    __CPROVER_assert(base == 10, "strtol stub: only base 10 is modelled");
    __CPROVER_assert(__CPROVER_same_object(nptr, cv_str) && nptr >= cv_str && (size_t)(nptr - cv_str) <= cv_slen,
                     "strtol stub: nptr points into the NUL-terminated string (not past its terminator)");
    size_t rem = cv_slen - (size_t)(nptr - cv_str);
    size_t k; int digits; long r; _Bool o; int ovf = 0;
    __CPROVER_assume(k <= rem && digits >= 0 && (size_t)digits <= k);
    if (digits == 0) { k = 0; r = 0; }
    else {
        __CPROVER_assume(nptr[k - 1] >= '0' && nptr[k - 1] <= '9' && !(nptr[k] >= '0' && nptr[k] <= '9'));
        if (o) { ovf = 1; __CPROVER_assume(r == CV_LONG_MAX || r == CV_LONG_MIN); }
    }
    __CPROVER_assert(endptr == 0 || __CPROVER_w_ok(endptr, sizeof(char *)), "strtol stub: endptr is writable");
    if (endptr) *endptr = (char *)nptr + k;
    if (cv_strtol_calls < 2) {
        cv_strtol_nptr[cv_strtol_calls] = nptr; cv_strtol_end[cv_strtol_calls] = nptr + k; cv_strtol_val[cv_strtol_calls] = r;
        cv_strtol_digits[cv_strtol_calls] = digits; cv_strtol_ovf[cv_strtol_calls] = ovf;
    }
    cv_strtol_calls++;
    return r;
}

/* strchr(s, c), c != 0 -- ASSUMED CONTRACT, loop-free: s points into the string; returns a position q >= s before the
 * terminator with *q == c such that no earlier byte equals c, or NULL when no byte before the terminator equals c.
 * "No earlier byte" is assumed at the ghost index g only (g is arbitrary, and the contract states its claim at the same g). */
char *strchr(const char *s, int c)
{
    __CPROVER_assert(__CPROVER_same_object(s, cv_str) && s >= cv_str && (size_t)(s - cv_str) <= cv_slen,
                     "strchr stub: s points into the NUL-terminated string");
    __CPROVER_assert((char)c != 0, "strchr stub: searching for the terminator is not modelled");
    size_t rem = cv_slen - (size_t)(s - cv_str);
    _Bool found; size_t k;
    if (found) {
        __CPROVER_assume(k < rem && s[k] == (char)c);
        __CPROVER_assume(!(g < k) || s[g] != (char)c);
        return (char *)s + k;
    }
    __CPROVER_assume(!(g < rem) || s[g] != (char)c);
    return 0;
}

/* strncpy(dst, src, n), C11 7.24.2.4 -- ASSUMED CONTRACT with a constant-index loop: src points into the string; exactly n
 * bytes of dst are written: byte i is NON-ZERO for i < strlen(src) and ZERO from there on (exact), its VALUE is exact at the
 * ghost index g (dst[g] == src[g]) and arbitrary elsewhere (the contract states the text equality at the same arbitrary g).
 * Reading src byte by byte at a symbolic offset was the dominant SAT cost; this keeps one symbolic read. */
char *strncpy(char *dst, const char *src, size_t n)
{
    __CPROVER_assert(n == 0 || __CPROVER_w_ok(dst, n), "strncpy stub: dst has room for the n bytes strncpy always writes");
    __CPROVER_assert(__CPROVER_same_object(src, cv_str) && src >= cv_str && (size_t)(src - cv_str) <= cv_slen,
                     "strncpy stub: src points into the NUL-terminated string");
    size_t rem = cv_slen - (size_t)(src - cv_str);     /* strlen(src) */
    for (size_t i = 0; i < n; i++) {
        char c;
        if (i < rem) __CPROVER_assume(c != 0);
        else c = 0;
        dst[i] = c;
    }
    if (g < n && g < rem) dst[g] = src[g];
    return dst;
}

/* MemBuf (used only by Ftp::UnescapeDoubleQuoted, which is compiled but not under contract here) has no model. */
