/* ASSUMED models of the libc functions src/ftp/Parsing.cc calls (each listed under "trusted" in unit.json).
 * Never variadic (units/README.md): the variadic ones are defined with the call site's argument types and assert their format. */
typedef unsigned long size_t;
#include "cv_ghost.h"
#define CV_LONG_MAX 9223372036854775807L
#define CV_LONG_MIN (-CV_LONG_MAX - 1L)
#define CV_ULONG_MAX 18446744073709551615UL

char cv_ftp_ipBuf[1024];

struct cv_ghost cvg;

int cv_addr_is_any(void) { return cv_addr_any; }
int cv_addr_is_v6(void) { return cv_addr_v6; }
unsigned short cv_addr_set_port(unsigned short p) { ++cv_addr_port_calls; cv_addr_port = p; return p; }
void cv_addr_record_text(void) { cv_addr_want_text = 1; }

static int fmt_is(const char *fmt, const char *lit, int n)   /* n = strlen(lit)+1, constant at every call */
{
    for (int i = 0; i < n; i++)
        if (fmt[i] != lit[i]) return 0;
    return 1;
}

/* Ip::Address::operator=(const char *s) -- see stubs/ip/Address.h for the assumed contract */
int cv_addr_assign(const char *s)
{
    ++cv_addr_assigns;
    cv_addr_src = s;
    _Bool any, v6;                 /* arbitrary verdicts */
    cv_addr_any = any;
    cv_addr_v6 = v6;
    if (cv_snprintf_calls > 0 && s == cv_snprintf_dst) {
        for (int i = 0; i < 4; ++i)
            if (cv_snprintf_h[i] < 0 || cv_snprintf_h[i] > 255)
                cv_addr_any = 1;   /* not a dotted quad: the real object is emptied, isAnyAddr() becomes true */
    }
    if (cv_addr_want_text) {
        int k = 0;
        while (k < CV_MAX_IPSTRLEN && s[k] != 0) {
            cv_addr_text[k] = s[k];
            ++k;
        }
        cv_addr_len = k < CV_MAX_IPSTRLEN ? k : -1;
    }
    return !cv_addr_any;
}

/* sscanf(str, "%d,%d,%d,%d,%d,%d", &h1..&p2): C11 7.21.6.2.  Returns the number n of items stored (EOF = -1 when the input
 * ends before the first conversion); exactly the first n targets are written.  A stored value is the decimal integer written
 * at that place when it fits an int; otherwise the behaviour is undefined (glibc: low 32 bits): then the model stores an
 * ARBITRARY int and raises cv_sscanf_ovf[i].  Nothing else about the text is modelled: the values are arbitrary. */
int sscanf(const char *str, const char *fmt, int *a0, int *a1, int *a2, int *a3, int *a4, int *a5)
{
    __CPROVER_assert(fmt_is(fmt, "%d,%d,%d,%d,%d,%d", 18), "sscanf stub: only the \"%d,%d,%d,%d,%d,%d\" format is modelled");
    (void)*str;
    int n, v[6]; _Bool o[6];
    __CPROVER_assume(n >= -1 && n <= 6);
    int *t[6] = { a0, a1, a2, a3, a4, a5 };
    for (int i = 0; i < 6; i++) {
        cv_sscanf_v[i] = 0; cv_sscanf_ovf[i] = 0;
        if (i < n) { *t[i] = v[i]; cv_sscanf_v[i] = v[i]; cv_sscanf_ovf[i] = o[i]; }
    }
    cv_sscanf_n = n;
    cv_sscanf_calls++;
    return n;
}

/* snprintf(dst, n, "%d.%d.%d.%d", h1, h2, h3, h4): writes at most n bytes, NUL-terminated when n > 0; the text is at most
 * 4*11+3 = 47 characters.  The characters themselves are left arbitrary (havocked); the four values are remembered. */
int snprintf(char *dst, size_t n, const char *fmt, int h1, int h2, int h3, int h4)
{
    __CPROVER_assert(fmt_is(fmt, "%d.%d.%d.%d", 12), "snprintf stub: only the \"%d.%d.%d.%d\" format is modelled");
    size_t len;
    __CPROVER_assume(len >= 7 && len <= 47);
    if (n > 0) {
        size_t w = len < n ? len : n - 1;
        __CPROVER_havoc_slice(dst, w + 1);
        dst[w] = 0;
    }
    cv_snprintf_dst = dst; cv_snprintf_h[0] = h1; cv_snprintf_h[1] = h2; cv_snprintf_h[2] = h3; cv_snprintf_h[3] = h4;
    cv_snprintf_calls++;
    return (int)len;
}

/* strtol(nptr, &end, 10), C11 7.22.1.4, "C" locale: white space, optional sign, decimal digits; no digits => 0 and end = nptr;
 * out of range => LONG_MAX / LONG_MIN (errno, which the caller does not read, is not modelled). */
long strtol(const char *nptr, char **endptr, int base)
{
    __CPROVER_assert(base == 10, "strtol stub: only base 10 is modelled");
    const char *p = nptr;
    while (*p == ' ' || (*p >= '\t' && *p <= '\r')) p++;
    int neg = 0;
    if (*p == '-') { neg = 1; p++; }
    else if (*p == '+') p++;
    unsigned long acc = 0; int ovf = 0, digits = 0;
    while (*p >= '0' && *p <= '9') {
        unsigned long d = (unsigned long)(*p - '0');
        if (acc > (CV_ULONG_MAX - d) / 10) ovf = 1;
        else acc = acc * 10 + d;
        digits++; p++;
    }
    long r;
    if (digits == 0) { p = nptr; r = 0; }
    else if (neg) {
        if (ovf || acc > (unsigned long)CV_LONG_MAX + 1UL) { r = CV_LONG_MIN; ovf = 1; }
        else if (acc == (unsigned long)CV_LONG_MAX + 1UL) r = CV_LONG_MIN;
        else r = -(long)acc;
    } else {
        if (ovf || acc > (unsigned long)CV_LONG_MAX) { r = CV_LONG_MAX; ovf = 1; }
        else r = (long)acc;
    }
    if (endptr) *endptr = (char *)p;
    if (cv_strtol_calls < 2) {
        cv_strtol_nptr[cv_strtol_calls] = nptr; cv_strtol_end[cv_strtol_calls] = p; cv_strtol_val[cv_strtol_calls] = r;
        cv_strtol_digits[cv_strtol_calls] = digits; cv_strtol_ovf[cv_strtol_calls] = ovf;
    }
    cv_strtol_calls++;
    return r;
}

char *strchr(const char *s, int c)
{
    for (;; s++) {
        if (*s == (char)c) return (char *)s;
        if (*s == 0) return 0;
    }
}

char *strncpy(char *dst, const char *src, size_t n)
{
    size_t i = 0;
    for (; i < n && src[i] != 0; i++) dst[i] = src[i];
    for (; i < n; i++) dst[i] = 0;
    return dst;
}

/* MemBuf (used only by Ftp::UnescapeDoubleQuoted, which is compiled but not under contract here) has no model. */
