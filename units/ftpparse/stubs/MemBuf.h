/* stub MemBuf for Ftp::UnescapeDoubleQuoted (compiled, not under contract) */
#ifndef CV_STUB_MEMBUF_H
#define CV_STUB_MEMBUF_H
class MemBuf
{
public:
    void reset();
    void append(const char *c, int sz);
    char *content();
};
#endif
