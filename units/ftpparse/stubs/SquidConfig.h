/* stub SquidConfig: the one field Parsing.cc reads (same type and shape as in src/SquidConfig.h: int inside an anonymous struct).
 * The object is defined in wrap.cc; --dfcc leaves it arbitrary (it havocs statics); contract.c reads it through cv_sanitycheck(). */
#ifndef CV_STUB_SQUIDCONFIG_H
#define CV_STUB_SQUIDCONFIG_H
class SquidConfig
{
public:
    struct {
        int sanitycheck;
    } Ftp;
};
extern SquidConfig Config;
/* static local of Ftp::ParseIpPort, hoisted by an extraction rule so that the frame can name it */
extern "C" char cv_ftp_ipBuf[1024];
#endif
