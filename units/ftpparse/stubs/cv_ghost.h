/* Ghost state shared by the stub models (stubs.c) and the sidecar contract (contract.c).
 * One Ip::Address object is in play per check; its observable state lives here so that contract.c (C) can name it.
 * All ghosts are members of ONE object (cvg): one entry in the --dfcc write set instead of twenty.  The C++ side
 * (stubs/ip/Address.h) only sees the four model functions. */
#ifndef CV_GHOST_H
#define CV_GHOST_H
#define CV_MAX_IPSTRLEN 75          /* must equal MAX_IPSTRLEN of src/ip/forward.h: asserted (lemma in contract.c) */
#ifdef __cplusplus
extern "C" {
#endif
int cv_addr_assign(const char *s);                 /* model of Ip::Address::operator=(const char*) */
int cv_addr_is_any(void);                          /* isAnyAddr() */
int cv_addr_is_v6(void);                           /* isIPv6() */
unsigned short cv_addr_set_port(unsigned short p); /* port(unsigned short) */
void cv_set_string(const char *s, unsigned long len);   /* harness: the string the libc models scan; len = offset of its first NUL */
void cv_addr_record_text(void);                    /* EPRT wrapper: ask cv_addr_assign to copy the assigned text */
#ifdef __cplusplus
}
#else
struct cv_ghost {
    /* ---- Ip::Address stub ---- */
    int addr_assigns;             /* number of operator=(const char*) calls */
    const char *addr_src;         /* argument of the last one */
    int addr_want_text;           /* set by the EPRT wrapper: record the length of the assigned text and its byte at the ghost index */
    int addr_len;                 /* length of the assigned text (-1: not NUL-terminated within MAX_IPSTRLEN) */
    char addr_text_g;             /* byte g of the assigned text (g = the contract's ghost index), 0 when g >= length */
    int addr_any;                 /* verdict of isAnyAddr() after the last assignment */
    int addr_v6;                  /* verdict of isIPv6() after the last assignment */
    int addr_port_calls;          /* number of port(unsigned short) calls */
    unsigned short addr_port;     /* its last argument, as received (after the caller's int -> unsigned short conversion) */
    /* ---- sscanf("%d,%d,%d,%d,%d,%d") model ---- */
    int sscanf_calls;
    int sscanf_n;                 /* return value */
    int sscanf_v[6];              /* values stored */
    int sscanf_ovf[6];            /* component i was written with more digits than an int holds (C11 7.21.6.2p10: undefined;
                                     glibc stores the low 32 bits) */
    /* ---- snprintf(dst, n, "%d.%d.%d.%d", h1..h4) model ---- */
    int snprintf_calls;
    char *snprintf_dst;
    int snprintf_h[4];
    /* ---- strtol(nptr, &end, 10) model ---- */
    int strtol_calls;
    const char *strtol_nptr[2];
    const char *strtol_end[2];
    long strtol_val[2];           /* return value */
    int strtol_digits[2];         /* number of digits consumed (0: no conversion) */
    int strtol_ovf[2];            /* the digits denote a number outside long: result clamped (ERANGE) */
};
extern struct cv_ghost cvg;
#define cv_addr_assigns cvg.addr_assigns
#define cv_addr_src cvg.addr_src
#define cv_addr_want_text cvg.addr_want_text
#define cv_addr_len cvg.addr_len
#define cv_addr_text_g cvg.addr_text_g
#define cv_addr_any cvg.addr_any
#define cv_addr_v6 cvg.addr_v6
#define cv_addr_port_calls cvg.addr_port_calls
#define cv_addr_port cvg.addr_port
#define cv_sscanf_calls cvg.sscanf_calls
#define cv_sscanf_n cvg.sscanf_n
#define cv_sscanf_v cvg.sscanf_v
#define cv_sscanf_ovf cvg.sscanf_ovf
#define cv_snprintf_calls cvg.snprintf_calls
#define cv_snprintf_dst cvg.snprintf_dst
#define cv_snprintf_h cvg.snprintf_h
#define cv_strtol_calls cvg.strtol_calls
#define cv_strtol_nptr cvg.strtol_nptr
#define cv_strtol_end cvg.strtol_end
#define cv_strtol_val cvg.strtol_val
#define cv_strtol_digits cvg.strtol_digits
#define cv_strtol_ovf cvg.strtol_ovf
#endif
#endif
