/* stub: the real src/ip/forward.h needs <cstdint>; MAX_IPSTRLEN is compared with the real header's value by gen.py */
#ifndef CV_STUB_IP_FORWARD_H
#define CV_STUB_IP_FORWARD_H
namespace Ip { class Address; }
#define MAX_IPSTRLEN  75
#endif
