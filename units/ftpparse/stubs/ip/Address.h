/* stub Ip::Address: an ASSUMED model of the four members Parsing.cc calls. State is kept in cv_ghost.h globals.
 *  operator=(const char*)  real: getaddrinfo(AI_NUMERICHOST); on failure the object is emptied (=> isAnyAddr() is true).
 *      model: the verdicts any/v6 are arbitrary, EXCEPT that a text produced by snprintf("%d.%d.%d.%d") with a component
 *      outside 0..255 is not an IP address, so the object is emptied (assumed: glibc's numeric-host parser).
 *  port(unsigned short)    records the argument exactly as received. */
#ifndef CV_STUB_IP_ADDRESS_H
#define CV_STUB_IP_ADDRESS_H
#include "ip/forward.h"
namespace Ip {
class Address
{
public:
    // models in stubs.c (C, so that their loops can be named and their state is one C object)
    bool operator =(const char *s) { return cv_addr_assign(s) != 0; }
    bool isAnyAddr() const { return cv_addr_is_any() != 0; }
    bool isIPv6() const { return cv_addr_is_v6() != 0; }
    unsigned short port(unsigned short prt) { return cv_addr_set_port(prt); }
};
}
#endif
