/* stub squid.h for the C++ front end (-nostdinc): exactly the libc surface src/ftp/Parsing.cc touches.
 * The variadic functions are declared NON-variadically with the call site's argument types (units/README.md, Stubs). */
#ifndef CV_STUB_SQUID_H
#define CV_STUB_SQUID_H
typedef unsigned long size_t;
typedef unsigned int uint32_t;
#include "cv_ghost.h"
extern "C" {
    int sscanf(const char *str, const char *fmt, int *, int *, int *, int *, int *, int *);
    int snprintf(char *dst, size_t n, const char *fmt, int, int, int, int);
    long strtol(const char *nptr, char **endptr, int base);
    char *strchr(const char *s, int c);
    char *strncpy(char *dst, const char *src, size_t n);
}
#endif
