/* Sidecar contracts for src/ftp/Parsing.cc: Ftp::ParseIpPort, Ftp::ParseProtoIpPort (real text, C++ front end, stub headers).
 * The contracts sit on the extern "C" wrappers of wrap.cc.  --dfcc enforces the FRAME (assigns clause: only the address
 * object's state and the stub ghosts are written; the caller's strings are not) and the safety checks of the real
 * statements; the semantic postconditions, which come from C40 ("an address only when every component is in range,
 * including a port from 1 to 65535"), are named assertions in the harness so that each one is a separately reported obligation.
 *
 * cv_* ghosts: see stubs/cv_ghost.h (state of the one Ip::Address object, what the libc models saw and returned). */
#include <stddef.h>
#include <limits.h>
#include "cv_ghost.h"
extern char cv_ftp_ipBuf[1024];   /* hoisted static local of Ftp::ParseIpPort */
int cv_sanitycheck(void);          /* reads Config.Ftp.sanitycheck (wrap.cc) */
void cv_set_sanitycheck(int v);
/* Two ways to run the same harness (unit.json): plain cbmc ("harness" mode: statics keep their initialisers, so the ghosts
 * start clear and the configuration value is made arbitrary here), or --dfcc enforcement of the contract below (CV_DFCC:
 * every static is havocked by the instrumentation, ghosts_clear() is a precondition, and the assigns clause is checked). */
#ifdef CV_DFCC
#define ARBITRARY_CONFIG() ((void)0)
#else
static void ARBITRARY_CONFIG(void) { int v; cv_set_sanitycheck(v); }
#endif

#ifndef N
#define N 128         /* buf is any NUL-terminated string shorter than N */
#endif

size_t g;             /* ghost index: arbitrary */

#ifndef CV_NATIVE
int cv_max_ipstrlen(void);
void cv_set_string(const char *s, size_t len);

static int ghosts_clear(void)
{
    return cv_addr_assigns == 0 && cv_addr_src == NULL && cv_addr_len == 0 && cv_addr_any == 0 && cv_addr_v6 == 0 &&
           cv_addr_port_calls == 0 && cv_addr_port == 0 && cv_sscanf_calls == 0 && cv_sscanf_n == 0 &&
           cv_snprintf_calls == 0 && cv_snprintf_dst == NULL && cv_strtol_calls == 0 && cv_addr_want_text == 0 &&
           cv_strtol_nptr[0] == NULL && cv_strtol_nptr[1] == NULL && cv_strtol_end[0] == NULL && cv_strtol_end[1] == NULL &&
           cv_strtol_val[0] == 0 && cv_strtol_val[1] == 0 && cv_strtol_digits[0] == 0 && cv_strtol_digits[1] == 0 &&
           cv_strtol_ovf[0] == 0 && cv_strtol_ovf[1] == 0 &&
           cv_sscanf_ovf[0] == 0 && cv_sscanf_ovf[1] == 0 && cv_sscanf_ovf[2] == 0 && cv_sscanf_ovf[3] == 0 &&
           cv_sscanf_ovf[4] == 0 && cv_sscanf_ovf[5] == 0;
}

#define GHOST_FRAME __CPROVER_object_whole(&cvg)

/* -------------------------------------------------------------------------------------------------------------------
 * Ftp::ParseIpPort(buf, forceIp, addr)   "A1,A2,A3,A4,P1,P2"
 * requires: buf, forceIp (when given) NUL-terminated strings.  frame: addr (+ the function's own static ipBuf).
 * ------------------------------------------------------------------------------------------------------------------- */
int cv_ParseIpPort(const char *buf, const char *forceIp)
__CPROVER_requires(__CPROVER_r_ok(buf, N) && buf[N - 1] == 0)
__CPROVER_requires(forceIp == NULL || __CPROVER_r_ok(forceIp, 8))
__CPROVER_requires(ghosts_clear())
__CPROVER_assigns(GHOST_FRAME, __CPROVER_object_whole(cv_ftp_ipBuf))
__CPROVER_ensures(__CPROVER_return_value == 0 || __CPROVER_return_value == 1)
/* whatever the verdict: the port setter runs at most once, and only on acceptance */
__CPROVER_ensures(cv_addr_port_calls == (__CPROVER_return_value ? 1 : 0))
;

#if defined(T_IPPORT)
void h_ipport(void)
{
    char buf[N]; char force[8]; _Bool use_force;
    ARBITRARY_CONFIG();
    const int sanitycheck = cv_sanitycheck();
    buf[N - 1] = 0; force[7] = 0;
    const char *forceIp = use_force ? force : NULL;
    int r = cv_ParseIpPort(buf, forceIp);
    /* copies for the counterexample file (native replay rebuilds the string from them) */
    int n = cv_sscanf_n, h1 = cv_sscanf_v[0], h2 = cv_sscanf_v[1], h3 = cv_sscanf_v[2], h4 = cv_sscanf_v[3],
        p1 = cv_sscanf_v[4], p2 = cv_sscanf_v[5];
    int o1 = cv_sscanf_ovf[0], o2 = cv_sscanf_ovf[1], o3 = cv_sscanf_ovf[2], o4 = cv_sscanf_ovf[3],
        o5 = cv_sscanf_ovf[4], o6 = cv_sscanf_ovf[5];
    int any = cv_addr_any;
    long port_set = cv_addr_port_calls ? (long)cv_addr_port : -1;

#ifndef CV_DFCC   /* the frame-only targets (--dfcc) repeat the call, not the semantic postconditions */
    __CPROVER_assert(cv_sscanf_calls == 1, "ensures: the string is scanned exactly once");
    __CPROVER_assert(!r || n == 6, "ensures: accepted => all six components were present");
    __CPROVER_assert(!r || (p1 >= 0 && p1 <= 255 && p2 >= 0 && p2 <= 255), "ensures: accepted => p1, p2 within 0..255");
#ifdef TWIN_PORT
    __CPROVER_assert(!(!r || (cv_addr_port_calls == 1 && (long)cv_addr_port == (long)p1 * 256 + p2)),
                     "ensures: TWIN (negated) port value");
#else
    __CPROVER_assert(!r || (cv_addr_port_calls == 1 && (long)cv_addr_port == (long)p1 * 256 + p2),
                     "ensures: accepted => the port handed to addr.port() is exactly p1*256+p2 as written");
#endif
    __CPROVER_assert(!r || (cv_addr_port >= 1 && cv_addr_port <= 65535), "ensures: accepted => 1 <= port <= 65535");
    __CPROVER_assert(!(r && sanitycheck) || cv_addr_port >= 1024, "ensures: ftp_sanitycheck => accepted port >= 1024");
    __CPROVER_assert(!(r && !use_force) || (cv_addr_assigns == 1 && cv_snprintf_calls == 1 && cv_addr_src == cv_snprintf_dst &&
                                           cv_snprintf_h[0] == h1 && cv_snprintf_h[1] == h2 && cv_snprintf_h[2] == h3 &&
                                           cv_snprintf_h[3] == h4 && !any),
                     "ensures: accepted, no forced IP => addr is the parsed h1.h2.h3.h4 and is not the any-address");
    __CPROVER_assert(!(r && !use_force) || (h1 >= 0 && h1 <= 255 && h2 >= 0 && h2 <= 255 && h3 >= 0 && h3 <= 255 && h4 >= 0 && h4 <= 255),
                     "ensures: accepted, no forced IP => h1..h4 within 0..255 (through the assumed Ip::Address verdict)");
    __CPROVER_assert(!(r && use_force) || (cv_addr_assigns == 1 && cv_addr_src == force && cv_snprintf_calls == 0),
                     "ensures: accepted, forced IP => addr is assigned from forceIp only");
    __CPROVER_assert(!(r && use_force) || (h1 >= 0 && h1 <= 255 && h2 >= 0 && h2 <= 255 && h3 >= 0 && h3 <= 255 && h4 >= 0 && h4 <= 255),
                     "ensures: accepted, forced IP => h1..h4 still within 0..255 (every component in range)");
    __CPROVER_assert(!r || !(o1 || o2 || o3 || o4 || o5 || o6),
                     "ensures: accepted => no component was too large for an int (huge components are rejected)");
#endif
    __CPROVER_assert(buf[N - 1] == 0 && force[7] == 0, "ensures: input strings not written (sentinels)");
    __CPROVER_assert(cv_sanitycheck() == sanitycheck, "ensures: configuration not written");
#ifdef REACH
    __CPROVER_assert(!(r && !use_force && port_set == 65535), "reach: accepted, port 65535, parsed IP");
    __CPROVER_assert(!(r && use_force && sanitycheck && port_set == 1024), "reach: accepted with forced IP under sanitycheck");
    __CPROVER_assert(!(!r && n == 6 && p1 == 0 && p2 == 0), "reach: rejected, port 0");
    __CPROVER_assert(!(!r && n == 6 && p1 == 0 && p2 == 21 && sanitycheck), "reach: rejected, port < 1024 under sanitycheck");
    __CPROVER_assert(!(!r && n == 6 && !use_force && any && p2 > 0), "reach: rejected, any-address / unparsable IP");
    __CPROVER_assert(!(!r && n == 5), "reach: rejected, missing component");
    __CPROVER_assert(!(!r && n == 6 && p1 == 256), "reach: rejected, p1 out of range");
#endif
}
#endif

/* -------------------------------------------------------------------------------------------------------------------
 * Ftp::ParseProtoIpPort(buf, addr)   EPRT "<d><net-prt><d><net-addr><d><tcp-port><d>" (RFC 2428)
 * requires: buf a NUL-terminated, NON-EMPTY string (the one call site, Ftp::Server::handleEprtRequest, checks params.size()).
 * ------------------------------------------------------------------------------------------------------------------- */
int cv_ParseProtoIpPort(const char *buf)
__CPROVER_requires(__CPROVER_r_ok(buf, N) && buf[N - 1] == 0 && buf[0] != 0)
__CPROVER_requires(ghosts_clear())
__CPROVER_assigns(GHOST_FRAME)
__CPROVER_ensures(__CPROVER_return_value == 0 || __CPROVER_return_value == 1)
__CPROVER_ensures(cv_addr_port_calls == (__CPROVER_return_value ? 1 : 0))
;

#if defined(T_PROTOIPPORT)
void h_protoipport(void)
{
    char buf[N]; size_t L;
    ARBITRARY_CONFIG();
    const int sanitycheck = cv_sanitycheck();
    /* input domain: any NUL-terminated, non-empty string of length L < N (L = offset of the first NUL) */
    __CPROVER_assume(L >= 1 && L < N);
    /* built with constant indices (a quantified assumption over buf costs a quadratic number of array constraints):
     * bytes before L are arbitrary non-zero, byte L is the terminator, bytes after it arbitrary */
    for (size_t k = 0; k < N; k++) {
        char ch;
        if (k < L) __CPROVER_assume(ch != 0);
        else if (k == L) ch = 0;
        buf[k] = ch;
    }
    cv_set_string(buf, L);
    const char guard = buf[N - 1];
    int r = cv_ParseProtoIpPort(buf);
    char d = buf[0];
    /* copies for the counterexample file (the native replay rebuilds a string from them: the libc models are value-based) */
    long proto = cv_strtol_val[0], port = cv_strtol_val[1];
    int proto_ovf = cv_strtol_ovf[0], port_ovf = cv_strtol_ovf[1], port_digits = cv_strtol_digits[1];
    long port_set = cv_addr_port_calls ? (long)cv_addr_port : -1;
    long a = cv_strtol_calls >= 1 ? cv_strtol_end[0] - buf : -1;       /* offset of the delimiter after <net-prt> */
    long len = cv_addr_len;                                            /* length of the text handed to the address */
    int any = cv_addr_any, v6 = cv_addr_v6;

#ifndef CV_DFCC
    __CPROVER_assert(cv_max_ipstrlen() == CV_MAX_IPSTRLEN, "lemma: the stubs' MAX_IPSTRLEN is the compiled one");
    __CPROVER_assert(!r || (cv_strtol_calls == 2 && cv_strtol_nptr[0] == buf + 1 && !proto_ovf && (proto == 1 || proto == 2)),
                     "ensures: accepted => <net-prt> as written is 1 or 2");
    /* frame of the local ip[MAX_IPSTRLEN] copy: bounds/pointer obligations of the real statements and of the strncpy model;
     * and whatever reaches the address object, accepted or not, is terminated and short */
    __CPROVER_assert(cv_addr_assigns == 0 || (cv_addr_assigns == 1 && len >= 0 && len < CV_MAX_IPSTRLEN),
                     "ensures: any text handed to the address object is NUL-terminated within MAX_IPSTRLEN");
    /* the address text is exactly the bytes between the 2nd and 3rd delimiter */
    __CPROVER_assert(!r || (cv_addr_assigns == 1 && a >= 1 && a + 1 + len < (long)L && buf[a] == d && buf[a + 1 + len] == d),
                     "ensures: accepted => addr is assigned once, from the text delimited by the 2nd and 3rd <d>");
    __CPROVER_assert(!(r && len >= 0 && a >= 1 && a + 1 + len < (long)L && g < (size_t)len) ||
                     (cv_addr_text_g == buf[a + 1 + g] && buf[a + 1 + g] != d),
                     "ensures: accepted => the assigned text equals <net-addr> byte for byte (ghost index)");
    /* stated for the written <net-prt> values 1 and 2 only, so that it does not repeat the finding of the <net-prt> obligation */
    __CPROVER_assert(!r || (!any && !(proto == 1 && v6) && !(proto == 2 && !v6)),
                     "ensures: accepted => not the any-address, and family matches <net-prt>");
    __CPROVER_assert(!r || (cv_strtol_nptr[1] == buf + a + 1 + len + 1 && port_digits > 0),
                     "ensures: accepted => <tcp-port> is a number, read right after the 3rd delimiter");
#ifdef TWIN_PORT
    __CPROVER_assert(!(!r || (!port_ovf && cv_addr_port_calls == 1 && (long)cv_addr_port == port)),
                     "ensures: TWIN (negated) port value");
#else
    __CPROVER_assert(!r || (!port_ovf && cv_addr_port_calls == 1 && (long)cv_addr_port == port),
                     "ensures: accepted => the port handed to addr.port() equals the decimal written in <tcp-port>");
#endif
#ifdef TWIN_LEN
    __CPROVER_assert(cv_addr_assigns == 0 || len < CV_MAX_IPSTRLEN - 1, "ensures: TWIN (too strong) text shorter than MAX_IPSTRLEN-1");
#endif
    __CPROVER_assert(!r || (port_set >= 1 && port_set <= 65535), "ensures: accepted => 1 <= port <= 65535");
    __CPROVER_assert(!(r && sanitycheck) || port_set >= 1024, "ensures: ftp_sanitycheck => accepted port >= 1024 (port as set)");
    __CPROVER_assert(!(r && sanitycheck && !port_ovf && port >= 0 && port <= 65535) || port >= 1024,
                     "ensures: ftp_sanitycheck => no in-range port below 1024 is accepted");
#endif
    __CPROVER_assert(buf[L] == 0 && buf[0] == d && buf[N - 1] == guard, "ensures: input string not written (sentinels)");
    __CPROVER_assert(cv_sanitycheck() == sanitycheck, "ensures: configuration not written");
#ifdef REACH
    __CPROVER_assert(!(r && proto == 1 && port_set == 21 && len == 7), "reach: accepted, IPv4, 7-byte address, port 21");
    __CPROVER_assert(!(r && proto == 2 && sanitycheck && len == 3), "reach: accepted, IPv6 under sanitycheck");
    __CPROVER_assert(!(!r && cv_strtol_calls == 1 && proto == 3), "reach: rejected, protocol 3");
    __CPROVER_assert(!(!r && cv_strtol_calls == 1 && cv_addr_assigns == 0 && proto == 1 && buf[a] == d), "reach: rejected, no 3rd delimiter or text too long");
    __CPROVER_assert(!(!r && cv_addr_assigns == 1 && any), "reach: rejected, any-address / unparsable");
    __CPROVER_assert(!(!r && cv_addr_assigns == 1 && !any && v6 && proto == 1), "reach: rejected, family mismatch");
    __CPROVER_assert(!(!r && cv_strtol_calls == 2 && port < 0), "reach: rejected, negative port");
    __CPROVER_assert(!(!r && cv_strtol_calls == 2 && port == 80 && sanitycheck), "reach: rejected, port < 1024 under sanitycheck");
    __CPROVER_assert(!(cv_addr_assigns == 1 && len == CV_MAX_IPSTRLEN - 1), "reach: longest address text that reaches the address object (74 bytes)");
    __CPROVER_assert(!(!r && cv_strtol_calls == 1 && cv_addr_assigns == 0 && a == 2 && buf[a] == d && buf[a + 1 + CV_MAX_IPSTRLEN] == d &&
                       L > (size_t)a + 2 + CV_MAX_IPSTRLEN),
                     "reach: rejected, 75-byte address text");
#endif
}
#endif
#endif /* CV_NATIVE */
