// Native replay for the ftpparse unit: the REAL src/ftp/Parsing.cc (current tree) compiled natively with the real headers,
// linked with the REAL Ip::Address (src/ip/Address.o, src/ip/tools.o of the build tree) and glibc's sscanf/strtol/getaddrinfo,
// under ASan+UBSan.  It re-evaluates C40's postcondition with an independent reference reading of the string
// (arbitrary-size decimal components), not with the verifier's stub models.
#include "squid.h"
#include "ftp/Parsing.h"
#include "ip/Address.h"
#include "SquidConfig.h"
#include "base/Here.h"
#include REAL_PARSING_CC
#include "replay.h"
#include <string>
#include <vector>

// `Config` without running SquidConfig's constructor (which would pull in half of squid): zeroed storage under the same
// symbol name; only Config.Ftp.sanitycheck (an int) is touched by the code under test.
alignas(64) char cv_config_mem[sizeof(SquidConfig)] asm("Config");
std::ostream &SourceLocation::print(std::ostream &os) const { return os; }

// reference reading of an integer field: optional white space and sign (what strtol/%d skip), then digits.
// value saturates at +-2^100 (as __int128), so "huge" stays huge.
struct Num { bool present; __int128 v; size_t end; };
static Num refnum(const std::string &s, size_t pos)
{
    Num r{false, 0, pos};
    size_t p = pos;
    while (p < s.size() && (s[p] == ' ' || (s[p] >= '\t' && s[p] <= '\r'))) ++p;
    bool neg = false;
    if (p < s.size() && (s[p] == '-' || s[p] == '+')) { neg = s[p] == '-'; ++p; }
    size_t d0 = p;
    __int128 lim = ((__int128)1) << 100;
    while (p < s.size() && s[p] >= '0' && s[p] <= '9') { if (r.v < lim) r.v = r.v * 10 + (s[p] - '0'); ++p; }
    if (p == d0) return r;
    r.present = true; r.end = p; if (neg) r.v = -r.v;
    return r;
}
static std::string show(__int128 v)
{
    bool neg = v < 0; if (neg) v = -v;
    std::string s; do { s.insert(s.begin(), char('0' + (int)(v % 10))); v /= 10; } while (v);
    return (neg ? "-" : "") + s;
}

static int check_proto(const std::string &buf, int sanity)
{
    Ip::Address a;
    Config.Ftp.sanitycheck = sanity;
    // exact-size heap copy: ASan sees any read past the terminator
    char *b = (char *)malloc(buf.size() + 1); memcpy(b, buf.c_str(), buf.size() + 1);
    const bool r = Ftp::ParseProtoIpPort(b, a);
    free(b);
    printf("ParseProtoIpPort(\"%s\") sanitycheck=%d -> %s, addr.port()=%u\n", buf.c_str(), sanity, r ? "true" : "false", (unsigned)a.port());
    if (!r) RP_OK("rejected");
    const char d = buf[0];
    Num proto = refnum(buf, 1);
    if (!proto.present || !(proto.v == 1 || proto.v == 2)) RP_FAIL("accepted although <net-prt> as written is %s, not 1 or 2", proto.present ? show(proto.v).c_str() : "absent");
    size_t s2 = proto.end + 1;
    size_t e2 = buf.find(d, s2);
    if (e2 == std::string::npos) RP_FAIL("accepted without a third delimiter");
    if (e2 - s2 >= MAX_IPSTRLEN) RP_FAIL("accepted with an address text of %zu bytes", e2 - s2);
    Num port = refnum(buf, e2 + 1);
    if (!port.present) RP_FAIL("accepted although <tcp-port> is empty / not a number (port set to %u)", (unsigned)a.port());
    if (port.v < 1 || port.v > 65535) RP_FAIL("accepted although <tcp-port> as written is %s, outside 1..65535 (addr.port() became %u)", show(port.v).c_str(), (unsigned)a.port());
    if ((__int128)a.port() != port.v) RP_FAIL("addr.port()=%u differs from the written %s", (unsigned)a.port(), show(port.v).c_str());
    if (sanity && port.v < 1024) RP_FAIL("port %s accepted under ftp_sanitycheck", show(port.v).c_str());
    if (a.isAnyAddr()) RP_FAIL("accepted the any-address");
    if ((proto.v == 2) != a.isIPv6()) RP_FAIL("address family does not match <net-prt>");
    RP_OK("accepted, all components in range");
}

static int check_ipport(const std::string &buf, const char *forceIp, int sanity)
{
    Ip::Address a;
    Config.Ftp.sanitycheck = sanity;
    char *b = (char *)malloc(buf.size() + 1); memcpy(b, buf.c_str(), buf.size() + 1);
    const bool r = Ftp::ParseIpPort(b, forceIp, a);
    free(b);
    printf("ParseIpPort(\"%s\", %s%s%s) sanitycheck=%d -> %s, addr.port()=%u\n", buf.c_str(), forceIp ? "\"" : "", forceIp ? forceIp : "nullptr",
           forceIp ? "\"" : "", sanity, r ? "true" : "false", (unsigned)a.port());
    if (!r) RP_OK("rejected");
    __int128 c[6]; size_t pos = 0;
    for (int i = 0; i < 6; ++i) {
        Num x = refnum(buf, pos);
        if (!x.present) RP_FAIL("accepted although component %d is missing", i + 1);
        c[i] = x.v; pos = x.end;
        if (i < 5) { if (pos >= buf.size() || buf[pos] != ',') RP_FAIL("accepted although component %d is not followed by ','", i + 1); ++pos; }
    }
    for (int i = 0; i < 6; ++i)
        if (c[i] < 0 || c[i] > 255)
            RP_FAIL("accepted although component %d as written is %s, outside 0..255%s", i + 1, show(c[i]).c_str(), forceIp ? " (forced IP)" : "");
    __int128 port = c[4] * 256 + c[5];
    if (port < 1 || port > 65535) RP_FAIL("accepted port %s", show(port).c_str());
    if ((__int128)a.port() != port) RP_FAIL("addr.port()=%u differs from p1*256+p2=%s", (unsigned)a.port(), show(port).c_str());
    if (sanity && port < 1024) RP_FAIL("port %s accepted under ftp_sanitycheck", show(port).c_str());
    if (a.isAnyAddr()) RP_FAIL("accepted the any-address");
    RP_OK("accepted, all components in range");
}

// a byte of the counterexample: plain number, or cbmc's character notation kept by the driver as @'\r', @'\t', @'\\' ...
static bool cexByte(const Cex &c, const std::string &k, int &out)
{
    auto it = c.kv.find(k);
    if (it == c.kv.end() || it->second.empty()) return false;
    const std::string &v = it->second;
    if (v[0] != '@') { out = (int)strtol(v.c_str(), nullptr, 10); return true; }
    if (v.size() >= 4 && v[1] == '\'' && v[2] == '\\') {
        switch (v[3]) {
        case 'n': out = '\n'; return true; case 'r': out = '\r'; return true; case 't': out = '\t'; return true;
        case 'v': out = '\v'; return true; case 'f': out = '\f'; return true; case 'a': out = '\a'; return true;
        case 'b': out = '\b'; return true; case '\\': out = '\\'; return true; case '\'': out = '\''; return true;
        case '"': out = '"'; return true;
        case '0': case '1': case '2': case '3': out = (int)strtol(v.c_str() + 3, nullptr, 8); return true;
        case 'x': out = (int)strtol(v.c_str() + 4, nullptr, 16); return true;
        }
    }
    if (v.size() >= 4 && v[1] == '\'' && v[3] == '\'') { out = (unsigned char)v[2]; return true; }
    return false;
}

int main(int argc, char **argv)
{
    if (argc < 3) return 2;
    std::string mode = argv[1];
    if (mode == "literal-proto" && argc >= 4) return check_proto(argv[2], atoi(argv[3]));          // ./replay literal-proto '<string>' <sanity>
    if (mode == "literal-ipport" && argc >= 4) return check_ipport(argv[2], argc > 4 ? argv[4] : nullptr, atoi(argv[3]));
    Cex c; if (!c.load(argv[2])) return 2;
    const int sanity = (int)c.num("sanitycheck");
    if (mode == "protoipport") {
        std::string s;
        for (int i = 0; i < 4096; ++i) {           // bytes copied out by the harness: seen[0l]=.., seen[1l]=..
            int b = 0;
            if (!cexByte(c, "seen[" + std::to_string(i) + "l]", b) || b == 0) break;
            s.push_back((char)b);
        }
        if (s.empty()) for (auto x : c.arr("buf")) { if (x == 0) break; s.push_back((char)x); }
        if (s.empty()) { printf("replay: no input string in the counterexample file\n"); return 0; }
        return check_proto(s, sanity);
    }
    if (mode == "ipport") {
        // the verifier's sscanf model is value-based: rebuild a string that glibc's sscanf reads as those values.
        // A component flagged "too large for int" is written as value mod 2^32 plus 2^32 (glibc keeps the low 32 bits).
        static const char *val[6] = {"h1", "h2", "h3", "h4", "p1", "p2"};
        static const char *ovf[6] = {"o1", "o2", "o3", "o4", "o5", "o6"};
        long long n = c.num("n");
        std::string s;
        for (int i = 0; i < 6 && i < n; ++i) {
            if (i) s += ',';
            long long v = c.num(val[i]);
            if (c.num(ovf[i])) s += show((__int128)(unsigned int)(int)v + (((__int128)1) << 32));
            else s += std::to_string(v);
        }
        if (n <= 0) s = n < 0 ? "" : "x";
        return check_ipport(s, c.num("use_force") ? "10.0.0.1" : nullptr, sanity);
    }
    return 2;
}
