// wrapper TU: the real src/ftp/Parsing.cc text (extracted into the build dir at run time) + extern "C" entry points
#include "Parsing.cc"

SquidConfig Config;
static Ip::Address cv_the_addr;

extern "C" int cv_sanitycheck(void) { return Config.Ftp.sanitycheck; }
extern "C" void cv_set_sanitycheck(int v) { Config.Ftp.sanitycheck = v; }   // harness-mode targets only (under --dfcc the value is havocked)

extern "C" int cv_max_ipstrlen(void) { return MAX_IPSTRLEN; }

// Config.Ftp.sanitycheck is left as the verifier finds it: arbitrary (the frame proves it is not written)
extern "C" int cv_ParseIpPort(const char *buf, const char *forceIp)
{
    return Ftp::ParseIpPort(buf, forceIp, cv_the_addr) ? 1 : 0;
}

extern "C" int cv_ParseProtoIpPort(const char *buf)
{
    cv_addr_record_text();
    return Ftp::ParseProtoIpPort(buf, cv_the_addr) ? 1 : 0;
}
