#!/usr/bin/env python3
"""methodgates/gen.py: one-liners restated in stubs.h for the reforward target are checked against the repo text on every run."""
import os, sys
repo = os.environ["VERIF_REPO"]
def need(path, text, what):
    try:
        t = open(os.path.join(repo, path), errors="replace").read()
    except OSError:
        print("DROP: %s not present in this checkout: %s as restated in stubs.h is assumed" % (path, what)); return
    if text not in t:
        sys.stderr.write("%s: %s differs from the copy in units/methodgates/stubs.h\n" % (path, what)); sys.exit(1)
need("src/defines.h", "#define EBIT_TEST(flag, bit)    ((flag) & ((1L<<(bit))))", "EBIT_TEST")
need("src/Store.h", "MemObject &mem() { assert(mem_obj); return *mem_obj; }", "StoreEntry::mem()")
need("src/MemObject.h", "const HttpReply &baseReply() const { return *reply_; }", "MemObject::baseReply()")
need("src/ResolvedPeers.h", "bool empty() const { return !availablePaths; }", "ResolvedPeers::empty()")
need("src/http/StatusLine.h", "Http::StatusCode status() const { return status_; }", "Http::StatusLine::status()")
need("src/PeerSelectState.h", "bool subscribed = false;", "PeerSelectionInitiator::subscribed")
need("src/SquidConfig.h", "        int onerror;\n    } retry;", "Config.retry.onerror")
print("DROP: EBIT_TEST, StoreEntry::mem(), MemObject::baseReply(), ResolvedPeers::empty(), StatusLine::status(), PeerSelectionInitiator::subscribed, Config.retry.onerror are restated in stubs.h (checked textually at extraction time)")
