// Wrapper TU for the methodgates unit: stub surroundings + the REAL function texts (cut from /repo at run time into
// the build directory) + extern "C" entry points with scalar parameters (contracts cannot be written on C++ members).
#include "stubs.h"

#include "methods.inc"       // HttpRequestMethod::isHttpSafe / isIdempotent / shouldInvalidate / purgesOthers
#include "bodynibbled.inc"   // HttpRequest::bodyNibbled
#include "fwd.inc"           // diffOrZero, FwdState::ForwardTimeout / EnoughTimeToReForward / checkRetry / checkRetriable / exhaustedTries
#include "client.inc"        // Client::maybePurgeOthers
#ifdef MG_REFWD
#include "reforwardable.inc" // Http::IsReforwardableStatus
#include "reforward.inc"     // FwdState::reforward
#endif

extern "C" {

int mg_isHttpSafe(int m) { HttpRequestMethod x; x.theMethod = (Http::MethodType)m; return x.isHttpSafe(); }
int mg_isIdempotent(int m) { HttpRequestMethod x; x.theMethod = (Http::MethodType)m; return x.isIdempotent(); }
int mg_shouldInvalidate(int m) { HttpRequestMethod x; x.theMethod = (Http::MethodType)m; return x.shouldInvalidate(); }
int mg_purgesOthers(int m) { HttpRequestMethod x; x.theMethod = (Http::MethodType)m; return x.purgesOthers(); }

// One FwdState with every input of the retry gate taken from a scalar parameter.
int mg_checkRetry(int shutting, int have_self, int pending, int entry_empty, int n_tries, int max_tries,
                  int pinned, time_t start_t, time_t now, time_t fwd_timeout, int dont_retry,
                  int have_body, uint64_t consumed, int connected_okay, int method, int only_retriable)
{
    BodyPipe pipe;
    pipe.theGetSize = consumed;
    HttpRequest req;
    req.method.theMethod = (Http::MethodType)method;
    req.flags.pinned = pinned != 0;
    req.body_pipe = have_body ? &pipe : nullptr;
    req.uri.p = nullptr;
    StoreEntry e;
    e.store_status = pending ? STORE_PENDING : STORE_OK;
    e.empty_ = entry_empty != 0;
    FwdState f;
    f.entry = &e;
    f.request = &req;
    f.self = have_self ? &f : nullptr;
    f.start_t = start_t;
    f.n_tries = n_tries;
    f.flags.connected_okay = connected_okay != 0;
    f.flags.dont_retry = dont_retry != 0;
    SquidConfig cfg;
    mg_config_ = &cfg;
    shutting_down = shutting;
    squid_curtime = now;
    Config.forward_max_tries = max_tries;
    Config.Timeout.forward = fwd_timeout;
    return only_retriable ? f.checkRetriable() : f.checkRetry();
}

#ifdef MG_REFWD
// One FwdState with every input of the re-forwarding gate (after a complete reply) taken from a scalar parameter.
int mg_reforward(int entry_flags, int pending, int pinned, int n_tries, int max_tries, int have_body, uint64_t consumed,
                 uint64_t available_paths, int subscribed, int status, int retry_onerror, int method)
{
    BodyPipe pipe;
    pipe.theGetSize = consumed;
    HttpRequest req;
    req.method.theMethod = (Http::MethodType)method;
    req.flags.pinned = pinned != 0;
    req.body_pipe = have_body ? &pipe : nullptr;
    req.uri.p = nullptr;
    HttpReplyR rep;
    rep.sline.status_ = (Http::StatusCode)status;
    MemObject mem;
    mem.reply_ = &rep;
    StoreEntry e;                 // e.empty_ stays unassigned (= arbitrary): reforward() does not ask isEmpty()
    e.store_status = pending ? STORE_PENDING : STORE_OK;
    e.mem_obj = &mem;
    e.flags = (uint16_t)(entry_flags & 0xFFFF);
    ResolvedPeers peers;
    peers.availablePaths = available_paths;
    FwdState f;                   // start_t, self, flags.*, waitingForDispatched, pconnRace, storedWholeReply_ stay unassigned (= arbitrary)
    f.entry = &e;
    f.request = &req;
    f.n_tries = n_tries;
    f.destinations = &peers;
    f.subscribed = subscribed != 0;
    SquidConfig cfg;
    mg_config_ = &cfg;
    Config.forward_max_tries = max_tries;
    Config.retry.onerror = retry_onerror;
    return f.reforward();
}
#endif

void mg_maybePurgeOthers(int method, int status, const char *uri)
{
    HttpRequest req;
    req.method.theMethod = (Http::MethodType)method;
    req.flags.pinned = false;
    req.body_pipe = nullptr;
    req.uri.p = uri;
    HttpReply rep;
    rep.sline.status_ = status;
    Client c;
    c.request = &req;
    c.theFinalReply = &rep;
    g_cur_req = &req;
    g_cur_rep = static_cast<Http::Message *>(&rep);
    c.maybePurgeOthers();
}

}
