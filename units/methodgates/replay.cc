// Native replay for the methodgates unit (T3): the SAME slices (cut from the real files into the build directory) and
// the same stub classes, compiled by g++ with ASan+UBSan; the postconditions of contract.c are re-evaluated in C++.
// Because g++ implements real C++ semantics, this also cross-checks the CBMC C++ front end on the sliced text.
#include "replay.h"
#include <cstdint>
#include <ctime>
#include <cassert>
#define MG_NATIVE 1
#define CV_NATIVE 1
#include "wrap.cc"
namespace spec {
#include "contract.c"
}
using namespace spec;

static int table(const std::string &mode, int m)
{
    if (mode == "safe") return mg_isHttpSafe(m);
    if (mode == "idempotent") return mg_isIdempotent(m);
    if (mode == "should_invalidate") return mg_shouldInvalidate(m);
    return mg_purgesOthers(m);
}

int main(int argc, char **argv)
{
    if (argc < 3) return 2;
    std::string mode = argv[1];
    Cex c; if (!c.load(argv[2])) return 2;
    if (mode == "safe" || mode == "idempotent" || mode == "should_invalidate" || mode == "purges_others") {
        int m = (int)c.num("m");
        int r = table(mode, m);
        printf("%s(method id %d) = %d\n", mode.c_str(), m, r);
        if (r != 0 && r != 1) RP_FAIL("not boolean");
        if (mode == "safe") {
            if (r && !iana_safe(m)) RP_FAIL("isHttpSafe() true for a method the IANA registry lists as unsafe");
            if (!r && (m == METHOD_GET || m == METHOD_HEAD)) RP_FAIL("GET/HEAD not safe");
        } else if (mode == "idempotent") {
            if (r && !iana_idempotent(m)) RP_FAIL("isIdempotent() true for a non-idempotent method");
            if (!r && (m == METHOD_GET || m == METHOD_HEAD || m == METHOD_PUT || m == METHOD_DELETE)) RP_FAIL("GET/HEAD/PUT/DELETE not idempotent");
        } else if (mode == "should_invalidate") {
            if (!r && named_invalidating(m)) RP_FAIL("shouldInvalidate() false for POST/PUT/DELETE/extension");
            if (r && iana_safe(m)) RP_FAIL("shouldInvalidate() true for a safe method");
        } else {
            if (!r && named_invalidating(m)) RP_FAIL("purgesOthers() false for POST/PUT/DELETE/extension");
            if (!r && !may_skip_purge(m)) RP_FAIL("purgesOthers() false for an unsafe method that is not exempt");
            if (r && (m == METHOD_GET || m == METHOD_HEAD)) RP_FAIL("GET/HEAD purge");
        }
        RP_OK("postconditions hold on this input");
    }
    if (mode == "reforward") {
        int entry_flags = (int)c.num("entry_flags"), pending = (int)c.num("pending"), pinned = (int)c.num("pinned"), n_tries = (int)c.num("n_tries"),
            max_tries = (int)c.num("max_tries"), have_body = (int)c.num("have_body"), subscribed = (int)c.num("subscribed"), status = (int)c.num("status"),
            retry_onerror = (int)c.num("retry_onerror"), method = (int)c.num("method");
        uint64_t consumed = c.unum("consumed"), available_paths = c.unum("available_paths");
        const bool aborted = (entry_flags & (1 << ENTRY_ABORTED)) != 0, wait = (entry_flags & (1 << ENTRY_FWD_HDR_WAIT)) != 0;
        if (!pending && !aborted) RP_OK("outside the contract's precondition (complete() runs on a pending entry)");
        int r = mg_reforward(entry_flags, pending, pinned, n_tries, max_tries, have_body, consumed, available_paths, subscribed, status, retry_onerror, method);
        printf("flags=0x%x pinned=%d tries=%d/%d body=%d consumed=%llu paths=%llu subscribed=%d status=%d retry_on_error=%d method=%d -> reforward=%d\n",
               entry_flags & 0xFFFF, pinned, n_tries, max_tries, have_body, (unsigned long long)consumed, (unsigned long long)available_paths, subscribed, status, retry_onerror, method, r);
        const bool statusOk = status == 502 || status == 504 || ((status == 403 || status == 500 || status == 501 || status == 503) && retry_onerror);
        if (r != 0 && r != 1) RP_FAIL("not boolean");
        if (r && !statusOk) RP_FAIL("re-forwarded after a status that is not re-forwardable");
        if (r && have_body && consumed > 0) RP_FAIL("re-forwarded although request body bytes were consumed");
        if (r && (aborted || !wait || pinned || n_tries >= max_tries || (!available_paths && !subscribed))) RP_FAIL("re-forwarded although a veto holds");
        RP_OK("postconditions hold on this input");
    }
    if (mode == "check_retry") {
        int shutting = (int)c.num("shutting"), have_self = (int)c.num("have_self"), pending = (int)c.num("pending"),
            entry_empty = (int)c.num("entry_empty"), n_tries = (int)c.num("n_tries"), max_tries = (int)c.num("max_tries"),
            pinned = (int)c.num("pinned"), dont_retry = (int)c.num("dont_retry"), have_body = (int)c.num("have_body"),
            connected_okay = (int)c.num("connected_okay"), method = (int)c.num("method"), only_retriable = (int)c.num("only_retriable");
        long start_t = (long)c.num("start_t"), now = (long)c.num("now"), fwd_timeout = (long)c.num("fwd_timeout");
        unsigned long consumed = (unsigned long)c.unum("consumed");
        if (start_t < 0 || now < 0) RP_OK("outside the precondition (negative time)");
        int r = mg_checkRetry(shutting, have_self, pending, entry_empty, n_tries, max_tries, pinned, start_t, now, fwd_timeout,
                              dont_retry, have_body, consumed, connected_okay, method, only_retriable);
        printf("checkRetry=%d (method id %d connected_okay=%d have_body=%d consumed=%lu only_retriable=%d)\n", r, method, connected_okay, have_body, consumed, only_retriable);
        bool tl = spec_time_left(start_t, now, fwd_timeout);
        bool clear = !shutting && have_self && pending && entry_empty && n_tries < max_tries && !pinned && !dont_retry && tl;
        if (r && (connected_okay || only_retriable) && !(may_be_resent(method) && !have_body))
            RP_FAIL("retry granted after connecting for a method that must not be resent, or with a request body");
        if (!only_retriable && r && have_body && consumed > 0) RP_FAIL("retry granted although the body was nibbled");
        if (!only_retriable && r && !clear) RP_FAIL("retry granted although a veto condition holds");
        if (!only_retriable && !r && clear && !have_body && (method == METHOD_GET || method == METHOD_HEAD)) RP_FAIL("GET/HEAD not retried although nothing vetoes");
        if (!only_retriable && !r && clear && !(have_body && consumed > 0) && !connected_okay) RP_FAIL("not retried although never connected");
        RP_OK("postconditions hold on this input");
    }
    if (mode == "maybe_purge") {
        int method = (int)c.num("method"), status = (int)c.num("status");
        static const char uri[] = "http://example.test/x";
        g_url_calls = g_hdr_calls = 0; g_order_ok = 1;
        mg_maybePurgeOthers(method, status, uri);
        printf("maybePurgeOthers(method id %d, status %d): url calls=%d header calls=%d ids=%d,%d\n", method, status, g_url_calls, g_hdr_calls, g_hdr_id[0], g_hdr_id[1]);
        bool none = g_url_calls == 0 && g_hdr_calls == 0;
        bool full = g_url_calls == 1 && g_hdr_calls == 2 && g_order_ok == 1 && g_url_req == g_cur_req && g_url_url == uri &&
                    g_hdr_req[0] == g_cur_req && g_hdr_url[0] == uri && g_hdr_rep[0] == g_cur_rep && g_hdr_id[0] == 1 &&
                    g_hdr_req[1] == g_cur_req && g_hdr_url[1] == uri && g_hdr_rep[1] == g_cur_rep && g_hdr_id[1] == 2;
        if (!none && !full) RP_FAIL("partial / repeated / mis-addressed purge");
        if (named_invalidating(method) && status < 400 && !full) RP_FAIL("non-error response to an invalidating method did not purge URL + Location + Content-Location");
        if (status >= 400 && !none) RP_FAIL("error response purged");
        if (none && status < 400 && !may_skip_purge(method)) RP_FAIL("purge skipped for a non-exempt unsafe method");
        if ((g_url_calls == 1) != (mg_purgesOthers(method) && status < 400)) RP_FAIL("purge does not coincide with purgesOthers() && status < 400");
        RP_OK("postconditions hold on this input");
    }
    return 2;
}
