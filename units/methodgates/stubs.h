// Stub surroundings for the methodgates slices (C07, C20).  TRUSTED: every declaration here is an assumed model of
// the real class; it declares exactly the members the sliced bodies touch.  No function here decides anything the
// property is about -- the decisions are all in the sliced real text (methods.inc, fwd.inc, bodynibbled.inc, client.inc).
#ifndef MG_STUBS_H
#define MG_STUBS_H

#ifndef MG_NATIVE                     // the native replay gets these from the system headers
typedef long time_t;                 // LP64, as on the build host
typedef unsigned long uint64_t;
#endif

#define debugs(SECTION, LEVEL, CONTENT) ((void)0)      // debug output: no effect on control flow

namespace Http
{
#include "methodtype_enum.inc"       // REAL text: typedef enum _method_t { ... } MethodType;  (src/http/MethodType.h)
#include "hdrtype_enum.inc"          // REAL text: enum HdrType { ... };                       (src/http/RegisteredHeaders.h)
}

#include "store_status_enum.inc"     // REAL text: typedef enum { STORE_OK, STORE_PENDING } store_status_t; (src/enums.h)

#if defined(T_REFWD) || defined(MG_NATIVE)
// ---- extra surroundings of FwdState::reforward() / Http::IsReforwardableStatus() (target reforward only) ----
#include "entry_flags_enum.inc"      // REAL text: enum { ENTRY_SPECIAL, ..., ENTRY_FWD_HDR_WAIT, ..., ENTRY_ABORTED, ... }; (src/enums.h)
#define EBIT_TEST(flag, bit)    ((flag) & ((1L<<(bit))))    // src/defines.h verbatim (checked by gen.py)
#define URL_CHECKSUM_DEBUG 0
#ifndef MG_NATIVE
typedef unsigned short uint16_t;
#define assert(EX) __CPROVER_assert((EX), "assert(" #EX ")")   // squid's assert() aborts; here a proof obligation
#endif
namespace Http
{
#include "statuscode_enum.inc"       // REAL text: typedef enum { scNone = 0, ..., scGatewayTimeout = 504, ... } StatusCode; (src/http/StatusCode.h)
#ifdef MG_NATIVE
bool IsReforwardableStatus(StatusCode);    // g++ wants the namespace-scope declaration before the qualified definition
#endif
// Http::IsReforwardableStatus(): REAL body, included by wrap.cc before reforward.inc (a separate declaration with a non-const parameter
// does not unify with the definition's 'const StatusCode s' in this front end)
}
#define MG_REFWD 1
#endif

// src/http/RequestMethod.h: only the data member and the five predicates whose real bodies are sliced in
class HttpRequestMethod
{
public:
    Http::MethodType id() const { return theMethod; }    // real: same one-liner in RequestMethod.h
    bool isHttpSafe() const;
    bool isIdempotent() const;
    bool shouldInvalidate() const;
    bool purgesOthers() const;
    Http::MethodType theMethod;
};

// src/BodyPipe.h: consumedSize() is "return theGetSize;" in the real class
class BodyPipe
{
public:
    uint64_t consumedSize() const { return theGetSize; }
    uint64_t theGetSize;
};

// SBuf: an opaque string; identity of the character data is tracked by the pointer value (never dereferenced here)
class SBuf
{
public:
    const char *c_str() { return p; }
    const char *p;
};

class RequestFlags
{
public:
    bool pinned;
};

// src/HttpRequest.h + src/http/Message.h.  body_pipe is RefCount<BodyPipe> in the real class; a raw pointer has the
// same "!= nullptr" and "->" meaning (RefCount's conversion operators are outside the C++ front end).
class HttpRequest
{
public:
    HttpRequestMethod method;
    RequestFlags flags;
    BodyPipe *body_pipe;
    bool bodyNibbled() const;                               // REAL body sliced from src/HttpRequest.cc
    SBuf effectiveRequestUri() const { SBuf r; r.p = uri.p; return r; } // assumed: the transaction's effective request URI (real: const SBuf &; the front end rejects a const-reference return of a member)
    SBuf uri;
};

#ifdef MG_REFWD
// src/http/StatusLine.h / HttpReply.h / MemObject.h as far as reforward() looks: mem().baseReply().sline.status()
class StatusLineR { public: Http::StatusCode status() const { return status_; } Http::StatusCode status_; };
class HttpReplyR { public: StatusLineR sline; };
class MemObject
{
public:
    const HttpReplyR &baseReply() const { return *reply_; }     // real one-liner (src/MemObject.h; checked by gen.py)
    HttpReplyR *reply_;                                           // real: HttpReplyPointer
};
#endif

class StoreEntry
{
public:
    bool isEmpty() const { return empty_; }   // real: mem().endOffset() == 0 (nothing received from the server yet)
    store_status_t store_status;
    bool empty_;
#ifdef MG_REFWD
    MemObject &mem() { assert(mem_obj); return *mem_obj; }       // real one-liner (src/Store.h; checked by gen.py)
    const char *url() const { return nullptr; }                  // only used inside debugs()
    MemObject *mem_obj;
    uint16_t flags;
#endif
};

// src/SquidConfig.h, globals.h, time/gadgets.h: the three configuration / global inputs of the retry gate
struct SquidConfigTimeout { time_t forward; };
#ifdef MG_REFWD
struct SquidConfigRetry { int onerror; };
struct SquidConfig { SquidConfigTimeout Timeout; int forward_max_tries; int unused_pad_; SquidConfigRetry retry; };
#else
struct SquidConfig { SquidConfigTimeout Timeout; int forward_max_tries; int unused_pad_; };
#endif  // explicit pad: the C and C++ front ends must agree on the layout
// The C front end (contract.c) cannot share a struct-typed global with this TU (tag types never unify), so the
// configuration object lives in the wrapper's frame and `Config` names it through a C-nameable pointer.
extern "C" {
    void *mg_config_;
    int shutting_down;
    time_t squid_curtime;
}

#define Config (*(SquidConfig *)mg_config_)

// src/FwdState.h: members touched by checkRetry/checkRetriable/exhaustedTries/ForwardTimeout/EnoughTimeToReForward.
// self is RefCount<FwdState> in the real class ("!self" == null test); request is a raw HttpRequest* there too.
#ifdef MG_REFWD
// src/ResolvedPeers.h: empty() is "return !availablePaths;" (real one-liner; checked by gen.py)
class ResolvedPeers { public: bool empty() const { return !availablePaths; } unsigned long availablePaths; };
// src/PeerSelectState.h: the one data member reforward() reads through its base class
class PeerSelectionInitiator { public: bool subscribed; };
#define MG_FWD_BASE : public PeerSelectionInitiator
#else
#define MG_FWD_BASE
#endif
class FwdState MG_FWD_BASE
{
public:
#ifdef MG_REFWD
    int reforward();
    ResolvedPeers *destinations;      // real: ResolvedPeersPointer (RefCount)
#endif
    bool checkRetry();
    bool checkRetriable();
    bool exhaustedTries() const;
    static time_t ForwardTimeout(const time_t fwdStart);
    static bool EnoughTimeToReForward(const time_t fwdStart);

    StoreEntry *entry;
    HttpRequest *request;
    FwdState *self;
    time_t start_t;
    int n_tries;
    struct {
        bool connected_okay;
        bool dont_retry;
        bool forward_completed;
        bool destinationsFound;
    } flags;
    // further scalar state of the real class: not read by today's gate functions, left ARBITRARY by the wrappers (they
    // never assign it), so an edit that makes the gate depend on it is checked for every value instead of failing to compile
    bool waitingForDispatched;
    typedef enum { raceImpossible, racePossible, raceHappened } PconnRace;
    PconnRace pconnRace;
    const char *storedWholeReply_;
};

// src/http/StatusLine.h / HttpReply.h: status() returns Http::StatusCode (an enum compared against 400);
// an int over its full range is a superset of every enumerator.
class StatusLineStub
{
public:
    int status() const { return status_; }
    int status_;
};
namespace Http { class Message { public: StatusLineStub sline; }; }
class HttpReply : public Http::Message {};

// ---- ghost recorders standing in for the purge functions (C20): they only record how they were called ----
extern "C" {
    int g_url_calls;              // number of purgeEntriesByUrl calls
    const void *g_url_req;        // its arguments
    const char *g_url_url;
    int g_hdr_calls;              // number of purgeEntriesByHeader calls
    const void *g_hdr_req[2];
    const char *g_hdr_url[2];
    const void *g_hdr_rep[2];
    int g_hdr_id[2];              // 1 = Http::HdrType::LOCATION, 2 = Http::HdrType::CONTENT_LOCATION, 0 = anything else
    int g_order_ok;               // purgeEntriesByUrl ran before any purgeEntriesByHeader
    const void *g_cur_req;        // identity of the transaction's request / final reply (set by the wrapper)
    const void *g_cur_rep;
}

static void
purgeEntriesByUrl(HttpRequest *req, const char *url)
{
    if (g_hdr_calls != 0)
        g_order_ok = 0;
    if (g_url_calls < 1000)
        ++g_url_calls;
    g_url_req = req;
    g_url_url = url;
}

static void
purgeEntriesByHeader(HttpRequest *req, const char *reqUrl, Http::Message *rep, Http::HdrType hdr)
{
    if (g_hdr_calls < 2) {
        g_hdr_req[g_hdr_calls] = req;
        g_hdr_url[g_hdr_calls] = reqUrl;
        g_hdr_rep[g_hdr_calls] = rep;
        g_hdr_id[g_hdr_calls] = (hdr == Http::HdrType::LOCATION) ? 1 : (hdr == Http::HdrType::CONTENT_LOCATION) ? 2 : 0;
    }
    if (g_hdr_calls < 1000)
        ++g_hdr_calls;
}

// src/clients/Client.h
class Client
{
public:
    void maybePurgeOthers();
    HttpRequest *request;      // real: HttpRequestPointer (RefCount<HttpRequest>); see the getRaw() rewrite in unit.json
    HttpReply *theFinalReply;
};

#endif
