/* Sidecar contracts for the methodgates unit (C07, C20): method tables, retry gate, purge gate.
 * The real function texts are compiled in wrap.cc (C++); the contracts sit on its extern "C" wrappers.
 *
 * Postconditions come from the property statements:
 *  C07  "A request with a non-idempotent method (POST, PATCH, or an extension method) is sent to the origin at most once
 *        ... whenever the upstream connection fails after Squid began sending it. Safe and idempotent requests may be retried."
 *  C20  "After a non-error response to a POST, PUT, DELETE or other invalidating method for a URL, Squid does not serve a
 *        response cached before ... The same applies to a same-host URL named in that response's Location or Content-Location."
 * and from the IANA HTTP Method Registry (safe / idempotent columns), NOT from the switch statements under test. */
#include <stddef.h>

#include "methodtype_enum.inc"   /* REAL enum text (src/http/MethodType.h), cut at run time: METHOD_GET ... METHOD_ENUM_END */

/* IANA HTTP Method Registry, column "Safe" == yes, restricted to the methods this build's enum knows.
 * PATCH and every other extension method are parsed to METHOD_OTHER in this build (METHOD_PATCH is under #if NO_SPECIAL_HANDLING). */
static int iana_safe(int m)
{
    switch (m) {
    case METHOD_GET: case METHOD_HEAD: case METHOD_OPTIONS: case METHOD_TRACE:   /* RFC 9110 9.2.1 */
    case METHOD_REPORT:                                                          /* RFC 3253 3.6 */
    case METHOD_PROPFIND:                                                        /* RFC 4918 9.1 */
    case METHOD_SEARCH:                                                          /* RFC 5323 2 */
    case METHOD_PRI:                                                             /* RFC 9113 3.4 */
        return 1;
    default:
        return 0;
    }
}

/* IANA registry, column "Idempotent" == yes.  Registered and NOT idempotent: POST, CONNECT, LOCK, PATCH.
 * Squid-internal ids (NONE, PURGE, OTHER, ENUM_END) and out-of-range values are not idempotent. */
static int iana_idempotent(int m)
{
    switch (m) {
    case METHOD_GET: case METHOD_HEAD: case METHOD_PUT: case METHOD_DELETE: case METHOD_OPTIONS: case METHOD_TRACE:
    case METHOD_LINK: case METHOD_UNLINK:
    case METHOD_CHECKOUT: case METHOD_CHECKIN: case METHOD_UNCHECKOUT: case METHOD_MKWORKSPACE:
    case METHOD_VERSION_CONTROL: case METHOD_REPORT: case METHOD_UPDATE: case METHOD_LABEL: case METHOD_MERGE:
    case METHOD_BASELINE_CONTROL: case METHOD_MKACTIVITY:
    case METHOD_PROPFIND: case METHOD_PROPPATCH: case METHOD_MKCOL: case METHOD_COPY: case METHOD_MOVE: case METHOD_UNLOCK:
    case METHOD_SEARCH:
    case METHOD_PRI:
        return 1;
    default:
        return 0;
    }
}

static int may_be_resent(int m) { return iana_safe(m) || iana_idempotent(m); }

/* the property's own list of methods that must never be resent (PATCH / extension == METHOD_OTHER here), plus CONNECT */
static int named_non_idempotent(int m) { return m == METHOD_POST || m == METHOD_OTHER || m == METHOD_CONNECT; }

/* C20: "POST, PUT, DELETE or other invalidating method": the named ones and the extension bucket */
static int named_invalidating(int m) { return m == METHOD_POST || m == METHOD_PUT || m == METHOD_DELETE || m == METHOD_OTHER; }

/* methods for which skipping invalidation is acceptable: the safe ones (RFC 9111 4.4 speaks of unsafe methods only), the
 * non-method NONE, CONNECT (no cacheable target) and the three WebDAV methods squid deliberately exempts although the
 * registry lists them as unsafe (COPY, LOCK, UNLOCK: they do not change the representation at the request URI).
 * Any OTHER method that stops purging is a failed obligation. */
static int may_skip_purge(int m)
{
    return iana_safe(m) || m == METHOD_NONE || m == METHOD_CONNECT || m == METHOD_COPY || m == METHOD_LOCK || m == METHOD_UNLOCK;
}

/* time left for forwarding, from the doc comment of FwdState::ForwardTimeout ("0 if clock went backwards") */
static int spec_time_left(long start_t, long now, long fwd_timeout)
{
    long spent = now > start_t ? now - start_t : 0;
    return fwd_timeout > spent;
}

#ifndef CV_NATIVE
/* ghosts / globals of the wrap TU (all havocked by --dfcc; the wrappers overwrite what the real code reads) */
extern int shutting_down;
extern long squid_curtime;
extern void *mg_config_;   /* points at the wrapper's SquidConfig object */
extern int g_url_calls, g_hdr_calls, g_order_ok;
extern const void *g_url_req, *g_cur_req, *g_cur_rep;
extern const char *g_url_url;
extern const void *g_hdr_req[2], *g_hdr_rep[2];
extern const char *g_hdr_url[2];
extern int g_hdr_id[2];

/* ------------------------------------------------------------------ method tables ---- */
int mg_isHttpSafe(int m)
__CPROVER_assigns()
__CPROVER_ensures(__CPROVER_return_value == 0 || __CPROVER_return_value == 1)
#ifdef TWIN_TABLES
__CPROVER_ensures(__CPROVER_return_value == 0 /* TWIN: no method is safe */)
#else
__CPROVER_ensures(__CPROVER_return_value ==> iana_safe(m))                     /* never claims safety for an unsafe method */
__CPROVER_ensures(named_non_idempotent(m) ==> !__CPROVER_return_value)         /* C07: POST, PATCH/extension, CONNECT */
__CPROVER_ensures((m == METHOD_PUT || m == METHOD_DELETE || m == METHOD_PURGE || m == METHOD_NONE) ==> !__CPROVER_return_value)
__CPROVER_ensures((m == METHOD_GET || m == METHOD_HEAD) ==> __CPROVER_return_value)   /* "safe ... requests may be retried" */
#endif
;

int mg_isIdempotent(int m)
__CPROVER_assigns()
__CPROVER_ensures(__CPROVER_return_value == 0 || __CPROVER_return_value == 1)
#ifdef TWIN_TABLES
__CPROVER_ensures(__CPROVER_return_value == 0 /* TWIN */)
#else
__CPROVER_ensures(__CPROVER_return_value ==> iana_idempotent(m))
__CPROVER_ensures(named_non_idempotent(m) ==> !__CPROVER_return_value)
__CPROVER_ensures((m == METHOD_LOCK || m == METHOD_PURGE || m == METHOD_NONE) ==> !__CPROVER_return_value)
__CPROVER_ensures((m == METHOD_GET || m == METHOD_HEAD || m == METHOD_PUT || m == METHOD_DELETE) ==> __CPROVER_return_value)
#endif
;

int mg_shouldInvalidate(int m)
__CPROVER_assigns()
__CPROVER_ensures(__CPROVER_return_value == 0 || __CPROVER_return_value == 1)
#ifdef TWIN_TABLES
__CPROVER_ensures(__CPROVER_return_value == 0 /* TWIN */)
#else
__CPROVER_ensures(named_invalidating(m) ==> __CPROVER_return_value)            /* C20 */
__CPROVER_ensures(__CPROVER_return_value ==> !iana_safe(m))                    /* GET/HEAD traffic must not evict */
#endif
;

int mg_purgesOthers(int m)
__CPROVER_assigns()
__CPROVER_ensures(__CPROVER_return_value == 0 || __CPROVER_return_value == 1)
#ifdef TWIN_TABLES
__CPROVER_ensures(__CPROVER_return_value == 0 /* TWIN */)
#else
__CPROVER_ensures(named_invalidating(m) ==> __CPROVER_return_value)            /* C20 */
__CPROVER_ensures(!__CPROVER_return_value ==> may_skip_purge(m))               /* every other unsafe method purges too */
__CPROVER_ensures((m == METHOD_GET || m == METHOD_HEAD) ==> !__CPROVER_return_value)
#endif
;

#ifdef REACH
#define REACH_COMMON(m, r)                                                                       \
    __CPROVER_assert(!(r == 1), "reach: some method answers true");                              \
    __CPROVER_assert(!(r == 0), "reach: some method answers false");                             \
    __CPROVER_assert(!(m == METHOD_OTHER), "reach: extension method");                           \
    __CPROVER_assert(!(m < 0 || m > METHOD_ENUM_END), "reach: out-of-range id");
#define REACH_POST(m, r, v) __CPROVER_assert(!(r == v && m == METHOD_POST), "reach: POST answered");
#else
#define REACH_COMMON(m, r)
#define REACH_POST(m, r, v)
#endif
#define DEF_TABLE_HARNESS(NAME, FN, POSTVAL)                                                     \
    void NAME(void)                                                                              \
    {                                                                                            \
        int m;                                                                                   \
        int r = FN(m);                                                                           \
        REACH_COMMON(m, r)                                                                       \
        REACH_POST(m, r, POSTVAL)                                                                \
    }

#ifdef T_SAFE
DEF_TABLE_HARNESS(h_safe, mg_isHttpSafe, 0)
#endif
#ifdef T_IDEM
DEF_TABLE_HARNESS(h_idem, mg_isIdempotent, 0)
#endif
#ifdef T_INVAL
DEF_TABLE_HARNESS(h_inval, mg_shouldInvalidate, 1)
#endif
#ifdef T_PURGES
DEF_TABLE_HARNESS(h_purges, mg_purgesOthers, 1)
#endif

/* ------------------------------------------------------------------ retry gate (C07) ---- */
#define RETRY_PARAMS int shutting, int have_self, int pending, int entry_empty, int n_tries, int max_tries,      \
                     int pinned, long start_t, long now, long fwd_timeout, int dont_retry,                      \
                     int have_body, unsigned long consumed, int connected_okay, int method, int only_retriable

/* requires: start_t and now are epoch seconds (>= 0): start_t is a copy of squid_curtime taken in the constructor.
 * Without it `squid_curtime - fwdStart` in ForwardTimeout could overflow -- a helper precondition taken from the code. */
int mg_checkRetry(RETRY_PARAMS)
__CPROVER_requires(start_t >= 0 && now >= 0)
__CPROVER_assigns(shutting_down, squid_curtime, mg_config_)
__CPROVER_ensures(__CPROVER_return_value == 0 || __CPROVER_return_value == 1)
#ifdef TWIN_RETRY
__CPROVER_ensures(!(__CPROVER_return_value && connected_okay) /* TWIN: never retries once connected */)
#else
/* C07 core: once a connection to the origin was established ("began sending"), a retry is granted only to a method that
 * may be resent, and only when there is no request body at all */
__CPROVER_ensures((__CPROVER_return_value && (connected_okay || only_retriable)) ==> (may_be_resent(method) && !have_body))
__CPROVER_ensures(((connected_okay || only_retriable) && named_non_idempotent(method)) ==> !__CPROVER_return_value)
/* a nibbled body (any byte consumed by a server-side job) is never resent, connected or not */
__CPROVER_ensures((!only_retriable && have_body && consumed > 0) ==> !__CPROVER_return_value)
/* the other vetoes named in the function: every one of them must hold for a retry */
__CPROVER_ensures((!only_retriable && __CPROVER_return_value) ==>
                  (!shutting && have_self && pending && entry_empty && n_tries < max_tries && !pinned && !dont_retry &&
                   spec_time_left(start_t, now, fwd_timeout)))
/* "Safe and idempotent requests may be retried": nothing vetoes => GET/HEAD without body are retried */
__CPROVER_ensures((!only_retriable && !shutting && have_self && pending && entry_empty && n_tries < max_tries && !pinned &&
                   !dont_retry && spec_time_left(start_t, now, fwd_timeout) && !have_body &&
                   (method == METHOD_GET || method == METHOD_HEAD)) ==> __CPROVER_return_value)
/* before any connection was established everything un-nibbled may be retried (nothing reached an origin) */
__CPROVER_ensures((!only_retriable && !shutting && have_self && pending && entry_empty && n_tries < max_tries && !pinned &&
                   !dont_retry && spec_time_left(start_t, now, fwd_timeout) && !(have_body && consumed > 0) &&
                   !connected_okay) ==> __CPROVER_return_value)
#endif
;

#ifdef T_RETRY
void h_retry(void)
{
    int shutting, have_self, pending, entry_empty, n_tries, max_tries, pinned, dont_retry, have_body, connected_okay, method, only_retriable;
    long start_t, now, fwd_timeout;
    unsigned long consumed;
    int r = mg_checkRetry(shutting, have_self, pending, entry_empty, n_tries, max_tries, pinned, start_t, now, fwd_timeout,
                          dont_retry, have_body, consumed, connected_okay, method, only_retriable);
#ifdef REACH
    __CPROVER_assert(!(r == 1 && connected_okay && !only_retriable), "reach: retry granted after connecting");
    __CPROVER_assert(!(r == 1 && !connected_okay && method == METHOD_POST && have_body && !only_retriable), "reach: un-nibbled POST retried before any connection");
    __CPROVER_assert(!(r == 0 && connected_okay && method == METHOD_POST && !have_body && !shutting && have_self && pending &&
                       entry_empty && n_tries < max_tries && !pinned && !dont_retry && !only_retriable), "reach: POST refused only because of its method");
    __CPROVER_assert(!(r == 0 && have_body && consumed > 0), "reach: nibbled body refused");
    __CPROVER_assert(!(r == 1 && only_retriable), "reach: checkRetriable true");
    __CPROVER_assert(!(r == 0 && only_retriable && !have_body), "reach: checkRetriable false for the method alone");
#endif
}
#endif

/* ------------------------------------------------------------------ re-forwarding after a complete reply (C07) ---- */
#ifdef T_REFWD
#include "entry_flags_enum.inc"     /* REAL: ENTRY_FWD_HDR_WAIT, ENTRY_ABORTED ... (src/enums.h) */
#include "statuscode_enum.inc"      /* REAL: scForbidden = 403, scBadGateway = 502 ... (src/http/StatusCode.h) */
#define REFWD_PARAMS int entry_flags, int pending, int pinned, int n_tries, int max_tries, int have_body, unsigned long consumed,   \
                     unsigned long available_paths, int subscribed, int status, int retry_onerror, int method
static int rf_flag(int entry_flags, int bit) { return ((entry_flags & 0xFFFF) & (1 << bit)) != 0; }
/* the reply statuses FwdState may answer by trying another path: 502/504 always, 403/500/501/503 with retry_on_error on */
static int spec_reforwardable(int status, int retry_onerror)
{
    if (status == scBadGateway || status == scGatewayTimeout) return 1;
    if (status == scForbidden || status == scInternalServerError || status == scNotImplemented || status == scServiceUnavailable) return retry_onerror != 0;
    return 0;
}
static int spec_reforward_gate(REFWD_PARAMS)
{
    return !rf_flag(entry_flags, ENTRY_ABORTED) && !pinned && rf_flag(entry_flags, ENTRY_FWD_HDR_WAIT) && n_tries < max_tries &&
           !(have_body && consumed > 0) && (available_paths != 0 || subscribed);
}

/* requires: complete() runs on a pending entry (the function's own assert; an aborted entry returns before it) */
int mg_reforward(REFWD_PARAMS)
__CPROVER_requires(pending || rf_flag(entry_flags, ENTRY_ABORTED))
__CPROVER_assigns(mg_config_)
__CPROVER_ensures(__CPROVER_return_value == 0 || __CPROVER_return_value == 1)
#ifdef TWIN_REFWD
__CPROVER_ensures(!(__CPROVER_return_value && spec_reforwardable(status, retry_onerror)) /* TWIN: never re-forwards a re-forwardable status */)
#else
/* only the statuses of Http::IsReforwardableStatus() are ever answered by another attempt */
__CPROVER_ensures(__CPROVER_return_value ==> spec_reforwardable(status, retry_onerror))
/* C07-relevant: a request body of which any byte was consumed is never sent again, whatever the status */
__CPROVER_ensures((have_body && consumed > 0) ==> !__CPROVER_return_value)
/* never once the reply was released towards the client (ENTRY_FWD_HDR_WAIT cleared), the entry aborted, the connection pinned,
 * the tries used up, or no other path left */
__CPROVER_ensures(__CPROVER_return_value ==> (!rf_flag(entry_flags, ENTRY_ABORTED) && rf_flag(entry_flags, ENTRY_FWD_HDR_WAIT) && !pinned &&
                                             n_tries < max_tries && (available_paths != 0 || subscribed)))
/* exact gate -- the METHOD is not part of it: with the conditions above, every method, POST and extension methods included, is re-forwarded */
__CPROVER_ensures(__CPROVER_return_value ==
                  (spec_reforward_gate(entry_flags, pending, pinned, n_tries, max_tries, have_body, consumed, available_paths, subscribed, status, retry_onerror, method) &&
                   spec_reforwardable(status, retry_onerror)))
#endif
;

void h_refwd(void)
{
    int entry_flags, pending, pinned, n_tries, max_tries, have_body, subscribed, status, retry_onerror, method;
    unsigned long consumed, available_paths;
    int r = mg_reforward(entry_flags, pending, pinned, n_tries, max_tries, have_body, consumed, available_paths, subscribed, status, retry_onerror, method);
#ifdef REACH
    __CPROVER_assert(!(r == 1 && status == scBadGateway), "reach: re-forwarded after 502");
    __CPROVER_assert(!(r == 1 && status == scServiceUnavailable), "reach: re-forwarded after 503 with retry_on_error");
    __CPROVER_assert(!(r == 0 && status == scServiceUnavailable && !retry_onerror && rf_flag(entry_flags, ENTRY_FWD_HDR_WAIT)), "reach: 503 without retry_on_error");
    __CPROVER_assert(!(r == 0 && have_body && consumed > 0 && status == scBadGateway), "reach: nibbled body not re-forwarded");
    __CPROVER_assert(!(r == 1 && method == METHOD_POST && !have_body), "reach: a body-less POST IS re-forwarded after the peer/origin answered 502 (designed behaviour; the method is not consulted)");
    __CPROVER_assert(!(r == 1 && method == METHOD_OTHER && have_body && consumed == 0), "reach: an extension-method request whose body was never read IS re-forwarded");
    __CPROVER_assert(!(r == 0 && status == scOkay), "reach: 200 not re-forwarded");
    __CPROVER_assert(!(r == 0 && rf_flag(entry_flags, ENTRY_ABORTED) && !pending), "reach: aborted entry");
#endif
}
#endif

/* ------------------------------------------------------------------ purge gate (C20) ---- */
static int full_purge(const char *uri)
{
    return g_url_calls == 1 && g_hdr_calls == 2 && g_order_ok == 1 &&
           g_url_req == g_cur_req && g_url_url == uri &&
           g_hdr_req[0] == g_cur_req && g_hdr_url[0] == uri && g_hdr_rep[0] == g_cur_rep && g_hdr_id[0] == 1 /* LOCATION */ &&
           g_hdr_req[1] == g_cur_req && g_hdr_url[1] == uri && g_hdr_rep[1] == g_cur_rep && g_hdr_id[1] == 2 /* CONTENT_LOCATION */;
}
static int no_purge(void) { return g_url_calls == 0 && g_hdr_calls == 0; }

void mg_maybePurgeOthers(int method, int status, const char *uri)
__CPROVER_requires(g_url_calls == 0 && g_hdr_calls == 0 && g_order_ok == 1)
__CPROVER_assigns(g_url_calls, g_hdr_calls, g_order_ok, g_url_req, g_url_url, g_cur_req, g_cur_rep,
                  __CPROVER_object_whole(g_hdr_req), __CPROVER_object_whole(g_hdr_url), __CPROVER_object_whole(g_hdr_rep),
                  __CPROVER_object_whole(g_hdr_id))
#ifdef TWIN_PURGE
__CPROVER_ensures(no_purge() /* TWIN: never purges */)
#else
/* C20: non-error response to an invalidating method => the request URL, Location and Content-Location are all handed to
 * the purge functions, with this transaction's request / reply and the effective request URI */
__CPROVER_ensures((named_invalidating(method) && status < 400) ==> full_purge(uri))
/* all or nothing, never a partial or repeated purge */
__CPROVER_ensures(no_purge() || full_purge(uri))
/* error responses purge nothing; a skipped purge on a non-error response is only acceptable for the exempt methods */
__CPROVER_ensures(status >= 400 ==> no_purge())
__CPROVER_ensures((no_purge() && status < 400) ==> may_skip_purge(method))
#endif
;

#ifdef T_PURGE
void h_purge(void)
{
    int method, status;
    const char *uri;
    mg_maybePurgeOthers(method, status, uri);
    /* exact gate: purge <=> purgesOthers() && status < 400 (purgesOthers has its own contract above) */
    int p = mg_purgesOthers(method);
    __CPROVER_assert((g_url_calls == 1) == (p && status < 400), "ensures: purge happens iff purgesOthers() and status < 400");
#ifdef REACH
    __CPROVER_assert(!(g_url_calls == 1 && method == METHOD_POST), "reach: POST purges");
    __CPROVER_assert(!(g_url_calls == 0 && method == METHOD_POST && status >= 400), "reach: POST with error status does not purge");
    __CPROVER_assert(!(g_url_calls == 0 && method == METHOD_GET && status == 200), "reach: GET does not purge");
    __CPROVER_assert(!(g_url_calls == 1 && status == 399), "reach: status 399 purges");
#endif
}
#endif
#endif /* CV_NATIVE */
