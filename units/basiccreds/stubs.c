/* Assumed models (TRUSTED, listed in unit.json) for what the basiccreds slices call outside the verified text.
 * Allocation goes through one counter so that "every allocation is returned or freed" is an exact statement:
 * cv_live = number of xmalloc/xstrdup blocks not yet given to free_const. */
#include <stddef.h>
#include <stdlib.h>

int cv_live;                 /* ghost: live blocks handed out by xmalloc/xstrdup */
int cv_allocs;               /* ghost: blocks handed out so far */
size_t cv_last_alloc_size;   /* ghost: size of the most recent xmalloc (the cleartext buffer when decodeCleartext returns non-NULL) */

/* A fresh block of exactly sz bytes that is not NULL (CBMC's malloc model with a symbolic size; a case split over constant
 * sizes was tried and is far slower here: every pointer then has one candidate object per size). */
void *cv_malloc_exact(size_t sz)
{
    void *p = malloc(sz);
    __CPROVER_assume(p != 0);
    return p;
}
/* compat/xalloc.cc: never returns NULL (the real one aborts the process on failure); exactly sz bytes */
void *xmalloc(size_t sz)
{
    void *p = cv_malloc_exact(sz);
    ++cv_live; ++cv_allocs; cv_last_alloc_size = sz;
    return p;
}
void *xcalloc(size_t n, size_t sz)
{
    __CPROVER_assert(0, "stub: xcalloc is not used by the sliced text");
    __CPROVER_assume(0);
    return 0;
}
/* compat/xalloc.cc free_const == free(3); freeing NULL is a no-op there too, but no caller in the slices passes NULL
 * (xfree and safe_free test first) */
void free_const(const void *p)
{
    if (p) --cv_live;
    free((void *)p);
}
/* compat/xstring.cc: xstrdup(NULL) exits the process; otherwise xmalloc(strlen(s) + 1) and a copy including the NUL */
char *xstrdup(const char *s)
{
    __CPROVER_assert(s != 0, "in-code exit: xstrdup(NULL) terminates squid");
    __CPROVER_assume(s != 0);
    size_t sz = 0;
    while (s[sz] != 0) ++sz;
    ++sz;
    char *p = (char *)xmalloc(sz);
    for (size_t i = 0; i < sz; ++i) p[i] = s[i];
    return p;
}

static int cv_in_set(char c, const char *set)
{
    for (size_t k = 0; set[k] != 0; ++k)
        if (set[k] == c) return 1;
    return 0;
}
/* ISO C 7.24.5.3 / 7.24.5.6 */
size_t strcspn(const char *s, const char *reject)
{
    size_t n = 0;
    while (s[n] != 0 && !cv_in_set(s[n], reject)) ++n;
    return n;
}
size_t strspn(const char *s, const char *accept)
{
    size_t n = 0;
    while (s[n] != 0 && cv_in_set(s[n], accept)) ++n;
    return n;
}
/* ISO C 7.24.5.8, first call of a sequence (s != NULL): skip leading separators; no token => NULL, string untouched;
 * otherwise the token ends at the next separator, which is overwritten by NUL.  Continuation calls (s == NULL) are not
 * modelled (`stub:`): the sliced text makes none. */
static char *cv_strtok_save;
char *strtok(char *s, const char *delim)
{
    if (s == 0) {
        __CPROVER_assert(0, "stub: strtok(NULL, ..) continuation call is not modelled");
        __CPROVER_assume(0);
    }
    s += strspn(s, delim);
    if (*s == 0) { cv_strtok_save = s; return 0; }
    char *e = s + strcspn(s, delim);
    if (*e != 0) { *e = 0; cv_strtok_save = e + 1; } else cv_strtok_save = e;
    return s;
}

/* squid's assert() in lib/base64.cc -> xassert(): a proof obligation (as in units/base64/stubs.c) */
void xassert(const char *msg, const char *file, int line)
{
    (void)msg; (void)file; (void)line;
    __CPROVER_assert(0, "in-code assert: an assert() of lib/base64.cc holds (xassert is never reached)");
    __CPROVER_assume(0);
}
void abort(void)
{
    __CPROVER_assert(0, "in-code abort: abort() in lib/base64.cc is unreachable");
    __CPROVER_assume(0);
}
