/* Sidecar harnesses (harness mode: the functions allocate) for the Basic credential decoding of src/auth/basic/Config.cc.
 * Postconditions from C36: "Basic credentials decode to the user name before the first colon and the password after it";
 * "Malformed base64 is rejected without writing beyond the output size the API promises" at this call site
 * (xmalloc(BASE64_DECODE_LENGTH(srcLen)+1), base64_decode_update, cleartext[dstLen] = '\0').
 *
 * Entry points (extern "C", units/basiccreds/wrap.cc):
 *   bc_decodeCleartext(header, utf8)  = Auth::Basic::Config::decodeCleartext(header, nullptr) on a Config with that utf8 member
 *   bc_split(cleartext, casesensitive, header, ...) = the statements of Auth::Basic::Config::decode() from
 *       `char *separator = strchr(cleartext, ':');` to `xfree(cleartext);` on a fresh Auth::Basic::User stub */
#include <stddef.h>
#include <stdint.h>
#include <stdlib.h>
#include "base64.h"   /* HAVE_NETTLE_BASE64_H is not defined in this TU => the repository's declarations and macros */

#ifndef N
#define N 16          /* header values / clear texts have length < N */
#endif
#ifndef M
#define M 6           /* round trip: strlen(user ":" pass) <= M */
#endif

/* RFC 4648 section 4 alphabet, as in units/base64/contract.c: >= 0 data, -3 '=', -2 white space (HT LF VT FF CR SP), -1 invalid */
#define SPEC_DEC(k) (((k) >= 'A' && (k) <= 'Z') ? (k) - 'A' : ((k) >= 'a' && (k) <= 'z') ? (k) - 'a' + 26 : \
                     ((k) >= '0' && (k) <= '9') ? (k) - '0' + 52 : (k) == '+' ? 62 : (k) == '/' ? 63 : \
                     (k) == '=' ? -3 : ((k) == ' ' || ((k) >= 9 && (k) <= 13)) ? -2 : -1)
/* "C" locale classes used by the trimming loops (compat/xis.h over <cctype>) */
#define SPEC_GRAPH(c) ((unsigned char)(c) >= 0x21 && (unsigned char)(c) <= 0x7e)
#define SPEC_SPACE(c) ((c) == ' ' || ((c) >= 9 && (c) <= 13))
#define SPEC_LOWER(c) (((c) >= 'A' && (c) <= 'Z') ? (char)((c) - 'A' + 'a') : (char)(c))

#ifndef CV_NATIVE
extern int cv_live, cv_allocs;               /* stubs.c: live / total xmalloc+xstrdup blocks */
extern size_t cv_last_alloc_size;
extern int cv_utf8_valid_answer, cv_utf8_asked, cv_denied;
extern const char *cv_deny_msg;

char *bc_decodeCleartext(const char *header, int utf8);
void bc_split(char *cleartext, int casesensitive, const char *header, const char **username, char **passwd, size_t *ulen, size_t *plen);
void *xmalloc(size_t);
void *cv_malloc_exact(size_t);      /* stubs.c: a fresh non-NULL block of exactly that many bytes */

size_t g;             /* ghost index (arbitrary; a statement about x[g] is a statement about every element) */

/* a heap string of exactly len + 1 bytes: len arbitrary non-NUL bytes and the terminator */
static char *cv_heap_string(size_t len, int counted)
{
    char *s = counted ? xmalloc(len + 1) : cv_malloc_exact(len + 1);
    for (size_t i = 0; i < N; i++)
        if (i < len) __CPROVER_assume(s[i] != 0);
    s[len] = 0;
    return s;
}

/* ===================== decodeCleartext on every header value of length < N ===================== */
#if defined(T_ANY)
void h_any(void)
{
    size_t len;
    __CPROVER_assume(len < N);
    char *hdr = cv_heap_string(len, 0);
    char copy[N];
    for (size_t i = 0; i < N; i++) copy[i] = i <= len ? hdr[i] : 0;
    int utf8, valid;
    cv_utf8_valid_answer = valid;
    /* input domain: auth_param basic utf8 off (default), or on with a clear text the unverified isValidUtf8String accepts */
    __CPROVER_assume(utf8 == 0 || valid != 0);

    /* specification of the trimming, from the comments in the code: "trim BASIC from string", "Trim leading whitespace
     * before decoding", "Trim trailing \n before decoding" -- the credentials token is hdr[p .. q) */
    size_t p = 0, q;
    for (size_t i = 0; i < N; i++) if (p == i && i < len && SPEC_GRAPH(copy[i])) p = i + 1;
    for (size_t i = 0; i < N; i++) if (p == i && i < len && SPEC_SPACE(copy[i])) p = i + 1;
    q = len;
    for (size_t i = N; i-- > 0; ) if (i >= p && i < len && copy[i] == '\n') q = i;

    cv_live = 0; cv_allocs = 0;
    char *r = bc_decodeCleartext(hdr, utf8);

    __CPROVER_assert(cv_live == (r != NULL ? 1 : 0), "ensures: every allocation is freed except the returned clear text (no leak on any path)");
    __CPROVER_assert(!(g <= len) || hdr[g] == copy[g], "ensures: the header value is not modified (ghost index)");
    __CPROVER_assert(!(g >= p && g < q && SPEC_DEC((int)(unsigned char)copy[g]) == -1) || r == NULL,
                     "ensures: malformed base64 rejected -- a byte outside alphabet / white space / '=' in the credentials token makes the result NULL");
    if (r != NULL) {
        __CPROVER_assert(__CPROVER_DYNAMIC_OBJECT(r) && __CPROVER_POINTER_OFFSET(r) == 0, "ensures: a non-NULL result is the start of a heap block");
        size_t sz = __CPROVER_OBJECT_SIZE(r);
        __CPROVER_assert(sz <= BASE64_DECODE_LENGTH(q - p) + 1, "ensures: the clear text block is at most BASE64_DECODE_LENGTH(token length) + 1 bytes");
        size_t n = sz;
        for (size_t i = N; i-- > 0; ) if (i < sz && r[i] == 0) n = i;
        __CPROVER_assert(n < sz, "ensures: the result is NUL-terminated inside its block");
#ifdef TWIN_ANY
        __CPROVER_assert(!(g < n) || r[g] == '\r' || r[g] == '\n', "ensures: TWIN (negated) no CR/LF");
#else
        __CPROVER_assert(!(g < n) || (r[g] != '\r' && r[g] != '\n'), "ensures: the clear text contains no CR and no LF (ghost index)");
#endif
#ifdef REACH
        __CPROVER_assert(!(n == BASE64_DECODE_LENGTH(q - p)), "reach: accepted, clear text fills the block up to the terminator");
        __CPROVER_assert(!(n == 0 && len == 0), "reach: empty header accepted as empty clear text");
        __CPROVER_assert(!(n >= 3 && p == 6 && q < len), "reach: accepted with a scheme token and a trailing LF part");
        __CPROVER_assert(!(utf8 != 0 && cv_utf8_asked == 1), "reach: utf8 on, validity asked");
#endif
        free(r);
    } else {
#ifdef REACH
        __CPROVER_assert(!(g >= p && g < q && SPEC_DEC((int)(unsigned char)copy[g]) == -1), "reach: rejected for an invalid byte");
        __CPROVER_assert(!(cv_allocs == 2 && q - p == 4 && copy[p + 3] == '=' && copy[p + 2] != '='), "reach: rejected quad with padding (CR/LF in the clear text or bad padding)");
        __CPROVER_assert(!(len == N - 1), "reach: rejected at full length");
#endif
    }
    free(hdr);
}
#endif

/* ===================== decodeCleartext(  "Basic " + base64(user ":" pass)  ) == user ":" pass ===================== */
#if defined(T_RT) || defined(T_E2E)
#define HDRMAX (6 + BASE64_ENCODE_RAW_LENGTH(M) + 1)
/* builds clear = user ":" pass (strlen <= M) and hdr = "Basic " + the REAL encoder's output; returns strlen(clear) */
static size_t cv_build(char *clear, char *hdr, size_t *ulen_, size_t *plen_)
{
    size_t ulen, plen;
    __CPROVER_assume(ulen <= M && plen <= M && ulen + 1 + plen <= M);
    char user[M], pass[M];
    for (size_t i = 0; i < M; i++) {
        if (i < ulen) __CPROVER_assume(user[i] != 0 && user[i] != '\r' && user[i] != '\n' && user[i] != ':');
        if (i < plen) __CPROVER_assume(pass[i] != 0 && pass[i] != '\r' && pass[i] != '\n');
    }
    size_t L = ulen + 1 + plen;
    for (size_t i = 0; i <= M; i++)
        clear[i] = i < ulen ? user[i] : i == ulen ? ':' : i < L ? pass[i - ulen - 1] : 0;
    hdr[0] = 'B'; hdr[1] = 'a'; hdr[2] = 's'; hdr[3] = 'i'; hdr[4] = 'c'; hdr[5] = ' ';
    struct base64_encode_ctx e;
    base64_encode_init(&e);
    size_t k = base64_encode_update(&e, hdr + 6, L, (const uint8_t *)clear);
    k += base64_encode_final(&e, hdr + 6 + k);
    __CPROVER_assert(k == BASE64_ENCODE_RAW_LENGTH(L), "lemma: the encoder emits the padded length");
    hdr[6 + k] = 0;
    *ulen_ = ulen; *plen_ = plen;
    return L;
}
#endif

#if defined(T_RT)
void h_rt(void)
{
    char clear[M + 1], hdr[HDRMAX + BASE64_ENCODE_FINAL_LENGTH];
    size_t ulen, plen;
    size_t L = cv_build(clear, hdr, &ulen, &plen);
    int utf8, valid;
    cv_utf8_valid_answer = valid;
    __CPROVER_assume(utf8 == 0 || valid != 0);
    cv_live = 0;
    char *r = bc_decodeCleartext(hdr, utf8);
#ifdef TWIN_RT
    __CPROVER_assert(r == NULL || r[g] != clear[g] || g > L, "ensures: TWIN (negated) round trip");
#else
    __CPROVER_assert(r != NULL, "ensures: well-formed Basic credentials are accepted");
    __CPROVER_assert(r == NULL || !(g <= L) || r[g] == clear[g], "ensures: the clear text is user \":\" pass exactly, terminator included (ghost index)");
#endif
    __CPROVER_assert(r == NULL || __CPROVER_OBJECT_SIZE(r) >= L + 1, "ensures: the block holds the clear text and its terminator");
    __CPROVER_assert(cv_live == (r != NULL ? 1 : 0), "ensures: every allocation is freed except the returned clear text");
#ifdef REACH
    __CPROVER_assert(!(L == M && ulen == 2), "reach: maximal clear text");
    __CPROVER_assert(!(L == 1), "reach: lone colon");
    __CPROVER_assert(!(L % 3 == 1 && plen == 0 && ulen > 0), "reach: two padding characters, empty password");
    __CPROVER_assert(!(r != NULL && L > 2 && g == L - 1), "reach: ghost on the last byte");
#endif
    if (r) free(r);
}
#endif

/* ===================== the credential split ===================== */
#if defined(T_SPLIT)
void h_split(void)
{
    size_t len;
    __CPROVER_assume(len < N);
    cv_live = 0;
    char *clear = cv_heap_string(len, 1);         /* as decodeCleartext returns it: an xmalloc'ed NUL-terminated string */
    char copy[N];
    for (size_t i = 0; i < N; i++) copy[i] = i <= len ? clear[i] : 0;
    /* specification: position of the FIRST colon (len = none) */
    size_t c = len;
    for (size_t i = N; i-- > 0; ) if (i < len && copy[i] == ':') c = i;
    int cs;
    const char *username; char *passwd; size_t ulen, plen;
    cv_denied = 0;
    bc_split(clear, cs, "Basic x", &username, &passwd, &ulen, &plen);

    __CPROVER_assert(username != NULL && ulen == c, "ensures: the user name has the length of the text before the first colon (whole text if none)");
#ifdef TWIN_SPLIT
    __CPROVER_assert(!(g < c) || username[g] != copy[g], "ensures: TWIN (negated) user name bytes");
#else
    __CPROVER_assert(!(g < c) || username[g] == (cs ? copy[g] : SPEC_LOWER(copy[g])),
                     "ensures: the user name is the bytes before the first colon (ASCII-lowercased when casesensitive is off) (ghost index)");
#endif
    if (c == len) {
        __CPROVER_assert(passwd == NULL && cv_denied == 1, "ensures: no colon => no password, request denied");
    } else if (c + 1 == len) {
        __CPROVER_assert(passwd == NULL && cv_denied == 1, "ensures: empty password => password freed and NULL, request denied");
    } else {
        __CPROVER_assert(passwd != NULL && cv_denied == 0, "ensures: a non-empty password is kept and nothing is denied");
        __CPROVER_assert(passwd == NULL || plen == len - c - 1, "ensures: the password has the length of the text after the first colon");
#ifdef TWIN_SPLIT_PW
        __CPROVER_assert(passwd == NULL || !(g < len - c - 1) || passwd[g] != copy[c + 1 + g], "ensures: TWIN (negated) password bytes");
#else
        __CPROVER_assert(passwd == NULL || !(g < len - c - 1) || passwd[g] == copy[c + 1 + g],
                         "ensures: the password is the bytes after the first colon, further colons and letter case included (ghost index)");
#endif
    }
    __CPROVER_assert(cv_live == 1 + (passwd != NULL ? 1 : 0),
                     "ensures: the clear text is freed; only the user name and a kept password stay allocated");
#ifdef REACH
    __CPROVER_assert(!(c == len && len > 0), "reach: no colon");
    __CPROVER_assert(!(c + 1 == len), "reach: empty password");
    __CPROVER_assert(!(c == 0 && len > 1), "reach: empty user name");
    __CPROVER_assert(!(c + 2 < len && copy[c + 2] == ':' && g == 1), "reach: second colon inside the password");
    __CPROVER_assert(!(!cs && c > 1 && copy[1] == 'Q' && g == 1), "reach: upper-case letter lowered");
    __CPROVER_assert(!(len == N - 1 && c == 3), "reach: full length");
#endif
    free((void *)username);
    if (passwd) free(passwd);
}
#endif

/* ===================== header -> clear text -> split, end to end ===================== */
#if defined(T_E2E)
void h_e2e(void)
{
    char clear[M + 1], hdr[HDRMAX + BASE64_ENCODE_FINAL_LENGTH];
    size_t ulen, plen;
    size_t L = cv_build(clear, hdr, &ulen, &plen);
    cv_utf8_valid_answer = 1;
    cv_live = 0; cv_denied = 0;
    char *r = bc_decodeCleartext(hdr, 0);
    __CPROVER_assert(r != NULL, "ensures: well-formed Basic credentials are accepted");
    __CPROVER_assume(r != NULL);
    int cs;
    const char *username; char *passwd; size_t ul, pl;
    bc_split(r, cs, hdr, &username, &passwd, &ul, &pl);
    __CPROVER_assert(username != NULL && ul == ulen, "ensures: user name length");
#ifdef TWIN_E2E
    __CPROVER_assert(!(g < ulen) || username[g] != (cs ? clear[g] : SPEC_LOWER(clear[g])), "ensures: TWIN (negated) user name");
#else
    __CPROVER_assert(!(g < ulen) || username[g] == (cs ? clear[g] : SPEC_LOWER(clear[g])), "ensures: the user name is the encoded user (lowercased when casesensitive is off)");
#endif
    __CPROVER_assert((plen == 0) == (passwd == NULL) && (plen == 0) == (cv_denied == 1), "ensures: the password is kept iff it is not empty; denied otherwise");
    __CPROVER_assert(passwd == NULL || pl == plen, "ensures: password length");
    __CPROVER_assert(passwd == NULL || !(g < plen) || passwd[g] == clear[ulen + 1 + g], "ensures: the password is the encoded password");
    __CPROVER_assert(cv_live == 1 + (passwd != NULL ? 1 : 0), "ensures: only the user name and a kept password stay allocated");
#ifdef REACH
    __CPROVER_assert(!(plen == 0), "reach: empty password");
    __CPROVER_assert(!(plen > 1 && clear[ulen + 2] == ':'), "reach: colon inside the password");
    __CPROVER_assert(!(L == M && ulen == 1), "reach: maximal clear text");
#endif
    free((void *)username);
    if (passwd) free(passwd);
}
#endif
#endif /* CV_NATIVE */
