// Stub surroundings for the basiccreds slices (C36, third sentence).  TRUSTED models; the REAL text is
//   Auth::Basic::Config::decodeCleartext()                      (src/auth/basic/Config.cc, whole function)
//   the credential split at the start of Auth::Basic::Config::decode()  (same file, statement slice -> split.inc)
//   Tolower()                                                   (lib/util.cc)
//   compat/xis.h, compat/xalloc.h (safe_free, xfree), include/base64.h  (real headers)
//   lib/base64.cc                                               (separate C TU, as in units/base64)
#ifndef BC_STUBS_H
#define BC_STUBS_H

#ifndef CV_NATIVE
typedef unsigned long size_t;
typedef unsigned char uint8_t;
typedef unsigned int uint32_t;
typedef int int32_t;
typedef long time_t;
extern "C" {
    size_t strlen(const char *);                       // CBMC library model
    char *strchr(const char *, int);                   // CBMC library model
    char *strrchr(const char *, int);                  // CBMC library model (only reached if the text starts to call it)
    size_t strcspn(const char *, const char *);        // stubs.c (CBMC has no body)
    size_t strspn(const char *, const char *);         // stubs.c
    char *strtok(char *, const char *);                // stubs.c (CBMC has no body)
    char *xstrdup(const char *);                       // stubs.c: xmalloc(strlen + 1) + copy (compat/xstring.cc)
}
#define assert(EX) __CPROVER_assert((EX), "in-code assert(" #EX ")")   // squid's assert() aborts; here a proof obligation
#else
#include <cstddef>
#include <cstdint>
#include <cstring>
#include <cassert>
#include <ctime>
extern "C" char *xstrdup(const char *);
#endif

#include "compat/xis.h"      // REAL: xisgraph / xisspace / xtolower  (over the stub <cctype> under CBMC)
#include "compat/xalloc.h"   // REAL: xmalloc / free_const declarations, xfree(), safe_free()
extern "C" {
#include "base64.h"          // REAL: BASE64_DECODE_LENGTH, struct base64_decode_ctx, the repository's declarations
}                            // (HAVE_NETTLE_BASE64_H is not defined in this TU; the definitions are C: base64.c)

#define debugs(SECTION, LEVEL, CONTENT) ((void)0)      // the stream expressions are not evaluated
#define DBG_IMPORTANT 1

extern "C" {
    // ghosts written by the stubs, read by the harnesses (contract.c)
    extern int cv_utf8_valid_answer;     // what the (unverified) isValidUtf8String is taken to answer
    extern int cv_sink;
    extern int cv_utf8_asked;            // how often it was asked
    extern int cv_denied;                // number of setDenyMessage() calls
    extern const char *cv_deny_msg;      // the last message
}

class HttpRequest;

// src/sbuf/SBuf.h -- only as the result type of the out-of-reach converters
class SBuf
{
public:
    const char *c_str() { return s_; }
    const char *s_;
};

// src/auth/toUtf.cc -- OUT OF REACH (SBuf, table-driven converters).  isValidUtf8String is a pure predicate: its answer is
// the ghost cv_utf8_valid_answer (harness input); its arguments must delimit the decoded bytes.  The two converters are
// `stub:` (reaching them = undecided).
inline bool isValidUtf8String(const char *source, const char *sourceEnd)
{
#ifndef CV_NATIVE
    __CPROVER_assert(__CPROVER_same_object(source, sourceEnd) && source <= sourceEnd, "isValidUtf8String: [source, sourceEnd) is a range inside one object");
    if (source < sourceEnd)
        cv_sink = *source + sourceEnd[-1];       // first and last byte are read (pointer checks of the instrumented TU apply)
#endif
    ++cv_utf8_asked;
    return cv_utf8_valid_answer != 0;
}
inline SBuf Latin1ToUtf8(const char *)
{
#ifndef CV_NATIVE
    __CPROVER_assert(0, "stub: Latin1ToUtf8 (src/auth/toUtf.cc) is not modelled");
    __CPROVER_assume(0);
#endif
    SBuf s; s.s_ = ""; return s;
}
inline SBuf Cp1251ToUtf8(const char *)
{
#ifndef CV_NATIVE
    __CPROVER_assert(0, "stub: Cp1251ToUtf8 (src/auth/toUtf.cc) is not modelled");
    __CPROVER_assume(0);
#endif
    SBuf s; s.s_ = ""; return s;
}

namespace Auth
{
enum Type { AUTH_UNKNOWN, AUTH_BASIC, AUTH_NTLM, AUTH_DIGEST, AUTH_NEGOTIATE, AUTH_BROKEN };

// src/auth/UserRequest.h: only the deny message is recorded
class UserRequest
{
public:
    typedef UserRequest *Pointer;        // real: RefCount<UserRequest>; only `->setDenyMessage()` is used in the slice
    void setDenyMessage(char const *m) { ++cv_denied; cv_deny_msg = m; }
};

// src/auth/SchemeConfig.h: the scalar state
class SchemeConfig
{
public:
    void *authenticateProgram;
    void *keyExtras;
    int keep_alive;
    int utf8;
protected:
    bool isCP1251EncodingAllowed(const HttpRequest *)
    {
#ifndef CV_NATIVE
        __CPROVER_assert(0, "stub: SchemeConfig::isCP1251EncodingAllowed (Accept-Language parsing) is not modelled");
        __CPROVER_assume(0);
#endif
        return false;
    }
};

// src/auth/User.h: the scalar state; username(char const*) as in src/auth/User.cc minus the SBuf userKey_ bookkeeping
class User
{
public:
    typedef User *Pointer;               // real: RefCount<User>; the slice only assigns it
    User() : auth_type(AUTH_UNKNOWN), config(nullptr), ipcount(0), expiretime(0), username_(nullptr) {}
    Type auth_type;
    SchemeConfig *config;
    size_t ipcount;
    long expiretime;
    char const *username() const { return username_; }
    void username(char const *aString)
    {
        if (aString) {
            assert(!username_);
            username_ = xstrdup(aString);
        } else {
            safe_free(username_);
        }
    }
    const char *username_;
};

namespace Basic
{
class Config;
// src/auth/basic/User.h
class User : public Auth::User
{
public:
    User(Auth::SchemeConfig *c, const char *) : Auth::User(), passwd(nullptr), queue(nullptr) { config = c; }
    bool valid() const { return username() != nullptr && passwd != nullptr; }
    char *passwd;
    void *queue;
};

// src/auth/basic/Config.h
class Config : public Auth::SchemeConfig
{
public:
    time_t credentialsTTL;
    int casesensitive;
    char *cv_decodeCleartext(const char *h, const HttpRequest *r) { return decodeCleartext(h, r); }
    // the statement slice of decode() lives in this member function (wrap.cc)
    Auth::Basic::User *cv_split(char *cleartext, char const *proxy_auth, const char *aRequestRealm, Auth::UserRequest::Pointer auth_user_request);
private:
    char *decodeCleartext(const char *httpAuthHeader, const HttpRequest *request);   // REAL body
};
} // namespace Basic
} // namespace Auth

void Tolower(char *);     // REAL body (lib/util.cc)

#endif
