// Wrapper TU for the basiccreds unit: stubs + REAL texts + extern "C" entry points.
#include "stubs.h"

extern "C" {
    int cv_utf8_valid_answer;
    int cv_utf8_asked;
    int cv_sink;
    int cv_denied;
    const char *cv_deny_msg;
}

#include "tolower.inc"       // Tolower()                                  (lib/util.cc)
#include "cleartext.inc"     // Auth::Basic::Config::decodeCleartext()     (src/auth/basic/Config.cc)

// the statements of Auth::Basic::Config::decode() from `char *separator = strchr(cleartext, ':');` up to and including
// `xfree(cleartext);`, inside a member function that declares the locals the real function declares just before them
Auth::Basic::User *
Auth::Basic::Config::cv_split(char *cleartext, char const *proxy_auth, const char *aRequestRealm, Auth::UserRequest::Pointer auth_user_request)
{
    Auth::User::Pointer lb;
    /* permitted because local_basic is purely local function scope. */
    Auth::Basic::User *local_basic = nullptr;

#include "split.inc"

    (void)lb;
    (void)proxy_auth;
    return local_basic;
}

extern "C" {

// decodeCleartext on a Config whose scalar members are arbitrary except the two the harness controls
char *bc_decodeCleartext(const char *header, int utf8)
{
    Auth::Basic::Config cfg;
    cfg.utf8 = utf8;
    return cfg.cv_decodeCleartext(header, nullptr);
}

// the split; results through out-parameters.  The strings are read here (instrumented TU) so that a dangling result is seen.
void bc_split(char *cleartext, int casesensitive, const char *header, const char **username, char **passwd, size_t *ulen, size_t *plen)
{
    Auth::Basic::Config cfg;
    cfg.casesensitive = casesensitive;
    Auth::UserRequest req;
    Auth::Basic::User *u = cfg.cv_split(cleartext, header, nullptr, &req);
    *username = u->username();
    *passwd = u->passwd;
    *ulen = u->username() ? strlen(u->username()) : 0;
    *plen = u->passwd ? strlen(u->passwd) : 0;
    delete u;                 // the two strings stay allocated; they belong to the caller now
}

}
