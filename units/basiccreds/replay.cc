// Native replay for the basiccreds unit: the same slices (current tree: cleartext.inc / split.inc / tolower.inc in the build
// dir) and stub classes compiled by g++ with ASan+UBSan, over the REAL lib/base64.cc (repository implementation forced with
// HAVE_NETTLE_BASE64_H=0 exactly as the extraction rule does), glibc's strtok/strcspn/strchr/<cctype>, and counting
// xmalloc/xstrdup/free_const.  The oracle is property-level only (C36): no out-of-bounds access (sanitizers), result NULL or
// a NUL-terminated string without CR/LF, no leaked block, clear text == user ":" pass, user name == bytes before the FIRST
// colon, password == bytes after it.
#include "replay.h"
#include <string>
#include <vector>
#include "squid.h"
#undef HAVE_NETTLE_BASE64_H
#define HAVE_NETTLE_BASE64_H 0
extern "C" void xassert(const char *msg, const char *file, int line)
{
    printf("REPLAY-FAIL: in-code assert(%s) failed at %s:%d\n", msg, file, line);
    exit(1);
}
#include REAL_BASE64_CC

static int live = 0;
extern "C" {
void *xmalloc(size_t sz) { void *p = malloc(sz ? sz : 1); if (!p) abort(); ++live; return p; }   // exact size for ASan when sz > 0
void *xcalloc(size_t n, size_t sz) { void *p = calloc(n ? n : 1, sz ? sz : 1); if (!p) abort(); ++live; return p; }
void free_const(const void *p) { if (p) --live; free(const_cast<void *>(p)); }
char *xstrdup(const char *s) { size_t n = strlen(s) + 1; char *p = (char *)xmalloc(n); memcpy(p, s, n); return p; }
}
#undef assert
#include <cassert>
#define CV_NATIVE 1
#include "wrap.cc"

extern "C" const char *__asan_default_options() { return "detect_leaks=0"; }   // leaks are counted explicitly (live)

// element k of a harness array: the trace has `key[kl]=v` lines for element-wise assignments and `key=v0,v1,..` for whole-array ones
static bool elem(const Cex &c, const char *key, size_t k, long long &v)
{
    std::string kk = std::string(key) + "[" + std::to_string(k) + "l]";
    if (c.has(kk)) { v = c.num(kk); return true; }
    kk = std::string(key) + "[" + std::to_string(k) + "]";
    if (c.has(kk)) { v = c.num(kk); return true; }
    std::vector<long long> a = c.arr(key);
    if (k < a.size()) { v = a[k]; return true; }
    return false;
}
static std::string str_of(const Cex &c, const char *key, size_t len)
{
    std::string s;
    for (size_t k = 0; k < len; k++) {
        long long v = 'A';
        elem(c, key, k, v);
        s.push_back((char)v ? (char)v : 'A');      // the harness assumes NUL-free bytes before len
    }
    return s;
}
// a NUL-terminated harness array
static std::string cstr_of(const Cex &c, const char *key)
{
    std::string s;
    for (size_t k = 0; k < 4096; k++) {
        long long v = 0;
        if (!elem(c, key, k, v) || v == 0) break;
        s.push_back((char)v);
    }
    return s;
}
static char lower(char ch) { return (ch >= 'A' && ch <= 'Z') ? (char)(ch - 'A' + 'a') : ch; }
static void show(const char *what, const std::string &s)
{
    printf("%s (%zu bytes):", what, s.size());
    for (unsigned char ch : s) printf(ch >= 0x21 && ch <= 0x7e && ch != '\\' ? " %c" : " \\x%02x", ch);
    printf("\n");
}

// oracle for a clear text returned by decodeCleartext (may be NULL)
static int check_clear(char *r, int before)
{
    if (!r) {
        if (live != before) RP_FAIL("result NULL but %d block(s) still allocated (leak)", live - before);
        return 0;
    }
    if (live != before + 1) RP_FAIL("result returned but %d extra block(s) still allocated (leak)", live - before - 1);
    size_t n = strlen(r);                         // ASan: runs off the block if the terminator is missing
    for (size_t i = 0; i < n; i++)
        if (r[i] == '\r' || r[i] == '\n') RP_FAIL("clear text contains CR/LF at offset %zu", i);
    return 0;
}

static int check_split(const std::string &clear, int cs, const char *username, char *passwd, int denied_before)
{
    size_t c = clear.find(':');
    std::string wantUser = clear.substr(0, c == std::string::npos ? clear.size() : c);
    if (!cs) for (auto &ch : wantUser) ch = lower(ch);
    if (!username) RP_FAIL("no user name");
    if (wantUser != username) { show("user name", username); show("expected", wantUser); RP_FAIL("user name is not the text before the first colon"); }
    if (c == std::string::npos || c + 1 == clear.size()) {
        if (passwd) RP_FAIL("%s but a password was kept", c == std::string::npos ? "no colon" : "empty password");
        if (cv_denied != denied_before + 1) RP_FAIL("request not denied");
    } else {
        std::string wantPw = clear.substr(c + 1);
        if (!passwd) RP_FAIL("non-empty password dropped");
        if (wantPw != passwd) { show("password", passwd); show("expected", wantPw); RP_FAIL("password is not the text after the first colon"); }
        if (cv_denied != denied_before) RP_FAIL("request denied although a password is present");
    }
    return 0;
}

int main(int argc, char **argv)
{
    if (argc < 3) return 2;
    std::string mode = argv[1];
    Cex c; if (!c.load(argv[2])) return 2;

    if (mode == "any") {
        size_t len = (size_t)c.unum("len");
        std::string h = str_of(c, "copy", len);
        show("header value", h);
        char *hdr = (char *)malloc(len + 1); memcpy(hdr, h.c_str(), len + 1);       // exact-size block
        cv_utf8_valid_answer = 1;
        int before = live;
        char *r = bc_decodeCleartext(hdr, (int)c.num("utf8"));
        if (memcmp(hdr, h.c_str(), len + 1) != 0) RP_FAIL("header value modified");
        if (check_clear(r, before)) return 1;
        if (r) show("clear text", r); else printf("clear text: NULL\n");
        RP_OK("postconditions hold on this header value");
    }
    if (mode == "rt" || mode == "e2e") {
        // rebuild the header from the clear text with the real encoder, as the harness does
        std::string clear = cstr_of(c, "clear");
        show("user:pass", clear);
        std::vector<char> hdr(6 + base64_encode_len(clear.size()) + 1);
        memcpy(hdr.data(), "Basic ", 6);
        struct base64_encode_ctx e; base64_encode_init(&e);
        size_t k = base64_encode_update(&e, hdr.data() + 6, clear.size(), (const uint8_t *)clear.data());
        k += base64_encode_final(&e, hdr.data() + 6 + k);
        hdr[6 + k] = 0;
        printf("header value: %s\n", hdr.data());
        char *h = (char *)malloc(6 + k + 1); memcpy(h, hdr.data(), 6 + k + 1);
        cv_utf8_valid_answer = 1;
        int before = live;
        char *r = bc_decodeCleartext(h, mode == "rt" ? (int)c.num("utf8") : 0);
        if (check_clear(r, before)) return 1;
        if (!r) RP_FAIL("well-formed credentials rejected");
        if (clear != r) { show("clear text", r); RP_FAIL("decodeCleartext(\"Basic \" + base64(x)) != x"); }
        if (mode == "rt") RP_OK("round trip holds");
        int cs = (int)c.num("cs"), d0 = cv_denied;
        const char *username; char *passwd; size_t ul, pl;
        bc_split(r, cs, h, &username, &passwd, &ul, &pl);
        if (check_split(clear, cs, username, passwd, d0)) return 1;
        if (live != before + 1 + (passwd ? 1 : 0)) RP_FAIL("%d block(s) allocated after the split, expected %d", live - before, 1 + (passwd ? 1 : 0));
        RP_OK("header -> user name / password holds");
    }
    if (mode == "split") {
        size_t len = (size_t)c.unum("len");
        std::string clear = str_of(c, "copy", len);
        show("clear text", clear);
        int cs = (int)c.num("cs");
        int before = live;
        char *ct = (char *)xmalloc(len + 1); memcpy(ct, clear.c_str(), len + 1);
        int d0 = cv_denied;
        const char *username; char *passwd; size_t ul, pl;
        bc_split(ct, cs, "Basic x", &username, &passwd, &ul, &pl);
        if (check_split(clear, cs, username, passwd, d0)) return 1;
        if (live != before + 1 + (passwd ? 1 : 0)) RP_FAIL("%d block(s) allocated after the split, expected %d (clear text freed, user name and kept password alive)", live - before, 1 + (passwd ? 1 : 0));
        RP_OK("user name / password split holds");
    }
    return 2;
}
