/* Harness-encoded contracts for the LIST level of property C28 ("the canonical ranges Squid derives are non-empty, lie
 * within the representation, and cover exactly the bytes requested by the satisfiable specs.  A header with any
 * syntactically invalid spec is ignored entirely.  No input triggers arithmetic overflow.").
 * Code under test (wrap.cc): the real text of HttpHdrRange::ParseCreate / parseInit / ~HttpHdrRange / canonize(int64_t)
 * / getCanonizedSpecs / merge / begin / end / isComplex / willBeComplex / firstOffset / lowestOffset /
 * offsetLimitExceeded and HttpHdrRangeSpec::Create / canonize / mergeWith over a fixed-capacity model of std::vector. */
#include <stddef.h>
#include <stdint.h>
#include <limits.h>

#ifndef K
#define K 4         /* list bound: at most K specs / list items */
#endif
#define NB (6 + 4 * K + 2)   /* header value buffer: "bytes=" + K items of >= 1 byte with room for delimiters */

int w_list_parse(const char *buf, size_t len, int64_t *offs, int64_t *lens, int *count);
int w_list_canonize(int n, const int64_t *offs, const int64_t *lens, int64_t clen,
                    int64_t *oOffs, int64_t *oLens, int *oCount, int *oComplex);
void w_list_queries(int n, const int64_t *offs, const int64_t *lens, int64_t size, int64_t limit,
                    int *willBeComplex, int64_t *firstOffset, int64_t *lowestOffset, int *limitExceeded);

int cv_live(void);          /* allocator model (wrap.cc): number of live HttpHdrRangeSpec / HttpHdrRange objects */

typedef __int128 wide;

#ifdef TWIN
#define ENS(c, msg) __CPROVER_assert(!(c), "ensures: TWIN (negated) " msg)
#else
#define ENS(c, msg) __CPROVER_assert((c), "ensures: " msg)
#endif
#ifdef REACH
#define RCH(c, msg) __CPROVER_assert(!(c), "reach: " msg)
#else
#define RCH(c, msg)
#endif

/* well-formed spec = what HttpHdrRangeSpec::parseInit produces (verified in hdrrange/parse) */
static _Bool wf_suffix(int64_t off, int64_t len) { return off == -1 && len >= 0; }
static _Bool wf_open(int64_t off, int64_t len) { return off >= 0 && len == -1; }
static _Bool wf_closed(int64_t off, int64_t len) { return off >= 0 && len >= 0 && (wide)off + (wide)len <= (wide)INT64_MAX; }
static _Bool wf(int64_t off, int64_t len) { return wf_suffix(off, len) || wf_open(off, len) || wf_closed(off, len); }

/* the byte set a well-formed spec requests from a representation of clen bytes, already cut to [0, clen):
 * [*lo, *hi), empty iff *lo >= *hi */
static void requested(int64_t off, int64_t len, int64_t clen, wide *lo, wide *hi)
{
    wide l, h;
    if (wf_suffix(off, len)) { l = (wide)clen - (wide)len; h = clen; }
    else if (wf_open(off, len)) { l = off; h = clen; }
    else { l = off; h = (wide)off + (wide)len; }
    if (l < 0) l = 0;
    if (h > (wide)clen) h = clen;
    *lo = l; *hi = h;
}

/* ================= ASSUMED models (ghost state on the harness side) ================= */
/* The header value is buf[0, blen), buf[blen] == 0.  The list behind "bytes=" consists of nitems items; item k is
 * buf[ia[k], ia[k] + in[k]); ivalid[k] says whether HttpHdrRangeSpec::parseInit accepts it and (ioff[k], ilen_[k]) is the
 * well-formed spec it then stores.  All of this is fixed BEFORE ParseCreate runs. */
static const char *m_base;
static int nitems;
static int ia[K], in[K];
static _Bool ivalid[K];
static int64_t ioff[K], ilength[K];
static int m_calls;             /* strListGetItem calls so far */
int cv_list_done;               /* ghost: the iterator has reported the end of the list */
static int m_parsed;            /* ghost: items handed to HttpHdrRangeSpec::parseInit so far */

/* strListGetItem(&str, ',', &item, &ilen, &pos): ASSUMED.  Successive calls yield the items in order, then 0. */
int cv_next_item(const char *base, size_t len, char del, const char **item, int *ilen, const char **pos)
{
    __CPROVER_assert(del == ',', "the Range list is walked with ',' as the delimiter");
    __CPROVER_assert(base == m_base, "model: strListGetItem is given the header value");
    if (m_calls == 0)
        __CPROVER_assert(*pos == base + 6, "the walk starts just behind \"bytes=\" (pos == termedBuf() + 6)");
    else
        __CPROVER_assert(m_calls > nitems || *pos == base + ia[m_calls - 1] + in[m_calls - 1],
                         "model: the caller leaves strListGetItem's position cookie alone");
    if (m_calls >= nitems) {
        if (m_calls < K + 1)
            ++m_calls;
        cv_list_done = 1;
        return 0;
    }
    const int k = m_calls++;
    *item = base + ia[k];
    if (ilen)
        *ilen = in[k];
    *pos = base + ia[k] + in[k];
    return 1;
}

/* HttpHdrRangeSpec::parseInit(field, flen) on a fresh spec: ASSUMED here, VERIFIED in hdrrange/parse. */
int cv_spec_parse(const char *field, int flen, int64_t *offset, int64_t *length)
{
    __CPROVER_assert(*offset == -1 && *length == -1, "HttpHdrRangeSpec::parseInit runs on a fresh spec (its precondition in hdrrange/parse)");
    int k = m_calls - 1;        /* the item the iterator yielded last */
    __CPROVER_assert(k >= 0 && k < nitems && field == m_base + ia[k] && flen == in[k],
                     "each spec is parsed from exactly the item strListGetItem yielded last");
    if (k < 0 || k >= nitems)
        return 0;
    ++m_parsed;
    if (!ivalid[k])
        return 0;
    *offset = ioff[k];
    *length = ilength[k];
    return 1;
}

/* HttpHdrRangeSpec::canonize(clen): with -DCV_SPEC_CANONIZE_CONTRACT the list level uses the contract that hdrrange/canonize
 * VERIFIES for the real text (every well-formed spec, every clen >= 0): non-zero <=> the requested bytes meet [0, clen),
 * and then [offset, offset+length) is exactly that intersection; an unsatisfiable spec is left with arbitrary members. */
int cv_spec_canonize(int64_t *offset, int64_t *length, int64_t clen)
{
    __CPROVER_assert(wf(*offset, *length) && clen >= 0, "HttpHdrRangeSpec::canonize precondition (as verified in hdrrange/canonize): well-formed spec, clen >= 0");
    wide lo, hi;
    requested(*offset, *length, clen, &lo, &hi);
    if (lo < hi) {
        *offset = (int64_t)lo;
        *length = (int64_t)(hi - lo);
        return 1;
    }
    int64_t o, l;
    *offset = o;
    *length = l;
    return 0;
}

/* ================= HttpHdrRange::ParseCreate / parseInit ================= */
#ifdef T_LPARSE
static _Bool ci_eq(char c, char lower) { return c == lower || c == lower - 32; }
void h_lparse(void)
{
    char buf[NB];
    size_t blen;
    __CPROVER_assume(blen < NB);
    buf[blen] = 0;                   /* termedBuf() is NUL-terminated at size(); the other bytes are arbitrary */
    /* the item layout: inside the value, behind "bytes=", in order, separated by at least one byte */
    int n_;
    __CPROVER_assume(n_ >= 0 && n_ <= K);
    nitems = n_;
    int prev_end = 6;
    for (int k = 0; k < K; k++) {
        int a, n; _Bool v; int64_t o, l;
        ia[k] = a; in[k] = n; ivalid[k] = v; ioff[k] = o; ilength[k] = l;
        if (k < nitems) {
            __CPROVER_assume(a >= prev_end + (k > 0) && n >= 1 && (size_t)a + (size_t)n <= blen);
            __CPROVER_assume(wf(o, l));
            prev_end = a + n;
        }
    }
    m_base = buf; m_calls = 0; m_parsed = 0; cv_list_done = 0;

    int64_t offs[K], lens[K];
    int count = -1;
    int r = w_list_parse(buf, blen, offs, lens, &count);

    _Bool prefix = blen >= 6 && ci_eq(buf[0], 'b') && ci_eq(buf[1], 'y') && ci_eq(buf[2], 't') && ci_eq(buf[3], 'e')
                   && ci_eq(buf[4], 's') && buf[5] == '=';
    int first_bad = -1;
    for (int k = K - 1; k >= 0; k--)
        if (k < nitems && !ivalid[k]) first_bad = k;
    _Bool accept = prefix && nitems >= 1 && first_bad < 0;

    ENS((r != 0) == accept, "a Range value is accepted <=> it starts with bytes= (any case), has at least one spec and EVERY spec is valid");
    if (r) {
        ENS(cv_list_done, "an accepted header was walked to the end of the list");
        ENS(count == nitems && m_parsed == nitems, "an accepted header yields one spec per list item");
        for (int k = 0; k < K; k++)
            if (k < count && k < nitems)
                ENS(offs[k] == ioff[k] && lens[k] == ilength[k], "the specs are the parsed items, in order of appearance");
    }
    if (!prefix)
        ENS(m_calls == 0 && m_parsed == 0, "a value without the bytes= prefix is not parsed further");
    /* "ignored entirely" + release of the partially built list (w_list_parse destroys an accepted list itself) */
    ENS(cv_live() == 0, "every HttpHdrRangeSpec / HttpHdrRange allocated while parsing has been deleted again (a rejected header leaves nothing behind)");
    RCH(r && nitems == K, "K valid specs accepted");
    RCH(r && nitems == 1, "single spec accepted");
    RCH(!r && prefix && first_bad == 0, "first spec invalid: rejected");
    RCH(!r && prefix && nitems == K && first_bad == K - 1, "last of K specs invalid: whole header rejected, K-1 specs released");
    RCH(!r && prefix && nitems >= 3 && first_bad == 1 && ivalid[2], "invalid spec in the middle");
    RCH(!r && prefix && nitems == 0, "bytes= without any spec: rejected");
    RCH(!r && !prefix && blen >= 6, "wrong unit");
    RCH(!r && blen == 0, "empty value");
    RCH(r && buf[0] == 'B' && buf[4] == 'S', "upper-case BYTES=");
}
#endif

/* ================= HttpHdrRange::canonize(clen) ================= */
#ifdef T_LCANON
int64_t g;      /* ghost byte position (listed in unit.json "ghosts": arbitrary) */
void h_lcanon(void)
{
    int n;
    int64_t offs[K], lens[K], clen;
    __CPROVER_assume(n >= 0 && n <= K);
    __CPROVER_assume(clen >= 0);
    _Bool in_input = 0, any_sat = 0;
    for (int j = 0; j < K; j++)
        if (j < n) {
            __CPROVER_assume(wf(offs[j], lens[j]));
            wide lo, hi;
            requested(offs[j], lens[j], clen, &lo, &hi);
            if (lo < hi) any_sat = 1;
            if (lo <= (wide)g && (wide)g < hi) in_input = 1;
        }

    int64_t oOffs[K], oLens[K];
    int m = -1, complex_ = -1;
    int r = w_list_canonize(n, offs, lens, clen, oOffs, oLens, &m, &complex_);

    ENS(m >= 0 && m <= n, "canonize never adds specs");
    _Bool in_output = 0;
    for (int j = 0; j < K; j++)
        if (j < m) {
            ENS(oLens[j] > 0 && oOffs[j] >= 0 && (wide)oOffs[j] + (wide)oLens[j] <= (wide)clen,
                "every remaining spec is canonical: non-empty and inside [0, clen)");
            if (oOffs[j] <= g && (wide)g < (wide)oOffs[j] + (wide)oLens[j]) in_output = 1;
        }
    ENS(in_output == in_input, "byte g is covered by the canonical specs <=> it is requested by some input spec and lies in [0, clen)");
    ENS((r != 0) == any_sat, "canonize returns 0 <=> no spec is satisfiable");
    ENS((r != 0) == (m > 0), "canonize returns non-zero <=> specs remain");
    /* isComplex() on the canonical list: "true if range specs are too complex": some spec starts before the end of its predecessor */
    _Bool disorder = 0;
    for (int j = 1; j < K; j++)
        if (j < m && (wide)oOffs[j] < (wide)oOffs[j - 1] + (wide)oLens[j - 1]) disorder = 1;
    ENS(cv_live() == 0, "unsatisfiable specs are deleted by canonize, the others by the destructor: nothing leaks");
    ENS((complex_ != 0) == disorder, "isComplex() <=> the canonical specs are not in strictly increasing, non-overlapping order");

    RCH(n == K && m == K, "all K specs satisfiable");
    RCH(n == K && m == 1 && r, "one of K specs survives");
    RCH(n == K && m == 0 && !r && clen > 0, "no spec satisfiable");
    RCH(n == 0 && !r, "empty list");
    RCH(in_input && g == clen - 1 && clen == INT64_MAX, "the last byte of the largest representation is requested");
    RCH(m >= 2 && complex_, "overlapping specs stay separate (no merging) and make the list complex");
    RCH(m >= 2 && !complex_, "ordered specs");
    RCH(n >= 2 && wf_suffix(offs[0], lens[0]) && wf_open(offs[1], lens[1]) && m == 2, "suffix and open specs canonized");
}
#endif

/* ================= willBeComplex / firstOffset / lowestOffset / offsetLimitExceeded ================= */
#ifdef T_LQUERY
void h_lquery(void)
{
    int n;
    int64_t offs[K], lens[K], size, limit;
    __CPROVER_assume(n >= 0 && n <= K);
    for (int j = 0; j < K; j++)
        if (j < n) __CPROVER_assume(wf(offs[j], lens[j]));

    int wbc = -1, lim = -1;
    int64_t first = -2, lowest = -2;
    w_list_queries(n, offs, lens, size, limit, &wbc, &first, &lowest, &lim);

    /* willBeComplex: "strong order as far as we can tell without the content length": suffix specs are ignored, an open
     * spec ends where it starts */
    _Bool disorder = 0;
    wide end = 0;
    _Bool all_known = 1, any_suffix_unknown = 0;
    int64_t minoff = -1;
    for (int j = 0; j < K; j++)
        if (j < n) {
            if (offs[j] < 0) { all_known = 0; continue; }
            if ((wide)offs[j] < end) disorder = 1;
            if (!disorder) end = (wide)offs[j] + (lens[j] >= 0 ? (wide)lens[j] : (wide)0);
            if (minoff < 0 || offs[j] < minoff) minoff = offs[j];
        }
    ENS((wbc != 0) == disorder, "willBeComplex() <=> some spec with a known offset starts before the end of an earlier one");
    _Bool is_some = first == -1;
    for (int j = 0; j < K; j++)
        if (j < n && offs[j] == first) is_some = 1;
    ENS(is_some, "firstOffset() is UnknownPosition or the offset of one of the specs");
    if (all_known && n > 0)
        ENS(first == minoff, "firstOffset() is the lowest offset when every offset is known");
    if (n == 0)
        ENS(first == -1 && lowest == 0, "empty list: firstOffset() unknown, lowestOffset() 0");
    ENS(lowest >= 0, "lowestOffset() is a position");
    if (all_known && n > 0)
        ENS(lowest == minoff, "lowestOffset() is the lowest offset when every offset is known");
    ENS(cv_live() == 0, "the queries neither allocate nor release (the list is destroyed completely afterwards)");
    ENS((lim != 0) == (limit == 0 || (limit != -1 && (first == -1 || limit < first))),
        "offsetLimitExceeded(limit): 0 disabled, -1 forced, else the first offset is unknown or beyond the limit");
    RCH(wbc && n == K, "disordered list");
    RCH(!wbc && n == K && all_known, "ordered list");
    RCH(!all_known && first >= 0, "suffix spec followed by a known offset");
    RCH(lowest > 0 && !all_known, "suffix spec resolved against size");
    RCH(lim && limit > 0 && first > limit, "limit exceeded");
}
#endif
