// Wrapper TU of the hdrrangelist unit (C++ front end): the LIST level of property C28.
// Real text, extracted on every run into the build dir:
//   minmax.h          min()/max() templates of compat/compat_shared.h
//   Range.h           src/base/Range.h (two #include lines dropped)
//   range_classes.h   class HttpHdrRangeSpec and class HttpHdrRange of src/HttpHeaderRange.h
//   stringcmp.inc     nilCmp and the String::cmp / caseCmp family of src/String.cc
//   spec_slices.cc    known_spec(), UnknownPosition, HttpHdrRangeSpec constructor / Create / mergeWith
//   spec_canonize.cc  HttpHdrRangeSpec::canonize (compiled unless the target replaces it by its verified contract)
//   list_slices.cc    HttpHdrRange: ParsedCount, constructor, ParseCreate, parseInit, destructor, begin/end x4, merge,
//                     getCanonizedSpecs, canonize(int64_t), isComplex, willBeComplex, firstOffset, lowestOffset,
//                     offsetLimitExceeded
//   (native replay only) native_spec_parse.inc / native_offset.inc / native_strlist.inc: the real
//                     HttpHdrRangeSpec::parseInit, httpHeaderParseOffset (HttpHeaderTools.cc), strListGetItem (StrList.cc)
#include "stubs.h"
#include "minmax.h"
#include "Range.h"
#include "range_classes.h"
#include "stringcmp.inc"

#ifndef CV_NATIVE
/* ---- allocator model (trusted): `new` / `delete` of the two classes over typed pools --------------------------------
 * CBMC's C++ front end turns every new-expression into __new(size) and models the object as an untyped byte array (its
 * sizeof() of these classes is not even the ABI's), which makes each member access a whole-object byte update: the list
 * targets then need > 10 minutes.  Defining __new/__delete here replaces CBMC's library versions: objects are slots of
 * typed static pools, handed out in order and never reused; delete checks that the pointer is a live slot start
 * (double delete / foreign pointer), marks it dead and havocs it (freed memory has arbitrary content).  cv_live() counts
 * live objects: the harnesses assert 0 at their end (no leak).  MEMPROXY_CLASS (Squid's pooled operator new) is dropped. */
#define CV_SPEC_POOL CV_CAP
#define CV_LIST_POOL 1
#if CV_CAP > 8
#error "the allocator model holds at most 8 HttpHdrRangeSpec objects"
#endif
/* separate objects, not an array: a pointer to one of them is (object, constant offset), which CBMC dereferences by
 * comparing object numbers instead of extracting bytes at a symbolic offset from one big array */
static HttpHdrRangeSpec cvS0, cvS1, cvS2, cvS3, cvS4, cvS5, cvS6, cvS7;
static HttpHdrRangeSpec *const cvSpecPool[8] = { &cvS0, &cvS1, &cvS2, &cvS3, &cvS4, &cvS5, &cvS6, &cvS7 };
static bool cvSpecLive[CV_SPEC_POOL];
static int cvSpecNext;
static HttpHdrRange cvL0;
static HttpHdrRange *const cvListPool[CV_LIST_POOL] = { &cvL0 };
static bool cvListLive[CV_LIST_POOL];
static int cvListNext;
extern "C" int64_t nondet_cv_int64(void);
extern "C" void *__new(size_t size)
{
    if (size == sizeof(HttpHdrRangeSpec)) {
        if (cvSpecNext >= CV_SPEC_POOL) {
            CV_STUB_FAIL("more HttpHdrRangeSpec objects allocated than the allocator model holds");
            return nullptr;
        }
        cvSpecLive[cvSpecNext] = true;
        return cvSpecPool[cvSpecNext++];
    }
    if (size == sizeof(HttpHdrRange)) {
        if (cvListNext >= CV_LIST_POOL) {
            CV_STUB_FAIL("more HttpHdrRange objects allocated than the allocator model holds");
            return nullptr;
        }
        cvListLive[cvListNext] = true;
        return cvListPool[cvListNext++];
    }
    CV_STUB_FAIL("new of a type the allocator model does not know");
    return nullptr;
}
extern "C" void __delete(void *p)
{
    if (!p)
        return;
    for (int i = 0; i < CV_SPEC_POOL; ++i) {
        if (p == (void *)cvSpecPool[i]) {
            CV_CHECK(cvSpecLive[i], "delete of a live HttpHdrRangeSpec (no double delete)");
            cvSpecLive[i] = false;
            cvSpecPool[i]->offset = nondet_cv_int64();
            cvSpecPool[i]->length = nondet_cv_int64();
            return;
        }
    }
    for (int i = 0; i < CV_LIST_POOL; ++i) {
        if (p == (void *)cvListPool[i]) {
            CV_CHECK(cvListLive[i], "delete of a live HttpHdrRange (no double delete)");
            cvListLive[i] = false;
            return;
        }
    }
    CV_CHECK(false, "delete of a pointer that new returned");
}
extern "C" int cv_live(void)
{
    int n = 0;
    for (int i = 0; i < CV_SPEC_POOL; ++i)
        n += cvSpecLive[i];
    for (int i = 0; i < CV_LIST_POOL; ++i)
        n += cvListLive[i];
    return n;
}
extern "C" int cv_spec_is_live(const void *p)
{
    for (int i = 0; i < CV_SPEC_POOL; ++i)
        if (p == (const void *)cvSpecPool[i])
            return cvSpecLive[i];
    return 0;
}
#else
extern "C" int cv_live(void) { return 0; }      /* natively ASan's leak checker does this job */
extern "C" int cv_spec_is_live(const void *) { return 1; }      /* ... and ASan's use-after-free detection this one */
#endif

/* members that the real classes declare but this unit does not slice */
void HttpHdrRangeSpec::outputInfo(char const *) const {}   /* only feeds debugs() */

/* CBMC 6.11's C++ front end does not run a user-defined destructor in a delete-expression (it does at scope exit and
 * for an explicit call): CV_DESTROY(p) makes the call explicit under CBMC and is empty for a conforming compiler */
#ifdef CV_NATIVE
#define CV_DESTROY(p) ((void)0)
#else
#define CV_DESTROY(p) ((p)->~HttpHdrRange())
#endif

#include "spec_slices.cc"
extern "C" int cv_spec_canonize(int64_t *offset, int64_t *length, int64_t clen);
#if defined(CV_SPEC_CANONIZE_CONTRACT) && !defined(CV_NATIVE)
/* HttpHdrRangeSpec::canonize replaced by the contract that hdrrange/canonize verifies for the real text (see contract.c) */
int
HttpHdrRangeSpec::canonize(int64_t clen)
{
    return cv_spec_canonize(&offset, &length, clen);
}
#else
#include "spec_canonize.cc"     /* the real HttpHdrRangeSpec::canonize */
#endif
#include "list_slices.cc"

extern "C" {
/* ASSUMED contracts, supplied by the harness (contract.c) so that the ghost state lives on the C side */
int cv_spec_parse(const char *field, int flen, int64_t *offset, int64_t *length);
int cv_next_item(const char *base, size_t len, char del, const char **item, int *ilen, const char **pos);
}

#ifdef CV_NATIVE
bool httpHeaderParseOffset(const char *start, int64_t *offPtr, char **endPtr = nullptr);
#define xisspace(x) isspace(static_cast<unsigned char>(x))
#include <cctype>
#include "native_spec_parse.inc"
#include "native_offset.inc"
#include "native_strlist.inc"
#else
/* HttpHdrRangeSpec::parseInit: its contract is VERIFIED in hdrrange/parse; here it is replaced by that contract's
 * shape: the item is rejected, or accepted with a well-formed (offset, length) -- which of the two is fixed per item
 * by the harness BEFORE the walk starts, so the list contract quantifies over the input, not over the calls made */
bool
HttpHdrRangeSpec::parseInit(const char *field, int flen)
{
    return cv_spec_parse(field, flen, &offset, &length) != 0;
}

/* strListGetItem(&str, ',', &item, &ilen, &pos) (src/StrList.cc): ASSUMED iterator model, see cv_next_item */
int
strListGetItem(const String *str, char del, const char **item, int *ilen, const char **pos)
{
    CV_CHECK(str && item && pos, "strListGetItem's own assert(str && item && pos)");
    return cv_next_item(str->termedBuf(), str->size(), del, item, ilen, pos);
}
#endif

extern "C" {
/* HttpHdrRange::ParseCreate on (buf, len); copies the parsed specs out and destroys the object again */
int w_list_parse(const char *buf, size_t len, int64_t *offs, int64_t *lens, int *count)
{
    String s(buf, len);
    HttpHdrRange *r = HttpHdrRange::ParseCreate(&s);
    if (!r)
        return 0;
    int j = 0;
    for (HttpHdrRange::iterator i = r->begin(); i != r->end(); ++i) {
        CV_CHECK(cv_spec_is_live(*i), "every member of specs points to a live HttpHdrRangeSpec");
        offs[j] = (*i)->offset;
        lens[j] = (*i)->length;
        ++j;
    }
    *count = j;
    CV_DESTROY(r);
    delete r;
    return 1;
}

/* builds a HttpHdrRange of n specs the way parseInit does (new spec, push_back) */
static HttpHdrRange *
cvBuild(int n, const int64_t *offs, const int64_t *lens)
{
    HttpHdrRange *r = new HttpHdrRange;
    for (int j = 0; j < n; ++j) {
        HttpHdrRangeSpec *s = new HttpHdrRangeSpec;
        s->offset = offs[j];
        s->length = lens[j];
        r->specs.push_back(s);
    }
    return r;
}

/* HttpHdrRange::canonize(clen) on a list of n specs; the remaining specs are copied out; isComplex() of the result */
int w_list_canonize(int n, const int64_t *offs, const int64_t *lens, int64_t clen,
                    int64_t *oOffs, int64_t *oLens, int *oCount, int *oComplex)
{
    HttpHdrRange *r = cvBuild(n, offs, lens);
    const int ret = r->canonize(clen);
    int j = 0;
    for (HttpHdrRange::iterator i = r->begin(); i != r->end(); ++i) {
        CV_CHECK(cv_spec_is_live(*i), "every member of specs points to a live HttpHdrRangeSpec");
        oOffs[j] = (*i)->offset;
        oLens[j] = (*i)->length;
        ++j;
    }
    *oCount = j;
    *oComplex = r->isComplex();
    CV_DESTROY(r);
    delete r;
    return ret;
}

/* the read-only queries on an (uncanonized) list */
void w_list_queries(int n, const int64_t *offs, const int64_t *lens, int64_t size, int64_t limit,
                    int *willBeComplex, int64_t *firstOffset, int64_t *lowestOffset, int *limitExceeded)
{
    HttpHdrRange *r = cvBuild(n, offs, lens);
    *willBeComplex = r->willBeComplex();
    *firstOffset = r->firstOffset();
    *lowestOffset = r->lowestOffset(size);
    *limitExceeded = r->offsetLimitExceeded(limit);
    CV_DESTROY(r);
    delete r;
}
}
