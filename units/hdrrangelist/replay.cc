// Native replay for the hdrrangelist unit: the same extracted real text of the HttpHdrRange list functions, compiled
// natively with ASan+UBSan over the REAL std::vector, the REAL HttpHdrRangeSpec::parseInit / canonize, the REAL
// httpHeaderParseOffset (src/HttpHeaderTools.cc) and the REAL strListGetItem (src/StrList.cc).  String is the unit's
// (pointer, length) class with the real comparison bodies.
//   mode list_canonize : n, offs[], lens[], clen, g from the counterexample; oracle = the property (canonical specs,
//                        byte g covered <=> requested, result 0 <=> nothing satisfiable); ASan checks leaks / double frees
//   mode list_parse    : the model-level item list of the counterexample (validity + stored spec per item) is turned into
//                        a header text ("bytes=" + items; an invalid item becomes "x"), parsed end to end
//   mode list_queries  : n, offs[], lens[], size, limit; oracle = no sanitizer report, lowestOffset() >= 0
// A key text=<header value> (list_parse) or specs=<o:l,o:l,...> can be given by hand instead.
// exit 0 = postconditions hold; non-zero = violated, or a sanitizer aborted.
#include "replay.h"
#include <climits>
#include <string>
#include "wrap.cc"

typedef __int128 wide;
extern "C" int cv_spec_parse(const char *, int, int64_t *, int64_t *) { return 0; }
extern "C" int cv_next_item(const char *, size_t, char, const char **, int *, const char **) { return 0; }
extern "C" int cv_spec_canonize(int64_t *, int64_t *, int64_t) { return 0; }

static long long el(const Cex &c, const char *name, int k, long long dflt = 0)
{
    char key[64];
    const char *fmts[] = { "%s[%dl]", "%s[%d]", "%s[%dll]" };
    for (const char *f : fmts) {
        snprintf(key, sizeof key, f, name, k);
        if (c.has(key)) return c.num(key, dflt);
    }
    auto v = c.arr(name);
    if ((size_t)k < v.size()) return v[k];
    return dflt;
}
static bool wf(int64_t off, int64_t len)
{
    return (off == -1 && len >= 0) || (off >= 0 && len == -1) || (off >= 0 && len >= 0 && (wide)off + len <= (wide)INT64_MAX);
}
static void requested(int64_t off, int64_t len, int64_t clen, wide *lo, wide *hi)
{
    wide l, h;
    if (off == -1) { l = (wide)clen - len; h = clen; }
    else if (len == -1) { l = off; h = clen; }
    else { l = off; h = (wide)off + len; }
    if (l < 0) l = 0;
    if (h > (wide)clen) h = clen;
    *lo = l; *hi = h;
}
static std::string specText(int64_t off, int64_t len)
{
    char b[80];
    if (off == -1) snprintf(b, sizeof b, "-%ld", (long)len);
    else if (len == -1) snprintf(b, sizeof b, "%ld-", (long)off);
    else snprintf(b, sizeof b, "%ld-%ld", (long)off, (long)(off + len - 1));
    return b;
}

int main(int argc, char **argv)
{
    if (argc < 3) return 2;
    std::string mode = argv[1];
    Cex c; if (!c.load(argv[2])) return 2;
    if (mode == "list_canonize" || mode == "list_queries") {
        int n = (int)c.num("n");
        if (n < 0 || n > 64) RP_OK("input outside the precondition");
        std::vector<int64_t> offs(n + 1), lens(n + 1), oo(n + 1), ol(n + 1);
        for (int j = 0; j < n; ++j) {
            offs[j] = el(c, "offs", j); lens[j] = el(c, "lens", j);
            if (!wf(offs[j], lens[j]) || (lens[j] == 0 && offs[j] >= 0 && mode == "list_parse")) RP_OK("input outside the precondition");
            printf("  spec %d: offset=%ld length=%ld\n", j, (long)offs[j], (long)lens[j]);
        }
        if (mode == "list_queries") {
            int wbc = 0, lim = 0; int64_t first = 0, lowest = 0;
            w_list_queries(n, offs.data(), lens.data(), c.num("size"), c.num("limit"), &wbc, &first, &lowest, &lim);
            printf("willBeComplex=%d firstOffset=%ld lowestOffset=%ld offsetLimitExceeded=%d\n", wbc, (long)first, (long)lowest, lim);
            if (lowest < 0) RP_FAIL("lowestOffset() is negative");
            RP_OK("queries ran without a sanitizer report");
        }
        int64_t clen = c.num("clen"), g = c.num("g");
        if (clen < 0) RP_OK("input outside the precondition");
        bool in_input = false, any_sat = false;
        for (int j = 0; j < n; ++j) {
            wide lo, hi; requested(offs[j], lens[j], clen, &lo, &hi);
            if (lo < hi) any_sat = true;
            if (lo <= (wide)g && (wide)g < hi) in_input = true;
        }
        int m = -1, cx = -1;
        printf("canonize(clen=%ld), ghost byte g=%ld\n", (long)clen, (long)g); fflush(stdout);
        int r = w_list_canonize(n, offs.data(), lens.data(), clen, oo.data(), ol.data(), &m, &cx);
        bool in_output = false;
        for (int j = 0; j < m; ++j) {
            printf("  canonical spec %d: [%ld, %ld)\n", j, (long)oo[j], (long)(oo[j] + ol[j]));
            if (!(ol[j] > 0 && oo[j] >= 0 && (wide)oo[j] + ol[j] <= (wide)clen)) RP_FAIL("a remaining spec is not canonical");
            if (oo[j] <= g && (wide)g < (wide)oo[j] + ol[j]) in_output = true;
        }
        if (in_output != in_input) RP_FAIL("byte %ld: covered by the canonical specs = %d, requested within the body = %d", (long)g, (int)in_output, (int)in_input);
        if ((r != 0) != any_sat) RP_FAIL("canonize returned %d but satisfiable = %d", r, (int)any_sat);
        RP_OK("list canonize contract holds on this input");
    }
    if (mode == "list_parse") {
        std::string text;
        bool expect;
        std::vector<std::pair<int64_t, int64_t>> want;
        if (c.has("text")) {
            text = c.kv["text"];
            expect = c.num("expect", 1) != 0;
        } else {
            int n = (int)c.num("nitems", c.num("n_"));
            std::string pfx;
            for (auto x : c.arr("buf")) { if (pfx.size() == 6 || x == 0) break; pfx.push_back((char)x); }
            if (c.num("blen") < 6) pfx = pfx.substr(0, (size_t)c.num("blen"));
            text = pfx;
            bool all = n >= 1;
            for (int k = 0; k < n; ++k) {
                bool v = el(c, "ivalid", k) != 0;
                int64_t o = el(c, "ioff", k), l = el(c, "ilength", k);
                if (v && !wf(o, l)) RP_OK("input outside the precondition");
                if (v && o >= 0 && l == 0) { v = false; }     /* an empty closed spec has no text form */
                if (k) text += ", ";
                text += v ? specText(o, l) : std::string("x");
                if (!v) all = false; else want.push_back({o, l});
            }
            expect = all && strncasecmp(pfx.c_str(), "bytes=", 6) == 0 && pfx.size() == 6;
        }
        printf("Range: %s   (expected: %s)\n", text.c_str(), expect ? "accepted" : "ignored"); fflush(stdout);
        int64_t oo[64], ol[64]; int count = -1;
        int r = w_list_parse(text.c_str(), text.size(), oo, ol, &count);
        printf("  ParseCreate -> %s, %d specs\n", r ? "object" : "nullptr", count);
        if ((r != 0) != expect) RP_FAIL("header %s although %s", r ? "accepted" : "rejected", expect ? "every spec is valid" : "it has an invalid spec / no spec / a wrong unit");
        if (r && !c.has("text")) {
            if ((size_t)count != want.size()) RP_FAIL("spec count differs");
            for (int k = 0; k < count; ++k)
                if (oo[k] != want[k].first || ol[k] != want[k].second) RP_FAIL("spec %d differs from the item", k);
        }
        RP_OK("list parse contract holds on this input (leaks are reported by ASan at exit)");
    }
    return 2;
}
