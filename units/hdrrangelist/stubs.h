/* Stub surroundings for the HttpHdrRange (list level) slices (trusted; listed in unit.json "trusted"). */
#ifndef HDRRANGELIST_STUBS_H
#define HDRRANGELIST_STUBS_H

#ifndef CV_CAP
#ifdef K
#define CV_CAP K            /* capacity of the stub vector = the harness bound K (wrap_defines) */
#else
#define CV_CAP 8
#endif
#endif

#ifdef CV_NATIVE
#include <cstddef>
#include <cstdint>
#include <cstdio>
#include <cstdlib>
#include <cstring>
#include <strings.h>
#include <cerrno>
#include <climits>
#include <ostream>
#include <vector>
#define CV_CHECK(c, msg) do { if (!(c)) { printf("REPLAY-FAIL: %s\n", msg); exit(1); } } while (0)
#define CV_STUB_FAIL(msg) do { printf("REPLAY-STUB: %s\n", msg); exit(3); } while (0)
#else
typedef unsigned long size_t;
typedef long ptrdiff_t;
typedef long int64_t;
typedef unsigned long uint64_t;
#define INT64_MAX 9223372036854775807L
namespace std { class ostream; }     /* Range.h's operator<< template is never instantiated here */
extern "C" {
char *strchr(const char *, int);
size_t strlen(const char *);
int strcmp(const char *, const char *);
int strncmp(const char *, const char *, size_t);
int strcasecmp(const char *, const char *);
int strncasecmp(const char *, const char *, size_t);
}
#define CV_CHECK(c, msg) __CPROVER_assert((c), msg)
#define CV_STUB_FAIL(msg) __CPROVER_assert(0, "stub: " msg)

/* Fixed-capacity model of std::vector<T> (T = HttpHdrRangeSpec * here): array + count, pointer iterators.
 * Declares what the list code could plausibly touch, not only what today's bodies call.  Exceeding the capacity or
 * misusing an empty vector is reported with the "stub:" prefix (=> undecided, never silently accepted). */
namespace std {
template <class T>
class vector
{
public:
    typedef T value_type;
    typedef T *iterator;
    typedef T const *const_iterator;
    typedef size_t size_type;
    typedef T &reference;
    typedef const T &const_reference;

    vector() : n_(0) {}
    vector(const vector &o) : n_(o.n_) { for (size_type i = 0; i < o.n_; ++i) a_[i] = o.a_[i]; }
    vector &operator=(const vector &o) { n_ = o.n_; for (size_type i = 0; i < o.n_; ++i) a_[i] = o.a_[i]; return *this; }

    iterator begin() { return &a_[0]; }
    iterator end() { return &a_[0] + n_; }
    const_iterator begin() const { return (const_iterator)&a_[0]; }   /* cast: the front end drops the const of `T const *` for pointer T */
    const_iterator end() const { return (const_iterator)&a_[0] + n_; }
    const_iterator cbegin() const { return (const_iterator)&a_[0]; }
    const_iterator cend() const { return (const_iterator)&a_[0] + n_; }

    size_type size() const { return n_; }
    size_type capacity() const { return CV_CAP; }
    bool empty() const { return n_ == 0; }
    void reserve(size_type k) { if (k > CV_CAP) CV_STUB_FAIL("vector::reserve beyond the model's capacity"); }
    void clear() { n_ = 0; }

    reference operator[](size_type i) { CV_CHECK(i < n_, "vector::operator[] index inside the vector"); return a_[i]; }
    const_reference operator[](size_type i) const { CV_CHECK(i < n_, "vector::operator[] index inside the vector"); return a_[i]; }
    reference at(size_type i) { CV_CHECK(i < n_, "vector::at index inside the vector"); return a_[i]; }
    const_reference at(size_type i) const { CV_CHECK(i < n_, "vector::at index inside the vector"); return a_[i]; }
    reference front() { CV_CHECK(n_ > 0, "vector::front on a non-empty vector"); return a_[0]; }
    const_reference front() const { CV_CHECK(n_ > 0, "vector::front on a non-empty vector"); return a_[0]; }
    reference back() { CV_CHECK(n_ > 0, "vector::back on a non-empty vector"); return a_[n_ - 1]; }
    const_reference back() const { CV_CHECK(n_ > 0, "vector::back on a non-empty vector"); return a_[n_ - 1]; }

    void push_back(const T &v)
    {
        if (n_ >= CV_CAP) {
            CV_STUB_FAIL("vector::push_back beyond the model's capacity");
            return;
        }
        a_[n_] = v;
        ++n_;
    }
    void pop_back() { CV_CHECK(n_ > 0, "vector::pop_back on a non-empty vector"); --n_; }
    iterator erase(iterator pos)
    {
        CV_CHECK(pos >= begin() && pos < end(), "vector::erase position inside the vector");
        for (iterator p = pos; p + 1 < end(); ++p)
            *p = *(p + 1);
        --n_;
        return pos;
    }
    iterator insert(iterator pos, const T &v)
    {
        CV_CHECK(pos >= begin() && pos <= end(), "vector::insert position inside the vector");
        if (n_ >= CV_CAP) {
            CV_STUB_FAIL("vector::insert beyond the model's capacity");
            return pos;
        }
        for (iterator p = end(); p > pos; --p)
            *p = *(p - 1);
        *pos = v;
        ++n_;
        return pos;
    }

    T a_[CV_CAP + 1];     /* one spare slot: end() of a full vector stays inside the array (a one-past read in an infeasible
                             unwound iteration would otherwise alias n_ and send symex to its untyped memory model) */
    size_type n_;
};
}
#endif
#define assert(c) CV_CHECK((c), "assert(" #c ")")

/* what src/HttpHdrRange.cc gets from its includes, as far as the sliced bodies touch it */
#define debugs(section, level, text) ((void)0)
#define MEMPROXY_CLASS(C) typedef int cv_memproxy_dropped_
class Packable;
class HttpReply;

/* String: (pointer, length) over a NUL-terminated buffer; the comparison family has the REAL bodies of src/String.cc */
class String
{
public:
    typedef size_t size_type;
    String() : len_(0), buf_(nullptr) {}
    String(char const *b, size_type n) : len_(n), buf_(const_cast<char *>(b)) {}
    size_type size() const { return len_; }
    char const *rawBuf() const { return buf_; }
    char const *termedBuf() const { return buf_; }
    int cmp(String const &) const;                      // REAL body (src/String.cc)
    int cmp(char const *) const;                        // REAL body
    int cmp(char const *, size_type count) const;       // REAL body
    int caseCmp(char const *) const;                    // REAL body
    int caseCmp(char const *, size_type count) const;   // REAL body; used by HttpHdrRange::parseInit
    int caseCmp(String const &str) const { return caseCmp(str.rawBuf(), str.size()); }
    size_type len_;
    char *buf_;
};

int strListGetItem(const String *str, char del, const char **item, int *ilen, const char **pos);
#endif
