// Native replay for the contentlength unit (C26), ASan+UBSan. Compiles the same run-time copy of the REAL
// src/http/ContentLengthInterpreter.cc (+ real .h) that the verifier saw, over the same stub String/CharacterSet/Config,
// but with the REAL texts of httpHeaderParseOffset (over glibc strtoll) and strListGetItem (native_deps.inc, cut from
// the tree on this run) instead of their assumed models; re-evaluates the property against an independent reference.
#include <cstdint>
#include <cerrno>
#include <cstdlib>
#include <climits>
#include <cstring>
#include <cassert>
#include <cctype>
#include <string>
#include <vector>
#define CV_NATIVE_REPLAY 1
#define xisspace(x) isspace(static_cast<unsigned char>(x))
extern "C" void cv_must_fail(void) { printf("REPLAY-FAIL: Must() condition violated\n"); exit(1); }
#include "wrap.cc"
#include "native_deps.inc"
#include "replay.h"
extern "C" const char *__asan_default_options() { return "detect_leaks=0"; }

struct St { long value; int sawBad, needsSanitizing, sawGood, problem; };
static bool ws(char c, bool relaxed) { return c == ' ' || c == '\t' || (relaxed && (c == 0x0b || c == 0x0c || c == '\r')); }
static bool delim(char c, bool relaxed) { return c == ' ' || (relaxed && (c == '\t' || c == 0x0b || c == 0x0c || c == '\r')); }
// reference reading of one token: OWS 1*DIGIT delimiters, value fits int64
static bool tokenValue(const std::string &t, bool relaxed, long &v)
{
    size_t i = 0;
    while (i < t.size() && ws(t[i], relaxed)) ++i;
    size_t d = i; unsigned __int128 x = 0;
    while (i < t.size() && t[i] >= '0' && t[i] <= '9') { if (x < ((unsigned __int128)1 << 100)) x = x * 10 + (t[i] - '0'); ++i; }
    if (i == d || x > (unsigned __int128)INT64_MAX) return false;
    for (; i < t.size(); ++i) if (!delim(t[i], relaxed)) return false;
    v = (long)x; return true;
}
static St loadState(const Cex &c)
{
    St o;
    o.value = c.num("o.value", -1); o.sawBad = c.num("o.sawBad", 0) != 0; o.needsSanitizing = c.num("o.needsSanitizing", 0) != 0;
    o.sawGood = c.num("o.sawGood", 0) != 0; o.problem = 0;
    if (o.sawGood && o.value < 0) o.value = 0;     // keep the object invariant
    return o;
}
static int checkToken(const St &o, const St &n, int r, const std::string &tok, bool relaxed)
{
    long v = -1; const bool good = tokenValue(tok, relaxed, v);
    printf("token=\"%s\" relaxed=%d old(sawGood=%d value=%ld) -> ret=%d sawBad=%d sawGood=%d value=%ld needsSanitizing=%d; reference: %s\n",
           tok.c_str(), relaxed, o.sawGood, o.value, r, n.sawBad, n.sawGood, n.value, n.needsSanitizing, good ? "good" : "bad");
    if ((r != 0) != (good && !o.sawGood)) RP_FAIL("returned %d", r);
    if (r && !(n.sawGood && !n.sawBad && n.value == v)) RP_FAIL("first good value not recorded exactly");
    if (!good && !n.sawBad) RP_FAIL("malformed token did not set sawBad");
    if (good && o.sawGood && v != o.value && !n.sawBad) RP_FAIL("conflicting values accepted");
    if (good && o.sawGood && v == o.value && (n.sawBad != !relaxed || !n.needsSanitizing)) RP_FAIL("duplicate handling differs from the relaxed/strict rule");
    if (o.sawGood && !(n.sawGood && n.value == o.value)) RP_FAIL("remembered value changed");
    if (n.sawGood && n.value < 0) RP_FAIL("invariant sawGood => value >= 0 broken");
    return 0;
}
int main(int argc, char **argv)
{
    if (argc < 3) return 2;
    const std::string mode = argv[1];
    Cex c; if (!c.load(argv[2])) return 2;
    std::string bytes = c.has("text") ? c.kv.at("text") : c.bytes("buf");
    const int relaxedRaw = (int)c.num("relaxed", 0);
    const bool relaxed = relaxedRaw != 0;
    St o = loadState(c), n = o;
    if (mode == "checkvalue") {
        size_t size = (size_t)c.num("size", (long long)bytes.size());
        if (c.has("text")) size = bytes.size();
        if (size > bytes.size()) size = bytes.size();
        o.sawBad = n.sawBad = 0;
        char *heap = (char *)malloc(bytes.size() + 1); memcpy(heap, bytes.data(), bytes.size()); heap[bytes.size()] = 0;
        if (heap[size] >= '0' && heap[size] <= '9') RP_OK("input violates the call-site precondition (digit after the token)");
        const int r = cv_checkValue(&n.value, &n.sawBad, &n.needsSanitizing, &n.sawGood, &n.problem, heap, (int)size, relaxedRaw);
        if (checkToken(o, n, r, std::string(heap, size), relaxed)) return 1;
        RP_OK("postconditions hold on this input");
    }
    if (mode == "finddigits" || mode == "goodsuffix") {
        // the REAL member functions on an exact-size heap copy of [from, to) (ASan sees any read outside the range)
        size_t from = (size_t)c.unum("from", 0), to = (size_t)c.unum("to", bytes.size());
        if (c.has("text")) { from = 0; to = bytes.size(); }
        if (to > bytes.size()) bytes.resize(to, ' ');
        Config.onoff.relaxed_header_parser = relaxedRaw;
        CvCli obj;
        if (from > to) {
            if (mode == "finddigits") RP_OK("input violates the precondition prefix <= valueEnd");
            char *h = (char *)malloc(from ? from : 1);
            const bool r = obj.cvGoodSuffix(h + from, h + to);
            printf("goodSuffix with suffix behind end -> %d\n", r);
            if (!r) RP_FAIL("goodSuffix(suffix > end) returned false");
            RP_OK("contract holds on this input");
        }
        const size_t n = to - from;
        char *heap = (char *)malloc(n ? n : 1); memcpy(heap, bytes.data() + from, n);
        if (mode == "finddigits") {
            const char *r = obj.cvFindDigits(heap, heap + n);
            size_t i = 0; while (i < n && ws(heap[i], relaxed)) ++i;
            const bool want = i < n && heap[i] >= '0' && heap[i] <= '9';
            printf("findDigits(\"%s\") relaxed=%d -> %s%ld; reference: %s%ld\n", std::string(heap, n).c_str(), relaxed,
                   r ? "offset " : "NULL ", r ? (long)(r - heap) : 0L, want ? "offset " : "NULL ", want ? (long)i : 0L);
            if (want ? r != heap + i : r != nullptr) RP_FAIL("findDigits differs from its contract");
        } else {
            const bool r = obj.cvGoodSuffix(heap, heap + n);
            bool want = true; for (size_t i = 0; i < n; ++i) if (!delim(heap[i], relaxed)) want = false;
            printf("goodSuffix(\"%s\") relaxed=%d -> %d; reference: %d\n", std::string(heap, n).c_str(), relaxed, r, want);
            if (r != want) RP_FAIL("goodSuffix differs from its contract");
        }
        RP_OK("contract holds on this input");
    }
    if (mode == "checkfield") {
        bytes = std::string(bytes.c_str());        // String: up to the first NUL
        char *heap = strdup(bytes.c_str());
        const int r = cv_checkField(&n.value, &n.sawBad, &n.needsSanitizing, &n.sawGood, &n.problem, heap, bytes.size(), relaxedRaw);
        if (o.sawBad) {
            printf("field=\"%s\" after a bad value -> ret=%d\n", bytes.c_str(), r);
            if (r || !n.sawBad || n.value != o.value || n.sawGood != o.sawGood) RP_FAIL("sawBad is not absorbing");
            RP_OK("absorbing");
        }
        if (bytes.find(',') == std::string::npos) {
            if (checkToken(o, n, r, bytes, relaxed)) return 1;
            RP_OK("postconditions hold on this input");
        }
        printf("list field=\"%s\" relaxed=%d -> ret=%d sawBad=%d sawGood=%d value=%ld\n", bytes.c_str(), relaxed, r, n.sawBad, n.sawGood, n.value);
        if (r) RP_FAIL("list field kept");
        if (!relaxed && !n.sawBad) RP_FAIL("strict parsing accepted a list-like value");
        if (o.sawGood && !(n.sawGood && n.value == o.value)) RP_FAIL("remembered value changed");
        if (!n.sawBad) {   // usable => every member is a valid decimal equal to value
            size_t a = 0;
            while (a <= bytes.size()) {
                size_t b = bytes.find(',', a); if (b == std::string::npos) b = bytes.size();
                std::string m = bytes.substr(a, b - a);
                while (!m.empty() && isspace((unsigned char)m.back())) m.pop_back();
                size_t s = 0; while (s < m.size() && strchr(" \t\r\n", m[s])) ++s;
                m = m.substr(s);
                long v;
                if (!m.empty() && (!tokenValue(m, relaxed, v) || !n.sawGood || v != n.value)) RP_FAIL("member \"%s\" is not a valid decimal equal to the accepted value", m.c_str());
                a = b + 1;
            }
        }
        RP_OK("postconditions hold on this input");
    }
    return 2;
}
