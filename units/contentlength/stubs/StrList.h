// stub StrList.h: strListGetItem is ASSUMED (model in wrap.cc): each call yields a sub-range of the string that
// contains no ',' and is followed by ',', whitespace or the terminator; at most CV_MAX_ITEMS items
#ifndef CV_STUB_STRLIST_H
#define CV_STUB_STRLIST_H
class String;
int strListGetItem(const String *str, char del, const char **item, int *ilen, const char **pos);
#endif
