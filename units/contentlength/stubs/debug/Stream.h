// stub debug/Stream.h: debugs(section, level, stream-expression) -> no-op; the message expressions have no side effects
#ifndef CV_STUB_DEBUG_STREAM_H
#define CV_STUB_DEBUG_STREAM_H
#define DBG_IMPORTANT 1
#define debugs(SECTION, LEVEL, CONTENT) ((void)0)
#endif
