// stub http/one/Parser.h: the two static accessors ContentLengthInterpreter.cc calls (definitions: wrap.cc, tables dumped by gen.py)
#ifndef CV_STUB_HTTP1_PARSER_H
#define CV_STUB_HTTP1_PARSER_H
#include "base/CharacterSet.h"
namespace Http { namespace One {
class Parser
{
public:
    static const CharacterSet &WhitespaceCharacters();
    static const CharacterSet &DelimiterCharacters();
};
} }
#endif
