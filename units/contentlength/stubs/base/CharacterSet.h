// stub base/CharacterSet.h: a 256-entry membership table with the real operator[] semantics.
// The table CONTENTS are not written here: units/contentlength/gen.py dumps them on every run from the real
// CharacterSet objects (libbase.a of the tree) and from the real text of Http::One::Parser::WhitespaceCharacters() /
// DelimiterCharacters() / RelaxedDelimiterCharacters() into <build>/charsets.inc.
// (CharacterSet::DIGIT has a base-class type because cbmc's C++ front end segfaults on a static member of the class's own type.)
#ifndef CV_STUB_CHARACTERSET_H
#define CV_STUB_CHARACTERSET_H
struct CvCharTable {
    const unsigned char *chars_;     // -> one of the 256-entry constant tables of <build>/charsets.inc
    explicit CvCharTable(const unsigned char *t): chars_(t) {}
    bool operator[](unsigned char c) const {return chars_[static_cast<uint8_t>(c)] != 0;}   // text of the real operator[]
};
class CharacterSet : public CvCharTable
{
public:
    explicit CharacterSet(const unsigned char *t): CvCharTable(t) {}
    static const CvCharTable DIGIT;
};
#endif
