// stub base/Raw.h: Raw(...) only appears inside debugs(), which is a no-op here
