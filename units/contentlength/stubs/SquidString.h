// stub SquidString.h: String as (pointer, length) over a NUL-terminated buffer; only the members used here
#ifndef CV_STUB_SQUIDSTRING_H
#define CV_STUB_SQUIDSTRING_H
class String
{
public:
    typedef size_t size_type;
    const char *buf_;
    size_type len_;
    String(const char *b, size_type n): buf_(b), len_(n) {}
    size_type size() const { return len_; }
    const char *rawBuf() const { return buf_; }
    const char *termedBuf() const { return buf_; }
    /// String.cc: String::pos(char const ch) const == strchr(termedBuf(), ch) for ch != 0
    const char *pos(char const ch) const {
        for (size_type i = 0; buf_[i] != 0; ++i)
            if (buf_[i] == ch)
                return buf_ + i;
        return nullptr;
    }
};
#endif
