// stub HttpHeaderTools.h: httpHeaderParseOffset is replaced by an ASSUMED contract (model in contract.c) -- the one
// that units/int64parse proves for the real function relative to strtoll (C27). C linkage so that the model can be C.
#ifndef CV_STUB_HTTPHEADERTOOLS_H
#define CV_STUB_HTTPHEADERTOOLS_H
#ifdef CV_NATIVE_REPLAY   /* native replay: the real function text (native_deps.inc) over glibc strtoll */
bool httpHeaderParseOffset(const char *start, int64_t *offPtr, char **endPtr = nullptr);
#else
extern "C" int cv_httpHeaderParseOffset(const char *start, int64_t *offPtr, char **endPtr);
inline bool httpHeaderParseOffset(const char *start, int64_t *offPtr, char **endPtr = nullptr)
{ return cv_httpHeaderParseOffset(start, offPtr, endPtr) != 0; }
#endif
#endif
