// stub SquidConfig.h: the one directive read here; symbolic in every harness
#ifndef CV_STUB_SQUIDCONFIG_H
#define CV_STUB_SQUIDCONFIG_H
struct CvSquidConfig { struct { int relaxed_header_parser; } onoff; };
extern CvSquidConfig Config;
#endif
