// stub squid.h for the C++ front end (-nostdinc): only what src/http/ContentLengthInterpreter.{h,cc} touch
#ifndef CV_STUB_SQUID_H
#define CV_STUB_SQUID_H
typedef long int64_t;
typedef unsigned long uint64_t;
typedef unsigned char uint8_t;
typedef unsigned long size_t;
// Must(c): the real one throws a TextException when c is false. Here: an obligation (the contract's requires makes it hold).
extern "C" void cv_must_fail(void);
#define Must(c) ((c) ? (void)0 : cv_must_fail())
#endif
