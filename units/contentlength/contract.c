/* Sidecar contracts for C26 "Content-Length is accepted only when unambiguous"
 * (real src/http/ContentLengthInterpreter.cc + .h, compiled by wrap.cc; entry points are the extern "C" wrappers there).
 *
 * Property statement: the framing length is taken from Content-Length only when every value is a valid non-negative
 * decimal and all values are equal; duplicates of an equal value are accepted only with relaxed parsing; otherwise the
 * message has bad framing, and a value that differs from the one-token decimal in the field is never used.
 * In terms of the object: the length is used iff  sawGood && !sawBad,  and then it is `value`.
 *
 * The contract is encoded harness-style (assume requires; call the REAL member through the wrapper; assert ensures). */
#include <stddef.h>
#include <stdlib.h>

#ifndef N
#define N 12            /* bytes of the field value (token plus whatever follows it up to the terminator) */
#endif
#ifndef MAXCALLS
#define MAXCALLS 4
#endif

typedef unsigned __int128 u128;

/* ---- reference character classes, written from RFC 7230 (3.2.3 OWS = SP / HTAB; 3.5: a tolerant parser MAY also
 *      accept VT, FF and bare CR as whitespace) -- NOT from the dumped tables, so a wrong table fails the contract */
static _Bool spec_digit(char c) { return c >= '0' && c <= '9'; }
static _Bool spec_ws(char c, int relaxed)
{ return c == ' ' || c == '\t' || (relaxed && (c == 0x0b || c == 0x0c || c == '\r')); }
static _Bool spec_delim(char c, int relaxed)      /* what may follow the number inside the token */
{ return c == ' ' || (relaxed && (c == '\t' || c == 0x0b || c == 0x0c || c == '\r')); }

#ifndef CV_NATIVE
int cv_checkValue(long *value, int *sawBad, int *needsSanitizing, int *sawGood, int *problem, const char *raw, int size, int relaxed);
int cv_checkField(long *value, int *sawBad, int *needsSanitizing, int *sawGood, int *problem, const char *raw, unsigned long len, int relaxed);
void cv_fresh(long *value, int *sawBad, int *needsSanitizing, int *sawGood, int relaxed);

unsigned long cv_nondet_ulong(void) { unsigned long x; return x; }
int cv_nondet_int(void) { int x; return x; }
int cv_max_items = MAXCALLS;
int cv_items_seen;
int cv_list_done;          /* ghost set by the strListGetItem model when it reports the end of the list */
void cv_must_fail(void) { __CPROVER_assert(0, "Must() condition holds (checkValue/checkList are only entered with !sawBad)"); }

/* ---- ASSUMED contract of httpHeaderParseOffset(start, &v, &end): exactly the postcondition that units/int64parse
 *      proves for the real function relative to strtoll (C27, target offset): skip isspace, optional sign, maximal
 *      decimal digit run; true iff >= 1 digit and the exact value fits int64; then v = exact value, end = just past the
 *      digits; outputs untouched on failure. Each call is logged in ghosts so that the postconditions can refer to
 *      "the number that was parsed where". */
int g_calls;
const char *g_start[MAXCALLS];
_Bool g_ok[MAXCALLS];
long g_v[MAXCALLS];
const char *g_end[MAXCALLS];

int cv_httpHeaderParseOffset(const char *start, long *offPtr, char **endPtr)
{
    size_t i = 0;
    for (size_t k = 0; k < N; k++)
        if (i == k && (start[i] == ' ' || (start[i] >= 9 && start[i] <= 13))) i = k + 1;
    _Bool neg = 0;
    if (start[i] == '-') { neg = 1; i++; } else if (start[i] == '+') i++;
    const size_t d0 = i;
    unsigned long w = 0;                       /* min(exact value, 2^64-1), see units/int64parse/contract.c */
    for (size_t k = 0; k < N; k++)
        if (i == d0 + k && start[i] >= '0' && start[i] <= '9') {
            u128 t = (u128)w * 10 + (unsigned)(start[i] - '0');
            w = t > (u128)0xffffffffffffffffUL ? 0xffffffffffffffffUL : (unsigned long)t;
            i++;
        }
    const unsigned long lim = neg ? (1UL << 63) : (1UL << 63) - 1;
    const _Bool ok = i > d0 && w <= lim;
    const long v = neg ? (long)(0 - w) : (long)w;
    __CPROVER_assert(g_calls < MAXCALLS, "model: no more than MAXCALLS numbers are parsed");
    g_start[g_calls] = start; g_ok[g_calls] = ok; g_v[g_calls] = ok ? v : 0; g_end[g_calls] = start + i;
    g_calls++;
    if (!ok) return 0;
    *offPtr = v;
    if (endPtr) *endPtr = (char *)start + i;
    return 1;
}

/* object state + its invariant */
struct st { long value; int sawBad, needsSanitizing, sawGood, problem; };
static _Bool st_inv(const struct st *s) { return !s->sawGood || s->value >= 0; }   /* sawGood => value >= 0 */

/* a NUL-terminated field value of exactly `total` bytes (bytes arbitrary, embedded NULs included) in an exact-size block */
static char *make_value(size_t *totalp)
{
    size_t total;
    __CPROVER_assume(total <= N);
    char *buf = malloc(total + 1);
    __CPROVER_assume(buf != NULL);
    buf[total] = 0;
    *totalp = total;
    return buf;
}

/* ---- postconditions of checkValue(raw, size) as a transition of (value, sawBad, needsSanitizing, sawGood) ----
 * `call` = index of the parse-log entry this token must have produced (if it got that far) */
static void post_checkvalue(const struct st *o, const struct st *n, int r, const char *raw, int size, int relaxed, int call)
{
    /* reference reading of the token: OWS, then a digit */
    int i0 = -1;
    for (int k = 0; k < N; k++)
        if (i0 < 0 && k < size && !spec_ws(raw[k], relaxed)) i0 = k;
    const _Bool prefix_ok = i0 >= 0 && spec_digit(raw[i0]);
    _Bool good = 0;
    long v = -1;
    if (prefix_ok) {
        __CPROVER_assert(g_calls == call + 1, "ensures: a digit-led token is handed to httpHeaderParseOffset exactly once");
        __CPROVER_assert(g_start[call] == raw + i0, "ensures: the number is parsed from the first byte after the leading whitespace");
        v = g_v[call];
        _Bool suffix_ok = 1;
        const long e = g_end[call] - raw;
        __CPROVER_assert(!g_ok[call] || (e > i0 && e <= size), "lemma: the number ends inside the token (the byte after the token is not a digit)");
        for (int k = 0; k < N; k++)
            if (k >= e && k < size && !spec_delim(raw[k], relaxed)) suffix_ok = 0;
        good = g_ok[call] && v >= 0 && suffix_ok;
    } else {
        __CPROVER_assert(g_calls == call, "ensures: a token that does not start (after OWS) with a digit is never parsed as a number");
    }
    /* 1. first good value */
#ifdef TWIN_FIRST
    __CPROVER_assert(!(r != 0) || n->value != v, "ensures: TWIN (negated) accepted value");
#else
    __CPROVER_assert((r != 0) == (good && !o->sawGood), "ensures: returns true exactly for the first well-formed non-negative decimal token");
    __CPROVER_assert(!(r != 0) || (n->sawGood && !n->sawBad && n->value == v && n->value >= 0 && n->needsSanitizing == o->needsSanitizing),
                     "ensures: first good value: sawGood, !sawBad, value == the token's decimal number");
#endif
    /* 2. anything else than `OWS 1*DIGIT delimiters` (empty, sign, garbage before or after, too large) => bad framing */
    __CPROVER_assert(good || (n->sawBad && r == 0), "ensures: negative / non-digit-led / trailing-garbage / out-of-range token => sawBad");
    /* 3. second and later good values */
    __CPROVER_assert(!(good && o->sawGood && v != o->value) || (n->sawBad && n->needsSanitizing && r == 0 && n->problem == 'C'),
                     "ensures: conflicting values => sawBad");
#ifdef TWIN_DUP
    __CPROVER_assert(!(good && o->sawGood && v == o->value) || n->sawBad, "ensures: TWIN: duplicates always bad");
#else
    __CPROVER_assert(!(good && o->sawGood && v == o->value) || (n->sawBad == (relaxed == 0) && n->needsSanitizing && r == 0),
                     "ensures: identical repeat => accepted only with relaxed parsing (sawBad == !relaxed), needsSanitizing");
#endif
    /* 4. the remembered value never changes once set; sawGood is monotone; the invariant is preserved */
    __CPROVER_assert(!o->sawGood || (n->sawGood && n->value == o->value), "ensures: value never changes once set");
    __CPROVER_assert(n->sawGood || n->value == o->value, "ensures: value is written only together with sawGood");
    __CPROVER_assert(st_inv(n), "ensures: invariant sawGood => value >= 0 preserved");
    __CPROVER_assert(!(n->sawGood && !n->sawBad) || (good && n->value == v), "ensures: a usable length is the decimal number of this token");
}

#if defined(T_CHECKVALUE)
void h_checkvalue(void)
{
    size_t total;
    char *buf = make_value(&total);
    int size;
    __CPROVER_assume(size >= 0 && (size_t)size <= total);
    /* call-site fact (checkField passes the whole NUL-terminated value; strListGetItem cuts items at ',' / NUL and
     * right-trims whitespace): the byte after the token is not a digit */
    __CPROVER_assume(!spec_digit(buf[size]));
    int relaxed;
    __CPROVER_assume(relaxed == -1 || relaxed == 0 || relaxed == 1);
    struct st o;
    __CPROVER_assume(o.sawBad == 0);                                   /* requires: Must(!sawBad) */
    __CPROVER_assume((o.needsSanitizing == 0 || o.needsSanitizing == 1) && (o.sawGood == 0 || o.sawGood == 1));
    __CPROVER_assume(st_inv(&o));                                      /* requires: object invariant */
    struct st n = o;
    g_calls = 0;
    int r = cv_checkValue(&n.value, &n.sawBad, &n.needsSanitizing, &n.sawGood, &n.problem, buf, size, relaxed);
    post_checkvalue(&o, &n, r, buf, size, relaxed, 0);
#ifdef REACH
    __CPROVER_assert(!(r != 0 && n.value > 99999 && size == (int)total), "reach: first good value, several digits, token is the whole value");
    __CPROVER_assert(!(r != 0 && buf[0] == ' ' && buf[size - 1] == ' '), "reach: good value with leading and trailing space");
    __CPROVER_assert(!(r != 0 && relaxed != 0 && buf[0] == '\r'), "reach: relaxed: leading CR accepted");
    __CPROVER_assert(!(r == 0 && n.sawBad && o.sawGood && n.problem == 'C'), "reach: conflicting");
    __CPROVER_assert(!(r == 0 && !n.sawBad && o.sawGood), "reach: duplicate tolerated (relaxed)");
    __CPROVER_assert(!(r == 0 && n.sawBad && o.sawGood && n.problem == 'D'), "reach: duplicate rejected (strict)");
    __CPROVER_assert(!(n.sawBad && g_calls == 1 && !g_ok[0]), "reach: number out of range");
    __CPROVER_assert(!(n.sawBad && g_calls == 1 && g_ok[0]  && !o.sawGood), "reach: trailing garbage");
    __CPROVER_assert(!(n.sawBad && g_calls == 0 && size == 0), "reach: empty token");
    __CPROVER_assert(!(n.sawBad && g_calls == 0 && buf[0] == '-'), "reach: sign-led token");
#endif
}
#endif

#if defined(T_FRESH)
/* base case of the object invariant: the real constructor */
void h_fresh(void)
{
    struct st n; int relaxed;
    cv_fresh(&n.value, &n.sawBad, &n.needsSanitizing, &n.sawGood, relaxed);
    __CPROVER_assert(!n.sawBad && !n.sawGood && !n.needsSanitizing && n.value == -1, "ensures: constructed state: nothing seen, value -1");
    __CPROVER_assert(st_inv(&n), "ensures: invariant holds initially");
}
#endif

#if defined(T_CHECKFIELD)
void h_checkfield(void)
{
    size_t total;
    char *buf = make_value(&total);
    size_t len = total;                           /* String: size() == distance to the terminator's slot; bytes arbitrary */
    int relaxed;
    __CPROVER_assume(relaxed == -1 || relaxed == 0 || relaxed == 1);
    struct st o;
    __CPROVER_assume((o.sawBad == 0 || o.sawBad == 1) && (o.needsSanitizing == 0 || o.needsSanitizing == 1) && (o.sawGood == 0 || o.sawGood == 1));
    __CPROVER_assume(st_inv(&o));
    struct st n = o;
    g_calls = 0; cv_items_seen = 0; cv_list_done = 0;
    /* reference: is there a comma before the first NUL? (String::pos(',') is strchr on the terminated buffer) */
    _Bool comma = 0, ended = 0;
    for (size_t k = 0; k < N; k++) {
        if (k < len && !ended && buf[k] == 0) ended = 1;
        if (k < len && !ended && buf[k] == ',') comma = 1;
    }
#if FIELD_CASE == 1
    __CPROVER_assume(o.sawBad || !comma);         /* domain split: absorbing state + single-token fields */
    cv_max_items = 0;                             /* the list path is not in this domain: no items (keeps the formula small) */
#elif FIELD_CASE == 2
    __CPROVER_assume(!o.sawBad && comma);         /* domain split: list-like fields */
#endif
    int r = cv_checkField(&n.value, &n.sawBad, &n.needsSanitizing, &n.sawGood, &n.problem, buf, len, relaxed);
    __CPROVER_assert(st_inv(&n), "ensures: invariant sawGood => value >= 0 preserved");
    __CPROVER_assert(!o.sawGood || (n.sawGood && n.value == o.value), "ensures: value never changes once set");
    __CPROVER_assert(!o.sawBad || n.sawBad, "ensures: sawBad is absorbing");
    if (o.sawBad) {
#ifdef TWIN_ABSORB
        __CPROVER_assert(n.value != o.value, "ensures: TWIN absorbing");
#else
        __CPROVER_assert(r == 0 && g_calls == 0 && n.value == o.value && n.sawGood == o.sawGood && n.needsSanitizing == o.needsSanitizing,
                         "ensures: after a bad value nothing is parsed or changed, the field is not kept");
#endif
    } else if (!comma) {
        post_checkvalue(&o, &n, r, buf, (int)len, relaxed, 0);
    } else if (relaxed == 0) {
        __CPROVER_assert(n.sawBad && r == 0 && g_calls == 0, "ensures: strict parsing: a list-like value => sawBad");
    } else {
        /* relaxed list: every item goes through checkValue until one is bad */
        __CPROVER_assert(r == 0 && n.needsSanitizing, "ensures: a list field is never kept as is; needsSanitizing");
        for (int j = 0; j < MAXCALLS; j++) {
#ifdef TWIN_LIST
            __CPROVER_assert(!(j < g_calls && !n.sawBad) || g_v[j] != n.value, "ensures: TWIN list values");
#else
            __CPROVER_assert(!(j < g_calls && !n.sawBad) || (g_ok[j] && g_v[j] >= 0 && n.sawGood && g_v[j] == n.value),
                             "ensures: length usable (!sawBad) => every parsed list member is a valid non-negative decimal equal to value");
#endif
        }
        __CPROVER_assert(!(g_calls >= 1 && !n.sawBad) || n.sawGood, "ensures: a parsed member and !sawBad => sawGood");
        /* "accepted only when unambiguous": a usable length means EVERY member was looked at, i.e. the walk reached the end
         * of the list (a walk that stops early, e.g. after a tolerated duplicate, leaves later members unexamined) */
        __CPROVER_assert(n.sawBad || cv_list_done, "ensures: length usable (!sawBad) => the whole list was examined, up to its end");
    }
#ifdef REACH
#if FIELD_CASE == 1
    __CPROVER_assert(!(o.sawBad && comma), "reach: field ignored after a bad one");
    __CPROVER_assert(!(r != 0 && n.value == 42 && len == 2), "reach: single good value kept");
    __CPROVER_assert(!(!o.sawBad && n.sawBad && !comma), "reach: single bad value");
#else
    __CPROVER_assert(!(relaxed == 0 && n.sawBad), "reach: strict list rejected");
    __CPROVER_assert(!(relaxed != 0 && !n.sawBad && g_calls == 2 && !o.sawGood), "reach: relaxed list of two equal values tolerated");
    __CPROVER_assert(!(relaxed != 0 && n.sawBad && g_calls == 2 && g_ok[0] && g_ok[1] && n.problem == 'C'), "reach: relaxed list with conflicting values");
    __CPROVER_assert(!(relaxed != 0 && !n.sawBad && g_calls == 0), "reach: relaxed list without items");
#endif
#endif
}
#endif
#endif /* CV_NATIVE */
