/* Sidecar contracts for C26 "Content-Length is accepted only when unambiguous"
 * (real src/http/ContentLengthInterpreter.cc + .h, compiled by wrap.cc; entry points are the extern "C" wrappers there).
 *
 * Property statement: the framing length is taken from Content-Length only when every value is a valid non-negative
 * decimal and all values are equal; duplicates of an equal value are accepted only with relaxed parsing; otherwise the
 * message has bad framing, and a value that differs from the one-token decimal in the field is never used.
 * In terms of the object: the length is used iff  sawGood && !sawBad,  and then it is `value`.
 *
 * The contract is encoded harness-style (assume requires; call the REAL member through the wrapper; assert ensures). */
#include <stddef.h>
#include <stdlib.h>

#ifndef N
#define N 12            /* bytes of the field value (token plus whatever follows it up to the terminator) */
#endif
#ifndef MAXCALLS
#define MAXCALLS 4
#endif

typedef unsigned __int128 u128;

/* ---- reference character classes, written from RFC 7230 (3.2.3 OWS = SP / HTAB; 3.5: a tolerant parser MAY also
 *      accept VT, FF and bare CR as whitespace) -- NOT from the dumped tables, so a wrong table fails the contract */
static _Bool spec_digit(char c) { return c >= '0' && c <= '9'; }
static _Bool spec_ws(char c, int relaxed)
{ return c == ' ' || c == '\t' || (relaxed && (c == 0x0b || c == 0x0c || c == '\r')); }
static _Bool spec_delim(char c, int relaxed)      /* what may follow the number inside the token */
{ return c == ' ' || (relaxed && (c == '\t' || c == 0x0b || c == 0x0c || c == '\r')); }

#ifndef CV_NATIVE
int cv_checkValue(long *value, int *sawBad, int *needsSanitizing, int *sawGood, int *problem, const char *raw, int size, int relaxed);
int cv_checkField(long *value, int *sawBad, int *needsSanitizing, int *sawGood, int *problem, const char *raw, unsigned long len, int relaxed);
void cv_fresh(long *value, int *sawBad, int *needsSanitizing, int *sawGood, int relaxed);

unsigned long cv_nondet_ulong(void) { unsigned long x; return x; }
int cv_nondet_int(void) { int x; return x; }
int cv_max_items = MAXCALLS;
int cv_items_seen;
int cv_list_done;          /* ghost set by the strListGetItem model when it reports the end of the list */
void cv_must_fail(void) { __CPROVER_assert(0, "Must() condition holds (checkValue/checkList are only entered with !sawBad)"); }

/* ---- ASSUMED contract of httpHeaderParseOffset(start, &v, &end): exactly the postcondition that units/int64parse
 *      proves for the real function relative to strtoll (C27, target offset): skip isspace, optional sign, maximal
 *      decimal digit run; true iff >= 1 digit and the exact value fits int64; then v = exact value, end = just past the
 *      digits; outputs untouched on failure. Each call is logged in ghosts so that the postconditions can refer to
 *      "the number that was parsed where". */
#if defined(CV_ABS_MODELS) && !defined(T_MODELS_AGREE)
#define CV_ABS_NAME cv_httpHeaderParseOffset
#define CV_REL_NAME cv_httpHeaderParseOffset_rel        /* unused in these targets */
#elif defined(T_MODELS_AGREE)
#define CV_ABS_NAME cv_httpHeaderParseOffset_abs
#define CV_REL_NAME cv_httpHeaderParseOffset
#else
#define CV_REL_NAME cv_httpHeaderParseOffset
#endif
int g_calls;
const char *g_start[MAXCALLS];
_Bool g_ok[MAXCALLS];
long g_v[MAXCALLS];
const char *g_end[MAXCALLS];

/* ---- context of the contract-based targets: the one field-value buffer of the harness. The contract models below are written
 *      over ABSOLUTE (constant) positions of this buffer, so that the specification loops read constant indices and the
 *      formula stays linear in N; every model asserts ("model:") that its pointers do lie in this buffer. */
const char *cv_buf;        /* base of the buffer */
size_t cv_total;           /* its bytes [0, cv_total) are arbitrary, cv_buf[cv_total] == 0 is the terminator (last byte of the block) */

#ifdef CV_ABS_MODELS
/* The SAME assumed contract of httpHeaderParseOffset as below (skip isspace, optional sign, maximal decimal digit run; true iff
 * >= 1 digit and the exact value fits int64; v exact; end just past the digits), evaluated in one pass over the constant
 * positions of cv_buf instead of symbolic ones, with a saturating 64-bit accumulator (w = min(exact value, 2^64-1)) instead of
 * 128-bit products. Target models_agree checks that the two formulations give identical results. */
int CV_ABS_NAME(const char *start, long *offPtr, char **endPtr)
{
    __CPROVER_assert(__CPROVER_same_object(start, cv_buf) && start >= cv_buf && (size_t)(start - cv_buf) <= cv_total,
                     "model: httpHeaderParseOffset model: the string starts inside the harness buffer");
    const size_t o = (size_t)(start - cv_buf);
    int ph = 0;                                  /* 0 skipping isspace, 1 at the optional sign, 2 in the digits, 3 done */
    _Bool neg = 0;
    size_t nd = 0, e = o;
    unsigned long w = 0;
    for (size_t k = 0; k <= N; k++)
        if (ph < 3 && k >= o && k <= cv_total) {
            const char c = cv_buf[k];
            _Bool consumed = 0;
            if (ph == 0) { if (c == ' ' || (c >= 9 && c <= 13)) consumed = 1; else ph = 1; }
            if (ph == 1 && !consumed) { ph = 2; if (c == '-') { neg = 1; consumed = 1; } else if (c == '+') consumed = 1; }
            if (ph == 2 && !consumed) {
                if (c >= '0' && c <= '9') {
                    const unsigned d = (unsigned)(c - '0');
                    /* w*10 + d > 2^64-1  <=>  w > 1844674407370955161 or (w == 1844674407370955161 and d > 5) */
                    if (w > 1844674407370955161UL || (w == 1844674407370955161UL && d > 5)) w = 0xffffffffffffffffUL;
                    else w = w * 10 + d;
                    nd++;
                } else { ph = 3; e = k; }        /* the terminator cv_buf[cv_total] == 0 stops the run at the latest */
            }
        }
    __CPROVER_assert(ph == 3, "model: httpHeaderParseOffset model: the string is terminated inside the harness buffer");
    const unsigned long lim = neg ? (1UL << 63) : (1UL << 63) - 1;
    const _Bool ok = nd > 0 && w <= lim;
    const long v = neg ? (long)(0 - w) : (long)w;
    __CPROVER_assert(g_calls < MAXCALLS, "model: no more than MAXCALLS numbers are parsed");
    g_start[g_calls] = start; g_ok[g_calls] = ok; g_v[g_calls] = ok ? v : 0; g_end[g_calls] = cv_buf + e;
    g_calls++;
    if (!ok) return 0;
    *offPtr = v;
    if (endPtr) *endPtr = (char *)cv_buf + e;
    return 1;
}
#endif

int CV_REL_NAME(const char *start, long *offPtr, char **endPtr)
{
    size_t i = 0;
    for (size_t k = 0; k < N; k++)
        if (i == k && (start[i] == ' ' || (start[i] >= 9 && start[i] <= 13))) i = k + 1;
    _Bool neg = 0;
    if (start[i] == '-') { neg = 1; i++; } else if (start[i] == '+') i++;
    const size_t d0 = i;
    unsigned long w = 0;                       /* min(exact value, 2^64-1), see units/int64parse/contract.c */
    for (size_t k = 0; k < N; k++)
        if (i == d0 + k && start[i] >= '0' && start[i] <= '9') {
            u128 t = (u128)w * 10 + (unsigned)(start[i] - '0');
            w = t > (u128)0xffffffffffffffffUL ? 0xffffffffffffffffUL : (unsigned long)t;
            i++;
        }
    const unsigned long lim = neg ? (1UL << 63) : (1UL << 63) - 1;
    const _Bool ok = i > d0 && w <= lim;
    const long v = neg ? (long)(0 - w) : (long)w;
    __CPROVER_assert(g_calls < MAXCALLS, "model: no more than MAXCALLS numbers are parsed");
    g_start[g_calls] = start; g_ok[g_calls] = ok; g_v[g_calls] = ok ? v : 0; g_end[g_calls] = start + i;
    g_calls++;
    if (!ok) return 0;
    *offPtr = v;
    if (endPtr) *endPtr = (char *)start + i;
    return 1;
}

/* object state + its invariant */
struct st { long value; int sawBad, needsSanitizing, sawGood, problem; };
static _Bool st_inv(const struct st *s) { return !s->sawGood || s->value >= 0; }   /* sawGood => value >= 0 */

/* a NUL-terminated field value of exactly `total` bytes (bytes arbitrary, embedded NULs included) in an exact-size block */
static char *make_value(size_t *totalp)
{
    size_t total;
    __CPROVER_assume(total <= N);
    char *buf = malloc(total + 1);
    __CPROVER_assume(buf != NULL);
    buf[total] = 0;
    *totalp = total;
    cv_buf = buf; cv_total = total;              /* context of the absolute-index contract models */
    return buf;
}

static long spec_findDigits(size_t from, size_t to, int relaxed);
static _Bool spec_goodSuffix(size_t from, size_t to, int relaxed);

/* ---- postconditions of checkValue(raw, size) as a transition of (value, sawBad, needsSanitizing, sawGood) ----
 * `call` = index of the parse-log entry this token must have produced (if it got that far) */
static void post_checkvalue(const struct st *o, const struct st *n, int r, const char *raw, int size, int relaxed, int call)
{
    /* reference reading of the token: OWS, then a digit */
#ifdef CV_SLICED
    /* contract-based target: the same reading, phrased with the specification function that is also findDigits' contract
     * (raw == cv_buf here); the bounded targets keep the independent phrasing below on the real code end to end */
    __CPROVER_assert(raw == cv_buf, "model: the token starts the harness buffer");
    const int i0 = (int)spec_findDigits(0, (size_t)size, relaxed);
    const _Bool prefix_ok = i0 >= 0;
#else
    int i0 = -1;
    for (int k = 0; k < N; k++)
        if (i0 < 0 && k < size && !spec_ws(raw[k], relaxed)) i0 = k;
    const _Bool prefix_ok = i0 >= 0 && spec_digit(raw[i0]);
#endif
    _Bool good = 0;
    long v = -1;
    if (prefix_ok) {
        __CPROVER_assert(g_calls == call + 1, "ensures: a digit-led token is handed to httpHeaderParseOffset exactly once");
        __CPROVER_assert(g_start[call] == raw + i0, "ensures: the number is parsed from the first byte after the leading whitespace");
        v = g_v[call];
        _Bool suffix_ok = 1;
        const long e = g_end[call] - raw;
        __CPROVER_assert(!g_ok[call] || (e > i0 && e <= size), "lemma: the number ends inside the token (the byte after the token is not a digit)");
#ifdef CV_SLICED
        suffix_ok = spec_goodSuffix((size_t)e, (size_t)size, relaxed);    /* = goodSuffix' contract; e >= 0 */
#else
        for (int k = 0; k < N; k++)
            if (k >= e && k < size && !spec_delim(raw[k], relaxed)) suffix_ok = 0;
#endif
        good = g_ok[call] && v >= 0 && suffix_ok;
    } else {
        __CPROVER_assert(g_calls == call, "ensures: a token that does not start (after OWS) with a digit is never parsed as a number");
    }
    /* 1. first good value */
#ifdef TWIN_FIRST
    __CPROVER_assert(!(r != 0) || n->value != v, "ensures: TWIN (negated) accepted value");
#else
    __CPROVER_assert((r != 0) == (good && !o->sawGood), "ensures: returns true exactly for the first well-formed non-negative decimal token");
    __CPROVER_assert(!(r != 0) || (n->sawGood && !n->sawBad && n->value == v && n->value >= 0 && n->needsSanitizing == o->needsSanitizing),
                     "ensures: first good value: sawGood, !sawBad, value == the token's decimal number");
#endif
    /* 2. anything else than `OWS 1*DIGIT delimiters` (empty, sign, garbage before or after, too large) => bad framing */
    __CPROVER_assert(good || (n->sawBad && r == 0), "ensures: negative / non-digit-led / trailing-garbage / out-of-range token => sawBad");
    /* 3. second and later good values */
    __CPROVER_assert(!(good && o->sawGood && v != o->value) || (n->sawBad && n->needsSanitizing && r == 0 && n->problem == 'C'),
                     "ensures: conflicting values => sawBad");
#ifdef TWIN_DUP
    __CPROVER_assert(!(good && o->sawGood && v == o->value) || n->sawBad, "ensures: TWIN: duplicates always bad");
#else
    __CPROVER_assert(!(good && o->sawGood && v == o->value) || (n->sawBad == (relaxed == 0) && n->needsSanitizing && r == 0),
                     "ensures: identical repeat => accepted only with relaxed parsing (sawBad == !relaxed), needsSanitizing");
#endif
    /* 4. the remembered value never changes once set; sawGood is monotone; the invariant is preserved */
    __CPROVER_assert(!o->sawGood || (n->sawGood && n->value == o->value), "ensures: value never changes once set");
    __CPROVER_assert(n->sawGood || n->value == o->value, "ensures: value is written only together with sawGood");
    __CPROVER_assert(st_inv(n), "ensures: invariant sawGood => value >= 0 preserved");
    __CPROVER_assert(!(n->sawGood && !n->sawBad) || (good && n->value == v), "ensures: a usable length is the decimal number of this token");
}

/* ==== CONTRACTS of findDigits(prefix, valueEnd) and goodSuffix(suffix, end) =========================================
 * Written as specification functions over the byte range [from, to) of the harness buffer cv_buf (prefix = cv_buf + from,
 * valueEnd = cv_buf + to), with the RFC 7230 classes above.  They are used twice:
 *   - targets finddigits_proof / goodsuffix_proof VERIFY the real body texts (cut from the repo on every run into C-linkage
 *     functions, loops closed by loop invariants, no unwinding) against them, for every range of up to N bytes;
 *   - target checkvalue_contracts verifies the real checkValue with the two calls REPLACED by these same contracts
 *     (cv_contract_*: assert the requires, return what the specification function says).
 * requires (both): the two pointers point into / one past the same object, and the bytes between them are readable.
 * findDigits ensures: result = the first byte of [prefix, valueEnd) that is not OWS, provided it is a digit; NULL if there is no
 *   such byte or it is not a digit.   goodSuffix ensures: result <=> every byte of [suffix, end) is a delimiter (true for an
 *   empty range and for suffix > end: the loop does not run).  Neither writes memory (harness mode: no frame check; the
 *   bodies contain no store through a pointer -- see not_covered). */
static long spec_findDigits(size_t from, size_t to, int relaxed)     /* position in cv_buf, or -1 for NULL */
{
    long r = -1;
    _Bool stop = 0;
    for (size_t k = 0; k < N; k++)
        if (!stop && k >= from && k < to) {
            if (spec_digit(cv_buf[k])) { r = (long)k; stop = 1; }
            else if (!spec_ws(cv_buf[k], relaxed)) stop = 1;
        }
    return r;
}
static _Bool spec_goodSuffix(size_t from, size_t to, int relaxed)
{
    _Bool ok = 1;
    for (size_t k = 0; k < N; k++)
        if (k >= from && k < to && !spec_delim(cv_buf[k], relaxed)) ok = 0;
    return ok;
}

#ifdef CV_SLICED
const char *cv_findDigits(const char *prefix, const char *valueEnd, int relaxed);   /* wrap.cc: sets Config, runs the body text */
int cv_goodSuffix(const char *suffix, const char *end, int relaxed);
/* ghosts named by the loop invariants (loops.json) */
size_t cv_from, cv_to;
int cv_relaxed;

/* the contracts as call models (used by checkvalue_contracts through the member definitions in wrap.cc) */
int g_fd_calls, g_gs_calls;                 /* how often each contract was used */
const char *cv_contract_findDigits(const char *prefix, const char *valueEnd, int relaxed)
{
    __CPROVER_assert(__CPROVER_same_object(prefix, cv_buf) && __CPROVER_same_object(valueEnd, cv_buf) && prefix >= cv_buf,
                     "model: findDigits contract model: the range lies in the harness buffer");
    __CPROVER_assert(prefix <= valueEnd && __CPROVER_r_ok(prefix, (size_t)(valueEnd - prefix)),
                     "requires (findDigits contract, at the call site): prefix <= valueEnd and [prefix, valueEnd) is readable");
    g_fd_calls++;
    const long r = spec_findDigits((size_t)(prefix - cv_buf), (size_t)(valueEnd - cv_buf), relaxed);
    return r < 0 ? (const char *)0 : cv_buf + r;
}
int cv_contract_goodSuffix(const char *suffix, const char *end, int relaxed)
{
    __CPROVER_assert(__CPROVER_same_object(suffix, cv_buf) && __CPROVER_same_object(end, cv_buf) && suffix >= cv_buf && end >= cv_buf,
                     "model: goodSuffix contract model: the range lies in the harness buffer");
    __CPROVER_assert(suffix > end || __CPROVER_r_ok(suffix, (size_t)(end - suffix)),
                     "requires (goodSuffix contract, at the call site): [suffix, end) is readable");
    g_gs_calls++;
    return spec_goodSuffix((size_t)(suffix - cv_buf), (size_t)(end - cv_buf), relaxed);
}
#endif

#if defined(T_FINDDIGITS)
/* findDigits' body text against its contract: every range [from, to) with to <= N inside a block of EXACTLY `to` bytes (so a
 * read at or behind valueEnd is an out-of-bounds read); no terminator is needed or present */
void h_finddigits(void)
{
    size_t from, to;
    int relaxed;
    __CPROVER_assume(from <= to && to <= N);
    __CPROVER_assume(relaxed == -1 || relaxed == 0 || relaxed == 1);
    char *buf = malloc(to);
    __CPROVER_assume(buf != NULL);
    cv_buf = buf; cv_total = to; cv_from = from; cv_to = to; cv_relaxed = relaxed;
    const char *r = cv_findDigits(buf + from, buf + to, relaxed);
    const long want = spec_findDigits(from, to, relaxed);
#ifdef TWIN_FD
    __CPROVER_assert(!(want >= 0) || r != buf + want, "ensures: TWIN (negated) findDigits result");
#else
    __CPROVER_assert(want >= 0 ? r == buf + want : r == NULL,
                     "ensures: findDigits returns the first non-OWS byte of [prefix, valueEnd) if it is a digit, else NULL");
#endif
    __CPROVER_assert(r == NULL || (r >= buf + from && r < buf + to && spec_digit(*r)), "ensures: a non-NULL result points at a digit inside the range");
#ifdef REACH
    __CPROVER_assert(!(r != NULL && r == buf + from + 3), "reach: three OWS bytes, then a digit");
    __CPROVER_assert(!(r != NULL && relaxed != 0 && buf[from] == '\r'), "reach: relaxed: CR skipped");
    __CPROVER_assert(!(r == NULL && to - from >= 3 && want < 0 && spec_ws(buf[to - 1], relaxed) && spec_ws(buf[from], relaxed)), "reach: NULL (whitespace only or garbage after whitespace)");
    __CPROVER_assert(!(r == NULL && relaxed == 0 && buf[from] == '\r'), "reach: strict: CR is garbage");
    __CPROVER_assert(!(r == NULL && from == to), "reach: empty range");
    __CPROVER_assert(!(r != NULL && to == N && r == buf + N - 1), "reach: digit in the last byte of a maximal range");
#endif
}
#endif

#if defined(T_GOODSUFFIX)
void h_goodsuffix(void)
{
    size_t from, to;
    int relaxed;
    __CPROVER_assume(from <= N && to <= N);
    __CPROVER_assume(relaxed == -1 || relaxed == 0 || relaxed == 1);
    const size_t size = from > to ? from : to;      /* block of exactly max(from, to) bytes */
    char *buf = malloc(size);
    __CPROVER_assume(buf != NULL);
    cv_buf = buf; cv_total = size; cv_from = from; cv_to = to; cv_relaxed = relaxed;
    const int r = cv_goodSuffix(buf + from, buf + to, relaxed);
#ifdef TWIN_GS
    __CPROVER_assert((r != 0) != spec_goodSuffix(from, to, relaxed), "ensures: TWIN (negated) goodSuffix result");
#else
    __CPROVER_assert((r != 0) == spec_goodSuffix(from, to, relaxed),
                     "ensures: goodSuffix returns true exactly when every byte of [suffix, end) is a delimiter");
#endif
#ifdef REACH
    __CPROVER_assert(!(r != 0 && from == to), "reach: empty suffix");
    __CPROVER_assert(!(r != 0 && from > to), "reach: suffix behind end (no byte examined)");
    __CPROVER_assert(!(r != 0 && to - from == 4 && from < to), "reach: four delimiters");
    __CPROVER_assert(!(r == 0 && to - from >= 3 && from < to && buf[from] == ' ' && buf[to - 1] == ' '), "reach: garbage between delimiters");
    __CPROVER_assert(!(r != 0 && relaxed != 0 && from < to && buf[from] == '\t'), "reach: relaxed: HTAB is a delimiter");
    __CPROVER_assert(!(r == 0 && relaxed == 0 && from < to && buf[from] == '\t'), "reach: strict: HTAB is not");
    __CPROVER_assert(!(r != 0 && from == 0 && to == N), "reach: maximal range of delimiters");
#endif
}
#endif

#if defined(T_CHECKVALUE)
void h_checkvalue(void)
{
    size_t total;
    char *buf = make_value(&total);
    int size;
    __CPROVER_assume(size >= 0 && (size_t)size <= total);
    /* call-site fact (checkField passes the whole NUL-terminated value; strListGetItem cuts items at ',' / NUL and
     * right-trims whitespace): the byte after the token is not a digit */
    __CPROVER_assume(!spec_digit(buf[size]));
    int relaxed;
    __CPROVER_assume(relaxed == -1 || relaxed == 0 || relaxed == 1);
    struct st o;
    __CPROVER_assume(o.sawBad == 0);                                   /* requires: Must(!sawBad) */
    __CPROVER_assume((o.needsSanitizing == 0 || o.needsSanitizing == 1) && (o.sawGood == 0 || o.sawGood == 1));
    __CPROVER_assume(st_inv(&o));                                      /* requires: object invariant */
    struct st n = o;
    g_calls = 0;
#ifdef CV_SLICED
    g_fd_calls = 0; g_gs_calls = 0;
#endif
    int r = cv_checkValue(&n.value, &n.sawBad, &n.needsSanitizing, &n.sawGood, &n.problem, buf, size, relaxed);
    post_checkvalue(&o, &n, r, buf, size, relaxed, 0);
#ifdef CV_SLICED
    __CPROVER_assert(g_fd_calls == 1 && g_gs_calls <= 1, "ensures: checkValue uses findDigits exactly once and goodSuffix at most once");
#endif
#ifdef REACH
#ifdef CV_SLICED
    __CPROVER_assert(!(r != 0 && g_gs_calls == 1 && size == N && buf[0] == ' ' && buf[N - 1] == ' '), "reach: maximal token accepted through both contracts");
#endif
    __CPROVER_assert(!(r != 0 && n.value > 99999 && size == (int)total), "reach: first good value, several digits, token is the whole value");
    __CPROVER_assert(!(r != 0 && buf[0] == ' ' && buf[size - 1] == ' '), "reach: good value with leading and trailing space");
    __CPROVER_assert(!(r != 0 && relaxed != 0 && buf[0] == '\r'), "reach: relaxed: leading CR accepted");
    __CPROVER_assert(!(r == 0 && n.sawBad && o.sawGood && n.problem == 'C'), "reach: conflicting");
    __CPROVER_assert(!(r == 0 && !n.sawBad && o.sawGood), "reach: duplicate tolerated (relaxed)");
    __CPROVER_assert(!(r == 0 && n.sawBad && o.sawGood && n.problem == 'D'), "reach: duplicate rejected (strict)");
    __CPROVER_assert(!(n.sawBad && g_calls == 1 && !g_ok[0]), "reach: number out of range");
    __CPROVER_assert(!(n.sawBad && g_calls == 1 && g_ok[0]  && !o.sawGood), "reach: trailing garbage");
    __CPROVER_assert(!(n.sawBad && g_calls == 0 && size == 0), "reach: empty token");
    __CPROVER_assert(!(n.sawBad && g_calls == 0 && buf[0] == '-'), "reach: sign-led token");
#endif
}
#endif

#if defined(T_MODELS_AGREE)
/* the two formulations of the ASSUMED httpHeaderParseOffset contract (relative/symbolic positions with 128-bit products, used by
 * the bounded targets; absolute positions with a saturating accumulator, used by checkvalue_contracts) give identical results
 * (a) on every terminated buffer of up to SYM bytes and every start position, (b) on concrete corner strings around the int64
 * and uint64 boundaries.  Specification-level cross-check, no real code; the general equivalence for long digit strings is NOT
 * machine-checked (equivalence of a 128-bit product chain and a saturating 64-bit chain did not finish in 10 min at 22 bytes). */
int cv_httpHeaderParseOffset_abs(const char *start, long *offPtr, char **endPtr);
static void agree_at(const char *start, int corner)
{
    long v0;
    long v1 = v0, v2 = v0;
    char *e1 = 0, *e2 = 0;
    g_calls = 0;
    const int r1 = cv_httpHeaderParseOffset(start, &v1, &e1);
    const int r2 = cv_httpHeaderParseOffset_abs(start, &v2, &e2);
#ifdef TWIN_AGREE
    __CPROVER_assert(corner || g_end[0] != g_end[1], "ensures: TWIN (negated) same end position");
#else
    __CPROVER_assert(r1 == r2 && v1 == v2 && e1 == e2, "ensures: both formulations return the same result, value and end pointer");
    __CPROVER_assert(g_calls == 2 && g_ok[0] == g_ok[1] && g_v[0] == g_v[1] && g_end[0] == g_end[1] && g_start[0] == g_start[1],
                     "ensures: both formulations log the same parse (ok, value, end)");
#endif
}
static void agree_corner(const char *lit, size_t len, int ok, long v, size_t end)
{
    cv_buf = lit; cv_total = len;
    agree_at(lit, 1);
    __CPROVER_assert(g_ok[1] == ok && (!ok || g_v[1] == v) && g_end[1] == lit + end, "ensures: corner string parsed as expected");
}
void h_models_agree(void)
{
    size_t total;
    char *buf = make_value(&total);
    size_t o;
    __CPROVER_assume(total <= SYM && o <= total);
    agree_at(buf + o, 0);
#ifdef REACH
    __CPROVER_assert(!(g_ok[0] && g_v[0] < -99 && buf[o] == ' '), "reach: negative number after whitespace");
    __CPROVER_assert(!(!g_ok[0] && g_end[0] == g_start[0] + 1 && buf[o] == '+'), "reach: sign without digits");
    __CPROVER_assert(!(g_ok[0] && g_v[0] == 12345), "reach: plain number");
#endif
    agree_corner("9223372036854775807", 19, 1, 0x7fffffffffffffffL, 19);
    agree_corner("9223372036854775808", 19, 0, 0, 19);
    agree_corner("-9223372036854775808", 20, 1, -0x7fffffffffffffffL - 1, 20);
    agree_corner("-9223372036854775809", 20, 0, 0, 20);
    agree_corner("18446744073709551615", 20, 0, 0, 20);
    agree_corner("18446744073709551616", 20, 0, 0, 20);
    agree_corner("1844674407370955161600000", 25, 0, 0, 25);
    agree_corner("0000000000000000000000042x", 26, 1, 42, 25);
    agree_corner(" \t\n+0012 3", 10, 1, 12, 8);
    agree_corner("-", 1, 0, 0, 1);
    agree_corner("", 0, 0, 0, 0);
}
#endif

#if defined(T_FRESH)
/* base case of the object invariant: the real constructor */
void h_fresh(void)
{
    struct st n; int relaxed;
    cv_fresh(&n.value, &n.sawBad, &n.needsSanitizing, &n.sawGood, relaxed);
    __CPROVER_assert(!n.sawBad && !n.sawGood && !n.needsSanitizing && n.value == -1, "ensures: constructed state: nothing seen, value -1");
    __CPROVER_assert(st_inv(&n), "ensures: invariant holds initially");
}
#endif

#if defined(T_CHECKFIELD)
void h_checkfield(void)
{
    size_t total;
    char *buf = make_value(&total);
    size_t len = total;                           /* String: size() == distance to the terminator's slot; bytes arbitrary */
    int relaxed;
    __CPROVER_assume(relaxed == -1 || relaxed == 0 || relaxed == 1);
    struct st o;
    __CPROVER_assume((o.sawBad == 0 || o.sawBad == 1) && (o.needsSanitizing == 0 || o.needsSanitizing == 1) && (o.sawGood == 0 || o.sawGood == 1));
    __CPROVER_assume(st_inv(&o));
    struct st n = o;
    g_calls = 0; cv_items_seen = 0; cv_list_done = 0;
    /* reference: is there a comma before the first NUL? (String::pos(',') is strchr on the terminated buffer) */
    _Bool comma = 0, ended = 0;
    for (size_t k = 0; k < N; k++) {
        if (k < len && !ended && buf[k] == 0) ended = 1;
        if (k < len && !ended && buf[k] == ',') comma = 1;
    }
#if FIELD_CASE == 1
    __CPROVER_assume(o.sawBad || !comma);         /* domain split: absorbing state + single-token fields */
    cv_max_items = 0;                             /* the list path is not in this domain: no items (keeps the formula small) */
#elif FIELD_CASE == 2
    __CPROVER_assume(!o.sawBad && comma);         /* domain split: list-like fields */
#endif
    int r = cv_checkField(&n.value, &n.sawBad, &n.needsSanitizing, &n.sawGood, &n.problem, buf, len, relaxed);
    __CPROVER_assert(st_inv(&n), "ensures: invariant sawGood => value >= 0 preserved");
    __CPROVER_assert(!o.sawGood || (n.sawGood && n.value == o.value), "ensures: value never changes once set");
    __CPROVER_assert(!o.sawBad || n.sawBad, "ensures: sawBad is absorbing");
    if (o.sawBad) {
#ifdef TWIN_ABSORB
        __CPROVER_assert(n.value != o.value, "ensures: TWIN absorbing");
#else
        __CPROVER_assert(r == 0 && g_calls == 0 && n.value == o.value && n.sawGood == o.sawGood && n.needsSanitizing == o.needsSanitizing,
                         "ensures: after a bad value nothing is parsed or changed, the field is not kept");
#endif
    } else if (!comma) {
        post_checkvalue(&o, &n, r, buf, (int)len, relaxed, 0);
    } else if (relaxed == 0) {
        __CPROVER_assert(n.sawBad && r == 0 && g_calls == 0, "ensures: strict parsing: a list-like value => sawBad");
    } else {
        /* relaxed list: every item goes through checkValue until one is bad */
        __CPROVER_assert(r == 0 && n.needsSanitizing, "ensures: a list field is never kept as is; needsSanitizing");
        for (int j = 0; j < MAXCALLS; j++) {
#ifdef TWIN_LIST
            __CPROVER_assert(!(j < g_calls && !n.sawBad) || g_v[j] != n.value, "ensures: TWIN list values");
#else
            __CPROVER_assert(!(j < g_calls && !n.sawBad) || (g_ok[j] && g_v[j] >= 0 && n.sawGood && g_v[j] == n.value),
                             "ensures: length usable (!sawBad) => every parsed list member is a valid non-negative decimal equal to value");
#endif
        }
        __CPROVER_assert(!(g_calls >= 1 && !n.sawBad) || n.sawGood, "ensures: a parsed member and !sawBad => sawGood");
        /* "accepted only when unambiguous": a usable length means EVERY member was looked at, i.e. the walk reached the end
         * of the list (a walk that stops early, e.g. after a tolerated duplicate, leaves later members unexamined) */
        __CPROVER_assert(n.sawBad || cv_list_done, "ensures: length usable (!sawBad) => the whole list was examined, up to its end");
    }
#ifdef REACH
#if FIELD_CASE == 1
    __CPROVER_assert(!(o.sawBad && comma), "reach: field ignored after a bad one");
    __CPROVER_assert(!(r != 0 && n.value == 42 && len == 2), "reach: single good value kept");
    __CPROVER_assert(!(!o.sawBad && n.sawBad && !comma), "reach: single bad value");
#else
    __CPROVER_assert(!(relaxed == 0 && n.sawBad), "reach: strict list rejected");
    __CPROVER_assert(!(relaxed != 0 && !n.sawBad && g_calls == 2 && !o.sawGood), "reach: relaxed list of two equal values tolerated");
    __CPROVER_assert(!(relaxed != 0 && n.sawBad && g_calls == 2 && g_ok[0] && g_ok[1] && n.problem == 'C'), "reach: relaxed list with conflicting values");
    __CPROVER_assert(!(relaxed != 0 && !n.sawBad && g_calls == 0), "reach: relaxed list without items");
#endif
#endif
}
#endif
#endif /* CV_NATIVE */
