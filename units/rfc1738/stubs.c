/* assumed contract for the one snprintf call in rfc1738_do_escape: snprintf(dst, n, "%%%02X", (unsigned char)c).
 * Modelled NON-variadically (cbmc's va_arg under --dfcc is pathologically slow); the format string is asserted,
 * so any other use of snprintf in the verified text fails an obligation instead of being mis-modelled.
 * C99: writes at most n-1 characters of "%XX" and a terminating NUL; returns 3. */
#include <stddef.h>
int snprintf(char *str, size_t size, const char *fmt, unsigned char v)
{
    __CPROVER_assert(fmt[0] == '%' && fmt[1] == '%' && fmt[2] == '%' && fmt[3] == '0' && fmt[4] == '2' &&
                     (fmt[5] == 'X' || fmt[5] == 'x') && fmt[6] == 0, "stub: snprintf models only the %%%02X / %%%02x formats");
    char a = (char)(fmt[5] == 'X' ? 'A' : 'a');
    char tmp[3];
    tmp[0] = '%';
    tmp[1] = (char)((v >> 4) < 10 ? '0' + (v >> 4) : a + ((v >> 4) - 10));
    tmp[2] = (char)((v & 15) < 10 ? '0' + (v & 15) : a + ((v & 15) - 10));
    if (size >= 1) str[0] = size > 1 ? tmp[0] : 0;
    if (size >= 2) str[1] = size > 2 ? tmp[1] : 0;
    if (size >= 3) str[2] = size > 3 ? tmp[2] : 0;
    if (size >= 4) str[3] = 0;
    return 3;
}
