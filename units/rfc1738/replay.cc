// Native replay for the rfc1738 unit: compiles the REAL lib/rfc1738.cc (current tree) with ASan+UBSan, feeds it the
// verifier's counterexample, and re-evaluates the same postconditions (spec functions are #included from contract.c).
#include "replay.h"
#include <cstdlib>
#include <cstring>
#include <string>
extern "C" {
void *xcalloc(size_t n, size_t sz) { void *p = calloc(n, sz); if (!p) abort(); return p; }
void free_const(const void *p) { free(const_cast<void *>(p)); }
}
#define __CPROVER_assume(x) ((void)0)
#define __CPROVER_assert(c, m) ((void)0)
#define __CPROVER_POINTER_OFFSET(p) 0
#define __CPROVER_OBJECT_SIZE(p) 0
#define N 4096
#define CV_NATIVE 1
// the real file, natively (plain symbol names; statics stay static here)
#include "squid.h"
#include "rfc1738.h"
#include REAL_RFC1738_CC
#undef buf
#undef bufsize
namespace spec {
char rfc1738_unsafe_chars[14]; char rfc1738_reserved_chars[7]; char *rfc1738_esc_buf; size_t rfc1738_esc_bufsize; // unused here
#include "contract.c"
}

static std::string input(const Cex &c, const char *key, size_t maxlen)
{
    std::string s;
    for (auto x : c.arr(key)) { if (x == 0 || s.size() >= maxlen) break; s.push_back((char)x); }
    return s;
}

int main(int argc, char **argv)
{
    if (argc < 3) return 2;
    std::string mode = argv[1];
    Cex c; if (!c.load(argv[2])) return 2;
    if (mode == "escape" || mode == "roundtrip") {
        std::string url = input(c, mode == "roundtrip" ? "x" : "url", 4000);
        int flags = (int)c.num("flags");
        long long bs = c.num("bs", 0);
        if (mode == "escape" && c.num("have", 0) && bs >= 1) {   // recreate the prior static-buffer state
            std::string prime((size_t)((bs - 1) / 3), 'a');
            rfc1738_do_escape(prime.c_str(), 0);
        }
        char pad[4100]; memset(pad, 0, sizeof(pad)); memcpy(pad, url.data(), url.size());
        char *r = rfc1738_do_escape(pad, flags);
        printf("input len=%zu flags=%d output=\"%s\"\n", url.size(), flags, r);
        if (!spec::spec_escape_shape(pad, flags, r)) RP_FAIL("output is not a unit-wise encoding of the input (property-level shape)");
        if (!spec::spec_escape_exact(pad, flags, r)) printf("note: output differs from the pinned exact encoding (not a property violation by itself)\n");
        if (strlen(r) > 3 * url.size()) RP_FAIL("output longer than 3*len");
        for (const char *p = r; *p; ++p) {
            unsigned char ch = (unsigned char)*p;
            if ((flags & RFC1738_ESCAPE_CTRLS) && (ch < 0x20 || ch > 0x7E)) RP_FAIL("raw control/8-bit byte 0x%02x under CTRLS", ch);
            if ((flags & RFC1738_ESCAPE_UNSAFE) && !(flags & RFC1738_ESCAPE_NOSPACE) && strchr(" \"<>\n\r\t", ch))
                RP_FAIL("raw unsafe byte 0x%02x under UNSAFE", ch);
        }
        if (mode == "roundtrip") {
            std::string e(r);
            std::vector<char> b(e.begin(), e.end()); b.push_back(0);
            rfc1738_unescape(b.data());
            if (url != b.data()) RP_FAIL("unescape(escape(x)) != x");
        }
        RP_OK("postconditions hold on this input");
    }
    if (mode == "unescape") {
        std::string s = c.bytes("arg.s");
        size_t n = strnlen(s.c_str(), s.size());
        // exact-size heap copy: ASan reports any write/read past the terminator
        char *b = (char *)malloc(n + 1); memcpy(b, s.c_str(), n); b[n] = 0;
        rfc1738_unescape(b);
        if (strlen(b) > n) RP_FAIL("result longer than input");
        free(b);
        RP_OK("no write past the input");
    }
    if (mode == "unit") {
        unsigned char ch = (unsigned char)c.num("c"); int flags = (int)c.num("flags"); char rest0 = (char)c.num("rest0");
        char in[2] = {(char)ch, 0};
        std::string e = rfc1738_do_escape(in, flags);
        e.push_back(rest0);
        std::vector<char> b(e.begin(), e.end()); b.push_back(0);
        rfc1738_unescape(b.data());
        if (b[0] != (char)ch || b[1] != rest0 || b[2] != 0) RP_FAIL("unit 0x%02x flags=%d does not decode to itself", ch, flags);
        RP_OK("unit decodes");
    }
    return 2;
}
