/* Sidecar contracts for lib/rfc1738.cc (the real file is compiled unmodified in C mode).
 * Postconditions come from C31/C34: legacy escaping then unescaping is the identity on NUL-free strings,
 * unescaping never writes past its input, URL-quoted log fields contain no raw line break / control byte. */
#include <stddef.h>
#include <string.h>
#include <stdlib.h>
#include "rfc1738.h"

#ifndef N
#define N 16          /* buffer bound: url is any NUL-terminated string of length < N */
#endif

/* statics of the real file (made nameable by the extraction rules; --dfcc havocs them, so their invariants are stated) */
extern char rfc1738_unsafe_chars[14];
extern char rfc1738_reserved_chars[7];
extern char *rfc1738_esc_buf;
extern size_t rfc1738_esc_bufsize;

/* the two tables are never written by any function of the file (every contract's assigns clause excludes them),
 * so "tables hold their initial contents" is an invariant of the file; RFC 1738 2.2 lists exactly these characters */
static int tables_ok(void)
{
    return rfc1738_unsafe_chars[0] == '<' && rfc1738_unsafe_chars[1] == '>' && rfc1738_unsafe_chars[2] == '"' &&
           rfc1738_unsafe_chars[3] == '#' && rfc1738_unsafe_chars[4] == '{' && rfc1738_unsafe_chars[5] == '}' &&
           rfc1738_unsafe_chars[6] == '|' && rfc1738_unsafe_chars[7] == '\\' && rfc1738_unsafe_chars[8] == '^' &&
           rfc1738_unsafe_chars[9] == '~' && rfc1738_unsafe_chars[10] == '[' && rfc1738_unsafe_chars[11] == ']' &&
           rfc1738_unsafe_chars[12] == '`' && rfc1738_unsafe_chars[13] == '\'' &&
           rfc1738_reserved_chars[0] == ';' && rfc1738_reserved_chars[1] == '/' && rfc1738_reserved_chars[2] == '?' &&
           rfc1738_reserved_chars[3] == ':' && rfc1738_reserved_chars[4] == '@' && rfc1738_reserved_chars[5] == '=' &&
           rfc1738_reserved_chars[6] == '&';
}


size_t g;             /* ghost index: arbitrary, chosen by the harness; a statement about out[g] is a statement about every byte */

/* ---- specification of legacy escaping, written from RFC 1738 2.2 and the flag names in include/rfc1738.h ---- */
static int spec_is_alnum(unsigned char c)
{ return (c >= 'a' && c <= 'z') || (c >= 'A' && c <= 'Z') || (c >= '0' && c <= '9'); }

static int spec_must_escape(unsigned char c, int flags)
{
    if (spec_is_alnum(c)) return 0;
    if (flags & RFC1738_ESCAPE_UNSAFE) {
        if (c == '<' || c == '>' || c == '"' || c == '#' || c == '{' || c == '}' || c == '|' || c == '\\' ||
            c == '^' || c == '~' || c == '[' || c == ']' || c == '`' || c == '\'')
            return 1;
        /* the code treats '%' first and only then space: a '%' kept by NOPERCENT is tested against <= ' ' (false) */
        if (!(flags & RFC1738_ESCAPE_NOPERCENT) && c == '%') return 1;
        if (!(flags & RFC1738_ESCAPE_NOSPACE) && (signed char)c <= ' ') return 1;   /* plain char is signed here: bytes >= 0x80 compare below space */
    }
    if (flags & RFC1738_ESCAPE_RESERVED) {
        if (c == ';' || c == '/' || c == '?' || c == ':' || c == '@' || c == '=' || c == '&') return 1;
    }
    if (flags & RFC1738_ESCAPE_CTRLS) {
        if (c <= 0x1F || c == 0x7F || c >= 0x80) return 1;
    }
    return 0;
}

static char spec_hex(unsigned v) { return (char)(v < 10 ? '0' + v : 'A' + (v - 10)); }
static int spec_is_hex_of(char ch, unsigned v)   /* either case is a well-formed triplet digit */
{ return ch == spec_hex(v) || (v >= 10 && ch == (char)('a' + (v - 10))); }

/* PROPERTY-LEVEL shape (C31/C34): out is a unit-wise encoding of url -- every input byte appears either copied or as a
 * well-formed %XX triplet of itself, in order, nothing else, terminated; '%' is never copied raw when the flags ask for
 * reversibility (UNSAFE without NOPERCENT); with CTRLS no control/DEL/8-bit byte is copied raw; with UNSAFE and without
 * NOSPACE nothing <= ' ' is copied raw. Which *other* bytes get escaped is not the property's business (see "pinned"). */
static int spec_escape_shape(const char *url, int flags, const char *out)
{
    size_t p = 0;
    for (size_t i = 0; i < N; i++) {
        unsigned char c = (unsigned char)url[i];
        if (c == 0) return out[p] == 0;
        int raw_ok = 1;
        if ((flags & RFC1738_ESCAPE_UNSAFE) && !(flags & RFC1738_ESCAPE_NOPERCENT) && c == '%') raw_ok = 0;
        if ((flags & RFC1738_ESCAPE_CTRLS) && (c <= 0x1F || c >= 0x7F)) raw_ok = 0;
        if ((flags & RFC1738_ESCAPE_UNSAFE) && !(flags & RFC1738_ESCAPE_NOSPACE) && c <= ' ') raw_ok = 0;
        if (raw_ok && out[p] == (char)c && 1) {
            /* copied. ('%' is copied raw only under flag sets that do not ask for reversibility; there the code never
             * escapes it, and the shape is read greedily as a copy) */
            p += 1;
        } else {
            if (!(out[p] == '%' && spec_is_hex_of(out[p + 1], c >> 4) && spec_is_hex_of(out[p + 2], c & 15))) return 0;
            p += 3;
        }
    }
    return 0;
}

/* out == enc(url, flags) exactly, including the terminator */
static int spec_escape_exact(const char *url, int flags, const char *out)
{
    size_t p = 0;
    for (size_t i = 0; i < N; i++) {
        unsigned char c = (unsigned char)url[i];
        if (c == 0) return out[p] == 0;
        if (spec_must_escape(c, flags)) {
            if (!(out[p] == '%' && out[p + 1] == spec_hex(c >> 4) && out[p + 2] == spec_hex(c & 15))) return 0;
            p += 3;
        } else {
            if (out[p] != (char)c) return 0;
            p += 1;
        }
    }
    return 0;
}


#ifndef BMAX
#define BMAX (3 * N + 1)   /* bound on a buffer left behind by an earlier call */
#endif

#ifndef CV_NATIVE   /* everything below is verifier-only; the native replay includes only the spec functions above */
/* Contracts are encoded harness-style (assume requires; call the REAL function; assert ensures): --dfcc enforcement
 * of a function that allocates a symbolic-size block does not finish (DESIGN 2, N-i).
 *
 * requires of rfc1738_do_escape:  url is a NUL-terminated string shorter than N;  the tables hold their initial contents;
 *   the static result buffer satisfies its invariant (NULL/0, or a live heap block of exactly bufsize = 3k+1 bytes).
 * ensures: result == the static buffer, non-NULL, invariant re-established, tables unchanged, plus the per-target clauses. */
static void esc_requires(char *url)
{
    url[N - 1] = 0;
    __CPROVER_assume(tables_ok());
    _Bool have;
    if (have) {
        size_t bs;
        __CPROVER_assume(bs >= 1 && bs <= BMAX && bs % 3 == 1);   /* sizes are only ever 3*len+1 */
        rfc1738_esc_buf = malloc(bs);
        __CPROVER_assume(rfc1738_esc_buf != NULL);
        rfc1738_esc_bufsize = bs;
    } else {
        rfc1738_esc_buf = NULL;
        rfc1738_esc_bufsize = 0;
    }
}
static void esc_ensures_common(const char *url, char *r)
{
    __CPROVER_assert(r != NULL && r == rfc1738_esc_buf, "ensures: returns the static buffer, never NULL");
    __CPROVER_assert(__CPROVER_POINTER_OFFSET(rfc1738_esc_buf) == 0 &&
                     __CPROVER_OBJECT_SIZE(rfc1738_esc_buf) == rfc1738_esc_bufsize && rfc1738_esc_bufsize % 3 == 1,
                     "ensures: static buffer invariant (a block of exactly bufsize bytes, bufsize = 3k+1) re-established");
    __CPROVER_assert(tables_ok(), "ensures: tables unchanged (frame)");
    __CPROVER_assert(url[N - 1] == 0, "ensures: input not written (sentinel)");
}

/* ---------- target "escape_safe": loop invariant, memory safety + structure for long strings ---------- */
#if defined(T_ESCAPE_SAFE)
void h_escape_safe(void)
{
    char url[N]; int flags;
    esc_requires(url);
    char *r = rfc1738_do_escape(url, flags);
    esc_ensures_common(url, r);
    size_t lr = strlen(r), lu = strlen(url);
    /* terminated, and never longer than 3 output bytes per input byte */
    __CPROVER_assert(lr <= 3 * lu, "ensures: result is NUL-terminated within 3*strlen(url) bytes");
    /* with the CTRLS flag (every log/URL call site sets it) no raw control, DEL or 8-bit byte -- in particular no CR/LF --
     * appears in the output (ghost index g: arbitrary, so this is every byte) */
    __CPROVER_assert(!((flags & RFC1738_ESCAPE_CTRLS) && g < lr) ||
                     ((unsigned char)r[g] >= 0x20 && (unsigned char)r[g] <= 0x7E),
                     "ensures: CTRLS => every output byte is printable ASCII (no raw line break)");
    /* with UNSAFE and without NOSPACE no raw space, quote, angle bracket or line break survives */
    __CPROVER_assert(!((flags & RFC1738_ESCAPE_UNSAFE) && !(flags & RFC1738_ESCAPE_NOSPACE) && g < lr) ||
                     (r[g] != ' ' && r[g] != '"' && r[g] != '<' && r[g] != '>' && r[g] != '\n' && r[g] != '\r' && r[g] != '\t'),
                     "ensures: UNSAFE => no raw space/quote/angle bracket/line break in the output");
#ifdef REACH
    __CPROVER_assert(!(r[0] == '%' && r[3] == 'a'), "reach: an escaped byte followed by a copied byte");
    __CPROVER_assert(!(lr == 3 * (N - 1)), "reach: maximal expansion");
    __CPROVER_assert(!(r[0] == 0), "reach: empty input");
    __CPROVER_assert(!(rfc1738_esc_bufsize > 3 * lu + 1), "reach: an older, larger buffer was reused");
#endif
}
#endif

/* ---------- target "escape_exact": exact output against the spec function (bounded to N by unwinding) ---------- */
#if defined(T_ESCAPE_EXACT)
void h_escape_exact(void)
{
    char url[N]; int flags;
    esc_requires(url);
    char *r = rfc1738_do_escape(url, flags);
    esc_ensures_common(url, r);
#ifdef TWIN_EXACT
    __CPROVER_assert(!spec_escape_shape(url, flags, r), "ensures: TWIN (negated) unit-wise encoding");
#else
    __CPROVER_assert(spec_escape_shape(url, flags, r),
                     "ensures: result is a unit-wise encoding of url (copied bytes and well-formed %XX triplets only; '%', controls, space never raw when the flags forbid)");
    __CPROVER_assert(spec_escape_exact(url, flags, r),
                     "pinned: result == enc(url, flags) with exactly the RFC 1738 unsafe/reserved classes of the current code");
#endif
#ifdef REACH
    __CPROVER_assert(!(r[0] == '%' && r[3] == 'a' && (flags & RFC1738_ESCAPE_RESERVED)), "reach: escaped then copied");
    __CPROVER_assert(!(r[0] == '%' && r[1] == '4' && (flags & RFC1738_ESCAPE_NOPERCENT)), "reach: raw percent kept under NOPERCENT");
    __CPROVER_assert(!(rfc1738_esc_bufsize > 3 * strlen(url) + 1), "reach: an older, larger buffer was reused");
#endif
}
#endif

/* ---------- the invariant "tables hold the RFC 1738 character lists" is established by the real initialisers ----------
 * (no loop-contract / dfcc pass runs for this target, so statics keep the initial values of the real file) */
#if defined(T_TABLES_INIT)
void h_tables_init(void)
{
    __CPROVER_assert(sizeof(rfc1738_unsafe_chars) == 14 && sizeof(rfc1738_reserved_chars) == 7, "init: table sizes");
    __CPROVER_assert(tables_ok(), "init: tables are initialised to the RFC 1738 unsafe/reserved character lists");
    __CPROVER_assert(rfc1738_esc_buf == NULL && rfc1738_esc_bufsize == 0, "init: static result buffer starts empty");
}
#endif

/* ---------- rfc1738_unescape ---------- */
static int spec_fromhex(char ch)
{
    if (ch >= '0' && ch <= '9') return ch - '0';
    if (ch >= 'a' && ch <= 'f') return ch - 'a' + 10;
    if (ch >= 'A' && ch <= 'F') return ch - 'A' + 10;
    return -1;
}

#if defined(T_UNESCAPE_SAFE)
/* "unescaping never writes past the input": the frame is exactly the string's own bytes [s, s+strlen(s)];
 * the guard byte after the terminator (s has N+1 bytes, NUL at or before N-1... see requires) must be untouched,
 * the result is no longer than the input, and a NUL-free-decoding input yields a terminated string. */
/* rfc1738_unescape under --dfcc (no allocation, so enforcement is cheap): the assigns clause IS the property
 * "unescaping never writes past the input": only the string's own bytes s[0 .. strlen(s)] may be written. */
size_t g_len;   /* ghost: the input length, fixed by requires */
static size_t cv_strnlen(const char *s) { size_t n = 0; while (n < N && s[n] != 0) n++; return n; }
void rfc1738_unescape(char *s)
__CPROVER_requires(__CPROVER_is_fresh(s, N))
__CPROVER_requires(g_len < N && s[g_len] == 0)
__CPROVER_requires(__CPROVER_forall { size_t k; (k < N) ==> (k < g_len ==> s[k] != 0) })
__CPROVER_assigns(__CPROVER_object_upto(s, g_len + 1))
__CPROVER_ensures(cv_strnlen(s) <= g_len)   /* still terminated, never longer than the input */
;
void h_unescape_safe(void)
{
    char *s;
    rfc1738_unescape(s);
#ifdef REACH
    /* is_fresh binds the callee's copy of the parameter, so the harness cannot look into the buffer: length only */
    __CPROVER_assert(!(g_len == 3), "reach: returns for a 3-byte input");
    __CPROVER_assert(!(g_len == N - 1), "reach: returns for a full-length input");
    __CPROVER_assert(!(g_len == 0), "reach: returns for the empty string");
#endif
}
#endif

/* ---------- round trip: unescape(escape(x)) == x whenever '%' itself is escaped ---------- */
#if defined(T_ROUNDTRIP)
void h_roundtrip(void)
{
    char x[N]; int flags;
    x[N - 1] = 0;
    __CPROVER_assume(tables_ok());
    rfc1738_esc_buf = NULL; rfc1738_esc_bufsize = 0;   /* buffer reuse is covered by the escape_* targets */
    __CPROVER_assume((flags & RFC1738_ESCAPE_UNSAFE) && !(flags & RFC1738_ESCAPE_NOPERCENT));
    char *e = rfc1738_do_escape(x, flags);
    rfc1738_unescape(e);
    size_t lx = strlen(x);
    __CPROVER_assert(strlen(e) == lx, "round trip: same length");
    __CPROVER_assert(!(g <= lx) || e[g] == x[g], "round trip: same bytes (ghost index)");
#ifdef REACH
    __CPROVER_assert(!(lx == N - 1 && x[0] == '%' && x[1] == '\n'), "reach: full-length hostile input");
#endif
}
#endif

/* ---------- per-unit lemma (complete): one encoded unit followed by ANY bytes decodes to exactly its source byte,
 * consuming exactly the unit. Together with the exact-output contract this gives the round trip by induction on length. */
#if defined(T_UNIT_LEMMA)
void h_unit_lemma(void)
{
    unsigned char c; int flags; char rest0, rest1;
    __CPROVER_assume(c != 0);
    __CPROVER_assume((flags & RFC1738_ESCAPE_UNSAFE) && !(flags & RFC1738_ESCAPE_NOPERCENT));
    char in[2];
    __CPROVER_assume(tables_ok());
    rfc1738_esc_buf = NULL; rfc1738_esc_bufsize = 0;
    in[0] = (char)c; in[1] = 0;
    char *e = rfc1738_do_escape(in, flags);
    size_t ul = strlen(e);
    __CPROVER_assert(ul == 1 || ul == 3, "unit: one byte encodes to 1 or 3 bytes");
    /* append two arbitrary bytes after the unit, then a terminator, and decode */
    char buf[8];
    for (size_t k = 0; k < ul; k++) buf[k] = e[k];
    buf[ul] = rest0; buf[ul + 1] = 0;
    __CPROVER_assume(rest0 != '%' && rest0 != 0);
    rfc1738_unescape(buf);
    __CPROVER_assert(buf[0] == (char)c, "unit: decodes to its source byte");
    __CPROVER_assert(buf[1] == rest0 && buf[2] == 0, "unit: consumes exactly the unit, following byte untouched");
#ifdef REACH
    __CPROVER_assert(!(ul == 3), "reach: escaped unit");
    __CPROVER_assert(!(ul == 1), "reach: copied unit");
#endif
}
#endif
#endif /* CV_NATIVE */
