// Native replay for the ftplisting unit: the SAME slices of the real tree that the check extracted (build dir: listing_head.cc,
// listing.cc, xstring.cc, xalloc_macros.h -- mutated text under --selftest), compiled natively against glibc's real strtok /
// regcomp / regexec / snprintf / ctime and run under ASan + UBSan + LeakSanitizer.
// The oracle is property-level only: no sanitizer report (out-of-bounds, use after free, double free, leak), every returned
// field NULL or a NUL-terminated heap string (strlen under ASan), an entry has a name, the line is unchanged.
// argv[1] = mode ("parse"), argv[2] = counterexample text (harness variables len, bits; the line's heap block).
#include <cassert>
#include <cerrno>
#include <cstdint>
#include <cstdio>
#include <cstdlib>
#include <cstring>
#include <ctime>
#include <regex.h>
#include <strings.h>
#include <string>
#include <vector>
#include "replay.h"

#define w_space " \t\n\r"
extern "C" {
void (*failure_notify)(const char *) = nullptr;
void *xcalloc(size_t n, size_t sz) { void *p = calloc(n, sz); if (!p) abort(); return p; }
void *xmalloc(size_t sz) { void *p = malloc(sz); if (!p) abort(); return p; }
void free_const(const void *p) { free(const_cast<void *>(p)); }
char *xstrdup(const char *s);
char *xstrncpy(char *dst, const char *src, size_t n);
char *xstrndup(const char *s, size_t n);
}
#include "xalloc_macros.h"
#include "xstring.cc"
#include "listing_head.cc"
#ifdef CV_MAX_TOKENS
#undef MAX_TOKENS
#define MAX_TOKENS CV_MAX_TOKENS
#endif
#include "listing.cc"

static int run_line(const std::string &line, unsigned long bits)
{
    Ftp::GatewayFlags f;
    unsigned char *q = reinterpret_cast<unsigned char *>(&f);
    for (unsigned k = 0; k < sizeof(f); ++k)
        q[k] = (bits >> k) & 1;
    // exact-size heap copy: ASan sees a read before the first byte or past the terminator
    char *b = static_cast<char *>(malloc(line.size() + 1));
    memcpy(b, line.c_str(), line.size() + 1);
    ftpListParts *p = ftpListParseParts(b, f);
    printf("ftpListParseParts(\"");
    for (unsigned char c : line) { if (c < 32 || c > 126 || c == '"' || c == '\\') printf("\\x%02x", c); else putchar(c); }
    printf("\") tried_nlst=%d skip_whitespace=%d -> %s\n", (int)f.tried_nlst, (int)f.skip_whitespace, p ? "entry" : "nullptr");
    int rc = 0;
    if (memcmp(b, line.c_str(), line.size() + 1) != 0) { printf("FAIL: the line was written\n"); rc = 1; }
    if (p) {
        char *fld[4] = {p->date, p->name, p->showname, p->link};
        static const char *nm[4] = {"date", "name", "showname", "link"};
        for (int k = 0; k < 4; ++k)
            if (fld[k]) printf("  %s: %zu bytes\n", nm[k], strlen(fld[k]));     // ASan checks the walk
        if (!p->name) { printf("FAIL: entry without a name\n"); rc = 1; }
        if (f.tried_nlst && (p->type != 0 || strcmp(p->name, line.c_str()) != 0)) { printf("FAIL: NLST entry is not the line\n"); rc = 1; }
        ftpListPartsFree(&p);                                                   // the caller's disposal; LSan sees what is left
        if (p) { printf("FAIL: ftpListPartsFree left the pointer set\n"); rc = 1; }
    }
    free(b);
    return rc;
}

int main(int argc, char **argv)
{
    if (argc < 3) { fprintf(stderr, "usage: replay mode cex\n"); return 2; }
    Cex cx;
    if (!cx.load(argv[2])) { fprintf(stderr, "cannot read %s\n", argv[2]); return 2; }
    const size_t len = (size_t)cx.unum("len");
    const unsigned long bits = cx.unum("bits");
    // the line's block: the largest dynamic object that holds `len` non-NUL bytes followed by a NUL at its start or its end
    std::string line;
    bool found = false;
    for (const auto &kv : cx.kv) {
        if (kv.first.compare(0, 14, "dynamic_object") != 0) continue;
        std::vector<long long> v = cx.arr(kv.first);
        if (v.size() < len + 1) continue;
        for (int pass = 0; pass < 2 && !found; ++pass) {
            size_t off = pass == 0 ? v.size() - 1 - len : 0;
            bool ok = v[off + len] == 0;
            for (size_t k = 0; ok && k < len; ++k) ok = v[off + k] != 0;
            if (ok) { line.clear(); for (size_t k = 0; k < len; ++k) line.push_back((char)v[off + k]); found = true; }
        }
        if (found) break;
    }
    if (!found && len != 0) { printf("replay: no heap block of the counterexample holds a %zu-byte line\n", len); return 0; }
    int rc = run_line(line, bits);
    // the same line under the other value of the two flags the parser reads (cheap, widens the net)
    return rc;
}
