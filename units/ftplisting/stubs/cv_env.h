/* Surroundings of the listing-parser slices (src/clients/FtpGateway.cc) for the C++ front end, instead of the ~40 real headers
 * FtpGateway.cc includes: exactly the libc / compat names the sliced bodies touch.  Everything declared here is defined in
 * stubs.c (assumed models, listed in unit.json "trusted"), {verif}/cv/stubs/xalloc.c, or sliced from the real tree
 * (xstring.cc: xstrdup/xstrncpy/xstrndup; xalloc_macros.h: xfree/safe_free). */
#ifndef CV_ENV_H
#define CV_ENV_H
typedef unsigned long size_t;
typedef long int64_t;
typedef long time_t;
#define w_space     " \t\n\r"       /* compat/compat_shared.h:139 (pinned by the harness: cv_w_space_is) */
#define EINVAL 22
#define REG_EXTENDED 1
#define REG_ICASE 2
#define REG_NOSUB 8
struct cv_regex { int cv_compiled; };                    /* model: "regcomp ran on this object" */
typedef struct cv_regex regex_t;
struct cv_regmatch { int rm_so, rm_eo; };
typedef struct cv_regmatch regmatch_t;
extern "C" {
int regcomp(regex_t *preg, const char *pattern, int cflags);
int regexec(const regex_t *preg, const char *s, size_t nmatch, regmatch_t *pmatch, int eflags);
char *strtok(char *s, const char *delim);
int strcasecmp(const char *a, const char *b);
int strncmp(const char *a, const char *b, size_t n);
size_t strlen(const char *s);
char *strchr(const char *s, int c);
char *strstr(const char *h, const char *n);
size_t strcspn(const char *s, const char *reject);
long long strtoll(const char *s, char **e, int base);
long strtol(const char *s, char **e, int base);
int atoi(const char *s);
char *ctime(const time_t *t);
void *memcpy(void *d, const void *s, size_t n);
void *xcalloc(size_t n, size_t sz);
void *xmalloc(size_t sz);
void free_const(const void *p);
void perror(const char *s);
void exit(int);
int cv_snprintf3(char *dst, size_t n, const char *fmt, const char *a, const char *b, const char *c);
int cv_snprintf2(char *dst, size_t n, const char *fmt, const char *a, const char *b);
void cv_squid_assert(int ok);
extern int errno;
extern void (*failure_notify)(const char *);
char *xstrdup(const char *s);
char *xstrncpy(char *dst, const char *src, size_t n);
char *xstrndup(const char *s, size_t n);
}
/* never variadic (units/README.md): one overload per call shape of the slice; the models assert the format literal */
static inline int snprintf(char *dst, size_t n, const char *fmt, const char *a, const char *b, const char *c) { return cv_snprintf3(dst, n, fmt, a, b, c); }
static inline int snprintf(char *dst, size_t n, const char *fmt, const char *a, const char *b) { return cv_snprintf2(dst, n, fmt, a, b); }
#define assert(x) cv_squid_assert((x) ? 1 : 0)
#include "xalloc_macros.h"          /* real text of xfree() and safe_free() from compat/xalloc.h */
#endif
