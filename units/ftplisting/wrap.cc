// wrapper TU: real text sliced at run time (listing.cc: GatewayFlags, ftpListParts, Month, is_month, ftpListPartsFree, MAX_TOKENS,
// ftpListParseParts of src/clients/FtpGateway.cc; xstring.cc: xstrdup/xstrncpy/xstrndup of compat/xstring.cc) + extern "C" entry points.
#include "cv_env.h"
// C linkage only gives the sliced functions comma-free symbol names (ftpListParseParts.0 instead of
// ftpListParseParts(ptr_const_char,struct_tag(...)).0), which cbmc --unwindset needs; nothing else changes
extern "C" {
#include "xstring.cc"
#include "listing_head.cc"
}
enum { CV_REAL_MAX_TOKENS = MAX_TOKENS };
#ifdef CV_MAX_TOKENS
// scaled-constant target: the token cap and the array it guards both come from this one macro in the real text
#undef MAX_TOKENS
#define MAX_TOKENS CV_MAX_TOKENS
#endif
extern "C" {
#include "listing.cc"
}

extern "C" int cv_real_max_tokens(void) { return CV_REAL_MAX_TOKENS; }
extern "C" int cv_max_tokens(void) { return MAX_TOKENS; }
extern "C" int cv_w_space_is(const char *s) { const char *w = w_space; int k = 0; for (; k < 8 && w[k] && s[k] == w[k]; ++k) {} return w[k] == 0 && s[k] == 0; }

// every flags value: byte k of the flags object is bit k of `bits` (each member is a bool, each byte 0 or 1); members the
// body does not read today are arbitrary too
extern "C" int cv_flags_size(void) { return sizeof(Ftp::GatewayFlags); }
extern "C" void *cv_parse(const char *buf, unsigned long bits, int force_nlst)
{
    Ftp::GatewayFlags f;
    static_assert(sizeof(f) <= 64, "flags fit the bit vector");
    unsigned char *q = (unsigned char *)&f;
    for (unsigned k = 0; k < sizeof(f); ++k)
        q[k] = (bits >> k) & 1;
    if (force_nlst >= 0)
        f.tried_nlst = force_nlst != 0;     // targets that fix this one flag pass a constant (prunes the other branch)
    return ftpListParseParts(buf, f);
}
extern "C" int cv_flag_tried_nlst(unsigned long bits) { Ftp::GatewayFlags f; return (bits >> ((unsigned char *)&f.tried_nlst - (unsigned char *)&f)) & 1; }
extern "C" int cv_flag_skip_whitespace(unsigned long bits) { Ftp::GatewayFlags f; return (bits >> ((unsigned char *)&f.skip_whitespace - (unsigned char *)&f)) & 1; }

// the result, field by field (the harness is C and does not see the typedef)
extern "C" int cv_res_type(void *r) { return ((ftpListParts *)r)->type; }
extern "C" long cv_res_size(void *r) { return ((ftpListParts *)r)->size; }
extern "C" char *cv_res_field(void *r, int k)
{
    ftpListParts *p = (ftpListParts *)r;
    return k == 0 ? p->date : k == 1 ? p->name : k == 2 ? p->showname : p->link;
}
extern "C" int cv_res_sizeof(void) { return sizeof(ftpListParts); }
// the caller's way of disposing of a result (Ftp::Gateway::htmlifyListEntry): the real ftpListPartsFree
extern "C" void *cv_res_free(void *r) { ftpListParts *p = (ftpListParts *)r; ftpListPartsFree(&p); return p; }
