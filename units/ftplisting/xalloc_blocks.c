/* Assumed model of compat/xalloc.cc for this unit (trusted; replaces {verif}/cv/stubs/xalloc.c here).
 *
 * WHY NOT malloc(sz): a heap object of symbolic size is an unbounded array for cbmc; with one such object per token the SAT
 * encoding of ftpListParseParts does not finish (array theory).  Every xmalloc block is therefore a CONSTANT-size object of
 * CV_BLOCK bytes in which the requested sz bytes are placed
 *     CV_ALIGN_END  : at the END  (p = base + CV_BLOCK - sz): any access at or past p + sz is out of the object -> flagged exactly;
 *                     accesses below p fall into the slack and are NOT seen;
 *     otherwise     : at the START (p = base, offset 0):     any access below p is out of the object -> flagged exactly;
 *                     accesses in [p + sz, base + CV_BLOCK) are NOT seen.
 * An out-of-bounds access to a block is either below its start or at/after its end, and up to the FIRST such access an
 * execution is identical under both placements, so the pair of targets (..._end, ..._start) together are exact.
 * xmalloc never returns NULL (the real one aborts).  The line handed to the parser is placed the same way by the harness. */
#include <stdlib.h>
#ifndef CV_BLOCK
#error "CV_BLOCK (bytes per modelled xmalloc block) must be defined"
#endif

void *xcalloc(size_t n, size_t sz)
{
    void *p;
    __CPROVER_assert(n * sz != CV_BLOCK, "model: xcalloc blocks are told apart from xmalloc blocks by their size");
    p = calloc(n, sz);          /* only called with constants here: (1, sizeof(ftpListParts)) */
    __CPROVER_assume(p != 0);
    return p;
}

void *xmalloc(size_t sz)
{
    char *base;
    __CPROVER_assert(sz >= 1 && sz <= CV_BLOCK - sizeof(size_t), "model: xmalloc request fits the modelled block");
    base = malloc(CV_BLOCK);
    __CPROVER_assume(base != 0);
#ifdef CV_ALIGN_END
    *(size_t *)base = sz;       /* header in the slack below the block: lets free_const recognise the block's start */
    return base + (CV_BLOCK - sz);
#else
    return base;
#endif
}

/* 1 iff p is exactly what a not-yet-freed xmalloc returned */
int cv_block_start_ok(const void *p)
{
    if (!__CPROVER_DYNAMIC_OBJECT(p) || __CPROVER_OBJECT_SIZE(p) != CV_BLOCK || !__CPROVER_r_ok(p, 1))
        return 0;
#ifdef CV_ALIGN_END
    {
        const char *base = (const char *)p - __CPROVER_POINTER_OFFSET(p);
        size_t sz = *(const size_t *)base;
        return sz >= 1 && sz <= CV_BLOCK - sizeof(size_t) && __CPROVER_POINTER_OFFSET(p) == CV_BLOCK - sz;
    }
#else
    return __CPROVER_POINTER_OFFSET(p) == 0;
#endif
}

void free_const(const void *p)
{
#ifdef CV_ALIGN_END
    if (p != 0 && __CPROVER_DYNAMIC_OBJECT(p) && __CPROVER_OBJECT_SIZE(p) == CV_BLOCK) {
        __CPROVER_assert(cv_block_start_ok(p), "free_const: the pointer is the start of a live xmalloc block");
        free((char *)p - __CPROVER_POINTER_OFFSET(p));
        return;
    }
#endif
    free((void *)p);            /* cbmc's free: asserts heap object, offset 0, not freed before */
}
