/* Assumed models of the libc / regex names the listing-parser slices call (trusted; each one is listed in unit.json).
 * This file is part of the "wrap" set: it gets the same pointer/bounds instrumentation as the real text, so a model that
 * walks a string FAILS a pointer obligation when the caller hands it something that is not a NUL-terminated string inside
 * one object.  Value-level behaviour is either exact (strtok, strchr, strstr, strcspn, strncmp, strcasecmp, strlen, the two
 * snprintf shapes) or deliberately ARBITRARY (regexec's verdict, the numbers strtoll/strtol/atoi return, ctime's text). */
#include <stddef.h>

int errno;
void (*failure_notify)(const char *) = 0;   /* compat/xalloc.cc: NULL until squid's main() installs a handler */

int nondet_cv_int(void);
long nondet_cv_long(void);
long long nondet_cv_llong(void);
size_t nondet_cv_size(void);
char nondet_cv_char(void);

/* ghosts the harness reads */
int cv_exit_calls;          /* exit() reached (xstrdup/xstrndup of NULL) */
int cv_regcomp_calls;
int cv_regexec_calls;

size_t strlen(const char *s)
{
    size_t n = 0;
    while (s[n] != 0)
        ++n;
    return n;
}

/* byte loop instead of cbmc's library memcpy (whose symbolic-size array copy does not get through the SAT encoding here) */
void *memcpy(void *d, const void *s, size_t n)
{
    size_t k;
    for (k = 0; k < n; ++k)
        ((char *)d)[k] = ((const char *)s)[k];
    return d;
}

char *strchr(const char *s, int c)
{
    for (;; ++s) {
        if (*s == (char)c)
            return (char *)s;
        if (*s == 0)
            return 0;
    }
}

static int cv_in_set(char c, const char *set)
{
    for (; *set; ++set)
        if (*set == c)
            return 1;
    return 0;
}

/* C11 7.24.5.8, exact; the saved position is this model's only state */
static char *cv_strtok_save;
char *strtok(char *s, const char *delim)
{
    char *tok;
    if (!s)
        s = cv_strtok_save;
    __CPROVER_assert(s != 0, "strtok: first call has a string");
    while (*s && cv_in_set(*s, delim))
        ++s;
    if (!*s) {
        cv_strtok_save = s;
        return 0;
    }
    tok = s;
    while (*s && !cv_in_set(*s, delim))
        ++s;
    if (*s) {
        *s = 0;
        cv_strtok_save = s + 1;
    } else
        cv_strtok_save = s;
    return tok;
}

size_t strcspn(const char *s, const char *reject)
{
    size_t n = 0;
    while (s[n] && !cv_in_set(s[n], reject))
        ++n;
    return n;
}

char *strstr(const char *h, const char *n)
{
    for (;; ++h) {
        size_t k = 0;
        while (n[k] && h[k] == n[k])
            ++k;
        if (!n[k])
            return (char *)h;
        if (!*h)
            return 0;
    }
}

int strncmp(const char *a, const char *b, size_t n)
{
    size_t k;
    for (k = 0; k < n; ++k) {
        unsigned char x = (unsigned char)a[k], y = (unsigned char)b[k];
        if (x != y)
            return x < y ? -1 : 1;
        if (!x)
            return 0;
    }
    return 0;
}

static unsigned char cv_lower(unsigned char c) { return (c >= 'A' && c <= 'Z') ? (unsigned char)(c + 32) : c; }
int strcasecmp(const char *a, const char *b)
{
    size_t k;
    for (k = 0;; ++k) {
        unsigned char x = cv_lower((unsigned char)a[k]), y = cv_lower((unsigned char)b[k]);
        if (x != y)
            return x < y ? -1 : 1;
        if (!x)
            return 0;
    }
}

/* numbers: the argument must be a string (walked to its terminator); the value is ARBITRARY, except that
 * "no conversion performed => 0 and *endptr == nptr" (C11 7.22.1.4p8) is kept */
long long strtoll(const char *s, char **e, int base)
{
    size_t len = strlen(s), k = nondet_cv_size();
    __CPROVER_assume(k <= len);
    (void)base;
    if (e)
        *e = (char *)s + k;
    return k ? nondet_cv_llong() : 0;
}
long strtol(const char *s, char **e, int base)
{
    size_t len = strlen(s), k = nondet_cv_size();
    __CPROVER_assume(k <= len);
    (void)base;
    if (e)
        *e = (char *)s + k;
    return k ? nondet_cv_long() : 0;
}
int atoi(const char *s)
{
    (void)strlen(s);
    return nondet_cv_int();
}

/* ctime: NULL when the year does not fit (glibc: EOVERFLOW), otherwise a static text that ends in a newline.  The real text
 * has 24 bytes before the newline ("Www Mmm dd hh:mm:ss yyyy"); its length is immaterial to the caller (which only strlen()s,
 * copies and cuts it at the newline), so the model uses 1..3 arbitrary non-NUL bytes before the newline */
static char cv_ctime_buf[8];
char *ctime(const long *t)
{
    long v = *t;
    size_t len = nondet_cv_size();
    char a = nondet_cv_char(), b = nondet_cv_char(), c = nondet_cv_char();
    if ((v > 67767976233532799L || v < -67768040609740800L) && nondet_cv_int())
        return 0;
    __CPROVER_assume(len >= 2 && len <= 4 && a != 0 && b != 0 && c != 0);
    cv_ctime_buf[0] = a;
    cv_ctime_buf[1] = b;
    cv_ctime_buf[2] = c;
    cv_ctime_buf[len - 1] = '\n';
    cv_ctime_buf[len] = 0;
    return cv_ctime_buf;
}

/* POSIX regex: regcomp marks the object; regexec demands a marked object, a string, and nmatch == 0 (REG_NOSUB use), and
 * returns an ARBITRARY verdict (0 = match, 1 = REG_NOMATCH), independently at every call */
struct cv_regex { int cv_compiled; };
struct cv_regmatch { int rm_so, rm_eo; };
int regcomp(struct cv_regex *preg, const char *pattern, int cflags)
{
    __CPROVER_assert(pattern != 0 && __CPROVER_r_ok(pattern, 1), "regcomp: pattern is a string");   /* not walked: a literal */
    (void)cflags;
    preg->cv_compiled = 1;
    ++cv_regcomp_calls;
    return 0;
}
int regexec(const struct cv_regex *preg, const char *s, size_t nmatch, struct cv_regmatch *pmatch, int eflags)
{
    __CPROVER_assert(preg->cv_compiled == 1, "regexec: the regex_t was initialised by regcomp");
    __CPROVER_assert(nmatch == 0, "model: regexec is only modelled without match offsets");
    (void)pmatch; (void)eflags;
    (void)strlen(s);
    ++cv_regexec_calls;
    return nondet_cv_int() ? 1 : 0;
}

/* snprintf, the two call shapes of ftpListParseParts; exact C semantics (return = length that would have been written) */
static int cv_fmt_is(const char *fmt, const char *lit)
{
    size_t k;
    for (k = 0; k < 16; ++k) {
        if (fmt[k] != lit[k])
            return 0;
        if (!lit[k])
            return 1;
    }
    return 0;
}
static size_t cv_emit_ch(char *dst, size_t n, size_t at, char c)
{
    if (at + 1 < n)
        dst[at] = c;
    return at + 1;
}
/* %<width>s (left == 0) or %-<width>s */
static size_t cv_emit_str(char *dst, size_t n, size_t at, const char *s, size_t width, int left)
{
    size_t len = strlen(s), pad = width > len ? width - len : 0, k;
    if (!left)
        for (k = 0; k < pad; ++k)
            at = cv_emit_ch(dst, n, at, ' ');
    for (k = 0; k < len; ++k)
        at = cv_emit_ch(dst, n, at, s[k]);
    if (left)
        for (k = 0; k < pad; ++k)
            at = cv_emit_ch(dst, n, at, ' ');
    return at;
}
int cv_snprintf3(char *dst, size_t n, const char *fmt, const char *a, const char *b, const char *c)
{
    size_t at = 0;
    int left = cv_fmt_is(fmt, "%s %2s %-5s");
    __CPROVER_assert(left || cv_fmt_is(fmt, "%s %2s %5s"), "model: snprintf format is \"%s %2s %5s\" or \"%s %2s %-5s\"");
    __CPROVER_assert(n >= 1 && __CPROVER_w_ok(dst, n), "snprintf: the destination has n writable bytes");
    at = cv_emit_str(dst, n, at, a, 0, 0);
    at = cv_emit_ch(dst, n, at, ' ');
    at = cv_emit_str(dst, n, at, b, 2, 0);
    at = cv_emit_ch(dst, n, at, ' ');
    at = cv_emit_str(dst, n, at, c, 5, left);
    dst[at < n ? at : n - 1] = 0;
    return (int)at;
}
int cv_snprintf2(char *dst, size_t n, const char *fmt, const char *a, const char *b)
{
    size_t at = 0;
    __CPROVER_assert(cv_fmt_is(fmt, "%s %s"), "model: snprintf format is \"%s %s\"");
    __CPROVER_assert(n >= 1 && __CPROVER_w_ok(dst, n), "snprintf: the destination has n writable bytes");
    at = cv_emit_str(dst, n, at, a, 0, 0);
    at = cv_emit_ch(dst, n, at, ' ');
    at = cv_emit_str(dst, n, at, b, 0, 0);
    dst[at < n ? at : n - 1] = 0;
    return (int)at;
}

void cv_squid_assert(int ok) { __CPROVER_assert(ok, "squid assert() holds"); }
void perror(const char *s) { (void)strlen(s); }
void exit(int code)
{
    (void)code;
    ++cv_exit_calls;
    __CPROVER_assert(0, "ensures: the parser never terminates the process (exit reached: xstrdup/xstrndup of NULL)");
    __CPROVER_assume(0);
}

/* harness helper living on the instrumented side: walking a returned field past its object fails a pointer obligation */
size_t cv_strlen_checked(const char *s) { return strlen(s); }
