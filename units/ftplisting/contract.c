/* Harness-encoded contract for the real ftpListParseParts (src/clients/FtpGateway.cc, sliced at run time; C++ front end).
 * C40, second sentence: "Directory-listing lines of any content are parsed without memory errors."
 *
 *   requires  buf is a NUL-terminated string of fewer than N bytes whose terminator is the last byte of its heap block
 *             (..._end targets: a read one byte past the terminator is an out-of-bounds read) or whose first byte is the first
 *             byte of its heap block (..._start targets: a read below buf is out of bounds); flags is any value.
 *   ensures   (a) every pointer/bounds/overflow obligation of the real statements, of the real xstrdup/xstrndup/xstrncpy,
 *                 and of the instrumented libc models holds (no out-of-bounds read or write of tokens[MAX_TOKENS], of the
 *                 copied line, of tbuf[128], of any duplicated field; no use after free; no double free);
 *             (b) the result is NULL or a heap block of sizeof(ftpListParts) whose date/name/showname/link are each NULL or
 *                 the start of a distinct heap block holding a NUL-terminated string; an entry always has a name;
 *             (c) type is 0 exactly for NLST listings, otherwise 'd', '-' or the first byte of the line's first token
 *                 (which is what the Unix branch stores: see the note in unit.json -- the type is NOT confined to a fixed
 *                 alphabet, the caller's switch has a default arm);
 *             (d) NLST: the name is a copy of the whole line and nothing else is set;
 *             (e) the line is not written; the process is not terminated (xstrdup(NULL) calls exit);
 *             (f) after the caller disposes of the result with the real ftpListPartsFree, NO heap block allocated during the
 *                 call is left (cbmc --memory-leak-check): everything allocated is returned in the struct or freed.
 */
#include <stddef.h>
#include <stdlib.h>

#ifndef N
#define N 16
#endif

size_t g;             /* ghost index: arbitrary (unit.json "ghosts") */

void *cv_parse(const char *buf, unsigned long bits, int force_nlst);
int cv_block_start_ok(const void *p);
int cv_flag_tried_nlst(unsigned long bits);
int cv_flag_skip_whitespace(unsigned long bits);
int cv_flags_size(void);
int cv_res_type(void *r);
long cv_res_size(void *r);
char *cv_res_field(void *r, int k);
int cv_res_sizeof(void);
void *cv_res_free(void *r);
int cv_max_tokens(void);
int cv_real_max_tokens(void);
int cv_w_space_is(const char *s);
size_t cv_strlen_checked(const char *s);
extern int cv_exit_calls, cv_regcomp_calls, cv_regexec_calls;

#ifdef CV_NLST
#define FORCE_NLST CV_NLST
#else
#define FORCE_NLST (-1)
#endif

/* The line sits in a constant-size heap block of N bytes (see xalloc_blocks.c for why not malloc(len + 1)): at its END under
 * CV_ALIGN_END (a read past the terminator leaves the object), at its START otherwise (a read below buf leaves the object). */
static char *line_base;
static char *line_alloc(size_t len)
{
    line_base = malloc(N);
    __CPROVER_assume(line_base != NULL);
#ifdef CV_ALIGN_END
    return line_base + (N - 1 - len);
#else
    return line_base;
#endif
}

static int is_wsp(char c) { return c == ' ' || c == '\t' || c == '\n' || c == '\r'; }

#ifdef T_PARSE
void h_parse(void)
{
    size_t len, k, first, ntok;
    unsigned long bits;
    char *buf, gb;
    void *r;
    int nlst, type;
    char *f[4];

    __CPROVER_assume(len < N);
    buf = line_alloc(len);
    __CPROVER_assume(buf != NULL);
    for (k = 0; k < len; ++k)
        __CPROVER_assume(buf[k] != 0);
    buf[len] = 0;
    __CPROVER_assume(g <= len);
    gb = buf[g];
    for (first = 0; first < len && is_wsp(buf[first]); ++first) {}
    ntok = 0;
    for (k = 0; k < len; ++k)
        if (!is_wsp(buf[k]) && (k == 0 || is_wsp(buf[k - 1])))
            ++ntok;
    /* input-domain restrictions of the partitioned targets (unit.json says which target uses which) */
#ifdef CV_MAXTOK
    __CPROVER_assume(ntok <= CV_MAXTOK);
#endif
#ifdef CV_MINTOK
    __CPROVER_assume(ntok >= CV_MINTOK);
#endif
#ifdef CV_PLUS
    __CPROVER_assume((buf[0] == '+') == (CV_PLUS != 0));
#endif
#ifdef CV_NLST
    nlst = CV_NLST;               /* this target fixes flags.tried_nlst (a constant: the other format branches are pruned) */
#else
    nlst = cv_flag_tried_nlst(bits);
#endif

    r = cv_parse(buf, bits, FORCE_NLST);

    __CPROVER_assert(cv_w_space_is(" \t\n\r"), "lemma: w_space of the stub environment is \" \\t\\n\\r\" (compat/compat_shared.h)");
    __CPROVER_assert(cv_flags_size() <= 64, "lemma: every GatewayFlags byte is driven by a bit of the harness's vector");
    __CPROVER_assert(buf[g] == gb && buf[len] == 0, "ensures: the line is not written");
    __CPROVER_assert(cv_exit_calls == 0, "ensures: the process is not terminated");
    __CPROVER_assert(len != 0 || r == NULL, "ensures: an empty line yields no entry");
#ifdef TWIN_NULL
    __CPROVER_assert(r == NULL || nlst, "ensures: TWIN (too strong) only NLST lines yield an entry");
#endif
#ifdef TWIN_LEN
    __CPROVER_assert(r == NULL || len < N - 1, "ensures: TWIN (too strong) no entry from a line of N-1 bytes");
#endif
    if (r != NULL) {
        __CPROVER_assert(__CPROVER_DYNAMIC_OBJECT(r) && __CPROVER_POINTER_OFFSET(r) == 0 &&
                         __CPROVER_OBJECT_SIZE(r) == (size_t)cv_res_sizeof(),
                         "ensures: the result is a whole heap block of sizeof(ftpListParts)");
        type = cv_res_type(r);
        for (k = 0; k < 4; ++k) {
            f[k] = cv_res_field(r, (int)k);
            if (f[k] != NULL) {
                size_t l;
                __CPROVER_assert(cv_block_start_ok(f[k]), "ensures: a field is NULL or the start of a live heap block");
                l = cv_strlen_checked(f[k]);    /* walks the string on the instrumented side: leaving the block fails there */
                __CPROVER_assert(l < __CPROVER_OBJECT_SIZE(f[k]) - __CPROVER_POINTER_OFFSET(f[k]),
                                 "ensures: a field is NUL-terminated inside its block");
                __CPROVER_assert(!__CPROVER_same_object(f[k], r) && !__CPROVER_same_object(f[k], buf),
                                 "ensures: a field is neither the struct nor the caller's line");
            }
        }
        __CPROVER_assert((f[0] == NULL || !__CPROVER_same_object(f[0], f[1])) &&
                         (f[3] == NULL || (!__CPROVER_same_object(f[3], f[1]) && !__CPROVER_same_object(f[3], f[0]))),
                         "ensures: the fields are distinct blocks");
        __CPROVER_assert(f[1] != NULL, "ensures: an entry has a name");
        __CPROVER_assert(f[2] == NULL, "ensures: showname is left to the caller");
#ifdef TWIN_TYPE
        __CPROVER_assert(type == 0 || type == 'd' || type == '-' || type == 'l',
                         "ensures: TWIN (too strong) type is one of NUL, d, -, l");
#else
        __CPROVER_assert(nlst ? type == 0 : (type == 'd' || type == '-' || (first < len && type == buf[first])),
                         "ensures: type is 0 for NLST, else 'd', '-' or the first byte of the first token");
#endif
        __CPROVER_assert(f[3] == NULL || (!nlst && type == 'l'), "ensures: a link target only for type 'l'");
        if (nlst) {
            __CPROVER_assert(f[0] == NULL && f[3] == NULL && cv_res_size(r) == 0, "ensures: NLST sets only the name");
            __CPROVER_assert(cv_strlen_checked(f[1]) == len && f[1][g] == gb, "ensures: NLST name is a copy of the line");
        }
#ifdef REACH
        __CPROVER_assert(!(nlst && len == N - 1), "reach: NLST entry from a line of N-1 bytes");
#ifndef CV_NLST
        __CPROVER_assert(!(!nlst && buf[0] == '+' && f[0] == NULL && type == '-'), "reach: EPLF file entry without a date");
#if N >= 6
        __CPROVER_assert(!(!nlst && buf[0] == '+' && type == 'd'), "reach: EPLF directory entry");
        __CPROVER_assert(!(!nlst && buf[0] == '+' && f[0] != NULL), "reach: EPLF entry with a date");
#endif
#if N >= 8
        __CPROVER_assert(!(!nlst && cv_regexec_calls == 2 && type == 'd'), "reach: DOS directory entry");
        __CPROVER_assert(!(!nlst && cv_regexec_calls == 2 && type == '-'), "reach: DOS file entry");
#endif
#if N >= 19
        __CPROVER_assert(!(!nlst && cv_regexec_calls == 3 && cv_flag_skip_whitespace(bits) && type == 'x'),
                         "reach: Unix entry of type 'x' under skip_whitespace");
#endif
#if N >= 24
        __CPROVER_assert(!(!nlst && cv_regexec_calls == 3 && type == 'l' && f[3] != NULL && f[0] != NULL),
                         "reach: Unix entry with a link target");
#endif
#endif
#endif
        r = cv_res_free(r);
        __CPROVER_assert(r == NULL, "ensures: ftpListPartsFree clears the caller's pointer");
    } else {
#ifdef REACH
        __CPROVER_assert(!(len == 0), "reach: no entry from the empty line");
#ifndef CV_NLST
        __CPROVER_assert(!(len > 0 && ntok == 0), "reach: no entry from a line of blanks");
        __CPROVER_assert(!(buf[0] == '+' && len > 1 && !nlst), "reach: no entry from an EPLF line without a name");
        __CPROVER_assert(!(ntok == 2 && !nlst), "reach: no entry from a two-token line");
#endif
#endif
    }
#if defined(REACH) && defined(CV_MAX_TOKENS)
    __CPROVER_assert(!(ntok > (size_t)cv_max_tokens() && !nlst), "reach: more tokens on the line than MAX_TOKENS");
    __CPROVER_assert(!(ntok == (size_t)cv_max_tokens() && !nlst), "reach: exactly MAX_TOKENS tokens on the line");
#endif
#ifndef CV_MAX_TOKENS
    __CPROVER_assert(cv_max_tokens() == cv_real_max_tokens(), "lemma: MAX_TOKENS is the real one in this target");
#endif
    __CPROVER_assert(cv_regcomp_calls == 4, "lemma: the four regexes are compiled on first use");
    free(line_base);
    /* (f): cbmc --memory-leak-check adds the obligation "dynamically allocated memory never freed" here */
}
#endif
