// Native replay for the rfc1123 unit: the REAL src/time/rfc1123.cc is #included (its static functions become callable in
// this TU) and run under ASan+UBSan on the counterexample; the same postconditions are re-evaluated.
#include "replay.h"
#include <string>
#include <vector>
#include "squid.h"
extern "C" const char *__asan_default_options() { return "detect_leaks=0"; }
char *xstrncpy(char *dst, const char *src, size_t n)
{
    char *r = dst;
    if (!n || !dst) return dst;
    if (src) while (--n != 0 && *src != '\0') *dst++ = *src++;
    *dst = '\0';
    return r;
}
#include "time/rfc1123.cc"
#define CV_NATIVE 1
namespace spec {
#include "contract.c"
}
static char *heap(const std::string &s, size_t n) { char *p = (char *)malloc(n); memcpy(p, s.data(), n); return p; }   // exact-size block

int main(int argc, char **argv)
{
    if (argc < 3) return 2;
    std::string mode = argv[1];
    Cex c; if (!c.load(argv[2])) return 2;
    auto ch = [&](const char *k) { return (char)c.num(k); };
    if (mode == "make_num") {
        std::string s; s.push_back(ch("c0")); s.push_back(ch("c1"));
        int r = make_num(heap(s, 2));
        printf("make_num(\"%c%c\") = %d\n", s[0], s[1], r);
        if (IS_DIGIT(s[0]) && IS_DIGIT(s[1]) && r != 10 * (s[0] - '0') + (s[1] - '0')) RP_FAIL("two digits do not denote 10a+b");
        if (!IS_DIGIT(s[0]) && IS_DIGIT(s[1]) && r != s[1] - '0') RP_FAIL("space+digit does not denote the digit");
        RP_OK("make_num");
    }
    if (mode == "make_month") {
        size_t n = (size_t)c.unum("n");
        std::string s; for (auto x : c.arr("dynamic_object")) s.push_back((char)x);
        s.resize(n, 0);
        if (n < 4) s[n - 1] = 0;
        int r = make_month(heap(s, n));       // ASan: reads past the block
        int want = (n >= 3 && s[0] && s[1]) ? spec::spec_month(s[0], s[1], s[2]) : -1;
        printf("make_month(block of %zu) = %d, specification %d\n", n, r, want);
        if (r != want) RP_FAIL("month index differs");
        RP_OK("make_month");
    }
    if (mode == "sane") {
        struct tm t; memset(&t, 0, sizeof(t));
        t.tm_sec = (int)c.num("t0.tm_sec"); t.tm_min = (int)c.num("t0.tm_min"); t.tm_hour = (int)c.num("t0.tm_hour");
        t.tm_mday = (int)c.num("t0.tm_mday"); t.tm_mon = (int)c.num("t0.tm_mon");
        int r = tmSaneValues(&t);
        int want = t.tm_sec >= 0 && t.tm_sec <= 59 && t.tm_min >= 0 && t.tm_min <= 59 && t.tm_hour >= 0 && t.tm_hour <= 23 &&
                   t.tm_mday >= 1 && t.tm_mday <= 31 && t.tm_mon >= 0 && t.tm_mon <= 11;
        printf("tmSaneValues(sec=%d min=%d hour=%d mday=%d mon=%d) = %d, specification %d\n", t.tm_sec, t.tm_min, t.tm_hour, t.tm_mday, t.tm_mon, r, want);
        if (r != want) RP_FAIL("range check differs");
        RP_OK("tmSaneValues");
    }
    if (mode == "elements") {
        bool day2 = c.num("day2"), year4 = c.num("year4"), has_zone = c.num("has_zone");
        std::string day = day2 ? std::string{ch("d0"), ch("d1")} : std::string{ch("d1")};
        std::string month{ch("m0"), ch("m1"), ch("m2")};
        std::string year = year4 ? std::string{ch("y0"), ch("y1"), ch("y2"), ch("y3")} : std::string{ch("y2"), ch("y3")};
        std::string tim{ch("h0"), ch("h1"), ':', ch("mi0"), ch("mi1"), ':', ch("s0"), ch("s1")};
        std::string zone{ch("z0"), ch("z1"), ch("z2")};
        struct tm *r = parse_date_elements(heap(day + '\0', day.size() + 1), heap(month + '\0', 4), heap(year + '\0', year.size() + 1),
                                           heap(tim + '\0', 9), has_zone ? heap(zone + '\0', 4) : nullptr);
        int mday = atoi(day.c_str()), mon = spec::spec_month(month[0], month[1], month[2]);
        int yy = atoi(year.c_str() + (year4 ? 2 : 0));
        int yr = year4 ? atoi(year.c_str()) - 1900 : (yy < 70 ? yy + 100 : yy);
        int hour = atoi(tim.substr(0, 2).c_str()), min = atoi(tim.substr(3, 2).c_str()), sec = atoi(tim.substr(6, 2).c_str());
        bool gmt = !has_zone || zone == "GMT";
        bool accept = gmt && mon >= 0 && mday >= 1 && mday <= 31 && hour <= 23 && min <= 59 && sec <= 59;
        printf("parse_date_elements(\"%s\",\"%s\",\"%s\",\"%s\",%s%s) = %s", day.c_str(), month.c_str(), year.c_str(), tim.c_str(),
               has_zone ? "zone " : "no zone", has_zone ? zone.c_str() : "", r ? "tm" : "NULL\n");
        if (r) printf(" {mday=%d mon=%d year=%d %02d:%02d:%02d}\n", r->tm_mday, r->tm_mon, r->tm_year, r->tm_hour, r->tm_min, r->tm_sec);
        if ((r != nullptr) != accept) RP_FAIL("accepted != (GMT/absent zone, month name, fields in range)");
        if (r && !(r->tm_mday == mday && r->tm_mon == mon && r->tm_year == yr && r->tm_hour == hour && r->tm_min == min && r->tm_sec == sec))
            RP_FAIL("extracted fields differ from the denoted ones (want mday=%d mon=%d year=%d %02d:%02d:%02d)", mday, mon, yr, hour, min, sec);
        RP_OK("parse_date_elements");
    }
    return 2;
}
