/* Sidecar contracts for the field-extraction half of src/time/rfc1123.cc (month_names, make_num, make_month, tmSaneValues,
 * parse_date_elements: sliced from the real file, C mode).  C35: "whenever Squid accepts a date string in IMF-fixdate,
 * RFC 850 or asctime form, the time it returns is the one the string denotes" -- here: the broken-down fields that
 * parse_date_elements hands to timegm() are the fields the five tokens denote.  strtok tokenisation (parse_date) and the libc
 * calendar (timegm/gmtime/strftime) are NOT under contract. */
#include <stddef.h>
#include <stdlib.h>
#include <string.h>
#include <time.h>

int make_num(const char *s);
int make_month(const char *s);
int tmSaneValues(struct tm *tm);
struct tm *parse_date_elements(const char *day, const char *month, const char *year, const char *aTime, const char *zone);

#define IS_DIGIT(c) ((c) >= '0' && (c) <= '9')
/* RFC 9110 5.6.7: month = %s"Jan" / ... ; Squid accepts any case of the three letters ("case rule as coded":
 * first letter upper-cased, the other two lower-cased, in the C locale) */
static int spec_up(int c) { return (c >= 'a' && c <= 'z') ? c - 32 : c; }
static int spec_lo(int c) { return (c >= 'A' && c <= 'Z') ? c + 32 : c; }
static int spec_month(char a, char b, char c)
{
    int x = spec_up((unsigned char)a), y = spec_lo((unsigned char)b), z = spec_lo((unsigned char)c);
    if (x == 'J' && y == 'a' && z == 'n') return 0;
    if (x == 'F' && y == 'e' && z == 'b') return 1;
    if (x == 'M' && y == 'a' && z == 'r') return 2;
    if (x == 'A' && y == 'p' && z == 'r') return 3;
    if (x == 'M' && y == 'a' && z == 'y') return 4;
    if (x == 'J' && y == 'u' && z == 'n') return 5;
    if (x == 'J' && y == 'u' && z == 'l') return 6;
    if (x == 'A' && y == 'u' && z == 'g') return 7;
    if (x == 'S' && y == 'e' && z == 'p') return 8;
    if (x == 'O' && y == 'c' && z == 't') return 9;
    if (x == 'N' && y == 'o' && z == 'v') return 10;
    if (x == 'D' && y == 'e' && z == 'c') return 11;
    return -1;
}

#ifndef CV_NATIVE
/* ---------- make_num: two characters of an hour field ---------- */
#if defined(T_MAKE_NUM)
void h_make_num(void)
{
    /* requires: s has at least two readable bytes (every caller passes a token that starts with a digit and contains ':') */
    char *s = malloc(2);
    __CPROVER_assume(s != NULL);
    char c0, c1; s[0] = c0; s[1] = c1;
    int r = make_num(s);
#ifdef TWIN_MAKE_NUM
    __CPROVER_assert(!(IS_DIGIT(c0) && IS_DIGIT(c1)) || r != 10 * (c0 - '0') + (c1 - '0'), "ensures: TWIN (negated)");
#else
    __CPROVER_assert(!(IS_DIGIT(c0) && IS_DIGIT(c1)) || r == 10 * (c0 - '0') + (c1 - '0'), "ensures: two digits denote 10*a+b");
#endif
    __CPROVER_assert(!(!IS_DIGIT(c0) && IS_DIGIT(c1)) || r == c1 - '0', "ensures: a non-digit (space) followed by a digit denotes that digit");
    __CPROVER_assert(!(IS_DIGIT(c0) && IS_DIGIT(c1)) || (r >= 0 && r <= 99), "ensures: range of a two-digit field");
#ifdef REACH
    __CPROVER_assert(!(r == 23), "reach: 23");
    __CPROVER_assert(!(!IS_DIGIT(c0) && r == 8), "reach: ' 8'");
#endif
}
#endif

/* ---------- make_month: any NUL-terminated string in an exact-size block (reads never pass the terminator) ---------- */
#if defined(T_MAKE_MONTH)
void h_make_month(void)
{
    size_t n;                                   /* block size: strlen + 1, 1..4; or 3 unterminated letters + 1 byte of something else */
    __CPROVER_assume(n >= 1 && n <= 4);
    char *s = malloc(n);
    __CPROVER_assume(s != NULL);
    __CPROVER_assume(n == 4 || s[n - 1] == 0); /* shorter than three characters => terminated inside the block */
    int r = make_month(s);
    int want = (n >= 3 && s[0] != 0 && s[1] != 0) ? spec_month(s[0], s[1], s[2]) : -1;
#ifdef TWIN_MAKE_MONTH
    __CPROVER_assert(r != want, "ensures: TWIN (negated)");
#else
    __CPROVER_assert(r == want, "ensures: month index 0..11 <=> the first three characters spell a month name in any case; otherwise -1");
#endif
    __CPROVER_assert(r >= -1 && r <= 11, "ensures: range");
#ifdef REACH
    __CPROVER_assert(!(r == 10 && s[0] == 'n'), "reach: nov in lower case");
    __CPROVER_assert(!(r == -1 && n == 1), "reach: empty string");
    __CPROVER_assert(!(r == -1 && n == 2), "reach: one character");
    __CPROVER_assert(!(r == 4), "reach: May");
#endif
}
#endif

/* ---------- tmSaneValues ---------- */
#if defined(T_SANE)
void h_sane(void)
{
    struct tm t, t0;
    t0 = t;
    int r = tmSaneValues(&t);
    int want = t0.tm_sec >= 0 && t0.tm_sec <= 59 && t0.tm_min >= 0 && t0.tm_min <= 59 && t0.tm_hour >= 0 && t0.tm_hour <= 23 &&
               t0.tm_mday >= 1 && t0.tm_mday <= 31 && t0.tm_mon >= 0 && t0.tm_mon <= 11;
#ifdef TWIN_SANE
    __CPROVER_assert(r != want, "ensures: TWIN (negated)");
#else
    __CPROVER_assert(r == want, "ensures: 1 <=> sec,min in 0..59, hour in 0..23, mday in 1..31, mon in 0..11; else 0");
#endif
    __CPROVER_assert(t.tm_sec == t0.tm_sec && t.tm_min == t0.tm_min && t.tm_hour == t0.tm_hour && t.tm_mday == t0.tm_mday &&
                     t.tm_mon == t0.tm_mon && t.tm_year == t0.tm_year, "ensures: argument not written");
#ifdef REACH
    __CPROVER_assert(!(r == 1), "reach: sane");
    __CPROVER_assert(!(r == 0 && t0.tm_sec == 60), "reach: leap second rejected");
    __CPROVER_assert(!(r == 0 && t0.tm_mday == 0), "reach: day 0 rejected");
#endif
}
#endif

/* ---------- parse_date_elements on the element shapes of the three grammars ----------
 * day "DD" | "D";  month three letters;  year "YYYY" | "YY";  time "HH:MM:SS";  zone absent | any 3 characters
 * (IMF-fixdate  Sun, 06 Nov 1994 08:49:37 GMT;  RFC 850  Sunday, 06-Nov-94 08:49:37 GMT;  asctime  Sun Nov  6 08:49:37 1994) */
#if defined(T_ELEMENTS)
static char *blk(size_t n) { char *p = malloc(n); __CPROVER_assume(p != NULL); return p; }
void h_elements(void)
{
    _Bool day2, year4, has_zone;
    char d0, d1, m0, m1, m2, y0, y1, y2, y3, h0, h1, mi0, mi1, s0, s1, z0, z1, z2;
    __CPROVER_assume(IS_DIGIT(d0) && IS_DIGIT(d1) && IS_DIGIT(y0) && IS_DIGIT(y1) && IS_DIGIT(y2) && IS_DIGIT(y3));
    __CPROVER_assume(IS_DIGIT(h0) && IS_DIGIT(h1) && IS_DIGIT(mi0) && IS_DIGIT(mi1) && IS_DIGIT(s0) && IS_DIGIT(s1));
    __CPROVER_assume(m0 != 0 && m1 != 0 && m2 != 0 && z0 != 0 && z1 != 0 && z2 != 0);
    /* exact-size heap blocks: any read past a terminator is a failed pointer check */
    char *day = blk(day2 ? 3 : 2);
    if (day2) { day[0] = d0; day[1] = d1; day[2] = 0; } else { day[0] = d1; day[1] = 0; }
    char *month = blk(4); month[0] = m0; month[1] = m1; month[2] = m2; month[3] = 0;
    char *year = blk(year4 ? 5 : 3);
    if (year4) { year[0] = y0; year[1] = y1; year[2] = y2; year[3] = y3; year[4] = 0; } else { year[0] = y2; year[1] = y3; year[2] = 0; }
    char *tim = blk(9);
    tim[0] = h0; tim[1] = h1; tim[2] = ':'; tim[3] = mi0; tim[4] = mi1; tim[5] = ':'; tim[6] = s0; tim[7] = s1; tim[8] = 0;
    char *zone = NULL;
    if (has_zone) { zone = blk(4); zone[0] = z0; zone[1] = z1; zone[2] = z2; zone[3] = 0; }

    struct tm *r = parse_date_elements(day, month, year, tim, zone);

    int mday = day2 ? 10 * (d0 - '0') + (d1 - '0') : d1 - '0';
    int mon = spec_month(m0, m1, m2);
    int yy = 10 * (y2 - '0') + (y3 - '0');
    int yr = year4 ? 1000 * (y0 - '0') + 100 * (y1 - '0') + yy - 1900 : (yy < 70 ? yy + 100 : yy);   /* two-digit pivot at 70 */
    int hour = 10 * (h0 - '0') + (h1 - '0'), min = 10 * (mi0 - '0') + (mi1 - '0'), sec = 10 * (s0 - '0') + (s1 - '0');
    int gmt = !has_zone || (z0 == 'G' && z1 == 'M' && z2 == 'T');
    int accept = gmt && mon >= 0 && mday >= 1 && mday <= 31 && hour <= 23 && min <= 59 && sec <= 59;
#ifdef TWIN_ELEMENTS
    __CPROVER_assert(!(r != NULL) || !(r->tm_mday == mday && r->tm_mon == mon && r->tm_year == yr), "ensures: TWIN (negated) date fields");
#else
    __CPROVER_assert(!(r != NULL) || (r->tm_mday == mday && r->tm_mon == mon && r->tm_year == yr), "ensures: accepted => day, month, year are the denoted ones (2-digit year pivot at 70)");
#endif
    __CPROVER_assert(!(r != NULL) || (r->tm_hour == hour && r->tm_min == min && r->tm_sec == sec), "ensures: accepted => hour, minute, second are the denoted ones");
    __CPROVER_assert(!(r != NULL) || (r->tm_wday == 0 && r->tm_yday == 0 && r->tm_isdst == 0), "ensures: accepted => no other field is set");
    __CPROVER_assert(!(has_zone && !gmt) || r == NULL, "ensures: a zone other than GMT is rejected");
    __CPROVER_assert((r != NULL) == (accept != 0), "ensures: accepted <=> GMT/absent zone, a month name, and fields in range");
#ifdef REACH
    __CPROVER_assert(!(r != NULL && year4 && r->tm_year == 94 && r->tm_mon == 10 && r->tm_mday == 6), "reach: 06 Nov 1994");
    __CPROVER_assert(!(r != NULL && !year4 && r->tm_year == 137), "reach: two-digit year 37 -> 2037");
    __CPROVER_assert(!(r != NULL && !year4 && r->tm_year == 70), "reach: two-digit year 70 -> 1970");
    __CPROVER_assert(!(r != NULL && !day2), "reach: one-digit day (asctime)");
    __CPROVER_assert(!(r == NULL && gmt && mon >= 0), "reach: rejected by the range check");
    __CPROVER_assert(!(r == NULL && has_zone && !gmt), "reach: rejected zone");
#endif
}
#endif
#endif /* CV_NATIVE */
