// Wrapper TU of the hdrrange unit (C++ front end).  Real text, extracted on every run into the build dir:
//   minmax.h        min()/max() templates of compat/compat_shared.h
//   Range.h         src/base/Range.h (two #include lines dropped)
//   spec_class.h    class HttpHdrRangeSpec of src/HttpHeaderRange.h
//   offset_decl.h   declaration of httpHeaderParseOffset from src/HttpHeaderTools.h
//   spec_slices.cc  known_spec(), UnknownPosition, constructor, parseInit, canonize, mergeWith of src/HttpHdrRange.cc
//   (native replay only) offset_slice.cc  httpHeaderParseOffset of src/HttpHeaderTools.cc
#include "stubs.h"
#include "minmax.h"
#include "Range.h"
#include "spec_class.h"
#include "offset_decl.h"

/* members of HttpHdrRangeSpec that are declared by the real class but not sliced */
void HttpHdrRangeSpec::outputInfo(char const *) const {}   /* only feeds debugs() */

#include "spec_slices.cc"

extern "C" {
/* assumed contract of httpHeaderParseOffset (verified separately under C27): supplied by the harness */
int cv_parse_offset(const char *start, int64_t *value);
}
#ifdef CV_REAL_OFFSET_PARSER
#include "offset_slice.cc"
#else
bool httpHeaderParseOffset(const char *start, int64_t *offPtr, char **endPtr)
{
    (void)endPtr;                       /* the sliced callers never pass endPtr */
    return cv_parse_offset(start, offPtr) != 0;
}
#endif

extern "C" {
int w_parse(const char *field, int flen, int64_t *offset, int64_t *length)
{
    HttpHdrRangeSpec spec;              /* as HttpHdrRangeSpec::Create does: fresh object, then parseInit */
    *offset = spec.offset;
    *length = spec.length;
    const bool r = spec.parseInit(field, flen);
    *offset = spec.offset;
    *length = spec.length;
    return r;
}
int w_fresh_ok(void)
{
    HttpHdrRangeSpec spec;
    return spec.offset == -1 && spec.length == -1 && HttpHdrRangeSpec::UnknownPosition == -1;
}
int w_canonize(int64_t *offset, int64_t *length, int64_t clen)
{
    HttpHdrRangeSpec spec;
    spec.offset = *offset;
    spec.length = *length;
    const int r = spec.canonize(clen);
    *offset = spec.offset;
    *length = spec.length;
    return r;
}
void w_isect64(int64_t a, int64_t b, int64_t c, int64_t d, int64_t *s, int64_t *e)
{
    HttpHdrRangeSpec::HttpRange x(a, b), y(c, d);
    HttpHdrRangeSpec::HttpRange r = x.intersection(y);
    *s = r.start;
    *e = r.end;
}
uint64_t w_size64(int64_t a, int64_t b)
{
    HttpHdrRangeSpec::HttpRange x(a, b);
    return x.size();
}
int w_merge(int64_t *o1, int64_t *l1, int64_t *o2, int64_t *l2)
{
    HttpHdrRangeSpec a, b;
    a.offset = *o1; a.length = *l1; b.offset = *o2; b.length = *l2;
    const bool r = a.mergeWith(&b);
    *o1 = a.offset; *l1 = a.length; *o2 = b.offset; *l2 = b.length;
    return r;
}
}
