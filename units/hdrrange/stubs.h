/* Stub surroundings for the HttpHdrRangeSpec slices (trusted; listed in unit.json "trusted"). */
#ifndef HDRRANGE_STUBS_H
#define HDRRANGE_STUBS_H

#ifdef CV_NATIVE
#include <cstddef>
#include <cstdint>
#include <cstdio>
#include <cstdlib>
#include <cstring>
#include <cerrno>
#include <climits>
#include <ostream>
#define CV_CHECK(c, msg) do { if (!(c)) { printf("REPLAY-FAIL: %s\n", msg); exit(1); } } while (0)
#else
typedef unsigned long size_t;
typedef long int64_t;
typedef unsigned long uint64_t;
#define INT64_MAX 9223372036854775807L   /* <cstdint>; not used by today's text, lets a repair of F2 compile */
namespace std { class ostream; }     /* Range.h's operator<< template is never instantiated here */
extern "C" char *strchr(const char *, int);
#define CV_CHECK(c, msg) __CPROVER_assert((c), msg)
#endif
#define assert(c) CV_CHECK((c), "assert(" #c ")")

/* what src/HttpHdrRange.cc gets from its includes, as far as the sliced bodies touch it */
#define debugs(section, level, text) ((void)0)
#define MEMPROXY_CLASS(C) typedef int cv_memproxy_dropped_
class Packable;
#endif
