// Native replay for the hdrrange unit: the same extracted real text (HttpHdrRangeSpec slices, class declaration,
// Range.h, min/max from the current tree, in the build dir) compiled natively with ASan+UBSan over the same stubs.
//   mode parse    : field bytes / flen / results of the two httpHeaderParseOffset calls from the counterexample
//                   (cex keys field, flen, ok0, ok1, v0, v1);  with a key  text=<range-spec>  instead, the field is
//                   that text and the numbers come from the REAL httpHeaderParseOffset (sliced from HttpHeaderTools.cc)
//   mode canonize : off, len, clen        mode merge : o1, l1, o2, l2
// exit 0 = postconditions hold; non-zero = violated, or the sanitizer aborted (signed overflow = UB).
#include "replay.h"
#include <climits>
#include <string>
#include "wrap.cc"

typedef __int128 wide;
static std::string show(wide v)
{
    if (v == 0) return "0";
    bool neg = v < 0; std::string s; unsigned __int128 u = neg ? -(unsigned __int128)v : (unsigned __int128)v;
    while (u) { s.insert(s.begin(), char('0' + (int)(u % 10))); u /= 10; }
    return (neg ? "-" : "") + s;
}

/* the real offset parser under another name (the unit's wrap.cc defines httpHeaderParseOffset as the hook) */
#define httpHeaderParseOffset real_httpHeaderParseOffset
#include "offset_slice.cc"
#undef httpHeaderParseOffset

static bool use_real;
static const char *po_arg[2]; static bool po_ok[2]; static int64_t po_val[2]; static int po_calls;
extern "C" int cv_parse_offset(const char *start, int64_t *value)
{
    int k = po_calls++ & 1;
    po_arg[k] = start;
    if (use_real) {
        int64_t v = 0;
        po_ok[k] = real_httpHeaderParseOffset(start, &v, nullptr);
        po_val[k] = v;
    }
    if (!po_ok[k]) return 0;
    *value = po_val[k];
    return 1;
}

int main(int argc, char **argv)
{
    if (argc < 3) return 2;
    std::string mode = argv[1];
    Cex c; if (!c.load(argv[2])) return 2;
    if (mode == "parse") {
        std::string field;
        int flen;
        if (c.has("text")) {
            use_real = true;
            field = c.kv["text"];
            flen = (int)field.size();
        } else {
            for (auto x : c.arr("field")) { if (x == 0) break; field.push_back((char)x); }
            flen = (int)c.num("flen");
            po_ok[0] = c.num("ok0") != 0; po_ok[1] = c.num("ok1") != 0;
            po_val[0] = c.num("v0"); po_val[1] = c.num("v1");
        }
        std::vector<char> buf(field.begin(), field.end()); buf.push_back(0);
        printf("range-spec \"%s\" flen=%d%s\n", field.c_str(), flen, use_real ? " (numbers from the real httpHeaderParseOffset)" : "");
        if (!use_real) printf("  assumed offset-parser results: #1 ok=%d value=%ld, #2 ok=%d value=%ld  (as in \"bytes=%ld-%ld\")\n",
                              (int)po_ok[0], (long)po_val[0], (int)po_ok[1], (long)po_val[1], (long)po_val[0], (long)po_val[1]);
        fflush(stdout);
        int64_t off = 0, len = 0;
        const int r = w_parse(buf.data(), flen, &off, &len);      // UBSan aborts here on last_pos + 1
        printf("  parseInit -> %d, offset=%ld length=%ld\n", r, (long)off, (long)len);
        const bool ok0 = po_ok[0], ok1 = po_ok[1]; const int64_t v0 = po_val[0], v1 = po_val[1];
        size_t d = field.find('-');
        int dash = d == std::string::npos ? -1 : (int)d;
        int kind = 0;
        if (flen >= 2) {
            if (field.size() && field[0] == '-') { if (ok0 && v0 >= 0) kind = 1; }
            else if (dash >= 0 && dash < flen) {
                if (ok0 && v0 >= 0) {
                    if (dash + 1 < flen) { if (ok1 && v1 >= 0 && v1 >= v0) kind = v1 < INT64_MAX ? 3 : 4; }
                    else kind = 2;
                }
            }
        }
        if (kind != 4 && (r != 0) != (kind != 0)) RP_FAIL("accept/reject differs from the grammar (kind %d)", kind);
        if (kind == 1 && !(off == -1 && len == v0)) RP_FAIL("suffix spec not stored as (-1, length)");
        if (kind == 2 && !(off == v0 && len == -1)) RP_FAIL("open spec not stored as (first, -1)");
        if (kind == 3 && !(off == v0 && (wide)len == (wide)v1 - v0 + 1)) RP_FAIL("closed spec: length != last - first + 1");
        if (kind == 4 && !(r == 0 || (off == v0 && len > 0 && ((wide)len == (wide)v1 - v0 + 1 || (wide)len == (wide)v1 - v0))))
            RP_FAIL("last-byte-pos == INT64_MAX: accepted with a wrong length %ld (expected %s or rejection)", (long)len, show((wide)v1 - v0 + 1).c_str());
        RP_OK("parseInit contract holds on this input");
    }
    if (mode == "canonize") {
        int64_t off = c.num("off"), len = c.num("len"), clen = c.num("clen");
        bool suffix = off == -1 && len >= 0, open = off >= 0 && len == -1;
        bool closed = off >= 0 && len >= 0 && (wide)off + len <= (wide)INT64_MAX;
        if (clen < 0 || !(suffix || open || closed)) RP_OK("input outside the precondition");
        wide lo, hi;
        if (suffix) { lo = (wide)clen - len; if (lo < 0) lo = 0; hi = clen; }
        else if (open) { lo = off; hi = clen; if (hi < lo) hi = lo; }
        else { lo = off; hi = (wide)off + len; }
        wide ilo = lo < 0 ? 0 : lo, ihi = hi < (wide)clen ? hi : (wide)clen;
        bool nonempty = ilo < ihi;
        int64_t o2 = off, l2 = len;
        printf("spec (offset=%ld, length=%ld) clen=%ld\n", (long)off, (long)len, (long)clen); fflush(stdout);
        int r = w_canonize(&o2, &l2, clen);
        printf("  canonize -> %d, offset=%ld length=%ld; requested bytes within the body: [%s, %s)\n", r, (long)o2, (long)l2, show(ilo).c_str(), show(ihi).c_str());
        if ((r != 0) != nonempty) RP_FAIL("result differs from satisfiability");
        if (nonempty && !((wide)o2 == ilo && (wide)o2 + l2 == ihi && l2 > 0)) RP_FAIL("canonical range differs from the requested bytes within the body");
        RP_OK("canonize contract holds on this input");
    }
    if (mode == "range64") {
        int64_t a = c.num("a"), b = c.num("b"), cc = c.num("c"), d = c.num("d"), s, e;
        w_isect64(a, b, cc, d, &s, &e);
        if (s != (a > cc ? a : cc) || e != (b < d ? b : d)) RP_FAIL("intersection is not [max(starts), min(ends))");
        int64_t p = c.num("p"), q = c.num("q");
        if ((wide)q - p <= (wide)INT64_MAX) {
            uint64_t z = w_size64(p, q);
            printf("size([%ld,%ld)) = %lu\n", (long)p, (long)q, (unsigned long)z);
            if ((wide)z != (q > p ? (wide)q - p : (wide)0)) RP_FAIL("size is not end - start");
        }
        RP_OK("Range<int64_t,uint64_t> lemmas hold");
    }
    if (mode == "merge") {
        int64_t o1 = c.num("o1"), l1 = c.num("l1"), o2 = c.num("o2"), l2 = c.num("l2");
        int64_t a = o1, b = l1, cc = o2, d = l2;
        int r = w_merge(&a, &b, &cc, &d);
        printf("mergeWith((%ld,%ld),(%ld,%ld)) -> %d\n", (long)o1, (long)l1, (long)o2, (long)l2, r);
        if (r != 0 || a != o1 || b != l1 || cc != o2 || d != l2) RP_FAIL("mergeWith merged or changed a spec");
        RP_OK("mergeWith contract holds");
    }
    return 2;
}
