/* Harness-encoded contracts for the hdrrange unit (property C28: "the canonical ranges are non-empty, lie within the
 * representation and cover exactly the bytes requested by the satisfiable specs ... no input triggers arithmetic
 * overflow").  Code under test: the real text of HttpHdrRangeSpec::parseInit / canonize / mergeWith
 * (src/HttpHdrRange.cc) over the real Range<int64_t,uint64_t> (src/base/Range.h), compiled in wrap.cc. */
#include <stddef.h>
#include <stdint.h>
#include <limits.h>

#ifndef N
#define N 12        /* field buffer: NUL-terminated strings shorter than N bytes */
#endif

int w_parse(const char *field, int flen, int64_t *offset, int64_t *length);
int w_fresh_ok(void);
int w_canonize(int64_t *offset, int64_t *length, int64_t clen);
int w_merge(int64_t *o1, int64_t *l1, int64_t *o2, int64_t *l2);

typedef __int128 wide;

#ifdef TWIN
#define ENS(c, msg) __CPROVER_assert(!(c), "ensures: TWIN (negated) " msg)
#else
#define ENS(c, msg) __CPROVER_assert((c), "ensures: " msg)
#endif
#ifdef REACH
#define RCH(c, msg) __CPROVER_assert(!(c), "reach: " msg)
#else
#define RCH(c, msg)
#endif

/* ---- assumed contract of httpHeaderParseOffset (C27 verifies the real one): fails, or stores some int64 ---- */
static const char *po_arg[2];
static _Bool po_ok[2];
static int64_t po_val[2];
static int po_calls;
int cv_parse_offset(const char *start, int64_t *value)
{
    __CPROVER_assert(po_calls < 2, "httpHeaderParseOffset is called at most twice per spec");
    int k = po_calls++ & 1;
    po_arg[k] = start;
    if (!po_ok[k]) return 0;
    *value = po_val[k];
    return 1;
}

/* ---------- HttpHdrRangeSpec::parseInit ---------- */
#ifdef T_PARSE
void h_parse(void)
{
    char field[N];
    int flen;
    _Bool ok0, ok1;
    int64_t v0, v1;
    field[N - 1] = 0;
    po_ok[0] = ok0; po_ok[1] = ok1; po_val[0] = v0; po_val[1] = v1; po_calls = 0;
    __CPROVER_assert(w_fresh_ok(), "ensures: a fresh spec has offset == length == UnknownPosition == -1");

    int64_t off, len;
    int r = w_parse(field, flen, &off, &len);

    /* specification, from the grammar in the file's head comment and the property statement */
    int dash = -1;
    for (int j = 0; j < N; j++) {
        if (field[j] == 0) break;
        if (field[j] == '-') { dash = j; break; }
    }
    int kind = 0;             /* 0 invalid, 1 suffix, 2 open, 3 closed, 4 closed with last-byte-pos == INT64_MAX (F2 zone) */
    if (flen >= 2) {
        if (field[0] == '-') {
            if (ok0 && v0 >= 0) kind = 1;
        } else if (dash >= 0 && dash < flen) {
            if (ok0 && v0 >= 0) {
                if (dash + 1 < flen) {
                    if (ok1 && v1 >= 0 && v1 >= v0) kind = v1 < INT64_MAX ? 3 : 4;
                } else
                    kind = 2;
            }
        }
    }
    if (kind != 4)
        ENS((r != 0) == (kind != 0), "parseInit accepts exactly suffix / open / closed specs whose numbers parse and are ordered");
    if (kind == 1) {
        ENS(po_arg[0] == field + 1 && po_calls == 1, "suffix: the length is read from behind the '-'");
        ENS(off == -1 && len == v0, "suffix spec: offset == -1, length == suffix-length");
    }
    if (kind == 2) {
        ENS(po_arg[0] == field && po_calls == 1, "open: first-byte-pos is read from the start of the field");
        ENS(off == v0 && len == -1, "open spec: offset == first-byte-pos, length == -1");
    }
    if (kind == 3) {
        ENS(po_arg[0] == field && po_arg[1] == field + dash + 1 && po_calls == 2, "closed: both positions are read, the second from behind the '-'");
        ENS(off == v0 && (wide)len == (wide)v1 - (wide)v0 + 1, "closed spec: offset == first-byte-pos, length == last - first + 1");
    }
    if (kind == 4) {
        /* candidate defect F2: last - first + 1 may not fit and last_pos + 1 overflows.  No body has a byte at position
         * INT64_MAX, so a repair may reject the spec or stop one byte short; it must not produce anything else. */
        ENS(r == 0 || (off == v0 && ((wide)len == (wide)v1 - (wide)v0 + 1 || (wide)len == (wide)v1 - (wide)v0) && len > 0),
            "F2 zone (last-byte-pos == INT64_MAX): rejected, or offset == first and length covers first..INT64_MAX-1 at least");
    }
    RCH(kind == 1 && r, "suffix spec accepted");
    RCH(kind == 2 && r, "open spec accepted");
    RCH(kind == 3 && r && v1 > v0, "closed spec accepted");
    RCH(kind == 3 && v1 == INT64_MAX - 1 && v0 == 0, "closed spec 0-(INT64_MAX-1): the widest that fits");
    RCH(!r && flen >= 2 && dash >= flen, "the only '-' lies beyond flen: rejected");
    RCH(!r && ok0 && ok1 && v1 < v0 && dash > 0 && dash + 1 < flen, "last-byte-pos < first-byte-pos rejected");
    RCH(!r && flen < 2, "too short");
}
#endif

/* ---------- HttpHdrRangeSpec::canonize (complete: loop-free) ---------- */
#ifdef T_CANONIZE
void h_canonize(void)
{
    int64_t off, len, clen;
    __CPROVER_assume(clen >= 0);
    /* well-formed spec = what parseInit produces */
    _Bool suffix = off == -1 && len >= 0;
    _Bool open = off >= 0 && len == -1;
    _Bool closed = off >= 0 && len >= 0 && (wide)off + (wide)len <= (wide)INT64_MAX;
    __CPROVER_assume(suffix || open || closed);
    /* the requested byte set R = [lo, hi) as a mathematical interval (may reach beyond clen) */
    wide lo, hi;
    if (suffix) { lo = (wide)clen - (wide)len; if (lo < 0) lo = 0; hi = clen; }
    else if (open) { lo = off; hi = clen; if (hi < lo) hi = lo; }
    else { lo = off; hi = (wide)off + (wide)len; }
    /* R intersected with the representation [0, clen) */
    wide ilo = lo < 0 ? 0 : lo, ihi = hi < (wide)clen ? hi : (wide)clen;
    _Bool nonempty = ilo < ihi;

    int64_t o2 = off, l2 = len;
    int r = w_canonize(&o2, &l2, clen);

    ENS((r != 0) == nonempty, "canonize returns non-zero <=> the requested bytes meet [0, clen)");
    if (nonempty) {
        ENS((wide)o2 == ilo && (wide)o2 + (wide)l2 == ihi, "[offset, offset+length) == requested bytes intersected with [0, clen), exactly");
        ENS(l2 > 0 && o2 >= 0 && (wide)o2 + (wide)l2 <= (wide)clen, "the canonical range is non-empty and lies within the representation");
    }
    RCH(suffix && r && len > clen, "suffix longer than the representation: whole body");
    RCH(suffix && !r && clen > 0, "suffix of length 0 is unsatisfiable");
    RCH(open && r, "open range satisfiable");
    RCH(open && !r && clen > 0, "open range starting at or after the end");
    RCH(closed && r && (wide)off + (wide)len > (wide)clen, "closed range clipped to the representation");
    RCH(closed && r && off == INT64_MAX - 1, "63-bit extreme offset");
    RCH(closed && !r && len > 0, "closed range entirely behind the end");
}
#endif

/* ---------- Range<int64_t,uint64_t>::intersection / size (complete) ---------- */
#ifdef T_RANGE64
void w_isect64(int64_t a, int64_t b, int64_t c, int64_t d, int64_t *s, int64_t *e);
uint64_t w_size64(int64_t a, int64_t b);
void h_range64(void)
{
    int64_t a, b, c, d, s, e;
    w_isect64(a, b, c, d, &s, &e);
    ENS(s == (a > c ? a : c) && e == (b < d ? b : d), "intersection == [max(starts), min(ends))");
    int64_t p, q;
    /* size() computes end - start in int64_t: precondition = the width fits (canonize only measures sub-ranges of [0, clen)) */
    __CPROVER_assume((wide)q - (wide)p <= (wide)INT64_MAX);
    uint64_t z = w_size64(p, q);
    ENS((wide)z == (q > p ? (wide)q - (wide)p : (wide)0), "size == end - start for start < end, else 0 (64-bit, no truncation)");
    RCH(z == (uint64_t)INT64_MAX, "widest range [0, INT64_MAX)");
    RCH(z == 0 && q < p, "reversed range is empty");
    RCH(s > e, "disjoint operands give a reversed (empty) intersection");
}
#endif

/* ---------- HttpHdrRangeSpec::mergeWith: MERGING_BREAKS_NOTHING is defined nowhere => no merging ---------- */
#ifdef T_MERGE
void h_merge(void)
{
    int64_t o1, l1, o2, l2;
    int64_t a = o1, b = l1, c = o2, d = l2;
    int r = w_merge(&a, &b, &c, &d);
    ENS(r == 0, "mergeWith returns false (merging is compiled out)");
    ENS(a == o1 && b == l1 && c == o2 && d == l2, "mergeWith changes neither spec");
    RCH(o1 <= o2 && o2 < o1 + 5 && l1 == 5 && l2 == 5 && o1 > 0 && o1 < 100, "overlapping canonical specs are left unmerged");
    RCH(o1 == -1, "arbitrary (even non-canonical) specs");
}
#endif
