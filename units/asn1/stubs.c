/* Assumed model of the one external function lib/snmplib/asn1.c calls: snmp_set_api_error (lib/snmplib/snmp_api_error.c).
 * The real definition is literally `int snmp_errno = 0; void snmp_set_api_error(int x) { snmp_errno = x; }`;
 * it is repeated here (trusted, listed in unit.json) so that the BER layer is verified without the rest of snmplib. */
int snmp_errno = 0;
void snmp_set_api_error(int x) { snmp_errno = x; }

#ifdef CV_OWN_MEMCPY
/* Assumed model of memcpy for the asn_parse_string target only: a plain byte loop (closed by a loop contract in loops.json).
 * CBMC's built-in memcpy model (array_copy/array_replace of a symbolic number of bytes between objects of symbolic
 * size) does not finish under --dfcc.  The loop body is safety-instrumented like the real code, so an out-of-bounds
 * source or destination is reported inside this function. */
#include <stddef.h>
extern size_t g;
void *memcpy(void *dst, const void *src, size_t n)
{
    unsigned char *d = (unsigned char *)dst;
    const unsigned char *s = (const unsigned char *)src;
    for (size_t i = 0; i < n; i++)
        d[i] = s[i];
    return dst;
}
#endif
