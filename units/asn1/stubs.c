/* Assumed model of the one external function lib/snmplib/asn1.c calls: snmp_set_api_error (lib/snmplib/snmp_api_error.c).
 * The real definition is literally `int snmp_errno = 0; void snmp_set_api_error(int x) { snmp_errno = x; }`;
 * it is repeated here (trusted, listed in unit.json) so that the BER layer is verified without the rest of snmplib. */
int snmp_errno = 0;
void snmp_set_api_error(int x) { snmp_errno = x; }
