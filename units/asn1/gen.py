#!/usr/bin/env python3
"""asn1/gen.py -- run by the driver at extraction time.
Reads the REAL caller of the SNMP decoder (src/snmp_core.cc snmpHandleUdp) and computes the slack it guarantees behind a
received datagram: sizeof(receive buffer) - (largest length passed to comm_udp_recvfrom).  Writes <build>/caller_slack.h with
CV_REAL_CALLER_SLACK, which target pdu_decode_caller uses as CALLER_SLACK.  Any unexpected text shape => non-zero exit
(= extraction broke, exit 2 of the check)."""
import os, re, sys
repo = os.environ["VERIF_REPO"]; bdir = os.environ["VERIF_BUILD_DIR"]
h = open(os.path.join(repo, "src/snmp_core.h")).read()
c = open(os.path.join(repo, "src/snmp_core.cc")).read()
m = re.search(r"^#define SNMP_REQUEST_SIZE (\d+)\s*$", h, re.M)
if not m:
    sys.exit("gen.py: SNMP_REQUEST_SIZE not found in src/snmp_core.h")
req = int(m.group(1))
f = re.search(r"^snmpHandleUdp\(int sock, void \*\)\n\{(.*?)^\}", c, re.M | re.S)
if not f:
    sys.exit("gen.py: snmpHandleUdp not found")
body = f.group(1)
mb = re.findall(r"static char buf\[([^\]]+)\];", body)
mr = re.findall(r"comm_udp_recvfrom\(sock, buf, ([^,]+), 0, from\)", body)
if len(mb) != 1 or len(mr) != 1:
    sys.exit("gen.py: expected one receive buffer and one comm_udp_recvfrom call in snmpHandleUdp, found %d / %d" % (len(mb), len(mr)))
def ev(expr, size=None):
    e = expr.replace("SNMP_REQUEST_SIZE", str(req))
    if size is not None:
        e = e.replace("sizeof(buf)", str(size))
    if not re.fullmatch(r"[0-9+\-* ()]+", e):
        sys.exit("gen.py: cannot evaluate '%s'" % expr)
    return int(eval(e))
size = ev(mb[0])
maxlen = ev(mr[0], size)
slack = size - maxlen
if not re.search(r"memset\(buf, '\\0', sizeof\(buf\)\);", body):
    sys.exit("gen.py: the receive buffer is no longer cleared before each datagram")
open(os.path.join(bdir, "caller_slack.h"), "w").write(
    "/* generated from src/snmp_core.cc on this run: buf[%s] = %d bytes, at most %s = %d received */\n#define CV_REAL_CALLER_SLACK %d\n"
    % (mb[0], size, mr[0], maxlen, slack))
print("DROP: caller slack of snmpHandleUdp computed from its text: buf[%s] (%d bytes) - recv length %s (%d) = %d bytes" % (mb[0], size, mr[0], maxlen, slack))
