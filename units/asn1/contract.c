/* Sidecar contracts for lib/snmplib/asn1.c (the real file, compiled unmodified in C mode with the real headers).
 *
 * Property C39 (BER layer only): no datagram makes the parsers perform an out-of-bounds access.
 * Central contract of the five TLV parsers  asn_parse_header/int/unsigned_int/string/objid:
 *
 *   requires  data points at V = *datalength >= 0 valid bytes, inside an object with exactly
 *             NEED(V) = max(V + TAIL, HEAD) readable bytes from data            (slack = NEED(V) - V)
 *   ensures   every read and write is in bounds (safety obligations on the real body),
 *             result == NULL or result in [data, data + V],
 *             0 <= new *datalength <= V,  and (result - data) + new *datalength <= V   (the bytes still claimed stay valid),
 *             *strlength / *objidlength never exceed the caller's capacity.
 *
 * HEAD and TAIL are the *least* values for which the real code is memory safe (each target has must-fail twins with
 * HEAD-1 / TAIL-1 that fail at a pointer dereference of the real body):
 *   HEAD = 6      the type octet, the length octet and up to four long-form length octets are read BEFORE the
 *                 length is compared with *datalength  => with V < 6 the parser looks up to 6 - V bytes past the valid data.
 *   TAIL = 1      asn_parse_int / asn_parse_unsigned_int only: `if (*bufp & 0x80)` is evaluated even for a zero-length
 *                 INTEGER ("02 00") that ends exactly at data + V  => one byte past the valid data.
 *   asn_parse_length(data, &len): 5 readable bytes (length octet + four long-form octets).
 * The uniform least slack for all V >= 0 is therefore 6 bytes; snmpHandleUdp (src/snmp_core.cc) guarantees 1.
 */
#include <stddef.h>
#include <sys/types.h>
#include "asn1.h"

extern int snmp_errno;   /* written by snmp_set_api_error (stubs.c == the real one-liner) */

#ifndef LEN_NEED
#define LEN_NEED 5
#endif
#ifndef HEAD
#define HEAD 6
#endif
#ifndef TAIL
#define TAIL 0           /* header / string / objid */
#endif
#ifndef TAIL_INT
#define TAIL_INT 1       /* int / unsigned int */
#endif
#ifndef VMAX
#define VMAX 65535       /* largest *datalength considered (a UDP datagram; the real receive buffer holds 4095) */
#endif
#ifndef SMAX
#define SMAX 65535       /* largest string capacity considered */
#endif
#ifndef OMAX
#define OMAX 128         /* largest objid capacity considered (MAX_OID_LEN; callers use MAX_NAME_LEN = 64) */
#endif

#define NEED(v, tail) (((size_t)(v) + (tail)) > (size_t)(HEAD) ? ((size_t)(v) + (tail)) : (size_t)(HEAD))

/* ---------- specification of the BER length field (X.690 8.1.3, definite form, at most 4 length octets) ---------- */
static int sp_len_ok(const u_char *p)
{ return !(p[0] & 0x80) || ((p[0] & 0x7f) >= 1 && (p[0] & 0x7f) <= 4); }
static long sp_len_size(const u_char *p)
{ return (p[0] & 0x80) ? 1 + (long)(p[0] & 0x7f) : 1; }
static u_int sp_len_val(const u_char *p)
{
    if (!(p[0] & 0x80)) return p[0];
    u_int n = p[0] & 0x7f, v = 0;
    if (n >= 1) v = p[1];
    if (n >= 2) v = (v << 8) | p[2];
    if (n >= 3) v = (v << 8) | p[3];
    if (n >= 4) v = (v << 8) | p[4];
    return v;
}
/* a TLV at data: identifier octet, length field, contents; fits in V bytes and contents <= maxlen */
static long sp_hdr(const u_char *data) { return 1 + sp_len_size(data + 1); }
static int sp_tlv_ok(const u_char *data, long V, unsigned long maxlen)
{ return sp_len_ok(data + 1) && sp_hdr(data) + (long)sp_len_val(data + 1) <= V && sp_len_val(data + 1) <= maxlen; }
/* two's complement big-endian contents, n in 1..4 */
static int sp_int(const u_char *c, u_int n)
{
    u_int v = (c[0] & 0x80) ? 0xFFFFFFFFu : 0u;
    if (n >= 1) v = (v << 8) | c[0];
    if (n >= 2) v = (v << 8) | c[1];
    if (n >= 3) v = (v << 8) | c[2];
    if (n >= 4) v = (v << 8) | c[3];
    if (n >= 5) v = (v << 8) | c[4];
    return (int)v;
}

#define RET __CPROVER_return_value
#define OLD(x) __CPROVER_old(x)
/* the clauses of the property, shared by the five TLV parsers */
#define ENSURES_WINDOW \
    __CPROVER_ensures(0 <= *datalength && *datalength <= OLD(*datalength))                       /* never negative, never grows */ \
    __CPROVER_ensures(RET != NULL ==> (__CPROVER_same_object(RET, data) && RET - data >= 0 &&                               \
                                       (RET - data) + (long)*datalength <= (long)OLD(*datalength))) /* result and claimed rest inside [data, data+V] */

/* ---------- asn_parse_length ---------- */
u_char *asn_parse_length(u_char *data, u_int *length)
__CPROVER_requires(__CPROVER_is_fresh(data, LEN_NEED))
__CPROVER_requires(__CPROVER_is_fresh(length, sizeof(u_int)))
__CPROVER_assigns(*length, snmp_errno)
__CPROVER_ensures((RET == NULL) == !sp_len_ok(data))
__CPROVER_ensures(RET != NULL ==> (RET == data + sp_len_size(data) && *length == sp_len_val(data)))
#ifdef TWIN_LEN
__CPROVER_ensures(RET != NULL ==> *length != sp_len_val(data))
#endif
;

/* ---------- asn_parse_header ---------- */
static int sp_header_ok(const u_char *data, long V)
{ return (data[0] & 0x1F) != 0x1F && sp_tlv_ok(data, V, (unsigned long)(2 << 18)); }

u_char *asn_parse_header(u_char *data, int *datalength, u_char *type)
__CPROVER_requires(__CPROVER_is_fresh(datalength, sizeof(int)))
__CPROVER_requires(0 <= *datalength && *datalength <= VMAX)
__CPROVER_requires(__CPROVER_is_fresh(data, NEED(*datalength, TAIL)))
__CPROVER_requires(__CPROVER_is_fresh(type, 1))
__CPROVER_assigns(*datalength, *type, snmp_errno)
ENSURES_WINDOW
#ifndef WINDOW_ONLY   /* a caller-check target may use the contract without its exact clauses (a weaker, hence still verified, contract) */
__CPROVER_ensures((RET != NULL) == sp_header_ok(data, OLD(*datalength)))
__CPROVER_ensures(RET != NULL ==> (RET == data + sp_hdr(data) && *datalength == (int)sp_len_val(data + 1) && *type == data[0]))
#endif
__CPROVER_ensures(RET == NULL ==> *datalength == OLD(*datalength))
#ifdef TWIN_HEADER
__CPROVER_ensures(RET != NULL ==> (RET - data) + (long)*datalength < (long)OLD(*datalength))
#endif
;

/* ---------- asn_parse_int / asn_parse_unsigned_int ---------- */
u_char *asn_parse_int(u_char *data, int *datalength, u_char *type, int *intp, int intsize)
__CPROVER_requires(__CPROVER_is_fresh(datalength, sizeof(int)))
__CPROVER_requires(0 <= *datalength && *datalength <= VMAX)
__CPROVER_requires(__CPROVER_is_fresh(data, NEED(*datalength, TAIL_INT)))
__CPROVER_requires(__CPROVER_is_fresh(type, 1))
__CPROVER_requires(__CPROVER_is_fresh(intp, sizeof(int)))
__CPROVER_assigns(*datalength, *type, *intp, snmp_errno)
ENSURES_WINDOW
#ifndef WINDOW_ONLY
__CPROVER_ensures((RET != NULL) == (intsize == (int)sizeof(int) && sp_tlv_ok(data, OLD(*datalength), 4)))
__CPROVER_ensures(RET != NULL ==> (RET == data + sp_hdr(data) + sp_len_val(data + 1) &&
                                   *datalength == OLD(*datalength) - (int)(RET - data) && *type == data[0]))
#endif
__CPROVER_ensures(RET == NULL ==> *datalength == OLD(*datalength))
#ifdef EXACT_VALUE
/* a zero-length INTEGER decodes to 0 or -1 depending on the byte AFTER the TLV (the TAIL byte): recorded, not "fixed" here */
__CPROVER_ensures(RET != NULL && sp_len_val(data + 1) >= 1 ==> *intp == sp_int(data + sp_hdr(data), sp_len_val(data + 1)))
__CPROVER_ensures(RET != NULL && sp_len_val(data + 1) == 0 ==> (*intp == 0 || *intp == -1))
#endif
#ifdef TWIN_INT
__CPROVER_ensures(RET != NULL ==> *datalength > 0)
#endif
;

static int sp_uint_ok(const u_char *data, long V)
{
    return sp_tlv_ok(data, V, 5) && !(sp_len_val(data + 1) == 5 && data[sp_hdr(data)] != 0);
}
u_char *asn_parse_unsigned_int(u_char *data, int *datalength, u_char *type, u_int *intp, int intsize)
__CPROVER_requires(__CPROVER_is_fresh(datalength, sizeof(int)))
__CPROVER_requires(0 <= *datalength && *datalength <= VMAX)
__CPROVER_requires(__CPROVER_is_fresh(data, NEED(*datalength, TAIL_INT)))
__CPROVER_requires(__CPROVER_is_fresh(type, 1))
__CPROVER_requires(__CPROVER_is_fresh(intp, sizeof(u_int)))
__CPROVER_assigns(*datalength, *type, *intp, snmp_errno)
ENSURES_WINDOW
__CPROVER_ensures((RET != NULL) == (intsize == (int)sizeof(int) && sp_uint_ok(data, OLD(*datalength))))
__CPROVER_ensures(RET != NULL ==> (RET == data + sp_hdr(data) + sp_len_val(data + 1) &&
                                   *datalength == OLD(*datalength) - (int)(RET - data) && *type == data[0]))
__CPROVER_ensures(RET == NULL ==> *datalength == OLD(*datalength))
#ifdef EXACT_VALUE
__CPROVER_ensures(RET != NULL && sp_len_val(data + 1) >= 1 ==> *intp == (u_int)sp_int(data + sp_hdr(data), sp_len_val(data + 1)))
#endif
#ifdef TWIN_INT
__CPROVER_ensures(RET != NULL ==> *datalength > 0)
#endif
;

/* ---------- asn_parse_string ---------- */
size_t g;   /* ghost index (arbitrary): a statement about string[g] is a statement about every copied byte */
u_char *asn_parse_string(u_char *data, int *datalength, u_char *type, u_char *string, int *strlength)
__CPROVER_requires(__CPROVER_is_fresh(datalength, sizeof(int)))
__CPROVER_requires(0 <= *datalength && *datalength <= VMAX)
__CPROVER_requires(__CPROVER_is_fresh(data, NEED(*datalength, TAIL)))
__CPROVER_requires(__CPROVER_is_fresh(type, 1))
__CPROVER_requires(__CPROVER_is_fresh(strlength, sizeof(int)))
__CPROVER_requires(0 <= *strlength && *strlength <= SMAX)
__CPROVER_requires(__CPROVER_is_fresh(string, *strlength))          /* the caller's capacity, exactly */
__CPROVER_assigns(*datalength, *type, *strlength, __CPROVER_object_whole(string), snmp_errno)
ENSURES_WINDOW
__CPROVER_ensures(0 <= *strlength && *strlength <= OLD(*strlength))  /* never exceeds the caller's capacity */
__CPROVER_ensures((RET != NULL) == sp_tlv_ok(data, OLD(*datalength), (unsigned long)OLD(*strlength)))
__CPROVER_ensures(RET != NULL ==> (RET == data + sp_hdr(data) + sp_len_val(data + 1) && *strlength == (int)sp_len_val(data + 1) &&
                                   *datalength == OLD(*datalength) - (int)(RET - data) && *type == data[0]))
__CPROVER_ensures(RET != NULL && g < (size_t)*strlength ==> string[g] == data[sp_hdr(data) + g])
__CPROVER_ensures(RET == NULL ==> (*datalength == OLD(*datalength) && *strlength == OLD(*strlength)))
#ifdef TWIN_STRING
__CPROVER_ensures(RET != NULL ==> *strlength < OLD(*strlength))
#endif
;

/* ---------- asn_parse_objid ---------- */
/* ghosts for the loop invariants of asn_parse_objid (loops.json): the caller's capacity and the initial *datalength.
 * They are otherwise unconstrained, so `requires(ghost == expr)` does not restrict the inputs; the two equations are
 * only present when asn_parse_objid itself is enforced (a replaced call would have nobody to set them). */
int cv_cap, cv_V;
#ifdef ENFORCE_OBJID
#define OBJID_GHOSTS __CPROVER_requires(cv_cap == *objidlength && cv_V == *datalength)
#else
#define OBJID_GHOSTS
#endif
u_char *asn_parse_objid(u_char *data, int *datalength, u_char *type, oid *objid, int *objidlength)
__CPROVER_requires(__CPROVER_is_fresh(datalength, sizeof(int)))
__CPROVER_requires(0 <= *datalength && *datalength <= VMAX)
__CPROVER_requires(__CPROVER_is_fresh(data, NEED(*datalength, TAIL)))
__CPROVER_requires(__CPROVER_is_fresh(type, 1))
__CPROVER_requires(__CPROVER_is_fresh(objidlength, sizeof(int)))
__CPROVER_requires(2 <= *objidlength && *objidlength <= OMAX)       /* objid[0] and objid[1] are always written */
__CPROVER_requires(__CPROVER_is_fresh(objid, (size_t)*objidlength * sizeof(oid)))   /* the caller's capacity, exactly */
OBJID_GHOSTS
__CPROVER_assigns(*datalength, *type, *objidlength, __CPROVER_object_whole(objid), snmp_errno)
ENSURES_WINDOW
__CPROVER_ensures(RET != NULL ==> (1 <= *objidlength && *objidlength <= OLD(*objidlength)))   /* never exceeds the capacity */
__CPROVER_ensures(RET == NULL ==> (-1 <= *objidlength && *objidlength <= OLD(*objidlength)))
__CPROVER_ensures(RET != NULL ==> (sp_tlv_ok(data, OLD(*datalength), (unsigned long)VMAX) && *type == data[0] &&
                                   RET - data <= sp_hdr(data) + (long)sp_len_val(data + 1) &&
                                   *datalength == OLD(*datalength) - (int)(sp_hdr(data) + (long)sp_len_val(data + 1))))
__CPROVER_ensures(RET != NULL ==> (objid[1] <= 39 || (objid[0] == 1 && objid[1] == 3)))
#ifdef TWIN_OBJID
__CPROVER_ensures(RET != NULL ==> *objidlength < OLD(*objidlength))
#endif
;


/* ======================= caller-side check: lib/snmplib/snmp_pdu.c snmp_pdu_decode =======================
 * The real caller is enforced against the same window contract with the five parsers REPLACED by the contracts above,
 * so every call site must establish the callee's precondition (in particular the slack).  CALLER_SLACK is the number of
 * readable bytes the caller of snmp_pdu_decode guarantees beyond *Length:
 *   CALLER_SLACK = 6  (target pdu_decode_slack6): every callee precondition is discharged -- 6 bytes of slack suffice;
 *   CALLER_SLACK = CV_REAL_CALLER_SLACK (target pdu_decode_caller): what snmpHandleUdp provides, computed from its text on
 *   every run; it was 1 (callee preconditions failed: finding F5) until the receive buffer got 8 bytes of slack. */
#ifdef T_PDU_DECODE
#include <netinet/in.h>
#include "snmp_vars.h"
#include "snmp_pdu.h"
#include "caller_slack.h"     /* CV_REAL_CALLER_SLACK: generated by gen.py from the text of snmpHandleUdp on this run */
#ifndef CALLER_SLACK
#define CALLER_SLACK 6
#endif
u_char *snmp_pdu_decode(u_char *Packet, int *Length, struct snmp_pdu *PDU)
__CPROVER_requires(__CPROVER_is_fresh(Length, sizeof(int)))
__CPROVER_requires(0 <= *Length && *Length <= VMAX)
__CPROVER_requires(__CPROVER_is_fresh(Packet, (size_t)*Length + CALLER_SLACK))
__CPROVER_requires(__CPROVER_is_fresh(PDU, sizeof(struct snmp_pdu)))
__CPROVER_assigns(*Length, PDU->command, PDU->reqid, PDU->errstat, PDU->errindex, PDU->non_repeaters, PDU->max_repetitions, snmp_errno)
__CPROVER_ensures(0 <= *Length && *Length <= OLD(*Length))
__CPROVER_ensures(RET != NULL ==> (__CPROVER_same_object(RET, Packet) && RET - Packet >= 0 &&
                                   (RET - Packet) + (long)*Length <= (long)OLD(*Length)))
#ifdef TWIN_PDU
__CPROVER_ensures(RET != NULL ==> (RET - Packet) + (long)*Length < (long)OLD(*Length))
#endif
;
#endif

#ifndef CV_NATIVE
/* ======================= harnesses (dfcc: arguments are bound by the is_fresh clauses above) ======================= */
#ifdef T_PARSE_LENGTH
void h_parse_length(void)
{
    u_char *data; u_int *length;
    u_char *r = asn_parse_length(data, length);
#ifdef REACH
    __CPROVER_assert(!(r != NULL), "reach: a length field is accepted");
    __CPROVER_assert(!(r == NULL), "reach: a length field is rejected (indefinite form or more than 4 length octets)");
#endif
}
#endif

#ifdef T_PARSE_HEADER
void h_parse_header(void)
{
    u_char *data, *type; int *datalength;
    u_char *r = asn_parse_header(data, datalength, type);
#ifdef REACH
    __CPROVER_assert(!(r != NULL), "reach: header accepted");
    __CPROVER_assert(!(r == NULL), "reach: header rejected");
#endif
}
#endif

#ifdef T_PARSE_INT
void h_parse_int(void)
{
    u_char *data, *type; int *datalength, *intp, intsize;
    u_char *r = asn_parse_int(data, datalength, type, intp, intsize);
#ifdef REACH
    __CPROVER_assert(!(r != NULL), "reach: integer accepted");
    __CPROVER_assert(!(r == NULL && intsize == 4), "reach: integer rejected although the output size is right");
#endif
}
#endif

#ifdef T_PARSE_UINT
void h_parse_uint(void)
{
    u_char *data, *type; int *datalength, intsize; u_int *intp;
    u_char *r = asn_parse_unsigned_int(data, datalength, type, intp, intsize);
#ifdef REACH
    __CPROVER_assert(!(r != NULL), "reach: unsigned integer accepted");
    __CPROVER_assert(!(r == NULL && intsize == 4), "reach: unsigned integer rejected although the output size is right");
#endif
}
#endif

#ifdef T_PARSE_STRING
void h_parse_string(void)
{
    u_char *data, *type, *string; int *datalength, *strlength;
    u_char *r = asn_parse_string(data, datalength, type, string, strlength);
#ifdef REACH
    __CPROVER_assert(!(r != NULL), "reach: string accepted");
    __CPROVER_assert(!(r == NULL), "reach: string rejected");
#endif
}
#endif

#ifdef T_PARSE_OBJID
void h_parse_objid(void)
{
    u_char *data, *type; int *datalength, *objidlength; oid *objid;
    u_char *r = asn_parse_objid(data, datalength, type, objid, objidlength);
#ifdef REACH
    __CPROVER_assert(!(r != NULL), "reach: object identifier accepted");
    __CPROVER_assert(!(r == NULL), "reach: object identifier rejected");
#endif
}
#endif

/* ======================= harness-mode targets (plain cbmc on the real bodies, all loops have constant bounds) ======================= */
#ifdef T_INT_SHIFT_UB
/* compiled with -DCV_SHIFT_UB: the extraction pragma is off, so the signed-overflow / undefined-shift checks see
 * `value = (value << 8) | *bufp++` -- expected to FAIL (ISO C undefined behaviour, known finding, not a memory access) */
void h_int_shift_ub(void)
{
    u_char buf[8]; int dl = 7, v; u_int uv; u_char type;
    asn_parse_int(buf, &dl, &type, &v, sizeof(v));
    dl = 7;
    asn_parse_unsigned_int(buf, &dl, &type, &uv, sizeof(uv));
    u_char out[16]; int odl = 16, x;
    asn_build_int(out, &odl, type, &x, sizeof(x));      /* `integer <<= 8` on a negative int: same class */
}
#endif

#ifdef T_INT_EXACT
/* exact decoded value against the two's complement spec (the dfcc targets prove the window, not the value) */
void h_int_exact(void)
{
    u_char buf[12]; int V, dl, v = 12345; u_int uv = 12345; u_char type; _Bool which;
    __CPROVER_assume(0 <= V && V <= 11);
    dl = V;
    if (which) {
        u_char *r = asn_parse_int(buf, &dl, &type, &v, sizeof(v));
        __CPROVER_assert((r != NULL) == sp_tlv_ok(buf, V, 4), "ensures: INTEGER accepted iff the TLV fits in V bytes and has at most 4 content octets");
        u_int n = sp_len_val(buf + 1);
#ifdef TWIN_EXACT
        __CPROVER_assert(!(r != NULL && n >= 1) || v != sp_int(buf + sp_hdr(buf), n), "ensures: TWIN (negated) exact value");
#else
        __CPROVER_assert(!(r != NULL && n >= 1) || v == sp_int(buf + sp_hdr(buf), n), "ensures: decoded value == big-endian two's complement of the content octets");
#endif
        __CPROVER_assert(!(r != NULL && n == 0) || v == 0 || v == -1, "ensures: zero-length INTEGER decodes to 0 or -1 (depends on the byte after the TLV)");
        __CPROVER_assert(r != NULL || v == 12345, "ensures: output untouched on error");
#ifdef REACH
        __CPROVER_assert(!(r != NULL && v == -129), "reach: a negative two-octet value");
        __CPROVER_assert(!(r != NULL && n == 0 && v == -1), "reach: zero-length INTEGER decoded as -1");
        __CPROVER_assert(!(r == NULL), "reach: rejected");
#endif
    } else {
        u_char *r = asn_parse_unsigned_int(buf, &dl, &type, &uv, sizeof(uv));
        __CPROVER_assert((r != NULL) == sp_uint_ok(buf, V), "ensures: unsigned accepted iff the TLV fits and has <= 4 content octets, or 5 with a leading zero");
        u_int n = sp_len_val(buf + 1);
        __CPROVER_assert(!(r != NULL && n >= 1) || uv == (u_int)sp_int(buf + sp_hdr(buf), n), "ensures: decoded unsigned value == big-endian content octets (sign-extended when shorter than 4)");
#ifdef REACH
        __CPROVER_assert(!(r != NULL && n == 5 && uv == 0xFFFFFFFFu), "reach: five-octet unsigned value");
#endif
    }
}
#endif

#ifdef T_ROUNDTRIP
/* encode/decode round trip on the real encoders and parsers: length field, header, INTEGER, unsigned INTEGER */
void h_roundtrip(void)
{
    u_char buf[16]; int dl, len, truth; u_char type, t2; u_int plen; unsigned char which;
    if (which == 0) {           /* asn_build_length -> asn_parse_length */
        dl = 16;
        __CPROVER_assume(0 <= len && len <= 0xFFFF);
        u_char *e = asn_build_length(buf, &dl, len, truth);
        __CPROVER_assert(e != NULL && e - buf == 16 - dl && e - buf <= 3, "round trip: length field built in at most 3 octets, *datalength reduced by exactly that");
        u_char *r = asn_parse_length(buf, &plen);
        __CPROVER_assert(r == e && plen == (u_int)len, "round trip: parse_length(build_length(n)) == n, same extent");
#ifdef REACH
        __CPROVER_assert(!(len == 0x1234 && truth), "reach: two-octet length");
#endif
    } else if (which == 1) {    /* asn_build_header -> asn_parse_header */
        dl = 16;
        __CPROVER_assume(0 <= len && len <= 0xFFFF);
        __CPROVER_assume((type & 0x1F) != 0x1F);
        u_char *e = asn_build_header_with_truth(buf, &dl, type, len, truth);
        __CPROVER_assert(e != NULL && e - buf == 16 - dl, "round trip: header built");
        int V = (int)(e - buf) + len;   /* pretend len content octets follow; asn_parse_header does not read them */
        int pdl = V;
        u_char *r = asn_parse_header(buf, &pdl, &t2);
        __CPROVER_assert(r == e && pdl == len && t2 == type, "round trip: parse_header(build_header(type, n)) == (type, n), same extent");
    } else if (which == 2) {    /* asn_build_int -> asn_parse_int */
        int x, y = 0; dl = 16;
        u_char *e = asn_build_int(buf, &dl, type, &x, sizeof(x));
        __CPROVER_assert(e != NULL && e - buf == 16 - dl && e - buf <= 6, "round trip: INTEGER built in at most 6 octets");
        int pdl = 16 - dl;
        u_char *r = asn_parse_int(buf, &pdl, &t2, &y, sizeof(y));
#ifdef TWIN_ROUNDTRIP
        __CPROVER_assert(!(r == e && pdl == 0 && y == x && t2 == type), "round trip: TWIN (negated)");
#else
        __CPROVER_assert(r == e && pdl == 0 && y == x && t2 == type, "round trip: parse_int(build_int(x)) == x, consumes exactly the encoding");
#endif
#ifdef REACH
        __CPROVER_assert(!(x == -129), "reach: negative value needing two octets");
        __CPROVER_assert(!(x == 0x7FFFFFFF), "reach: INT_MAX");
#endif
    } else {                    /* asn_build_unsigned_int -> asn_parse_unsigned_int */
        u_int x, y = 0; dl = 16;
        u_char *e = asn_build_unsigned_int(buf, &dl, type, &x, sizeof(x));
        __CPROVER_assert(e != NULL && e - buf == 16 - dl && e - buf <= 7, "round trip: unsigned built in at most 7 octets");
        int pdl = 16 - dl;
        u_char *r = asn_parse_unsigned_int(buf, &pdl, &t2, &y, sizeof(y));
        __CPROVER_assert(r == e && pdl == 0 && y == x && t2 == type, "round trip: parse_unsigned_int(build_unsigned_int(x)) == x, consumes exactly the encoding");
#ifdef REACH
        __CPROVER_assert(!(x == 0xFFFFFFFFu), "reach: UINT_MAX (five content octets)");
#endif
    }
}
#endif

#ifdef T_BUILD
/* The remaining encoders asn_build_string / asn_build_objid / asn_build_null / asn_build_exception (there is no asn_build_sequence
 * in this tree; SEQUENCE headers are written with asn_build_header, covered by target roundtrip), real bodies, harness mode.
 * Bounds: the output buffer is an object of EXACTLY *datalength bytes, so a write outside [data, data + *datalength) is a
 * pointer-check failure in the real body.  Exact size: NULL exactly when the encoding (2 header octets + contents, all lengths
 * here are < 128) does not fit, otherwise the result is data + size and *datalength has decreased by exactly size.
 * Round trip (second buffer with the 6 bytes of slack the parsers need): parse(build(x)) == x for strings and for object
 * identifiers with a valid first arc pair and sub-identifiers the parser accepts. */
#include <stdlib.h>
#ifndef BCAP
#define BCAP 24
#endif
#ifndef SLEN
#define SLEN 12
#endif
#ifndef ONUM
#define ONUM 4
#endif
#ifndef BUILD_MASK
#define BUILD_MASK 0x3F
#endif
#define EN(n) ((BUILD_MASK >> (n)) & 1)
static int sp_subid_octets(u_int s) { return s < 0x80u ? 1 : s < 0x4000u ? 2 : s < 0x200000u ? 3 : s < 0x10000000u ? 4 : 5; }
void h_build(void)
{
    int dl; unsigned char which; u_char type;
    /* BUILD_MASK (bit n = branch n) selects at compile time which encoders a target covers: all six in one SAT problem are too big */
    __CPROVER_assume(which < 6 && ((BUILD_MASK >> which) & 1));
    if ((BUILD_MASK & 0xF) && which < 4) {
        __CPROVER_assume(0 <= dl && dl <= BCAP);
        int dl0 = dl;
        u_char *buf = malloc((size_t)dl);
        __CPROVER_assume(buf != NULL);
        u_char *e; long need;
        if (EN(0) && which == 0) {
            u_char src[SLEN]; int sl;
            __CPROVER_assume(0 <= sl && sl <= SLEN);
            e = asn_build_string(buf, &dl, type, src, sl);
            need = 2 + sl;
        } else if (EN(1) && which == 1) {
            oid in[ONUM]; int n;
            __CPROVER_assume(0 <= n && n <= ONUM);
            e = asn_build_objid(buf, &dl, type, in, n);
            need = 2 + 1;
            for (int i = 2; i < ONUM; i++) if (i < n) need += sp_subid_octets(in[i]);
        } else if (EN(2) && which == 2) {
            e = asn_build_null(buf, &dl, type);
            need = 2;
        } else {
            e = asn_build_exception(buf, &dl, type);
            need = 2;
        }
#ifdef TWIN_BUILD
        __CPROVER_assert((e != NULL) == ((long)dl0 > need), "ensures: TWIN (must fail) an encoding that fills the buffer exactly is refused");
#else
        __CPROVER_assert((e != NULL) == ((long)dl0 >= need), "ensures: NULL exactly when the encoding does not fit in *datalength bytes");
#endif
        __CPROVER_assert(e == NULL || (e == buf + need && dl == dl0 - (int)need && buf[0] == type && buf[1] == (u_char)(need - 2)),
                         "ensures: on success the result is data + size, *datalength decreased by exactly size, header = type, short-form length");
        __CPROVER_assert(0 <= dl && dl <= dl0, "ensures: *datalength never negative, never grows (also on failure)");
#ifdef REACH
#if BUILD_MASK & 1
        __CPROVER_assert(!(which == 0 && e != NULL && dl == 0), "reach: string fills the buffer exactly");
        __CPROVER_assert(!(which == 0 && e == NULL && dl0 >= 2), "reach: string header fits, contents do not");
#endif
#if BUILD_MASK & 2
        __CPROVER_assert(!(which == 1 && e != NULL && need == 2 + 1 + 5 + 5), "reach: object identifier with two five-octet sub-identifiers");
        __CPROVER_assert(!(which == 1 && e == NULL), "reach: object identifier does not fit");
#endif
#if BUILD_MASK & 4
        __CPROVER_assert(!(which == 2 && e == NULL && dl0 == 1), "reach: NULL refused with one byte left");
#endif
#endif
        free(buf);
    } else if (EN(4) && which == 4) {    /* asn_build_string -> asn_parse_string */
        u_char rb[2 + SLEN + 6], src[SLEN], out[SLEN], t2; int sl, cap = SLEN;
        __CPROVER_assume(0 <= sl && sl <= SLEN);
        dl = 2 + SLEN;
        u_char *e = asn_build_string(rb, &dl, type, src, sl);
        __CPROVER_assert(e == rb + 2 + sl, "round trip: string built");
        int pdl = (int)(e - rb);
        u_char *r = asn_parse_string(rb, &pdl, &t2, out, &cap);
        __CPROVER_assert(r == e && pdl == 0 && cap == sl && t2 == type, "round trip: parse_string(build_string(s)) consumes exactly the encoding, same length and type");
        __CPROVER_assert(g >= (size_t)sl || out[g] == src[g], "round trip: parse_string(build_string(s)) == s, every byte (ghost index g)");
#if defined(REACH) && (BUILD_MASK & 0x10)
        __CPROVER_assert(!(sl == SLEN && g == SLEN - 1), "reach: longest string, last byte");
#endif
    } else if (EN(5) && which == 5) {                    /* asn_build_objid -> asn_parse_objid */
        u_char rb[2 + 1 + 5 * ONUM + 6], t2; oid in[ONUM], out[ONUM]; int n, cap = ONUM;
        __CPROVER_assume(2 <= n && n <= ONUM);
        __CPROVER_assume(in[0] <= 2 && in[1] < 40 && !(in[0] == 1 && in[1] == 3));   /* valid first arcs; 1.3 is the parser's special case, below */
        for (int i = 2; i < ONUM; i++) __CPROVER_assume(in[i] <= (u_int)MAX_SUBID);
        dl = 2 + 1 + 5 * ONUM;
        u_char *e = asn_build_objid(rb, &dl, type, in, n);
        __CPROVER_assert(e != NULL, "round trip: object identifier built");
        int pdl = (int)(e - rb);
        u_char *r = asn_parse_objid(rb, &pdl, &t2, out, &cap);
        __CPROVER_assert(r == e && pdl == 0 && cap == n && t2 == type, "round trip: parse_objid(build_objid(o)) consumes exactly the encoding, same count and type");
        __CPROVER_assert(g >= (size_t)n || out[g] == in[g], "round trip: parse_objid(build_objid(o)) == o, every sub-identifier (ghost index g)");
#if defined(REACH) && (BUILD_MASK & 0x20)
        __CPROVER_assert(!(n == ONUM && in[ONUM - 1] == (u_int)MAX_SUBID), "reach: largest sub-identifier in the last position");
#endif
    }
}
#endif

#ifdef T_PDU_DECODE
void h_pdu_decode(void)
{
    u_char *Packet; int *Length; struct snmp_pdu *PDU;
    u_char *r = snmp_pdu_decode(Packet, Length, PDU);
#ifdef REACH
    __CPROVER_assert(!(r != NULL), "reach: PDU header and its three integers accepted");
    __CPROVER_assert(!(r == NULL), "reach: PDU rejected");
#endif
}
#endif
#endif /* CV_NATIVE */
