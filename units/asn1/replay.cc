// Native replay for the asn1 unit: compiles the REAL lib/snmplib sources (current tree) with ASan+UBSan.
//   mode f5          : candidate defect F5 -- mimics snmpHandleUdp (src/snmp_core.cc): a zeroed buffer of exactly len+1
//                      bytes (heap, so ASan sees its end) filled with a len-byte datagram, handed to the real snmp_parse().
//   mode shiftub     : the ISO-C-undefined left shift in asn_parse_int / asn_parse_unsigned_int (UBSan).
//   mode length|header|int|uint|string|objid : re-runs one real parser on the verifier's counterexample bytes in an
//                      exact-size heap object and re-evaluates the window postconditions of contract.c.
#include "replay.h"
#include <cstdlib>
#include <cstring>
#include <cstdarg>
#include <string>
#include <vector>
#include "squid.h"
#define RS_STR2(x) #x
#define RS_STR(x) RS_STR2(x)
#define REAL_SNMPLIB_FILE(f) RS_STR(REAL_SNMPLIB_DIR/f)
extern "C" {
#include "asn1.h"
#include "snmp_api_error.h"
// the real sources, natively
#include REAL_SNMPLIB_FILE(asn1.c)
#include REAL_SNMPLIB_FILE(snmp_api_error.c)
#include REAL_SNMPLIB_FILE(snmp_msg.c)
#include REAL_SNMPLIB_FILE(snmp_pdu.c)
#include REAL_SNMPLIB_FILE(snmp_vars.c)
#include REAL_SNMPLIB_FILE(snmp_api.c)
void snmplib_debug(int, const char *, ...) {}
}
void *xmalloc(size_t n) { void *p = malloc(n ? n : 1); if (!p) abort(); return p; }
void *xcalloc(size_t n, size_t sz) { void *p = calloc(n ? n : 1, sz ? sz : 1); if (!p) abort(); return p; }
void *xrealloc(void *s, size_t n) { void *p = realloc(s, n ? n : 1); if (!p) abort(); return p; }
void free_const(const void *p) { free(const_cast<void *>(p)); }
char *xstrdup(const char *s) { char *p = strdup(s); if (!p) abort(); return p; }

// the replay never frees the decoded PDU (squid does, in snmp_free_pdu): leak reports are not what is being tested
extern "C" const char *__asan_default_options() { return "detect_leaks=0"; }

typedef std::vector<unsigned char> Bytes;
static void put_len(Bytes &b, size_t n) { b.push_back(0x82); b.push_back((n >> 8) & 0xFF); b.push_back(n & 0xFF); }
static Bytes tlv(unsigned char t, const Bytes &c) { Bytes b; b.push_back(t); put_len(b, c.size()); b.insert(b.end(), c.begin(), c.end()); return b; }
static void cat(Bytes &a, const Bytes &b) { a.insert(a.end(), b.begin(), b.end()); }

// A syntactically valid SNMPv1 GetRequest of exactly `total` bytes whose LAST varbind is `tail`;
// a first varbind carrying an OCTET STRING pads the message to the wanted size.
static Bytes datagram(size_t total, const Bytes &tail)
{
    const Bytes ver = {0x02, 0x01, 0x00}, comm = {0x04, 0x06, 'p', 'u', 'b', 'l', 'i', 'c'};
    const Bytes ints = {0x02, 0x01, 0x01, 0x02, 0x01, 0x00, 0x02, 0x01, 0x00};
    const Bytes oid = {0x06, 0x03, 0x2B, 0x06, 0x01};
    // fixed overhead: msg hdr 4 + ver 3 + comm 8 + pdu hdr 4 + ints 9 + list hdr 4 + vb hdr 4 + oid 5 + str hdr 4 = 45
    size_t pad = total - 45 - tail.size();
    Bytes str = tlv(0x04, Bytes(pad, 'A'));
    Bytes vb1c = oid; cat(vb1c, str);
    Bytes list = tlv(0x30, vb1c); cat(list, tail);
    Bytes pduc = ints; cat(pduc, tlv(0x30, list));
    Bytes msgc = ver; cat(msgc, comm); cat(msgc, tlv(0xA0, pduc));
    return tlv(0x30, msgc);
}

static int run_udp(const char *what, const Bytes &d)
{
    // snmpHandleUdp: static char buf[4096]; memset(buf, 0, 4096); len = recvfrom(buf, 4095); snmp_parse(.., buf, len)
    const size_t len = d.size();
    unsigned char *buf = (unsigned char *)calloc(len + 1, 1);      // exactly the bytes the real caller guarantees
    memcpy(buf, d.data(), len);
    printf("%s: datagram of %zu bytes in a zeroed buffer of %zu bytes; last bytes:", what, len, len + 1);
    for (size_t i = len >= 6 ? len - 6 : 0; i < len; ++i) printf(" %02x", buf[i]);
    printf("\n"); fflush(stdout);
    struct snmp_session sess; memset(&sess, 0, sizeof(sess));
    struct snmp_pdu *pdu = snmp_pdu_create(0);
    u_char *comm = snmp_parse(&sess, pdu, buf, (int)len);          // ASan aborts here if the parsers read past buf[len]
    printf("%s: snmp_parse returned %s, no out-of-bounds access\n", what, comm ? "a community" : "NULL");
    free(comm); free(buf);
    return 0;
}

static int need(size_t V, int tail) { return (int)(V + tail > 6 ? V + tail : 6); }

int main(int argc, char **argv)
{
    if (argc < 2) return 2;
    std::string mode = argv[1];
    Cex c; if (argc > 2) c.load(argv[2]);
    if (mode == "f5" || mode == "f5a" || mode == "f5b" || mode == "f5ok") {
        const size_t L = 4095;                                     // the largest datagram snmpHandleUdp accepts
        if (mode == "f5ok") { run_udp("control", datagram(L, {0x30, 0x82, 0x00, 0x07, 0x06, 0x03, 0x2B, 0x06, 0x01, 0x05, 0x00})); RP_OK("well-formed maximal datagram parses cleanly"); }
        if (mode != "f5b") {
            // (a) last varbind header is `30 84`: the long-form length octet is the last byte of the datagram, so
            //     asn_parse_length memcpy()s 4 bytes starting at buf[len] -- 3 bytes past the zero byte the caller guarantees.
            run_udp("F5(a)", datagram(L, {0x30, 0x84}));
        }
        // (b) last varbind holds only an OID and ends the datagram: asn_parse_header is called with 0 valid bytes at
        //     buf+len, reads the type octet buf[len] (the zero byte) and the length octet buf[len+1] -- 1 byte past.
        run_udp("F5(b)", datagram(L, {0x30, 0x82, 0x00, 0x05, 0x06, 0x03, 0x2B, 0x06, 0x01}));
        RP_OK("no out-of-bounds read with 1 byte of slack");
    }
    if (mode == "shiftub") {
        std::vector<long long> b = c.arr("buf");
        Bytes d(b.begin(), b.end());
        if (d.size() < 8) d = {0x02, 0x01, 0x80, 0, 0, 0, 0, 0};   // INTEGER -128
        int dl = (int)d.size() - 1, v = 0; u_char t = 0; u_int uv = 0;
        printf("asn_parse_int on %02x %02x %02x %02x ...\n", d[0], d[1], d[2], d[3]); fflush(stdout);
        asn_parse_int(d.data(), &dl, &t, &v, sizeof(v));
        dl = (int)d.size() - 1;
        asn_parse_unsigned_int(d.data(), &dl, &t, &uv, sizeof(uv));
        RP_OK("no undefined shift on this input (value %d)", v);
    }
    // ---- counterexample replays for the parser targets: exact-size heap object, every plausible V ----
    std::string bytes = c.bytes("arg.data");
    if (bytes.empty()) RP_OK("no concrete buffer in the counterexample");
    const int tail = (mode == "int" || mode == "uint") ? 1 : 0;
    for (size_t V = 0; V <= bytes.size(); ++V) {
        if (mode != "length" && (size_t)need(V, tail) != bytes.size()) continue;
        unsigned char *buf = (unsigned char *)malloc(bytes.size()); memcpy(buf, bytes.data(), bytes.size());
        int dl = (int)V; u_char type = 0; u_char *r = nullptr;
        if (mode == "length") { u_int len = 0; r = asn_parse_length(buf, &len); V = bytes.size(); dl = 0; }
        else if (mode == "header") r = asn_parse_header(buf, &dl, &type);
        else if (mode == "int") { int v = 0; r = asn_parse_int(buf, &dl, &type, &v, sizeof(v)); }
        else if (mode == "uint") { u_int v = 0; r = asn_parse_unsigned_int(buf, &dl, &type, &v, sizeof(v)); }
        else if (mode == "string") {
            int cap = (int)c.num("cap", 16), sl = cap; unsigned char *s = (unsigned char *)malloc(cap ? cap : 1);
            r = asn_parse_string(buf, &dl, &type, s, &sl);
            if (sl < 0 || sl > cap) RP_FAIL("*strlength %d exceeds the capacity %d", sl, cap);
            free(s);
        } else if (mode == "objid") {
            int cap = (int)c.num("cap", 8), ol = cap; oid *o = (oid *)malloc(cap * sizeof(oid));
            r = asn_parse_objid(buf, &dl, &type, o, &ol);
            if (r && (ol < 1 || ol > cap)) RP_FAIL("*objidlength %d exceeds the capacity %d", ol, cap);
            free(o);
        } else return 2;
        if (dl < 0 || dl > (int)V) RP_FAIL("*datalength %d outside [0, %zu]", dl, V);
        if (r && (r < buf || (r - buf) + dl > (long)V)) RP_FAIL("result/claimed rest outside [data, data+V]");
        free(buf);
    }
    RP_OK("postconditions hold on this input");
}
