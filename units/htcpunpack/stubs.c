/* Assumed models for the htcpunpack unit (compiled with the contract, C front end; not safety-instrumented: every requirement
 * is an explicit named assertion).  Listed under "trusted" in unit.json.
 *
 * memcpy: the ONLY way the sliced text READS the datagram (parseUint16: memcpy(&out, buf, 2)).  The model asserts that the
 * source region is readable and the destination writable, records every call in ghosts, and -- when the harness has declared
 * the received region [cv_rx_lo, cv_rx_lo + cv_rx_len) -- asserts that the bytes read lie inside the RECEIVED bytes (not the
 * slack byte behind them).  It copies exactly two bytes; any other count is outside the model ("stub:" => undecided). */
#include <stddef.h>
#include <stdint.h>

int cv_memcpy_calls;
const void *cv_memcpy_src;     /* source / count of the most recent call */
size_t cv_memcpy_n;
const char *cv_rx_lo;          /* received region, set by the harness (NULL = not declared) */
size_t cv_rx_len;

void *memcpy(void *dst, const void *src, size_t n)
{
    cv_memcpy_calls++;
    cv_memcpy_src = src;
    cv_memcpy_n = n;
    __CPROVER_assert(__CPROVER_r_ok(src, n), "memcpy: source region readable");
    __CPROVER_assert(__CPROVER_w_ok(dst, n), "memcpy: destination region writable");
    if (cv_rx_lo) {
        __CPROVER_assert(__CPROVER_same_object(src, cv_rx_lo) &&
                         __CPROVER_POINTER_OFFSET(src) >= __CPROVER_POINTER_OFFSET(cv_rx_lo) &&
                         __CPROVER_POINTER_OFFSET(src) + n <= __CPROVER_POINTER_OFFSET(cv_rx_lo) + cv_rx_len,
                         "ensures: every read lies inside the sz received bytes [buf, buf+sz)");
    }
    __CPROVER_assert(n == 2, "stub: memcpy model copies exactly 2 bytes (the only count the sliced text uses)");
    ((char *)dst)[0] = ((const char *)src)[0];
    ((char *)dst)[1] = ((const char *)src)[1];
    return dst;
}

/* ntohs on a little-endian host (x86_64, the platform of this build): byte swap */
uint16_t ntohs(uint16_t v)
{
    return (uint16_t)((uint16_t)(v << 8) | (uint16_t)(v >> 8));
}
