// wrapper TU for the htcpunpack unit: the REAL text of class htcpSpecifier, class htcpDetail, parseUint16(),
// htcpUnpackSpecifier() (up to and including its final `*buf = '\0';`) and htcpUnpackDetail(), cut from {repo}/src/htcp.cc
// into htcp_slices.cc at run time (unit.json "extract"), surrounded by the smallest declarations those slices need.
// Compiled by CBMC's C++ front end with -nostdinc: nothing below comes from a system or Squid header.

#include "cv_htcp_prelude.h"

#include "htcp_slices.cc"

// the declared-only virtuals of htcpSpecifier (never called here)
ScopedId htcpSpecifier::codeContextGist() const { ScopedId i; i.scope = nullptr; i.value = 0; return i; }
std::ostream &htcpSpecifier::detailCodeContext(std::ostream &os) const { return os; }
LogTags *htcpSpecifier::loggingTags() const { return nullptr; }
void htcpSpecifier::fillChecklist(ACLFilledChecklist &) const {}

extern "C" {
    // ---- parseUint16(buf, sz, out, field): the reference parameter is bound to *out ----
    int cv_parseUint16(const char *buf, int sz, uint16_t *out)
    {
        return parseUint16(buf, sz, *out, "field") ? 1 : 0;
    }

    // ---- htcpUnpackDetail: result object copied field by field into ghosts (every data member of the real class) ----
    char *cv_d_resp_hdrs;
    size_t cv_d_respHdrsSz;
    char *cv_d_entity_hdrs;
    size_t cv_d_entityHdrsSz;
    char *cv_d_cache_hdrs;
    size_t cv_d_cacheHdrsSz;
    int cv_unpackDetail(char *buf, int sz)
    {
        htcpDetail *d = htcpUnpackDetail(buf, sz);
        if (!d)
            return 0;
        cv_d_resp_hdrs = d->resp_hdrs;
        cv_d_respHdrsSz = d->respHdrsSz;
        cv_d_entity_hdrs = d->entity_hdrs;
        cv_d_entityHdrsSz = d->entityHdrsSz;
        cv_d_cache_hdrs = d->cache_hdrs;
        cv_d_cacheHdrsSz = d->cacheHdrsSz;
        return 1;
    }

    // ---- htcpUnpackSpecifier (cut after the final NUL write): the pointer/size members the unpacker sets ----
    const char *cv_s_method;
    const char *cv_s_uri;
    char *cv_s_version;
    char *cv_s_req_hdrs;
    size_t cv_s_reqHdrsSz;
    int cv_unpackSpecifier(char *buf, int sz)
    {
        htcpSpecifier::Pointer s(htcpUnpackSpecifier(buf, sz));
        if (!s)
            return 0;
        cv_s_method = s->method;
        cv_s_uri = s->uri;
        cv_s_version = s->version;
        cv_s_req_hdrs = s->req_hdrs;
        cv_s_reqHdrsSz = s->reqHdrsSz;
        return 1;
    }
}
