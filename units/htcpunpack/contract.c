/* Harness-encoded contracts for the in-place HTCP unpackers of src/htcp.cc (real text, sliced at run time, see wrap.cc):
 *     parseUint16(buf, sz, out, field), htcpUnpackDetail(buf, sz), htcpUnpackSpecifier(buf, sz) [up to its final NUL write].
 *
 * C39: "No datagram received on an enabled ICP, HTCP or SNMP port makes Squid perform an out-of-bounds access".
 * Precondition (what htcpRecv, htcpHandleMsg, htcpHandleTstRequest, htcpHandleTstResponse and htcpHandleClr guarantee, see unit.json "assumptions"):
 *     0 <= sz, and buf[0 .. sz] are accessible: sz received bytes PLUS ONE byte behind them.
 * The harness gives buf an object of EXACTLY sz + 1 bytes (malloc of symbolic size, arbitrary content), so the safety
 * instrumentation of the real statements (pointer/bounds checks in the wrap TU) proves "every access stays inside [buf, buf+sz]".
 * The functions are loop-free; so are the harnesses (the spec below is unrolled by hand): no unwinding bound is involved.
 *
 * Wire format (both unpackers): K fields, each a big-endian uint16 length followed by that many bytes; K = 3 (DETAIL: RESP-HDRS,
 * ENTITY-HDRS, CACHE-HDRS) or K = 4 (SPECIFIER: METHOD, URI, VERSION, REQ-HDRS).  The unpackers terminate field i with a NUL written
 * over the first length byte of field i+1 (after that length has been read and checked); the last field's NUL goes to the byte
 * behind the field: buf[sz] when the message fills the datagram -- the reason for the extra byte. */
#include <stddef.h>
#include <stdint.h>
#include <stdlib.h>

#ifndef SZMAX
#define SZMAX 65535
#endif
#ifdef TWIN_NOSLACK
#define SLACK 0          /* must-fail twin: the object has only the sz received bytes */
#else
#define SLACK 1
#endif

/* ghosts of the memcpy model (stubs.c) */
extern int cv_memcpy_calls;
extern const void *cv_memcpy_src;
extern size_t cv_memcpy_n;
extern const char *cv_rx_lo;
extern size_t cv_rx_len;

/* wrap.cc */
int cv_parseUint16(const char *buf, int sz, uint16_t *out);
int cv_unpackDetail(char *buf, int sz);
int cv_unpackSpecifier(char *buf, int sz);
extern char *cv_d_resp_hdrs, *cv_d_entity_hdrs, *cv_d_cache_hdrs;
extern size_t cv_d_respHdrsSz, cv_d_entityHdrsSz, cv_d_cacheHdrsSz;
extern const char *cv_s_method, *cv_s_uri;
extern char *cv_s_version, *cv_s_req_hdrs;
extern size_t cv_s_reqHdrsSz;

/* ---- specification of one length-prefixed field starting at *pos in a message of sz bytes (independent reading) ---- */
static int spec_field(const unsigned char *b, long sz, long *pos, long *off, long *len)
{
    if (sz - *pos < 2)
        return 0;                                   /* no room for the length */
    long l = ((long)b[*pos] << 8) | (long)b[*pos + 1];
    if (l > sz - (*pos + 2))
        return 0;                                   /* the field would run past the received bytes */
    *off = *pos + 2;
    *len = l;
    *pos = *off + l;
    return 1;
}

/* number of leading well-formed fields (0..4), their offsets/lengths, end position of the last well-formed one */
struct spec { int n_ok; long off[4]; long len[4]; long end; };
static struct spec spec_fields(const unsigned char *b, long sz, int K)
{
    struct spec s;
    long pos = 0;
    s.n_ok = 0;
    s.off[0] = s.off[1] = s.off[2] = s.off[3] = 0;
    s.len[0] = s.len[1] = s.len[2] = s.len[3] = 0;
    if (spec_field(b, sz, &pos, &s.off[0], &s.len[0])) {
        s.n_ok = 1;
        if (spec_field(b, sz, &pos, &s.off[1], &s.len[1])) {
            s.n_ok = 2;
            if (spec_field(b, sz, &pos, &s.off[2], &s.len[2])) {
                s.n_ok = 3;
                if (K > 3 && spec_field(b, sz, &pos, &s.off[3], &s.len[3]))
                    s.n_ok = 4;
            }
        }
    }
    s.end = pos;
    return s;
}

/* pointer p lies in buf's object at offset `off` */
#define AT(p, buf, off) (__CPROVER_same_object((p), (buf)) && \
                         (long)__CPROVER_POINTER_OFFSET(p) == (long)__CPROVER_POINTER_OFFSET(buf) + (off))
/* [p, p+n] (terminator included) inside [buf, buf+sz] */
#define INSIDE(p, n, buf, sz) (__CPROVER_same_object((p), (buf)) && \
                         __CPROVER_POINTER_OFFSET(p) >= __CPROVER_POINTER_OFFSET(buf) && \
                         __CPROVER_POINTER_OFFSET(p) + (n) <= __CPROVER_POINTER_OFFSET(buf) + (size_t)(sz))

/* position gi is one of the NUL positions the unpacker is allowed to have written: end of field i for i < n_term */
static int is_term_pos(const struct spec *s, int n_term, long gi)
{
    return (n_term > 0 && gi == s->off[0] + s->len[0]) || (n_term > 1 && gi == s->off[1] + s->len[1]) ||
           (n_term > 2 && gi == s->off[2] + s->len[2]) || (n_term > 3 && gi == s->off[3] + s->len[3]);
}

/* =====================================================================================================================
 * parseUint16: reads exactly the two bytes buf[0], buf[1], and only when sz >= 2; big-endian value; no other effect.
 * The object has exactly max(sz, 0) bytes (NO slack): the function must not depend on the extra byte.
 * ===================================================================================================================== */
#ifdef T_U16
void h_u16(void)
{
    int sz;
    __CPROVER_assume(sz <= SZMAX);                  /* negative sz included */
    size_t n = sz > 0 ? (size_t)sz : 0;
#ifdef TWIN_SHORT
    if (n > 0) n--;                                 /* must-fail twin: one byte fewer than sz promises */
#endif
    unsigned char *buf = malloc(n);
    __CPROVER_assume(buf != NULL);                  /* input domain: the buffer exists (cbmc 6: malloc may return NULL) */
    cv_rx_lo = (const char *)buf;
    cv_rx_len = n;
    unsigned b0 = n >= 2 ? buf[0] : 0, b1 = n >= 2 ? buf[1] : 0;
    uint16_t out;
    const uint16_t out0 = out;
    int r = cv_parseUint16((const char *)buf, sz, &out);
    __CPROVER_assert(r == (sz >= 2), "ensures: parseUint16 succeeds exactly when sz >= 2");
    __CPROVER_assert(!r || (cv_memcpy_calls == 1 && cv_memcpy_src == (const void *)buf && cv_memcpy_n == 2),
                     "ensures: success => exactly one read, of the 2 bytes at buf");
    __CPROVER_assert(!r || out == ((b0 << 8) | b1), "ensures: success => out is the big-endian value of buf[0..1]");
    __CPROVER_assert(r || (cv_memcpy_calls == 0 && out == out0), "ensures: failure => nothing read, out untouched");
#ifdef REACH
    __CPROVER_assert(!(r && sz == 2), "reach: accepted with sz == 2");
    __CPROVER_assert(!(r && sz == SZMAX), "reach: accepted with sz == SZMAX");
    __CPROVER_assert(!(!r && sz == 1), "reach: rejected with sz == 1");
    __CPROVER_assert(!(!r && sz < 0), "reach: rejected with negative sz");
    __CPROVER_assert(!(r && out == 0xFFFF), "reach: value 65535");
    __CPROVER_assert(!(r && out == 0x0100 && b0 == 1), "reach: byte order (01 00 -> 256)");
#endif
}
#endif

/* =====================================================================================================================
 * htcpUnpackDetail / htcpUnpackSpecifier
 * ===================================================================================================================== */
#if defined(T_DETAIL) || defined(T_SPECIFIER)
#ifdef T_DETAIL
#define K 3
#define UNPACK cv_unpackDetail
#else
#define K 4
#define UNPACK cv_unpackSpecifier
#endif

void h_unpack(void)
{
    int sz;
    __CPROVER_assume(0 <= sz && sz <= SZMAX);
    const size_t objsz = (size_t)sz + SLACK;        /* exactly the received bytes + one */
    char *buf = malloc(objsz);
    __CPROVER_assume(buf != NULL);                  /* input domain: the buffer exists (cbmc 6: malloc may return NULL) */
    cv_rx_lo = buf;
    cv_rx_len = (size_t)sz;

    /* independent reading of the message BEFORE the call (the unpacker overwrites length bytes) */
    const struct spec s = spec_fields((const unsigned char *)buf, sz, K);
    /* copies for the counterexample file (native replay rebuilds the datagram from them) */
    int n_ok = s.n_ok;
    long len0 = s.len[0], len1 = s.len[1], len2 = s.len[2], len3 = s.len[3], end = s.end;
    /* the length field that broke the message, if any (for the replay) */
    long bad_len = (n_ok < K && sz - end >= 2) ? (((long)(unsigned char)buf[end] << 8) | (long)(unsigned char)buf[end + 1]) : -1;

    /* ghost position: any byte of the object */
    size_t gi;
    const _Bool have_g = gi < objsz;
    const char old_g = have_g ? buf[gi] : 0;

    const int r = UNPACK(buf, sz);

    /* ---- verdict ---- */
    __CPROVER_assert(r == (n_ok == K), "ensures: accepted exactly when all K length-prefixed fields fit inside the sz received bytes");
    __CPROVER_assert(cv_memcpy_calls <= K, "ensures: at most K length reads");

    /* ---- frame inside the datagram: only the field terminators are written ---- */
    /* accepted: all K terminators; rejected at field n_ok: the terminators of fields 0 .. n_ok-2 (each is written after the NEXT
       field's length has been checked) */
    {
        const int n_term = r ? K : (n_ok > 0 ? n_ok - 1 : 0);
        if (have_g) {
            __CPROVER_assert(is_term_pos(&s, n_term, (long)gi) || buf[gi] == old_g,
                             "ensures: no byte of buf[0..sz] changes except at the field terminators");
            __CPROVER_assert(!is_term_pos(&s, n_term, (long)gi) || buf[gi] == 0, "ensures: each terminator position holds NUL");
        }
    }

#ifdef T_DETAIL
    if (r) {
        /* exact */
        __CPROVER_assert(AT(cv_d_resp_hdrs, buf, s.off[0]) && cv_d_respHdrsSz == (size_t)s.len[0],
                         "ensures: resp_hdrs/respHdrsSz are field 0");
        __CPROVER_assert(AT(cv_d_entity_hdrs, buf, s.off[1]) && cv_d_entityHdrsSz == (size_t)s.len[1],
                         "ensures: entity_hdrs/entityHdrsSz are field 1");
        __CPROVER_assert(AT(cv_d_cache_hdrs, buf, s.off[2]) && cv_d_cacheHdrsSz == (size_t)s.len[2],
                         "ensures: cache_hdrs/cacheHdrsSz are field 2");
        /* property level (C39): what the callers hand to HtcpReplyData::parseHeader(ptr, size) lies inside the datagram */
        __CPROVER_assert(INSIDE(cv_d_resp_hdrs, cv_d_respHdrsSz, buf, sz), "ensures: resp_hdrs + respHdrsSz <= buf + sz, inside buf");
        __CPROVER_assert(INSIDE(cv_d_entity_hdrs, cv_d_entityHdrsSz, buf, sz), "ensures: entity_hdrs + entityHdrsSz <= buf + sz, inside buf");
        __CPROVER_assert(INSIDE(cv_d_cache_hdrs, cv_d_cacheHdrsSz, buf, sz), "ensures: cache_hdrs + cacheHdrsSz <= buf + sz, inside buf");
#ifndef TWIN_NOSLACK
        __CPROVER_assert(cv_d_resp_hdrs[cv_d_respHdrsSz] == 0 && cv_d_entity_hdrs[cv_d_entityHdrsSz] == 0 &&
                         cv_d_cache_hdrs[cv_d_cacheHdrsSz] == 0, "ensures: every field is NUL-terminated at its recorded size");
#endif
#ifdef TWIN_TIGHT
        __CPROVER_assert(__CPROVER_POINTER_OFFSET(cv_d_cache_hdrs) + cv_d_cacheHdrsSz < (size_t)sz,
                         "ensures: TWIN (too strong) the last field ends strictly before buf + sz");
#endif
    }
#else
    if (r) {
        __CPROVER_assert(AT(cv_s_method, buf, s.off[0]), "ensures: method is field 0");
        __CPROVER_assert(AT(cv_s_uri, buf, s.off[1]), "ensures: uri is field 1");
        __CPROVER_assert(AT(cv_s_version, buf, s.off[2]), "ensures: version is field 2");
        __CPROVER_assert(AT(cv_s_req_hdrs, buf, s.off[3]) && cv_s_reqHdrsSz == (size_t)s.len[3],
                         "ensures: req_hdrs/reqHdrsSz are field 3");
        /* property level (C39): every string the later code reads up to its NUL, and req_hdrs + reqHdrsSz, lie inside buf[0..sz] */
        __CPROVER_assert(INSIDE(cv_s_method, (size_t)s.len[0], buf, sz) && INSIDE(cv_s_uri, (size_t)s.len[1], buf, sz) &&
                         INSIDE(cv_s_version, (size_t)s.len[2], buf, sz), "ensures: method, uri, version (with terminator) inside buf[0..sz]");
        __CPROVER_assert(INSIDE(cv_s_req_hdrs, cv_s_reqHdrsSz, buf, sz), "ensures: req_hdrs + reqHdrsSz <= buf + sz, inside buf");
#ifndef TWIN_NOSLACK
        __CPROVER_assert(cv_s_method[s.len[0]] == 0 && cv_s_uri[s.len[1]] == 0 && cv_s_version[s.len[2]] == 0 &&
                         cv_s_req_hdrs[cv_s_reqHdrsSz] == 0, "ensures: every field is NUL-terminated at its wire length");
#endif
#ifdef TWIN_TIGHT
        __CPROVER_assert(__CPROVER_POINTER_OFFSET(cv_s_req_hdrs) + cv_s_reqHdrsSz < (size_t)sz,
                         "ensures: TWIN (too strong) the last field ends strictly before buf + sz");
#endif
    }
#endif

#ifdef REACH
    __CPROVER_assert(!(r && end == sz), "reach: accepted, message fills the datagram (final NUL goes to buf[sz])");
    __CPROVER_assert(!(r && end < sz), "reach: accepted, bytes (AUTH) follow the last field");
    __CPROVER_assert(!(r && sz == SZMAX), "reach: accepted with sz == SZMAX");
    __CPROVER_assert(!(r && len0 == 0 && len1 == 0 && len2 == 0 && len3 == 0), "reach: accepted with all fields empty");
    __CPROVER_assert(!(r && len0 > 0 && len1 > 0 && len2 > 0 && (K < 4 || len3 > 0)), "reach: accepted with all fields non-empty");
    __CPROVER_assert(!(!r && sz == 0), "reach: rejected, empty input");
    __CPROVER_assert(!(!r && n_ok == 0 && sz >= 2), "reach: rejected, field 0 runs past the datagram");
    __CPROVER_assert(!(!r && n_ok == 1 && sz - end < 2), "reach: rejected, no room for the length of field 1");
    __CPROVER_assert(!(!r && n_ok == 2 && bad_len > sz - end - 2), "reach: rejected, field 2 runs past the datagram");
    __CPROVER_assert(!(!r && n_ok == K - 1), "reach: rejected at the last field");
    __CPROVER_assert(!(!r && bad_len == sz - end - 1), "reach: rejected, a field is one byte too long");
#endif
}
#endif
