// Surroundings of the htcp.cc slices (htcp_slices.cc): the smallest declarations the sliced real text needs.
// Used by wrap.cc (CBMC C++ front end, -nostdinc) and by replay.cc (native g++, -DCV_NATIVE: libc declarations come from the
// system headers there).
#ifndef CV_HTCP_PRELUDE_H
#define CV_HTCP_PRELUDE_H
#ifndef CV_NATIVE
typedef unsigned long size_t;
typedef unsigned short uint16_t;

extern "C" {
    void *memcpy(void *dst, const void *src, size_t n);   // model with region assertions + ghosts: stubs.c
    uint16_t ntohs(uint16_t v);                           // byte swap (little-endian host): stubs.c
}

// the front end does not parse the `override` specifier (virtual-ness is inherited from the stub bases anyway)
#define override
namespace std { class ostream; }
#endif

// debugs(section, level, stream-expression): the stream expression is NOT evaluated (see unit.json not_covered: at debug
// level 31,6 the real code prints s->method / uri / version / req_hdrs before their terminators are written).
#define debugs(SECTION, LEVEL, CONTENT) ((void)0)
// MEMPROXY_CLASS(C) declares pooled operator new/delete; the plain ones are used here
#define MEMPROXY_CLASS(C) typedef int cv_memproxy_dummy
// RefCount<C>: only as the type of members that the slices never touch (request, al, checkHitRequest); htcpSpecifier::Pointer
// itself is rewritten to a raw pointer (unit.json), because the front end mis-compiles assignments through a user operator->.
template <class C>
class RefCount
{
public:
    RefCount(): p_(nullptr) {}
    RefCount(C *p): p_(p) {}
    RefCount(const RefCount &o): p_(o.p_) {}
    C *getRaw() const { return p_; }
private:
    C *p_;
};

class StoreEntry;
class LogTags;
class ACLFilledChecklist;
class htcpDataHeader;
class AccessLogEntry;
typedef RefCount<AccessLogEntry> AccessLogEntryPointer;
class ScopedId { public: const char *scope; unsigned long value; };
class HttpRequest { public: typedef RefCount<HttpRequest> Pointer; };
class HttpRequestMethod {};   // a local of this type is declared at the top of htcpUnpackSpecifier; its use lies behind the cut
namespace Ip { class Address { public: unsigned char bytes[28]; }; }
class CodeContext
{
public:
    virtual ~CodeContext() {}
    virtual ScopedId codeContextGist() const = 0;
    virtual std::ostream &detailCodeContext(std::ostream &os) const = 0;
};
class StoreClient
{
public:
    virtual ~StoreClient() {}
    virtual LogTags *loggingTags() const = 0;
    virtual void fillChecklist(ACLFilledChecklist &) const = 0;
};
#endif
