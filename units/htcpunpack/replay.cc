// Native replay for the htcpunpack unit: the SAME sliced real text of src/htcp.cc that the verifier sees (htcp_slices.cc in the
// build directory: class htcpSpecifier, class htcpDetail, parseUint16, htcpUnpackSpecifier up to its final NUL write,
// htcpUnpackDetail -- with the unit's three extraction rewrites), compiled by g++ with the real libc (memcpy, ntohs) under
// ASan+UBSan.  The datagram is rebuilt from the counterexample's sz and field lengths in an exact-size heap object (sz + 1 bytes),
// so that any access outside buf[0..sz] is an ASan report.  The oracle is property-level (C39): no sanitizer report, and every
// stored pointer / pointer + size lies inside buf[0..sz].
#include <cstdint>
#include <cstring>
#include <cstdio>
#include <cstdlib>
#include <ostream>
#include <arpa/inet.h>
#define CV_NATIVE 1
#include "stubs/cv_htcp_prelude.h"
#include "htcp_slices.cc"
#include "replay.h"

ScopedId htcpSpecifier::codeContextGist() const { return ScopedId(); }
std::ostream &htcpSpecifier::detailCodeContext(std::ostream &os) const { return os; }
LogTags *htcpSpecifier::loggingTags() const { return nullptr; }
void htcpSpecifier::fillChecklist(ACLFilledChecklist &) const {}

static bool inside(const char *p, size_t n, const char *buf, long sz)
{
    return p >= buf && p + n <= buf + sz;
}

static int replay_u16(const Cex &c)
{
    const long sz = c.num("sz");
    const size_t n = sz > 0 ? (size_t)sz : 0;
    unsigned char *buf = (unsigned char *)malloc(n ? n : 1);
    memset(buf, 'x', n ? n : 1);
    if (n >= 2) { buf[0] = (unsigned char)c.num("b0"); buf[1] = (unsigned char)c.num("b1"); }
    // exact-size object: re-allocate with exactly n bytes (malloc(0) is legal; nothing may be read from it)
    unsigned char *exact = (unsigned char *)malloc(n);
    if (n) memcpy(exact, buf, n);
    free(buf);
    uint16_t out = 0xABCD;
    const bool r = parseUint16((const char *)exact, (int)sz, out, "field");
    printf("parseUint16(sz=%ld) -> %d out=%u\n", sz, (int)r, (unsigned)out);
    if (r != (sz >= 2)) RP_FAIL("verdict %d for sz=%ld", (int)r, sz);
    if (r && out != ((exact[0] << 8) | exact[1])) RP_FAIL("value %u is not the big-endian reading", (unsigned)out);
    if (!r && out != 0xABCD) RP_FAIL("out changed on failure");
    free(exact);
    RP_OK("parseUint16 as specified");
}

static int replay_unpack(const Cex &c, int K)
{
    const long sz = c.num("sz");
    if (sz < 0 || sz > 65535) RP_OK("sz outside the domain");
    const long n_ok = c.num("n_ok");
    const long len[4] = { c.num("len0"), c.num("len1"), c.num("len2"), c.num("len3") };
    const long bad_len = c.num("bad_len", -1);
    char *buf = (char *)malloc((size_t)sz + 1);          // the receive buffer's guarantee: sz bytes + one
    memset(buf, 'x', (size_t)sz + 1);
    long pos = 0;
    for (int i = 0; i < n_ok && i < K; ++i) {
        if (pos + 2 + len[i] > sz) RP_OK("counterexample fields do not fit (not a datagram of the domain)");
        buf[pos] = (char)(len[i] >> 8); buf[pos + 1] = (char)(len[i] & 255);
        pos += 2 + len[i];
    }
    if (n_ok < K && bad_len >= 0 && pos + 2 <= sz) { buf[pos] = (char)(bad_len >> 8); buf[pos + 1] = (char)(bad_len & 255); }
    printf("%s sz=%ld n_ok=%ld len=%ld,%ld,%ld,%ld bad_len=%ld\n", K == 3 ? "htcpUnpackDetail" : "htcpUnpackSpecifier", sz, n_ok,
           len[0], len[1], len[2], len[3], bad_len);
    if (K == 3) {
        htcpDetail *d = htcpUnpackDetail(buf, (int)sz);   // ASan aborts on any access outside buf[0..sz]
        if (!d) { free(buf); RP_OK("rejected without a sanitizer report"); }
        if (!inside(d->resp_hdrs, d->respHdrsSz, buf, sz) || !inside(d->entity_hdrs, d->entityHdrsSz, buf, sz) ||
                !inside(d->cache_hdrs, d->cacheHdrsSz, buf, sz))
            RP_FAIL("a stored pointer + size leaves buf[0..sz]");
        if (d->resp_hdrs[d->respHdrsSz] || d->entity_hdrs[d->entityHdrsSz] || d->cache_hdrs[d->cacheHdrsSz])
            RP_FAIL("a field is not NUL-terminated at its recorded size");
        delete d;
    } else {
        htcpSpecifier *s = htcpUnpackSpecifier(buf, (int)sz);
        if (!s) { free(buf); RP_OK("rejected without a sanitizer report"); }
        if (!inside(s->method, 0, buf, sz) || !inside(s->uri, 0, buf, sz) || !inside(s->version, 0, buf, sz) ||
                !inside(s->req_hdrs, s->reqHdrsSz, buf, sz))
            RP_FAIL("a stored pointer (+ size) leaves buf[0..sz]");
        // the strings must end inside buf[0..sz] (strnlen bounded by the remaining bytes incl. the slack byte)
        const char *strs[3] = { s->method, s->uri, s->version };
        for (const char *p : strs) {
            const size_t room = (size_t)(buf + sz + 1 - p);
            if (strnlen(p, room) == room) RP_FAIL("a string is not NUL-terminated inside buf[0..sz]");
        }
        if (s->req_hdrs[s->reqHdrsSz]) RP_FAIL("req_hdrs is not NUL-terminated at reqHdrsSz");
        delete s;
    }
    free(buf);
    RP_OK("accepted, all pointers inside, no sanitizer report");
}

int main(int argc, char **argv)
{
    if (argc < 3) { fprintf(stderr, "usage: replay MODE CEXFILE\n"); return 2; }
    Cex c;
    if (!c.load(argv[2])) { fprintf(stderr, "cannot read %s\n", argv[2]); return 2; }
    const std::string mode = argv[1];
    if (mode == "u16") return replay_u16(c);
    if (mode == "detail") return replay_unpack(c, 3);
    if (mode == "specifier") return replay_unpack(c, 4);
    fprintf(stderr, "unknown mode %s\n", argv[1]);
    return 2;
}
