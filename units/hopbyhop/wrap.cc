// Wrapper TU for the hopbyhop unit: stubs + the REAL text of copyOneHeaderFromClientsideRequestToUpstreamRequest() (src/http.cc)
// + one extern "C" entry point taking the input vector described in the generated hbh_io.h.
#include "stubs.h"
#include "hbh_io.h"

#include "copyone.inc"     // void copyOneHeaderFromClientsideRequestToUpstreamRequest(const HttpHeaderEntry *e, const String strConnection,
                           //      const HttpRequest * request, HttpHeader * hdr_out, const int we_do_ranges, const Http::StateFlags &flags)

extern "C" {

const void *g_entry_obj;   // the entry handed in (identity)
const void *g_conn_obj;    // not the caller's String: the by-value parameter is a copy; only its size and verdict matter
int g_entry_id_after;      // e->id after the call (the entry is const: must be unchanged)
char g_name_text[2];       // e->name's character data (identity only)
char g_conn_text[2];       // strConnection's character data (identity only)
char g_domain_text[2];     // request->peer_domain (identity only)

// in[]: see hbh_io.h.  login: nullptr or a NUL-terminated string = request->peer_login
void hbh_copy_one(const long *in, char *login)
{
    HttpHeaderEntry e;
    e.id = (Http::HdrType)(int)in[IN_ID];
    e.name.p = g_name_text; e.name.n = 1;
    e.value.size_ = 0; e.value.len_ = 0; e.value.buf_ = nullptr;

    String conn;
    conn.len_ = (size_t)in[IN_CONN_SIZE];
    conn.size_ = conn.len_ + 1;
    conn.buf_ = g_conn_text;

    Http::StateFlags flags;
    HttpRequest req;
#include "hbh_fill.inc"    // GENERATED: every member of flags and req.flags from in[]
    req.method.theMethod = (Http::MethodType)(int)in[IN_METHOD];
    req.peer_login = login;
    req.peer_domain = nullptr;
    if (in[IN_HAVE_DOMAIN])
        req.peer_domain = &g_domain_text[0];
    req.ims = 0; req.imslen = 0; req.dnsWait = 0; req.lastmod = -1; req.forcedBodyContinuation = false;

#ifndef HBH_NATIVE
    SquidConfig arbitrary;                 // uninitialised local: every other knob of Config.onoff is arbitrary
    Config = arbitrary;
#else
    memset(&Config, 0, sizeof(Config));
#endif
    Config.onoff.redir_rewrites_host = (int)in[IN_CFG_REDIR_REWRITES_HOST];
    Config.onoff.via = (int)in[IN_CFG_VIA];
    Config.onoff.cache_miss_revalidate = (int)in[IN_CFG_CACHE_MISS_REVALIDATE];

    g_listed_answer = (int)in[IN_LISTED];
    g_substr_answer = (int)in[IN_SUBSTR];
    g_has_answer = (int)in[IN_OUT_HAS];
    g_hlm_answer = (int)in[IN_OUT_HAS_LIST_MEMBER];
    g_int64_answer = in[IN_INT64];
    g_add_calls = g_put_calls = g_puti_calls = g_del_calls = g_has_calls = g_hlm_calls = 0;
    g_clone_calls = g_int64_calls = g_listed_calls = g_substr_calls = 0;
    g_add_id = g_put_id = g_puti_id = g_has_id = g_hlm_id = -1;
    g_puti_val = 0; g_listed_del = 0;
    g_add_entry = g_clone_src = g_listed_list = g_listed_name = nullptr;
    g_put_str = nullptr;
    g_entry_obj = &e;

    HttpHeader out;
    copyOneHeaderFromClientsideRequestToUpstreamRequest(&e, conn, &req, &out, (int)in[IN_WE_DO_RANGES], flags);

    g_entry_id_after = (int)e.id;
}

const void *hbh_clone_obj(void) { return &g_clone_obj; }

}

// ---------------------------------------------------------------- reply side ----
#include "hbh_rio.h"
#include "removehbh.inc"   // REAL texts: HttpHeader::getEntry, HttpHeader::removeHopByHopEntries, HttpHeader::removeConnectionHeaderEntries (src/HttpHeader.cc)

static_assert(RN == HBH_NENT, "slot count");

extern "C" {

int g_r_slot_empty_after[HBH_NENT];     // slot k is nullptr after the call
unsigned char g_r_mask_after[12];

// the registered-header table: is id's record marked hop-by-hop?  -1: no record / wrong record for this id
void hbh_table_init(void) { Http::HeaderLookupTable.initCache(); }
int hbh_table_hopbyhop(int id)
{
    if (id < 0 || id >= (int)Http::HdrType::enumEnd_)
        return -1;
    const Http::HeaderTableRecord *r = Http::HeaderLookupTable.idCache[id];
    if (r == nullptr)
        return -1;
    if ((int)r->id != id)
        return -1;
    if (Http::HeaderLookupTable.lookup((Http::HdrType)id).hopbyhop)
        return 1;
    return 0;
}

// rin[]: see hbh_rio.h
void hbh_remove(const long *rin)
{
    static HttpHeaderEntry ents[HBH_NENT];
    Http::HeaderLookupTable.initCache();
    HttpHeader hdr;
    hdr.entries.n = (size_t)rin[RIN_N];
    for (int k = 0; k < HBH_NENT; ++k) {
        ents[k].id = (Http::HdrType)(int)rin[RIN_ID + k];
        ents[k].name.p = &g_r_names[k]; ents[k].name.n = 1;
        ents[k].value.size_ = 0; ents[k].value.len_ = 0; ents[k].value.buf_ = nullptr;
        hdr.entries.a[k] = nullptr;
        if (rin[RIN_PRESENT + k])
            hdr.entries.a[k] = &ents[k];
        g_r_deleted[k] = 0;
        g_r_listed[k] = rin[RIN_LISTED + k] != 0;
    }
    for (int k = 0; k < 12; ++k)
        hdr.mask[k] = (char)0xFF;
    g_has_answer = rin[RIN_HAS_CONN] != 0;
    g_has_calls = 0; g_has_id = -1;
    g_r_conn_len = rin[RIN_CONN_LEN];
    g_r_refresh_calls = g_r_getlist_calls = 0; g_r_getlist_id = -1;
    g_listed_calls = 0; g_listed_del = 0;

    hdr.removeHopByHopEntries();

    for (int k = 0; k < HBH_NENT; ++k)
        g_r_slot_empty_after[k] = hdr.entries.a[k] == nullptr;
    for (int k = 0; k < 12; ++k)
        g_r_mask_after[k] = (unsigned char)hdr.mask[k];
}

}
