// Stub surroundings for the hopbyhop slices (C04, C63).  TRUSTED: every class here is an assumed model of the real one.
// No function here decides anything the property is about: the decisions (which header id is relayed, under which
// flags) are all in the sliced real text copyone.inc = copyOneHeaderFromClientsideRequestToUpstreamRequest() of src/http.cc.
#ifndef HBH_STUBS_H
#define HBH_STUBS_H

#include "autoconf.h"                 // REAL build configuration ({repo}/include/autoconf.h): USE_HTTP_VIOLATIONS, FOLLOW_X_FORWARDED_FOR, USE_OPENSSL ...

#ifndef HBH_NATIVE                    // the native replay gets these from the system headers
typedef long int64_t;                 // LP64, as on the build host
typedef long time_t;
typedef unsigned long size_t;
typedef long ssize_t;
extern "C" int strcmp(const char *, const char *);          // CBMC's library model
extern "C" int strcasecmp(const char *, const char *);      // (offered so that a switched comparison still compiles)
#define assert(EX) __CPROVER_assert((EX), "assert(" #EX ")")   // squid's assert() aborts; here a proof obligation
// strcmp's precondition made explicit (library models are not instrumented by the user-code safety pass)
static inline int hbh_strcmp(const char *a, const char *b)
{
    __CPROVER_assert(a != nullptr && b != nullptr, "strcmp precondition: arguments are not null pointers");
    return strcmp(a, b);
}
#define strcmp hbh_strcmp
#else
#include <cstring>
#include <cstdint>
#include <ctime>
#include <cassert>
#include <sys/types.h>
#endif

#define debugs(SECTION, LEVEL, CONTENT) ((void)0)      // debug output: no effect on control flow

namespace Http
{
#include "methodtype_enum.inc"        // REAL text: typedef enum _method_t { ... } MethodType;            (src/http/MethodType.h)
#include "hdrtype_enum.inc"           // REAL text: enum HdrType { ... } (made scoped for the front end)   (src/http/RegisteredHeaders.h)
#include "stateflags_class.inc"       // REAL text: class StateFlags { ... } with ALL its members          (src/http/StateFlags.h)
// scoped-enum glue: the real HdrType is unscoped and converts to int inside CBIT_CLR(mask, id)
inline int operator>>(HdrType a, int b) { return (int)a >> b; }
inline int operator%(HdrType a, int b) { return (int)a % b; }
#include "hdrkind_enum.inc"           // REAL text: enum class HdrFieldType, enum HdrKind (wrapped in a struct for the front end), class HeaderTableRecord (src/http/RegisteredHeaders.h)
#include "rec_ctor.inc"               // REAL text: HeaderTableRecord::HeaderTableRecord(name, id, type, kind): hopbyhop(theKind & HdrKind::HopByHopHeader) ... (src/http/RegisteredHeaders.cc)
#include "hbh_table.inc"              // GENERATED from the REAL keyword lines of RegisteredHeadersHash.gperf: hbh_table[] = {name, id, kind}

// MODEL of HeaderLookupTable_t (src/http/RegisteredHeaders.cc): records built by the REAL constructor from the REAL keyword lines;
// idCache[id] = the record whose id is id, as initCache() does over gperf's hash slots; lookup(id) is the real one-liner.
class HeaderLookupTable_t
{
public:
    void initCache() {
        for (int j = 0; j < (int)HdrType::enumEnd_ + 1; ++j)
            idCache[j] = nullptr;
        for (int j = 0; j < HBH_TABLE_ROWS; ++j) {
            records[j] = HeaderTableRecord(hbh_table[j].name, hbh_table[j].id, HdrFieldType::ftStr, hbh_table[j].kind);
            idCache[static_cast<int>(hbh_table[j].id)] = &records[j];
        }
    }
    const HeaderTableRecord& lookup (Http::HdrType id) const {
        return *(idCache[static_cast<int>(id)]);
    }
    HeaderTableRecord records[HBH_TABLE_ROWS];
    const HeaderTableRecord *idCache[(int)HdrType::enumEnd_ + 1];
};
static HeaderLookupTable_t HeaderLookupTable;
}

typedef ssize_t HttpHeaderPos;        // src/HttpHeader.h
#define HttpHeaderInitPos (-1)        // src/HttpHeader.h
typedef char HttpHeaderMask[12];      // src/HttpHeaderMask.h
#include "cbit_macros.inc"            // REAL text: CBIT_BIT / CBIT_BIN / CBIT_SET / CBIT_CLR / CBIT_TEST (src/defines.h)

// ---- ghosts: what was done to hdr_out, what the models were asked and what they answered ----
extern "C" {
    // HttpHeader recorder
    int g_add_calls;  int g_add_id;  const void *g_add_entry;         // addEntry(e): count, e->id, e
    int g_put_calls;  int g_put_id;  const char *g_put_str;            // putStr/putTime/putInt (Squid's own emission): count, id
    int g_puti_calls; int g_puti_id; long g_puti_val;                  // putInt64(id, v)
    int g_del_calls;                                                   // delById/delAt (nothing in the slice deletes today)
    int g_has_answer, g_has_calls, g_has_id;                           // has(id): symbolic answer, recorded question
    int g_hlm_answer, g_hlm_calls, g_hlm_id;                           // hasListMember(id, "*", ','): symbolic answer
    // HttpHeaderEntry
    int g_clone_calls; const void *g_clone_src;                        // clone(): count, the entry that was cloned
    long g_int64_answer; int g_int64_calls;                            // getInt64(): symbolic answer
    // strListIsMember / strListIsSubstr models
    int g_listed_answer, g_listed_calls; const void *g_listed_list, *g_listed_name; int g_listed_del;
    int g_substr_answer, g_substr_calls;
    char g_authority_text[2];                                          // what url.authority().c_str() points to (identity only)
    // reply side (removeHopByHopEntries): per-slot ghosts
    int g_r_deleted[4];                                                // how often delAt() hit slot k
    int g_r_listed[4];                                                 // what strListIsMember answers for slot k's name
    char g_r_names[4];                                                 // slot k's name data is &g_r_names[k]
    int g_r_refresh_calls, g_r_getlist_calls, g_r_getlist_id;
    long g_r_conn_len;                                                 // size of the Connection list getList() produces
}
#define HBH_NENT 4

// SBuf: an opaque string; identity of the character data is tracked by the pointer value
class SBuf
{
public:
    const char *c_str() { return p; }
    const char *rawContent() const { return p; }
    size_t length() const { return n; }
    int plength() const { return (int)n; }
    bool isEmpty() const { return n == 0; }
    const char *p;
    size_t n;
};

// src/SquidString.h: the three data members and the read accessors; copy construction is memberwise here (the real copy
// constructor allocates a new buffer with the same text: the slice only reads size() and hands the address to strListIsMember)
class String
{
public:
    typedef size_t size_type;
    size_type size() const { return len_; }               // real one-liner
    int psize() const { return (int)len_; }
    char const *rawBuf() const { return buf_; }           // real one-liner
    char const *termedBuf() const { return buf_; }        // real one-liner
    size_type size_;
    size_type len_;
    char *buf_;
};

// ASSUMED model of strListIsMember() (src/StrList.cc): an arbitrary verdict that the harness knows; arguments recorded.
// The harness assumes the one fact it needs about the real function: an empty list (size()==0) has no members.
static int strListIsMember(const String *list, const SBuf &item, char del)
{
    if (g_listed_calls < 1000) ++g_listed_calls;
    g_listed_list = list; g_listed_name = item.p; g_listed_del = del;
    for (int k = 0; k < HBH_NENT; ++k)
        if (item.p == &g_r_names[k])
            return g_r_listed[k];
    return g_listed_answer;
}
// offered so that a switched helper still compiles: an independent arbitrary verdict (substring match is NOT list membership)
static int strListIsSubstr(const String *list, const char *s, char del)
{
    if (g_substr_calls < 1000) ++g_substr_calls;
    return g_substr_answer;
}

class HttpHeaderEntry
{
public:
    HttpHeaderEntry *clone() const;                        // model below: a fresh entry with the same id, name, value
    int64_t getInt64() const { if (g_int64_calls < 1000) ++g_int64_calls; return g_int64_answer; }   // ASSUMED: httpHeaderParseOffset of the value, -1 if malformed
    int getInt() const { if (g_int64_calls < 1000) ++g_int64_calls; return (int)g_int64_answer; }
    Http::HdrType id;
    SBuf name;
    String value;
};
static HttpHeaderEntry g_clone_obj;                        // the one object clone() hands out
inline HttpHeaderEntry *HttpHeaderEntry::clone() const
{
    if (g_clone_calls < 1000) ++g_clone_calls;
    g_clone_src = this;
    g_clone_obj.id = id; g_clone_obj.name = name; g_clone_obj.value = value;
    return &g_clone_obj;
}

// src/HttpHeader.h as a ghost recorder: what is appended (addEntry) and what Squid emits itself (put*)
class HttpHeader
{
public:
    void addEntry(HttpHeaderEntry *e) { if (g_add_calls < 1000) ++g_add_calls; g_add_id = (int)e->id; g_add_entry = e; }
    void putStr(Http::HdrType id, const char *str) { if (g_put_calls < 1000) ++g_put_calls; g_put_id = (int)id; g_put_str = str; }
    void putInt(Http::HdrType id, int number) { if (g_put_calls < 1000) ++g_put_calls; g_put_id = (int)id; g_put_str = nullptr; }
    void putTime(Http::HdrType id, time_t htime) { if (g_put_calls < 1000) ++g_put_calls; g_put_id = (int)id; g_put_str = nullptr; }
    void putInt64(Http::HdrType id, int64_t number) { if (g_puti_calls < 1000) ++g_puti_calls; g_puti_id = (int)id; g_puti_val = number; }
    int delById(Http::HdrType id) { if (g_del_calls < 1000) ++g_del_calls; return 0; }
    int has(Http::HdrType id) const { if (g_has_calls < 1000) ++g_has_calls; g_has_id = (int)id; return g_has_answer; }
    int hasListMember(Http::HdrType id, const char *member, const char separator) const { if (g_hlm_calls < 1000) ++g_hlm_calls; g_hlm_id = (int)id; return g_hlm_answer; }

    // ---- reply side: the entry list as a fixed array of slots (real: std::vector<HttpHeaderEntry*, PoolingAllocator<..>> entries) ----
    struct EntryVec {
        size_t size() const { return n; }
        HttpHeaderEntry *operator[](ssize_t i) const { return a[i]; }
        HttpHeaderEntry *a[HBH_NENT];
        size_t n;
    };
    HttpHeaderEntry *getEntry(HttpHeaderPos *pos) const;             // REAL text (removehbh.inc)
    void removeHopByHopEntries();                                    // REAL text (removehbh.inc)
    void removeConnectionHeaderEntries();                            // REAL text (removehbh.inc)
    // MODEL of delAt (src/HttpHeader.cc): empties the slot, counts; the real one also updates len and deletes the entry object
    void delAt(HttpHeaderPos pos, int &headers_deleted) {
        assert(pos >= HttpHeaderInitPos && pos < static_cast<ssize_t>(entries.size()));
        if (g_r_deleted[pos] < 1000) ++g_r_deleted[pos];
        entries.a[pos] = nullptr;
        ++headers_deleted;
    }
    void refreshMask() { if (g_r_refresh_calls < 1000) ++g_r_refresh_calls; }
    // MODEL of getList(id, &s): the list has the symbolic size g_r_conn_len (its members are the strListIsMember verdicts)
    bool getList(Http::HdrType id, String *s) const {
        if (g_r_getlist_calls < 1000) ++g_r_getlist_calls;
        g_r_getlist_id = (int)id;
        s->len_ = (size_t)g_r_conn_len; s->size_ = s->len_ + 1; s->buf_ = nullptr;
        return g_r_conn_len != 0;
    }
    EntryVec entries;
    HttpHeaderMask mask;
};

// src/base/SupportOrVeto.h: std::optional<bool> spelled as two bools (libstdc++ headers are outside the front end);
// decision() == value_or(false)
class SupportOrVeto
{
public:
    bool decision() const { return has_ ? val_ : false; }
    operator bool() const { return decision(); }
    bool operator!() const { return !decision(); }       // the front end cannot apply a conversion operator in a boolean context;
                                                         // '!flags.cachable' means !bool(cachable) == !decision() in the real class
    void support() { if (!has_) { has_ = true; val_ = true; } }
    void veto() { has_ = true; val_ = false; }
    bool has_;
    bool val_;
};

#include "requestflags_class.inc"     // REAL text: class RequestFlags { ... } with ALL its members (src/RequestFlags.h)

// src/http/RequestMethod.h: the data member and the comparison family
class HttpRequestMethod
{
public:
    bool operator == (Http::MethodType const & aMethod) const { return theMethod == aMethod; }     // real one-liner
    bool operator != (Http::MethodType const & aMethod) const { return theMethod != aMethod; }     // real one-liner
    Http::MethodType id() const { return theMethod; }                                             // real one-liner
    Http::MethodType theMethod;
};

namespace AnyP
{
class Uri
{
public:
    SBuf authority(bool requirePort = false) const { SBuf r; r.p = g_authority_text; r.n = 1; return r; }   // identity only
};
}

// src/HttpRequest.h: the scalar members (strings as char pointers, objects the slice never touches omitted)
class HttpRequest
{
public:
    HttpRequestMethod method;
    AnyP::Uri url;
    RequestFlags flags;
    time_t ims;
    int imslen;
    int dnsWait;
    char *peer_login;
    time_t lastmod;
    char *peer_domain;
    bool forcedBodyContinuation;
};

// src/SquidConfig.h: the REAL text of the onoff block (all its members), nothing else of SquidConfig
class SquidConfig
{
public:
#include "config_onoff.inc"
};
static SquidConfig Config;

#endif
