// Native replay for the hopbyhop unit: the REAL copyOneHeaderFromClientsideRequestToUpstreamRequest() text (same slice, same
// stubs, g++ ASan+UBSan).  Oracles are property-level only (C04 / C63 statements), not the code-derived pins.
#include "replay.h"
#include <string>
#include <cstring>
#include <cstdint>
#include <ctime>
#include <cassert>
#include "hbh_io.h"      // GENERATED input layout, at global scope for both namespaces below
#define CV_NATIVE 1
#define HBH_NATIVE 1
namespace hbh {
#include "wrap.cc"
}
namespace spec {
#include "contract.c"
}
using namespace spec;
using namespace hbh;

int main(int argc, char **argv)
{
    if (argc < 3) return 2;
    Cex c; if (!c.load(argv[2])) return 2;
    const std::string mode = argv[1];
    if (mode == "copy_one" || mode == "max_forwards") {
        std::vector<long long> v = c.arr("in");
        long in[IN_COUNT];
        for (int k = 0; k < IN_COUNT; ++k) in[k] = k < (int)v.size() ? (long)v[k] : 0;
        if (mode == "max_forwards") in[IN_ID] = MAX_FORWARDS;
        for (int k = 0; k < IN_COUNT; ++k)
            if (k != IN_INT64 && k != IN_CONN_SIZE && (in[k] < -2147483647L - 1 || in[k] > 2147483647L)) RP_OK("outside the target's domain");
        if (in[IN_METHOD] < Http::METHOD_NONE || in[IN_METHOD] > Http::METHOD_ENUM_END) RP_OK("outside the target's domain");
        if (in[IN_CONN_SIZE] < 0) RP_OK("outside the target's domain");
        if (in[IN_CONN_SIZE] == 0) in[IN_LISTED] = 0;
        char login[LOGIN_N]; memset(login, 0, sizeof(login));
        std::vector<long long> lv = c.arr("login");
        for (int k = 0; k < LOGIN_N - 1 && k < (int)lv.size(); ++k) login[k] = (char)lv[k];
        const bool have_login = c.num("have_login") != 0;
        // exact-size heap copy: ASan sees a read past the terminator
        std::vector<char> lbuf(login, login + strlen(login) + 1);
        char *lp = have_login ? lbuf.data() : nullptr;
        hbh_copy_one(in, lp);
        const long id = in[IN_ID];
        const int appended = g_add_calls, out_total = g_add_calls + g_put_calls + g_puti_calls;
        printf("id=%ld listed=%d toOrigin=%d login=%s -> appended=%d (id %d) put=%d (id %d) putInt64=%d (id %d value %ld)\n", id, listed(in), (int)on(in[IN_SF_toOrigin]),
               lp ? lp : "(none)", appended, g_add_id, g_put_calls, g_put_id, g_puti_calls, g_puti_id, g_puti_val);
        if (mode == "copy_one") {
            if ((hbh7(id) || id == TRANSFER_ENCODING) && out_total) RP_FAIL("hop-by-hop field %ld reached the upstream header", id);
            if (id == PROXY_AUTHORIZATION && on(in[IN_SF_toOrigin]) && out_total) RP_FAIL("Proxy-Authorization sent towards an origin server");
            if (id == PROXY_AUTHORIZATION && appended && !pass_login(have_login, login)) RP_FAIL("Proxy-Authorization relayed without a pass-through login= option");
            if (listed(in) && id != CONTENT_LENGTH && appended) RP_FAIL("field id %ld is listed in Connection and was relayed all the same", id);
            if (appended > 1 || (appended && (g_add_entry != hbh_clone_obj() || g_clone_src != g_entry_obj || g_add_id != (int)id))) RP_FAIL("what was appended is not one clone of the entry");
        } else {
            const long n = in[IN_INT64];
            const bool to = in[IN_METHOD] == Http::METHOD_TRACE || in[IN_METHOD] == Http::METHOD_OPTIONS;
            if (g_add_calls) RP_FAIL("the client's Max-Forwards was copied as is");
            if (to && n > 0 && !listed(in) && !(g_puti_calls == 1 && g_puti_id == MAX_FORWARDS && g_puti_val == n - 1)) RP_FAIL("Max-Forwards %ld not forwarded as %ld", n, n - 1);
            if (to && n <= 0 && out_total) RP_FAIL("Max-Forwards %ld forwarded", n);
            if (g_puti_calls && !(g_puti_calls == 1 && g_puti_id == MAX_FORWARDS && n > 0 && g_puti_val == n - 1)) RP_FAIL("emitted Max-Forwards value %ld for n=%ld", g_puti_val, n);
        }
        RP_OK("property-level postconditions hold on this input");
    }
    if (mode == "table_kinds") {
        hbh_table_init();
        const int ids[] = { CONNECTION, KEEP_ALIVE, TE, TRAILER, UPGRADE, PROXY_CONNECTION, TRANSFER_ENCODING };
        for (int id : ids) {
            printf("id %d hop-by-hop: %d\n", id, hbh_table_hopbyhop(id));
            if (hbh_table_hopbyhop(id) != 1) RP_FAIL("header id %d is not registered hop-by-hop", id);
        }
        for (int id = 0; id < enumEnd_; ++id)
            if (hbh_table_hopbyhop(id) == -1) RP_FAIL("header id %d has no record of its own", id);
        RP_OK("the standard hop-by-hop ids are registered as such");
    }
    if (mode == "reply_remove") {
        std::vector<long long> v = c.arr("rin");
        long rin[RIN_COUNT];
        for (int k = 0; k < RIN_COUNT; ++k) rin[k] = k < (int)v.size() ? (long)v[k] : 0;
        if (rin[RIN_N] < 0 || rin[RIN_N] > RN || rin[RIN_CONN_LEN] < 0) RP_OK("outside the target's domain");
        for (int k = 0; k < RN; ++k) {
            if (rin[RIN_ID + k] < 0 || rin[RIN_ID + k] >= enumEnd_) RP_OK("outside the target's domain");
            rin[RIN_LISTED + k] = rin[RIN_LISTED + k] != 0 && rin[RIN_CONN_LEN] != 0;
            rin[RIN_PRESENT + k] = rin[RIN_PRESENT + k] != 0;
        }
        rin[RIN_HAS_CONN] = rin[RIN_HAS_CONN] != 0;
        hbh_remove(rin);
        for (int g = 0; g < rin[RIN_N]; ++g) {
            const long id = rin[RIN_ID + g];
            const bool present = rin[RIN_PRESENT + g], named = rin[RIN_HAS_CONN] && rin[RIN_LISTED + g];
            printf("slot %d: present=%d id=%ld named=%d -> deleted %d time(s)\n", g, (int)present, id, (int)named, g_r_deleted[g]);
            if (present && (std_hbh_reply(id) || named) && g_r_deleted[g] != 1) RP_FAIL("slot %d (id %ld, named in Connection: %d) was not removed", g, id, (int)named);
            if (g_r_deleted[g] > 1 || (!present && g_r_deleted[g])) RP_FAIL("slot %d deleted %d times", g, g_r_deleted[g]);
        }
        RP_OK("property-level postconditions hold on this input");
    }
    return 2;
}
