/* Input vector of the reply-side wrapper hbh_remove(), shared by wrap.cc (C++) and contract.c (C).
 * Macros, not enumerators: cbmc 6.11 aborts on anonymous-enum constants of a C++ TU in loop conditions. */
#ifndef HBH_RIO_H
#define HBH_RIO_H
#define RN 4                              /* entry slots of the modelled header (HBH_NENT in stubs.h) */
#define RIN_N 0                           /* entries.size(): 0..RN */
#define RIN_HAS_CONN 1                    /* what has(Http::HdrType::CONNECTION) answers */
#define RIN_CONN_LEN 2                    /* size of the Connection list that getList() produces */
#define RIN_PRESENT 3                     /* +k: slot k holds an entry (real vectors have nullptr holes after deletions) */
#define RIN_ID (RIN_PRESENT + RN)         /* +k: its id */
#define RIN_LISTED (RIN_ID + RN)          /* +k: what strListIsMember(&strConnection, its name, ',') answers */
#define RIN_COUNT (RIN_LISTED + RN)
#endif
