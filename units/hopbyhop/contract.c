/* Harness-encoded contracts for the hopbyhop unit (C04, C63): the per-field relay decision of the request path,
 * copyOneHeaderFromClientsideRequestToUpstreamRequest() of src/http.cc (REAL text, sliced), and -- reply side -- the
 * hop-by-hop kinds of the registered-header table + HttpHeader::removeHopByHopEntries().
 *
 * Property C04: "Header fields named in a received Connection header, and the standard hop-by-hop fields (Connection,
 * Keep-Alive, TE, Trailer, Upgrade, Proxy-Connection, Proxy-Authenticate), are never copied from the client request to
 * the origin or from the origin response to the client. Squid may emit such fields itself. A client's Proxy-Authorization
 * is never sent to an origin server, and Transfer-Encoding is only ever sent as Squid's own chunked coding."
 * Property C63 (last clause): "larger Max-Forwards values are decremented by one when forwarded."
 *
 * Vocabulary: "appended" = hdr_out->addEntry(e->clone()) (the client's field is relayed); "emitted" = hdr_out->put*()
 * (a field Squid writes itself: Host, Max-Forwards).  */
#include <stddef.h>
#include "hbh_io.h"                  /* GENERATED input-vector layout (every Http::StateFlags / RequestFlags member) */
#include "hdrtype_enum_c.inc"        /* REAL enum text (src/http/RegisteredHeaders.h): CONNECTION, TE, ... */
#include "methodtype_enum.inc"       /* REAL enum text (src/http/MethodType.h): METHOD_TRACE, METHOD_OPTIONS, ... */

#ifndef LOGIN_N
#define LOGIN_N 12
#endif

static int on(long v) { return v != 0; }

/* the standard hop-by-hop set of the property statement */
static int hbh7(long id)
{
    return id == CONNECTION || id == KEEP_ALIVE || id == TE || id == TRAILER || id == UPGRADE || id == PROXY_CONNECTION ||
           id == PROXY_AUTHENTICATE;
}
/* cache_peer login= values that ask for the client's credentials to be passed on (documented: PASS, PASSTHRU; undocumented: PROXYPASS) */
static int is_PASS(const char *l) { return l[0] == 'P' && l[1] == 'A' && l[2] == 'S' && l[3] == 'S' && l[4] == 0; }
static int is_PASSTHRU(const char *l) { return l[0] == 'P' && l[1] == 'A' && l[2] == 'S' && l[3] == 'S' && l[4] == 'T' && l[5] == 'H' && l[6] == 'R' && l[7] == 'U' && l[8] == 0; }
static int is_PROXYPASS(const char *l) { return l[0] == 'P' && l[1] == 'R' && l[2] == 'O' && l[3] == 'X' && l[4] == 'Y' && l[5] == 'P' && l[6] == 'A' && l[7] == 'S' && l[8] == 'S' && l[9] == 0; }
static int pass_login(int have_login, const char *l) { return have_login && (is_PASS(l) || is_PASSTHRU(l) || is_PROXYPASS(l)); }

/* the field's name is a member of the received Connection list (strConnection non-empty and strListIsMember's verdict) */
static int listed(const long *in) { return in[IN_CONN_SIZE] > 0 && on(in[IN_LISTED]); }

/* registered fields with a case of their own in the switch: before /repo commit df09444 they never reached the Connection-list test
 * (fixed finding, see known_findings.txt); kept as a separately named obligation */
static int own_case_relayed(long id)
{
    return id == PROXY_AUTHORIZATION || id == AUTHORIZATION || id == HOST || id == IF_MODIFIED_SINCE || id == IF_NONE_MATCH || id == VIA || id == RANGE ||
           id == IF_RANGE || id == REQUEST_RANGE || id == FRONT_END_HTTPS;
}

/* reply side: the property's set minus Proxy-Authenticate (see the table target) plus Transfer-Encoding */
static int std_hbh_reply(long id)
{
    return id == CONNECTION || id == KEEP_ALIVE || id == TE || id == TRAILER || id == UPGRADE || id == PROXY_CONNECTION || id == TRANSFER_ENCODING;
}

#ifndef CV_NATIVE
extern void hbh_copy_one(const long *in, char *login);
extern const void *hbh_clone_obj(void);
extern int g_add_calls, g_add_id, g_put_calls, g_put_id, g_puti_calls, g_puti_id, g_del_calls, g_has_calls, g_has_id, g_hlm_calls, g_hlm_id;
extern long g_puti_val;
extern const void *g_add_entry, *g_clone_src, *g_entry_obj, *g_listed_name;
extern int g_clone_calls, g_int64_calls, g_listed_calls, g_listed_del, g_substr_calls, g_entry_id_after;
extern char g_name_text[2];

/* input domain shared by both harnesses */
static void domain(long *in, char *login)
{
    login[LOGIN_N - 1] = 0;
    /* every input is an int-sized value (flags, knobs, enum ids: the wrapper narrows them to the member's type) except the two 64-bit ones */
    for (int k = 0; k < IN_COUNT; ++k)
        __CPROVER_assume(k == IN_INT64 || k == IN_CONN_SIZE || (in[k] >= -2147483647L - 1 && in[k] <= 2147483647L));
    __CPROVER_assume(in[IN_METHOD] >= METHOD_NONE && in[IN_METHOD] <= METHOD_ENUM_END);   /* a Http::MethodType value */
    /* model fact about the real strListIsMember(): an empty list has no members */
    __CPROVER_assume(in[IN_CONN_SIZE] >= 0);
    __CPROVER_assume(in[IN_CONN_SIZE] != 0 || in[IN_LISTED] == 0);
}

#if defined(T_COPY)
void h_copy(void)
{
    long in[IN_COUNT];
    char login[LOGIN_N];
    _Bool have_login;
    domain(in, login);
    const long id = in[IN_ID];

    hbh_copy_one(in, have_login ? login : NULL);

    const int appended = g_add_calls;
    const int out_total = g_add_calls + g_put_calls + g_puti_calls;    /* everything that reached hdr_out */

    /* ---- C04: the standard hop-by-hop fields, for EVERY value of every flag / Config knob / other input ---- */
#ifdef TWIN_HBH
    __CPROVER_assert(!hbh7(id) || out_total != 0, "ensures: TWIN (negated) hop-by-hop fields add nothing");
#else
    __CPROVER_assert(id != CONNECTION || out_total == 0, "ensures: Connection adds nothing to the upstream header (neither appended nor emitted here)");
    __CPROVER_assert(id != KEEP_ALIVE || out_total == 0, "ensures: Keep-Alive adds nothing to the upstream header");
    __CPROVER_assert(id != TE || out_total == 0, "ensures: TE adds nothing to the upstream header");
    __CPROVER_assert(id != TRAILER || out_total == 0, "ensures: Trailer adds nothing to the upstream header");
    __CPROVER_assert(id != UPGRADE || out_total == 0, "ensures: Upgrade adds nothing to the upstream header (forwardUpgrade() emits Squid's own, filtered one elsewhere)");
    __CPROVER_assert(id != PROXY_CONNECTION || out_total == 0, "ensures: Proxy-Connection adds nothing to the upstream header");
    __CPROVER_assert(id != PROXY_AUTHENTICATE || out_total == 0, "ensures: Proxy-Authenticate adds nothing to the upstream header");
#endif
    __CPROVER_assert(id != TRANSFER_ENCODING || out_total == 0, "ensures: Transfer-Encoding is never taken from the client request (Squid emits its own 'chunked' elsewhere)");

    /* ---- C04: proxy credentials ---- */
    __CPROVER_assert(!(id == PROXY_AUTHORIZATION && on(in[IN_SF_toOrigin])) || out_total == 0,
                     "ensures: Proxy-Authorization adds nothing when the next HTTP hop is an origin server (flags.toOrigin), whatever the peer options");
    __CPROVER_assert(!(id == PROXY_AUTHORIZATION && appended) || (!on(in[IN_SF_toOrigin]) && pass_login(have_login, login)),
                     "ensures: Proxy-Authorization is appended only towards a non-origin cache_peer whose login= is PASS, PASSTHRU or PROXYPASS");
    __CPROVER_assert(id != PROXY_AUTHORIZATION || (g_put_calls == 0 && g_puti_calls == 0), "ensures: Proxy-Authorization is never re-emitted in another form here");
    __CPROVER_assert(!(id == PROXY_AUTHORIZATION && !on(in[IN_SF_toOrigin]) && pass_login(have_login, login) && !listed(in)) || appended == 1,
                     "pinned: Proxy-Authorization (not named in Connection) IS passed on to a non-origin cache_peer with login=PASS|PASSTHRU|PROXYPASS");

    /* ---- C04: fields named in the received Connection header ---- */
#ifdef TWIN_LISTED
    __CPROVER_assert(!(listed(in) && !own_case_relayed(id) && id != CONTENT_LENGTH) || appended != 0, "ensures: TWIN (negated) listed in Connection => not appended");
#else
    __CPROVER_assert(!(listed(in) && !own_case_relayed(id) && id != CONTENT_LENGTH) || appended == 0,
                     "ensures: a field whose name is listed in Connection is not appended (unregistered names and every registered id without a case of its own)");
#endif
    __CPROVER_assert(!(listed(in) && own_case_relayed(id)) || appended == 0,
                     "ensures: [own-case ids] a field whose name is listed in Connection is not appended (Proxy-Authorization, Authorization, Host, If-Modified-Since, If-None-Match, Via, Range, If-Range, Request-Range, Front-End-Https)");
    __CPROVER_assert(!(listed(in) && id == CONTENT_LENGTH) || appended == (on(in[IN_SF_chunked_request]) ? 0 : 1),
                     "pinned: Content-Length listed in Connection is still relayed unless the request is re-chunked (deliberate, see the comments: smuggling defence)");
    __CPROVER_assert(!(listed(in) && id != CONTENT_LENGTH) || out_total == 0,
                     "pinned: a field named in Connection adds nothing at all here, not even Squid's own Host or a decremented Max-Forwards");
    __CPROVER_assert(id == CONTENT_LENGTH || g_listed_calls == (in[IN_CONN_SIZE] > 0 ? 1 : 0),
                     "pinned: the Connection list is consulted exactly once per field when it is not empty (never for Content-Length)");
    __CPROVER_assert(!(in[IN_CONN_SIZE] > 0 && g_listed_calls > 0) || (g_listed_name == (const void *)g_name_text && g_listed_del == ','),
                     "ensures: the Connection-list question is asked about this entry's name with separator ','");
    __CPROVER_assert(g_substr_calls == 0, "ensures: list membership is decided by strListIsMember (not by a substring search)");

    /* ---- what an append is ---- */
    __CPROVER_assert(appended <= 1 && out_total <= 1, "ensures: at most one field reaches hdr_out per call");
    __CPROVER_assert(!appended || (g_add_entry == hbh_clone_obj() && g_clone_src == g_entry_obj && g_clone_calls == 1 && g_add_id == (int)id),
                     "ensures: what is appended is a clone of this entry (same id, name, value)");
    __CPROVER_assert(appended || g_clone_calls == 0, "ensures: a clone is made only to be appended");
    __CPROVER_assert(g_entry_id_after == (int)id && g_del_calls == 0, "ensures: the client's entry is not modified and nothing is deleted from hdr_out");
    __CPROVER_assert(g_put_calls == 0 || (id == HOST && g_put_id == HOST), "ensures: the only string field emitted here is Squid's own Host");
    __CPROVER_assert(g_puti_calls == 0 || (id == MAX_FORWARDS && g_puti_id == MAX_FORWARDS), "ensures: the only number field emitted here is Max-Forwards");

    /* code-derived completeness direction (the property does not demand that anything IS relayed) */
    __CPROVER_assert(!(id == OTHER && !listed(in)) || appended == 1, "pinned: an unregistered field that is not listed in Connection is relayed");

#ifdef REACH
    __CPROVER_assert(!(id == OTHER && appended == 1), "reach: unregistered field relayed");
    __CPROVER_assert(!(id == OTHER && appended == 0), "reach: unregistered field cropped by Connection");
    __CPROVER_assert(!(id == ACCEPT && listed(in) && appended == 0), "reach: registered default-group field cropped by Connection");
    __CPROVER_assert(!(id == AUTHORIZATION && listed(in) && appended == 0), "reach: Authorization cropped by Connection");
    __CPROVER_assert(!(id == AUTHORIZATION && !listed(in) && appended == 1), "reach: Authorization relayed");
    __CPROVER_assert(!(id == PROXY_AUTHORIZATION && appended == 1), "reach: Proxy-Authorization passed to a peer");
    __CPROVER_assert(!(id == PROXY_AUTHORIZATION && on(in[IN_SF_toOrigin]) && pass_login(have_login, login)), "reach: Proxy-Authorization dropped towards an origin despite login=PASS");
    __CPROVER_assert(!(id == PROXY_AUTHORIZATION && have_login && is_PROXYPASS(login) && appended == 1), "reach: login=PROXYPASS");
    __CPROVER_assert(!(id == PROXY_AUTHORIZATION && have_login && is_PASSTHRU(login) && appended == 1), "reach: login=PASSTHRU");
    __CPROVER_assert(!(id == TE), "reach: TE dropped");
    __CPROVER_assert(!(id == TRANSFER_ENCODING), "reach: Transfer-Encoding dropped");
    __CPROVER_assert(!(g_put_calls == 1), "reach: Squid's own Host emitted");
    __CPROVER_assert(!(id == HOST && appended == 1), "reach: client's Host relayed (redirected, redir_rewrites_host off)");
    __CPROVER_assert(!(id == CONTENT_LENGTH && listed(in) && appended == 1), "reach: Content-Length listed in Connection relayed");
    __CPROVER_assert(!(id < 0 || id > enumEnd_), "reach: id outside the enum");
#endif
}
#endif

#if defined(T_MAXFWD)
/* C63, last clause: Max-Forwards is decremented by one when forwarded */
void h_maxfwd(void)
{
    long in[IN_COUNT];
    char login[LOGIN_N];
    _Bool have_login;
    domain(in, login);
    in[IN_ID] = MAX_FORWARDS;
    const long n = in[IN_INT64];                         /* what e->getInt64() answers: the parsed value, -1 when malformed */
    const int trace_or_options = in[IN_METHOD] == METHOD_TRACE || in[IN_METHOD] == METHOD_OPTIONS;

    hbh_copy_one(in, have_login ? login : NULL);

    const int out_total = g_add_calls + g_put_calls + g_puti_calls;
#ifdef TWIN_MAXFWD
    __CPROVER_assert(!(trace_or_options && n > 0 && !listed(in)) || !(g_puti_calls == 1 && g_puti_val == n - 1), "ensures: TWIN (negated) emitted value is n-1");
#else
    __CPROVER_assert(!(trace_or_options && n > 0 && !listed(in)) || (g_puti_calls == 1 && g_puti_id == MAX_FORWARDS && g_puti_val == n - 1),
                     "ensures: TRACE/OPTIONS with Max-Forwards n > 0 => exactly one Max-Forwards is emitted and its value is n-1");
#endif
    __CPROVER_assert(g_puti_calls == 0 || (g_puti_calls == 1 && g_puti_id == MAX_FORWARDS && n > 0 && g_puti_val == n - 1),
                     "ensures: whatever is emitted is one Max-Forwards with the value n-1 of a positive n");
    __CPROVER_assert(!listed(in) || out_total == 0,
                     "pinned: a Max-Forwards that the client names in Connection is dropped like any other nominated field (decrementing it would also satisfy the property)");
    __CPROVER_assert(g_add_calls == 0 && g_put_calls == 0, "ensures: the client's own Max-Forwards entry is never copied as is");
    __CPROVER_assert(!(trace_or_options && n <= 0) || out_total == 0,
                     "ensures: TRACE/OPTIONS with Max-Forwards 0, a negative or a malformed value => no Max-Forwards goes upstream");
    __CPROVER_assert(trace_or_options || out_total == 0, "pinned: on every other method the Max-Forwards field is dropped, not forwarded");
    __CPROVER_assert(g_int64_calls <= 1, "ensures: the value is parsed at most once");
    __CPROVER_assert(g_listed_calls == (in[IN_CONN_SIZE] > 0 ? 1 : 0), "pinned: the Connection list is consulted exactly once when it is not empty");
#ifdef REACH
    __CPROVER_assert(!(g_puti_calls == 1 && g_puti_val == 0), "reach: Max-Forwards: 1 forwarded as 0");
    __CPROVER_assert(!(g_puti_calls == 1 && g_puti_val == 9223372036854775806L), "reach: INT64_MAX forwarded as INT64_MAX-1");
    __CPROVER_assert(!(trace_or_options && n == 0), "reach: Max-Forwards: 0 dropped");
    __CPROVER_assert(!(trace_or_options && n < 0), "reach: malformed value dropped");
    __CPROVER_assert(!(!trace_or_options && n > 0), "reach: GET with Max-Forwards");
    __CPROVER_assert(!(trace_or_options && n > 0 && listed(in)), "reach: Max-Forwards named in Connection");
    __CPROVER_assert(!(in[IN_METHOD] == METHOD_OPTIONS && g_puti_calls == 1), "reach: OPTIONS");
#endif
}
#endif

/* ------------------------------------------------------------------ reply side ------------------------------------ */
#if defined(T_TABLE) || defined(T_REMOVE)
#include "hbh_rio.h"
extern void hbh_table_init(void);          /* builds the lookup table once (the real one is built by a static constructor) */
extern int hbh_table_hopbyhop(int id);
extern void hbh_remove(const long *rin);
extern int g_r_deleted[4], g_r_slot_empty_after[4], g_r_refresh_calls, g_r_getlist_calls, g_r_getlist_id;
extern unsigned char g_r_mask_after[12];
#endif

#if defined(T_TABLE)
/* the REAL keyword lines of RegisteredHeadersHash.gperf, through the REAL HeaderTableRecord constructor: which ids are hop-by-hop */
void h_table(void)
{
    hbh_table_init();
#ifdef TWIN_TABLE
    __CPROVER_assert(hbh_table_hopbyhop(TE) != 1, "ensures: TWIN (negated) TE is registered hop-by-hop");
#else
    __CPROVER_assert(hbh_table_hopbyhop(CONNECTION) == 1, "ensures: Connection is registered hop-by-hop");
    __CPROVER_assert(hbh_table_hopbyhop(KEEP_ALIVE) == 1, "ensures: Keep-Alive is registered hop-by-hop");
    __CPROVER_assert(hbh_table_hopbyhop(TE) == 1, "ensures: TE is registered hop-by-hop");
    __CPROVER_assert(hbh_table_hopbyhop(TRAILER) == 1, "ensures: Trailer is registered hop-by-hop");
    __CPROVER_assert(hbh_table_hopbyhop(UPGRADE) == 1, "ensures: Upgrade is registered hop-by-hop");
    __CPROVER_assert(hbh_table_hopbyhop(PROXY_CONNECTION) == 1, "ensures: Proxy-Connection is registered hop-by-hop");
    __CPROVER_assert(hbh_table_hopbyhop(TRANSFER_ENCODING) == 1, "ensures: Transfer-Encoding is registered hop-by-hop");
#endif
    __CPROVER_assert(hbh_table_hopbyhop(PROXY_AUTHORIZATION) == 1, "pinned: Proxy-Authorization is registered hop-by-hop");
    __CPROVER_assert(hbh_table_hopbyhop(ALTERNATE_PROTOCOL) == 1, "pinned: Alternate-Protocol is registered hop-by-hop");
    __CPROVER_assert(hbh_table_hopbyhop(PROXY_AUTHENTICATE) == 0,
                     "pinned: Proxy-Authenticate is NOT registered hop-by-hop (clientReplyContext::buildReplyHeader deletes it by id unless login=PASS|PASSTHRU)");
    __CPROVER_assert(hbh_table_hopbyhop(CONTENT_LENGTH) == 0 && hbh_table_hopbyhop(OTHER) == 0 && hbh_table_hopbyhop(WWW_AUTHENTICATE) == 0,
                     "ensures: end-to-end fields (Content-Length, unregistered, WWW-Authenticate) are not registered hop-by-hop");
    int id;
    __CPROVER_assume(id >= 0 && id < enumEnd_);
    __CPROVER_assert(hbh_table_hopbyhop(id) != -1, "ensures: every header id has exactly its own record in the table (lookup(id) never dereferences an empty slot)");
#ifdef REACH
    __CPROVER_assert(!(hbh_table_hopbyhop(id) == 1), "reach: a hop-by-hop id");
    __CPROVER_assert(!(hbh_table_hopbyhop(id) == 0), "reach: an end-to-end id");
#endif
}
#endif

#if defined(T_REMOVE)
/* HttpHeader::removeHopByHopEntries() over a header of at most RN entry slots */
void h_remove(void)
{
    long rin[RIN_COUNT];
    __CPROVER_assume(rin[RIN_N] >= 0 && rin[RIN_N] <= RN);
    __CPROVER_assume(rin[RIN_CONN_LEN] >= 0);
    for (int k = 0; k < RN; ++k) {
        __CPROVER_assume(rin[RIN_ID + k] >= 0 && rin[RIN_ID + k] < enumEnd_);          /* a registered id, OTHER or BAD_HDR */
        __CPROVER_assume(rin[RIN_LISTED + k] == 0 || rin[RIN_LISTED + k] == 1);
        __CPROVER_assume(rin[RIN_PRESENT + k] == 0 || rin[RIN_PRESENT + k] == 1);
        __CPROVER_assume(rin[RIN_CONN_LEN] != 0 || rin[RIN_LISTED + k] == 0);          /* model fact: an empty list has no members */
    }
    __CPROVER_assume(rin[RIN_HAS_CONN] == 0 || rin[RIN_HAS_CONN] == 1);
    int g;                                                                             /* ghost index: any slot of the header */
    __CPROVER_assume(g >= 0 && g < RN && g < rin[RIN_N]);
    const int present = rin[RIN_PRESENT + g] != 0;
    const long id = rin[RIN_ID + g];
    const int named = rin[RIN_HAS_CONN] && rin[RIN_LISTED + g];                        /* named in the received Connection header */

    hbh_remove(rin);

#ifdef TWIN_REMOVE
    __CPROVER_assert(!(present && std_hbh_reply(id)) || g_r_deleted[g] != 1, "ensures: TWIN (negated) hop-by-hop entry removed");
#else
    __CPROVER_assert(!(present && std_hbh_reply(id)) || (g_r_deleted[g] == 1 && g_r_slot_empty_after[g]),
                     "ensures: every Connection, Keep-Alive, TE, Trailer, Upgrade, Proxy-Connection, Transfer-Encoding entry is removed");
#endif
    __CPROVER_assert(!(present && named) || (g_r_deleted[g] == 1 && g_r_slot_empty_after[g]),
                     "ensures: every entry whose name is listed in the Connection header is removed, whatever its id");
    __CPROVER_assert(g_r_deleted[g] <= 1 && (present || g_r_deleted[g] == 0), "ensures: no entry is deleted twice, an empty slot is never deleted");
    __CPROVER_assert(!(present && std_hbh_reply(id)) || !(g_r_mask_after[id >> 3] & (1 << (id % 8))) || named,
                     "ensures: the presence bit of a removed hop-by-hop id is cleared");
    __CPROVER_assert(!(present && !named && !std_hbh_reply(id) && id != PROXY_AUTHORIZATION && id != ALTERNATE_PROTOCOL) || (g_r_deleted[g] == 0 && !g_r_slot_empty_after[g]),
                     "pinned: every other entry is kept");
    __CPROVER_assert(!rin[RIN_HAS_CONN] || (g_r_getlist_calls == 1 && g_r_getlist_id == CONNECTION), "ensures: the list consulted is the Connection header's");
#ifdef REACH
    __CPROVER_assert(!(present && std_hbh_reply(id) && !named), "reach: hop-by-hop entry removed by id");
    __CPROVER_assert(!(present && named && id == OTHER), "reach: unregistered entry removed because Connection names it");
    __CPROVER_assert(!(present && named && std_hbh_reply(id)), "reach: entry both listed and hop-by-hop");
    __CPROVER_assert(!(present && g_r_deleted[g] == 0), "reach: entry kept");
    __CPROVER_assert(!(!present), "reach: empty slot");
    __CPROVER_assert(!(rin[RIN_N] == RN && g == RN - 1 && g_r_deleted[g] == 1), "reach: last slot of a full header removed");
#endif
}
#endif
#endif /* CV_NATIVE */
