/* Stub surroundings for src/base/Range.h and the ACLIntRange slices (trusted; listed in unit.json "trusted").
 * Declares exactly what the real text touches. */
#ifndef INTRANGE_STUBS_H
#define INTRANGE_STUBS_H

#ifdef CV_NATIVE
#include <cstddef>
#include <cstdio>
#include <cstdlib>
#include <cstring>
#define CV_CHECK(c, msg) do { if (!(c)) { printf("REPLAY-FAIL: %s\n", msg); exit(1); } } while (0)
#else
typedef unsigned long size_t;
extern "C" char *strchr(const char *, int);
#define CV_CHECK(c, msg) __CPROVER_assert((c), msg)
#endif
#define assert(c) CV_CHECK((c), "assert(" #c ")")

#ifndef KMAX
#define KMAX 4            /* capacity of the stub list = bound on the number of configured ranges */
#endif

#ifdef CV_NATIVE
#include <ostream>
#else
namespace std { class ostream; }     /* Range.h's operator<< template is never instantiated here */
#endif

namespace cv_std
{
/* std::list<T> as the slices use it: push_back, iteration, empty (plus size/back/front/pop_back/clear). Fixed capacity KMAX. */
template <class T>
class list
{
public:
    T elems[KMAX];
    size_t count;
    list() : count(0) {}
    void push_back(const T &v) {
        CV_CHECK(count < KMAX, "stub std::list: capacity KMAX not exceeded (bound of the unit, not a Squid property)");
        elems[count] = v;
        ++count;
    }
    T *begin() { return &elems[0]; }
    T *end() { return &elems[count]; }
    bool empty() const { return count == 0; }
    size_t size() const { return count; }
    /* the usual small members, so that an edit of parse()/match() that starts using them stays decidable (seed C43-2) */
    T &back() { CV_CHECK(count > 0, "stub std::list: back() of a non-empty list"); return elems[count - 1]; }
    T &front() { CV_CHECK(count > 0, "stub std::list: front() of a non-empty list"); return elems[0]; }
    void pop_back() { CV_CHECK(count > 0, "stub std::list: pop_back() of a non-empty list"); --count; }
    void clear() { count = 0; }
};
}

/* what src/acl/IntRange.cc gets from its includes */
#define DBG_CRITICAL 0
#define debugs(section, level, text) ((void)0)
unsigned short xatos(const char *token);       /* src/Parsing.cc -- assumed contract in wrap.cc */
void self_destruct();                          /* src/cache_cf.cc -- recorded */
struct ConfigParser {
    static char *strtokFile();                 /* src/ConfigParser.cc -- token source, driven by the harness */
};
#endif
