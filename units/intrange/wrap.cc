// Wrapper TU of the intrange unit (C++ front end).  Real text, extracted on every run into the build dir:
//   minmax.h            min()/max() templates of compat/compat_shared.h
//   Range.h             src/base/Range.h (two #include lines dropped)
//   IntRange_slices.cc  ACLIntRange::parse and ACLIntRange::match of src/acl/IntRange.cc
// Everything else in this file is stub/marshalling code with C linkage for the C harness (contract.c).
#include "stubs.h"
#include "minmax.h"
#include "Range.h"

/* stub of the class: exactly the members the two sliced bodies touch (real one: src/acl/IntRange.h, ACLData<int>) */
class ACLIntRange
{
public:
    typedef Range<int> RangeType;
    cv_std::list<RangeType> ranges;   /* real: std::list<RangeType> */
    void parse();
    bool match(int);
};

#include "IntRange_slices.cc"

extern "C" {
/* hooks implemented by the harness (contract.c) or the native replay */
char *cv_next_token(void);
unsigned short cv_xatos(const char *token);
void cv_self_destruct(void);
}
char *ConfigParser::strtokFile() { return cv_next_token(); }
unsigned short xatos(const char *token) { return cv_xatos(token); }
void self_destruct() { cv_self_destruct(); }

static ACLIntRange acl;

extern "C" {
/* Range<int> element operations */
int w_elem_hit(int a, int b, int i)
{
    Range<int> element(a, b);
    Range<int> const toFind(i, i + 1);
    Range<int> result = element.intersection(toFind);
    return result.size() != 0;
}
void w_intersection(int a, int b, int c, int d, int *s, int *e)
{
    Range<int> x(a, b), y(c, d);
    Range<int> r = x.intersection(y);
    *s = r.start;
    *e = r.end;
}
unsigned long w_size(int a, int b)
{
    Range<int> x(a, b);
    return x.size();
}
/* the list object */
void w_reset(void) { acl.ranges.count = 0; }
void w_push(int s, int e) { acl.ranges.push_back(Range<int>(s, e)); }
unsigned long w_count(void) { return acl.ranges.count; }
int w_start(unsigned long k) { return acl.ranges.elems[k].start; }
int w_end(unsigned long k) { return acl.ranges.elems[k].end; }
void w_parse(void) { acl.parse(); }
int w_match(int i) { return acl.match(i); }
}
