// Native replay for the intrange unit: the same extracted real text (Range.h, min/max, ACLIntRange::parse/match slices
// from the current tree, in the build dir) compiled natively with ASan+UBSan over the same stubs (wrap.cc, stubs.h with
// CV_NATIVE), run on the verifier's counterexample; the postconditions of contract.c are re-evaluated here.
#include "replay.h"
#include <climits>
#include <string>
#include "wrap.cc"

static std::string token; static std::vector<char> tokbuf; static int tok_calls;
static const char *x_arg[2]; static unsigned short x_ret[2]; static int x_calls, sd_calls;
extern "C" {
char *cv_next_token(void) { return tok_calls++ == 0 ? tokbuf.data() : nullptr; }
unsigned short cv_xatos(const char *t) { if (x_calls < 2) x_arg[x_calls] = t; return x_ret[x_calls++ & 1]; }
void cv_self_destruct(void) { ++sd_calls; }
}

int main(int argc, char **argv)
{
    if (argc < 3) return 2;
    std::string mode = argv[1];
    Cex c; if (!c.load(argv[2])) return 2;
    if (mode == "elem") {
        int a = (int)c.num("a"), b = (int)c.num("b"), i = (int)c.num("i");
        if (i == INT_MAX) RP_OK("i == INT_MAX is outside the precondition");
        int r = w_elem_hit(a, b, i);
        printf("Range<int>(%d,%d) vs [%d,%d): hit=%d\n", a, b, i, i + 1, r);
        if ((r != 0) != (a <= i && i < b)) RP_FAIL("element hit differs from (start <= i < end)");
        RP_OK("element lemma holds");
    }
    if (mode == "range") {
        int a = (int)c.num("a"), b = (int)c.num("b"), cc = (int)c.num("c"), d = (int)c.num("d"), s, e;
        w_intersection(a, b, cc, d, &s, &e);
        printf("[%d,%d) ^ [%d,%d) = [%d,%d)\n", a, b, cc, d, s, e);
        if (s != (a > cc ? a : cc) || e != (b < d ? b : d)) RP_FAIL("intersection is not [max(starts), min(ends))");
        long p = c.num("p"), q = c.num("q");
        if (q - p <= INT_MAX) {
            unsigned long z = w_size((int)p, (int)q);
            printf("size([%ld,%ld)) = %lu\n", p, q, z);
            if (z != (q > p ? (unsigned long)(q - p) : 0UL)) RP_FAIL("size is not end - start");
        }
        RP_OK("range lemmas hold");
    }
    if (mode == "match") {
        auto S = c.arr("S"), E = c.arr("E");
        unsigned long n = (unsigned long)c.num("n");
        int i = (int)c.num("i");
        if (n > S.size() || n > E.size() || n > KMAX) RP_OK("counterexample has no usable list");
        w_reset();
        bool in_union = false;
        for (unsigned long k = 0; k < n; k++) {
            w_push((int)S[k], (int)E[k]);
            printf("range %lu: [%lld,%lld)\n", k, S[k], E[k]);
            if (S[k] <= i && i < E[k]) in_union = true;
        }
        int r = w_match(i);
        printf("match(%d) = %d, in union = %d\n", i, r, (int)in_union);
        if ((r != 0) != in_union) RP_FAIL("match(i) differs from membership in the union of the listed ranges");
        RP_OK("match agrees with the set model");
    }
    if (mode == "parse") {
        for (auto x : c.arr("orig")) { if (x == 0) break; token.push_back((char)x); }
        tokbuf.assign(token.begin(), token.end()); tokbuf.push_back(0);   // exact-size heap copy: ASan sees overruns
        auto S = c.arr("S"), E = c.arr("E");
        unsigned long n0 = (unsigned long)c.num("n0");
        if (n0 > S.size() || n0 > E.size() || n0 >= KMAX) n0 = 0;
        w_reset();
        for (unsigned long k = 0; k < n0; k++) w_push((int)S[k], (int)E[k]);
        unsigned short p1 = (unsigned short)c.num("p1"), p2x = (unsigned short)c.num("p2x");
        x_ret[0] = p1; x_ret[1] = p2x;
        w_parse();
        size_t dash = token.find('-');
        unsigned short port2 = dash == std::string::npos ? p1 : p2x;
        printf("token \"%s\" xatos->%u,%u: count %lu -> %lu, self_destruct=%d\n", token.c_str(), p1, p2x, n0, w_count(), sd_calls);
        if (x_calls < 1 || x_arg[0] != tokbuf.data()) RP_FAIL("first number not read from the token start");
        if (dash == std::string::npos ? x_calls != 1 : (x_calls != 2 || x_arg[1] != tokbuf.data() + dash + 1))
            RP_FAIL("second number not read from behind the first '-'");
        if (port2 >= p1) {
            if (w_count() != n0 + 1 || w_start(n0) != p1 || w_end(n0) != (int)port2 + 1 || sd_calls != 0)
                RP_FAIL("token did not append exactly [port1, port2+1): got [%d,%d)", w_count() > n0 ? w_start(n0) : -1, w_count() > n0 ? w_end(n0) : -1);
        } else if (w_count() != n0 || sd_calls != 1)
            RP_FAIL("reversed range not rejected");
        for (unsigned long k = 0; k < n0; k++)
            if (w_start(k) != (int)S[k] || w_end(k) != (int)E[k]) RP_FAIL("earlier element %lu changed", k);
        RP_OK("parse contract holds on this token");
    }
    return 2;
}
