/* Harness-encoded contracts for the intrange unit (property C43: "integer-range ACLs match a number exactly when it
 * lies in the union of the listed ranges").  The code under test is the real text of Range<int> (src/base/Range.h),
 * ACLIntRange::parse and ACLIntRange::match (src/acl/IntRange.cc), compiled by the C++ front end in wrap.cc; this
 * file talks to it through the extern "C" marshalling functions declared below. */
#include <stddef.h>
#include <limits.h>

#ifndef KMAX
#define KMAX 4      /* list capacity of the stub std::list */
#endif
#ifndef N
#define N 12        /* token buffer: tokens shorter than N bytes ("65535-65535" has 11) */
#endif

int w_elem_hit(int a, int b, int i);
void w_intersection(int a, int b, int c, int d, int *s, int *e);
unsigned long w_size(int a, int b);
void w_reset(void);
void w_push(int s, int e);
unsigned long w_count(void);
int w_start(unsigned long k);
int w_end(unsigned long k);
void w_parse(void);
int w_match(int i);

#ifdef TWIN
#define ENS(c, msg) __CPROVER_assert(!(c), "ensures: TWIN (negated) " msg)
#else
#define ENS(c, msg) __CPROVER_assert((c), "ensures: " msg)
#endif
#ifdef REACH
#define RCH(c, msg) __CPROVER_assert(!(c), "reach: " msg)
#else
#define RCH(c, msg)
#endif

/* hooks called by the stubs in wrap.cc */
static char tok[N];
static int tok_calls;
char *cv_next_token(void) { return tok_calls++ == 0 ? tok : (char *)0; }

static const char *x_arg[2];
static unsigned short x_ret[2];
static int x_calls;
/* assumed contract of xatos(): returns some unsigned short for the token (its own range checks end in self_destruct) */
unsigned short cv_xatos(const char *t)
{
    __CPROVER_assert(x_calls < 2, "xatos is called at most twice per token");
    if (x_calls < 2) x_arg[x_calls] = t;
    return x_ret[x_calls++ & 1];
}
static int sd_calls;
void cv_self_destruct(void) { ++sd_calls; }

/* ---------- element lemma (complete): Range<int>(a,b) meets [i,i+1)  <=>  a <= i < b, for ALL a, b and i < INT_MAX ---------- */
#ifdef T_ELEM
void h_elem(void)
{
    int a, b, i;
    __CPROVER_assume(i < INT_MAX);     /* toFind = [i, i+1): callers pass 16-bit ports */
    int r = w_elem_hit(a, b, i);
    ENS((r != 0) == (a <= i && i < b), "element.intersection([i,i+1)).size() != 0 <=> start <= i < end");
    RCH(r != 0, "hit");
    RCH(r == 0 && a <= b, "miss on a non-empty element");
    RCH(a > b, "malformed (start > end) element never hits");
}
#endif

/* ---------- Range<int>::intersection and size (complete) ---------- */
#ifdef T_RANGE
void h_range(void)
{
    int a, b, c, d, s, e;
    w_intersection(a, b, c, d, &s, &e);
    ENS(s == (a > c ? a : c) && e == (b < d ? b : d), "intersection == [max(starts), min(ends))");
    int p, q;
    /* Range<int>::size() computes end - start in int: its precondition is that the width fits an int (true for every
     * range ACLIntRange builds: 0 <= start < end <= 65536) */
    __CPROVER_assume((long)q - (long)p <= INT_MAX);
    unsigned long z = w_size(p, q);
    ENS(z == (q > p ? (unsigned long)((long)q - (long)p) : 0UL), "size == end - start for start < end, else 0");
    RCH(z == 0 && q < p, "empty (reversed) range");
    RCH(z == (unsigned long)INT_MAX, "widest range");
    RCH(s > e, "disjoint operands give a reversed (empty) intersection");
}
#endif

/* ---------- ACLIntRange::match over a list of at most KMAX arbitrary elements (bounded by KMAX) ---------- */
#ifdef T_MATCH
void h_match(void)
{
    unsigned long n;
    int S[KMAX], E[KMAX], i;
    __CPROVER_assume(n <= KMAX);
    __CPROVER_assume(i < INT_MAX);
    w_reset();
    for (unsigned long k = 0; k < KMAX; k++)
        if (k < n) w_push(S[k], E[k]);
    int r = w_match(i);
    _Bool in_union = 0;
    for (unsigned long k = 0; k < KMAX; k++)
        if (k < n && S[k] <= i && i < E[k]) in_union = 1;
    ENS((r != 0) == in_union, "match(i) <=> i lies in the union of the listed ranges");
    _Bool same = w_count() == n;
    for (unsigned long k = 0; k < KMAX; k++)
        if (k < n && (w_start(k) != S[k] || w_end(k) != E[k])) same = 0;
    ENS(same, "match leaves the list unchanged");
    RCH(r != 0 && n == KMAX && !(S[0] <= i && i < E[0]) && S[KMAX - 1] <= i && i < E[KMAX - 1], "hit in the last element of a full list");
    RCH(r == 0 && n == KMAX, "miss on a full list");
    RCH(n == 0, "empty list");
    RCH(r != 0 && n >= 2 && S[0] <= S[1] && S[1] < E[0], "overlapping ranges");
}
#endif

/* ---------- ACLIntRange::parse, one token (token length < N: bounded) ---------- */
#ifdef T_PARSE
void h_parse(void)
{
    char orig[N];
    unsigned long n0;
    int S[KMAX], E[KMAX];
    orig[N - 1] = 0;
    for (int j = 0; j < N; j++) tok[j] = orig[j];
    __CPROVER_assume(n0 < KMAX);               /* room for one more element in the stub list */
    w_reset();
    for (unsigned long k = 0; k < KMAX; k++)
        if (k < n0) w_push(S[k], E[k]);
    unsigned short p1, p2x;                    /* the values the assumed xatos() will return: arbitrary */
    tok_calls = 0; x_calls = 0; sd_calls = 0;
    x_ret[0] = p1; x_ret[1] = p2x;

    w_parse();

    /* specification: the token is "A" or "A-B" (split at the first '-') */
    int len = 0, dash = -1;
    for (int j = 0; j < N; j++) {
        if (orig[j] == 0) break;
        if (orig[j] == '-' && dash < 0) dash = j;
        len++;
    }
    ENS(x_calls >= 1 && x_arg[0] == tok, "the first number is read from the start of the token");
    ENS(dash < 0 ? x_calls == 1 : (x_calls == 2 && x_arg[1] == tok + dash + 1 && tok[dash] == 0),
        "a second number is read exactly when the token has a '-', from just behind the first '-'");
    unsigned short port1 = p1, port2 = dash < 0 ? p1 : p2x;
    if (port2 >= port1) {
        ENS(w_count() == n0 + 1 && w_start(n0) == port1 && w_end(n0) == (int)port2 + 1 && sd_calls == 0,
            "a token with port1 <= port2 appends exactly the range [port1, port2] (stored half-open as [port1, port2+1))");
    } else {
        ENS(w_count() == n0 && sd_calls == 1, "a reversed range is rejected (self_destruct) and nothing is appended");
    }
    _Bool same = 1;
    for (unsigned long k = 0; k < KMAX; k++)
        if (k < n0 && (w_start(k) != S[k] || w_end(k) != E[k])) same = 0;
    ENS(same, "earlier elements are left unchanged");
    ENS(tok_calls == 2, "parse reads tokens until the source is exhausted");
    RCH(dash > 0 && port2 > port1 && n0 == KMAX - 1, "a proper range A-B appended to an almost full list");
    RCH(dash < 0 && len == N - 1, "a single value of maximal length");
    RCH(port2 < port1, "reversed range rejected");
    RCH(dash == 0, "token starting with '-'");
    RCH(port1 == 65535 && port2 == 65535, "the largest port");
}
#endif
