/* Contracts for the function templates of src/SquidMath.h (property C52), one check per instantiated type tuple.
 *
 * The instantiations (sm_inst.c / sm_inst.h) and the list of tuples (sm_checks.inc) are generated on every run by
 * gen.py from the real header text; THIS file holds the specification, written from the property statement:
 *
 *   Less(a,b)                      == (a < b) over the integers
 *   IncreaseSum(s,t[,u])           has a value  <=>  every argument >= 0  and  s+t[+u] <= max(S);  then value == s+t[+u]
 *   NaturalSum<S>(a[,b[,c]])       likewise, starting from 0
 *   SetToNaturalSumOrMax(var,a..)  stores the exact sum if NaturalSum has one, else max(S); returns the stored value
 *
 * Arguments are full-domain symbolic values of their types (uninitialised locals); the wide arithmetic of the
 * specification is done in __int128, which holds every sum of three 64-bit values exactly.  The functions are loop-free,
 * so each check is a complete proof for its type tuple.  Encoded harness-style (one harness checks a batch of
 * instantiations; --enforce-contract takes one function per run).  The only frame in play is SetToNaturalSumOrMax's
 * write through its reference parameter, checked by the pointer checks in the instrumented user code plus the
 * sentinel assertion below. */
#include "sm_inst.h"

typedef __int128 wide;

/* the specification's own table of type maxima (independent of the generator's) */
#define SPEC_MAX_i8  ((wide)127)
#define SPEC_MAX_i16 ((wide)32767)
#define SPEC_MAX_i32 ((wide)2147483647)
#define SPEC_MAX_i64 ((wide)9223372036854775807LL)
#define SPEC_MAX_u8  ((wide)255)
#define SPEC_MAX_u16 ((wide)65535)
#define SPEC_MAX_u32 ((wide)4294967295LL)
#define SPEC_MAX_u64 ((wide)18446744073709551615ULL)

#ifndef SM_TIER
#define SM_TIER 1
#endif

/* must-fail twin (-DTWIN): the postconditions of the FIRST tuple of each section are negated and must fail; the other
 * tuples are not compiled into the twin or the reach variant (sm_checks.inc; they carry no reach assertions): every tuple is checked by the main variant */
#ifdef TWIN
#define ENS(c, msg) __CPROVER_assert(twin_here ? !(c) : (c), "ensures: TWIN (negated for the first tuple of each section) " msg)
#define TWIN_ON twin_here = 1;
#define TWIN_OFF twin_here = 0;
#else
#define ENS(c, msg) __CPROVER_assert((c), "ensures: " msg)
#define TWIN_ON
#define TWIN_OFF
#endif

#ifdef REACH
#define RCH_A(id, label) __CPROVER_assert(!(ok_##id), "reach: " label " returns a value / true");
#define RCH_B(id, label) __CPROVER_assert(!(neg_##id), "reach: " label " rejects a negative argument / returns false");
#define RCH_C(id, label) __CPROVER_assert(!(!ok_##id && !neg_##id), "reach: " label " rejects a sum that does not fit");
#else
#define RCH_A(id, label)
#define RCH_B(id, label)
#define RCH_C(id, label)
#endif

#define CHK_LESS(id, A, B) \
    T_##A a_##id; T_##B b_##id; \
    _Bool ok_##id = Less__##A##__##B(a_##id, b_##id); \
    _Bool neg_##id = !ok_##id; \
    ENS(ok_##id == ((wide)a_##id < (wide)b_##id), "Less<" #A "," #B ">(a,b) == (a < b) over the integers");

#define SUMSPEC(id, S, sum, anyneg) \
    wide m_##id = (sum); \
    _Bool neg_##id = (anyneg); \
    _Bool ok_##id = !neg_##id && m_##id <= SPEC_MAX_##S;

#define OPTPOST(id, name) \
    ENS(r_##id.has == ok_##id, name " has a value <=> every argument >= 0 and the exact sum fits the result type"); \
    ENS(!r_##id.has || (wide)r_##id.v == m_##id, name " value == exact sum");

#define CHK_IS2(id, S, T) \
    T_##S s_##id; T_##T t_##id; \
    opt_##S r_##id = IS2__##S##__##T(s_##id, t_##id); \
    SUMSPEC(id, S, (wide)s_##id + (wide)t_##id, s_##id < 0 || t_##id < 0) \
    OPTPOST(id, "IncreaseSum<" #S "," #T ">(s,t)")

#define CHK_IS3(id, S, T, U) \
    T_##S s_##id; T_##T t_##id; T_##U u_##id; \
    opt_##S r_##id = IS3__##S##__##T##__##U(s_##id, t_##id, u_##id); \
    SUMSPEC(id, S, (wide)s_##id + (wide)t_##id + (wide)u_##id, s_##id < 0 || t_##id < 0 || u_##id < 0) \
    OPTPOST(id, "IncreaseSum<" #S "," #T "," #U ">(s,t,u)")

#define CHK_NS1(id, S, A) \
    T_##A a_##id; \
    opt_##S r_##id = NS1__##S##__##A(a_##id); \
    SUMSPEC(id, S, (wide)a_##id, a_##id < 0) \
    OPTPOST(id, "NaturalSum<" #S ">(" #A ")")

#define CHK_NS2(id, S, A, B) \
    T_##A a_##id; T_##B b_##id; \
    opt_##S r_##id = NS2__##S##__##A##__##B(a_##id, b_##id); \
    SUMSPEC(id, S, (wide)a_##id + (wide)b_##id, a_##id < 0 || b_##id < 0) \
    OPTPOST(id, "NaturalSum<" #S ">(" #A "," #B ")")

#define CHK_NS3(id, S, A, B, C) \
    T_##A a_##id; T_##B b_##id; T_##C c_##id; \
    opt_##S r_##id = NS3__##S##__##A##__##B##__##C(a_##id, b_##id, c_##id); \
    SUMSPEC(id, S, (wide)a_##id + (wide)b_##id + (wide)c_##id, a_##id < 0 || b_##id < 0 || c_##id < 0) \
    OPTPOST(id, "NaturalSum<" #S ">(" #A "," #B "," #C ")")

/* var sits between two sentinels in one struct: a write that strays off var is caught by the sentinel assertion
 * (and, being out of the member's bounds, by the pointer checks in the instrumented callee) */
#define SETPOST(id, S, name) \
    ENS((wide)v_##id.var == (ok_##id ? m_##id : SPEC_MAX_##S), name " stores the exact sum, or max(S) when there is none"); \
    ENS(ret_##id == v_##id.var, name " returns the stored value"); \
    ENS(v_##id.lo == 0x5a && v_##id.hi == 0x5a, name " writes nothing but var");

#define CHK_SET1(id, S, A) \
    struct { unsigned char lo; T_##S var; unsigned char hi; } v_##id; v_##id.lo = 0x5a; v_##id.hi = 0x5a; \
    T_##A a_##id; \
    T_##S ret_##id = SET1__##S##__##A(&v_##id.var, a_##id); \
    SUMSPEC(id, S, (wide)a_##id, a_##id < 0) \
    SETPOST(id, S, "SetToNaturalSumOrMax<" #S ">(var," #A ")")

#define CHK_SET2(id, S, A, B) \
    struct { unsigned char lo; T_##S var; unsigned char hi; } v_##id; v_##id.lo = 0x5a; v_##id.hi = 0x5a; \
    T_##A a_##id; T_##B b_##id; \
    T_##S ret_##id = SET2__##S##__##A##__##B(&v_##id.var, a_##id, b_##id); \
    SUMSPEC(id, S, (wide)a_##id + (wide)b_##id, a_##id < 0 || b_##id < 0) \
    SETPOST(id, S, "SetToNaturalSumOrMax<" #S ">(var," #A "," #B ")")

/* one harness per function family; the target's -DSEC_<section> defines select the tuples, SM_TIER the subset */
void h_sm(void)
{
    _Bool twin_here = 0;
#include "sm_checks.inc"
}
